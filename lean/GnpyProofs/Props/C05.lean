import GnpyModel
import GnpyProofs.Lemmas.Fiber
import GnpyProofs.Lemmas.Raman
/- Property theorems for C05 — fibre spans apply exactly their loss budget and accumulate CD, PMD, PDL, latency.
   Model: GnpyModel/Fiber.lean (+ Gn.lean for the loss coefficient).  All statements over ℝ. -/
namespace Gnpy.Fiber
open Gnpy.Gn

/-! ### the loss budget (Raman off) -/

/-- `exp(−α L)` with `α = loss / (10 log10 e)` is exactly `loss · L` dB of attenuation -/
theorem exp_alpha_is_db (c len : ℝ) : Real.exp (-(alphaOfLoss c * len)) = db2lin (-(c * len)) := by
  rw [alphaOfLoss_eq, db2lin_eq]; congr 1; ring

/-- **each lumped loss multiplies exactly once** (no-Raman profile): the attenuation at the fibre end is
`exp(−αL) · Π lumped`, wherever the losses sit (also several at one position, also on a grid point) -/
theorem lumped_once (alpha len : ℝ) (lumped : List (ℝ × ℝ)) :
    fibreLossLin alpha len lumped = Real.exp (-(alpha * len)) * prodL (lumped.map (·.2)) := by
  simp only [fibreLossLin, createLumped, transc_exp]
  congr 1
  rw [foldl_insert_prod]
  simp [prodL_append, prodL]

/-- `_create_lumped_losses` returns strictly increasing positions (`numpy.unique`) -/
theorem createLumped_sorted (lumped : List (ℝ × ℝ)) (z : List ℝ) :
    ((createLumped lumped z).map (·.1)).Pairwise (· < ·) := by
  simp only [createLumped]
  generalize (lumped ++ z.map (fun x => (x, ((1:Nat):ℝ)))) = pts
  suffices h : ∀ (acc : List (ℝ × ℝ)), (acc.map (·.1)).Pairwise (· < ·) →
      ((pts.foldl (fun a pt => insertPoint pt a) acc).map (·.1)).Pairwise (· < ·) from h [] (by simp)
  induction pts with
  | nil => intro acc h; exact h
  | cons pt rest ih => intro acc h; exact ih _ (insertPoint_sorted pt acc h).1

/-- the whole of `Fiber.propagate` (Raman off) on one channel is one multiplication by `db2lin(−budget)` -/
theorem propagateP_eq (p conIn attIn c len conOut : ℝ) (lumpedKm : List (ℝ × ℝ)) :
    propagateP p conIn attIn (alphaOfLoss c) len (mkLumped lumpedKm) conOut
      = p * db2lin (-(attIn + conIn + c * len + sumL (lumpedKm.map (·.2)) + conOut)) := by
  have hprod : prodL ((mkLumped lumpedKm).map (·.2)) = db2lin (-(sumL (lumpedKm.map (·.2)))) := by
    rw [← prod_lumpedLin]
    simp [mkLumped, List.map_map, Function.comp_def]
  simp only [propagateP, applyAttDb, Nat.cast_one]
  rw [lumped_once, exp_alpha_is_db, hprod, one_div, one_div, ← db2lin_neg, ← db2lin_neg]
  rw [mul_assoc, mul_assoc, ← db2lin_add, ← db2lin_add, ← db2lin_add]
  congr 2; ring

/-- **loss budget**: with Raman off every channel is attenuated, in dB, by exactly
`padding + input connector + length × loss coefficient + Σ lumped losses + output connector` -/
theorem loss_budget (p conIn attIn c len conOut : ℝ) (lumpedKm : List (ℝ × ℝ)) (hp : 0 < p) :
    lin2db (p / propagateP p conIn attIn (alphaOfLoss c) len (mkLumped lumpedKm) conOut)
      = attIn + conIn + c * len + sumL (lumpedKm.map (·.2)) + conOut := by
  rw [propagateP_eq p conIn attIn c len conOut lumpedKm]
  have h := db2lin_pos (-(attIn + conIn + c * len + sumL (lumpedKm.map (·.2)) + conOut))
  rw [show p / (p * db2lin (-(attIn + conIn + c * len + sumL (lumpedKm.map (·.2)) + conOut)))
      = (db2lin (-(attIn + conIn + c * len + sumL (lumpedKm.map (·.2)) + conOut)))⁻¹ by field_simp]
  rw [← db2lin_neg, neg_neg, lin2db_db2lin]

/-- the same on the span record: the loss coefficient is the one of the channel's own frequency
(scalar or interpolated per frequency) -/
theorem span_loss_budget (s : Span ℝ) (lumpedKm : List (ℝ × ℝ)) (f p c : ℝ) (hl : s.lumped = mkLumped lumpedKm)
    (hc : lossCoef s.fib f = some c) (hp : 0 < p) :
    ∃ pout, spanOut s f p = some pout ∧
      lin2db (p / pout) = s.attIn + s.conIn + c * s.fib.len + sumL (lumpedKm.map (·.2)) + s.conOut := by
  refine ⟨propagateP p s.conIn s.attIn (alphaOfLoss c) s.fib.len s.lumped s.conOut, ?_, ?_⟩
  · simp [spanOut, alphaAt, hc]
  · rw [hl]; exact loss_budget p s.conIn s.attIn c s.fib.len s.conOut lumpedKm hp

/-- BEFORE FIX 74081ba1 (finding F12): of two lumped losses at the same position only the first was applied
(`numpy.unique(..., return_index=True)` kept one entry per position).  Witness on the model of the old code:
losses 1/2 and 1/2 at z = 1 of a fibre of length 2 leave the factor 1/2, the budget demands 1/4. -/
theorem lumped_same_position_failed_before_fix :
    prodL ((([((1:ℝ), (1/2:ℝ)), (1, 1/2), (0, 1), (2, 1)] : List (ℝ × ℝ)).foldl
        (fun a pt => insertPointFirstWins pt a) []).map (·.2)) = 1 / 2 ∧
    prodL ((createLumped [((1:ℝ), (1/2:ℝ)), (1, 1/2)] [0, 2]).map (·.2)) = 1 / 4 := by
  constructor
  · have h : ¬ ((2:ℝ) < 0) := by norm_num
    simp [insertPointFirstWins, h]
    norm_num [prodL]
  · simp [createLumped, insertPoint]
    norm_num [prodL]

/-! ### accumulation of CD, latency (linear) and PMD, PDL (quadrature) over a path -/

theorem accPath_cons (a : Acc ℝ) (c : Contribution ℝ) (cs : List (Contribution ℝ)) :
    accPath a (c :: cs) = accPath (accStep a c) cs := rfl

/-- **chromatic dispersion adds linearly over the elements of a path** -/
theorem cd_additive (a : Acc ℝ) (cs : List (Contribution ℝ)) :
    (accPath a cs).cd = a.cd + (cs.map (·.cd)).sum := by
  induction cs generalizing a with
  | nil => simp [accPath]
  | cons c rest ih => rw [accPath_cons, ih]; simp [accStep]; ring

/-- **latency adds linearly over the elements of a path** -/
theorem latency_additive (a : Acc ℝ) (cs : List (Contribution ℝ)) :
    (accPath a cs).latency = a.latency + (cs.map (·.latency)).sum := by
  induction cs generalizing a with
  | nil => simp [accPath]
  | cons c rest ih => rw [accPath_cons, ih]; simp [accStep]; ring

theorem accPath_pmd_fold (a : Acc ℝ) (cs : List (Contribution ℝ)) :
    (accPath a cs).pmd = (cs.map (·.pmd)).foldl quadStep a.pmd := by
  induction cs generalizing a with
  | nil => simp [accPath]
  | cons c rest ih => rw [accPath_cons, ih]; simp [accStep]

theorem accPath_pdl_fold (a : Acc ℝ) (cs : List (Contribution ℝ)) :
    (accPath a cs).pdl = (cs.map (·.pdl)).foldl quadStep a.pdl := by
  induction cs generalizing a with
  | nil => simp [accPath]
  | cons c rest ih => rw [accPath_cons, ih]; simp [accStep]

/-- the repeated update `x ← sqrt(x² + b²)` is the root of the sum of squares -/
theorem quadrature_fold (x0 : ℝ) (bs : List ℝ) (h : 0 ≤ x0) :
    bs.foldl quadStep x0 = Real.sqrt (x0 ^ 2 + (bs.map (fun b => b ^ 2)).sum) := foldl_quad bs x0 h

/-- … hence independent of the order of the contributions -/
theorem quadrature_perm (x0 : ℝ) (bs bs' : List ℝ) (h : 0 ≤ x0) (hp : bs.Perm bs') :
    bs.foldl quadStep x0 = bs'.foldl quadStep x0 := by
  rw [quadrature_fold x0 bs h, quadrature_fold x0 bs' h, (hp.map _).sum_eq]

/-- **PMD adds in quadrature over fibres, ROADMs and amplifiers together** -/
theorem pmd_quadrature (a : Acc ℝ) (cs : List (Contribution ℝ)) (h : 0 ≤ a.pmd) :
    (accPath a cs).pmd = Real.sqrt (a.pmd ^ 2 + (cs.map (fun c => c.pmd ^ 2)).sum) := by
  rw [accPath_pmd_fold, quadrature_fold _ _ h, List.map_map]; rfl

/-- **PDL adds in quadrature over ROADMs and amplifiers** (a fibre contributes 0) -/
theorem pdl_quadrature (a : Acc ℝ) (cs : List (Contribution ℝ)) (h : 0 ≤ a.pdl) :
    (accPath a cs).pdl = Real.sqrt (a.pdl ^ 2 + (cs.map (fun c => c.pdl ^ 2)).sum) := by
  rw [accPath_pdl_fold, quadrature_fold _ _ h, List.map_map]; rfl

/-- **the accumulated CD, PMD, PDL and latency do not depend on the order of the spans, ROADMs and amplifiers** -/
theorem path_order_irrelevant (a : Acc ℝ) (cs cs' : List (Contribution ℝ)) (hp : cs.Perm cs')
    (h1 : 0 ≤ a.pmd) (h2 : 0 ≤ a.pdl) : accPath a cs = accPath a cs' := by
  have e1 : (accPath a cs).cd = (accPath a cs').cd := by
    rw [cd_additive, cd_additive, (hp.map _).sum_eq]
  have e2 : (accPath a cs).latency = (accPath a cs').latency := by
    rw [latency_additive, latency_additive, (hp.map _).sum_eq]
  have e3 : (accPath a cs).pmd = (accPath a cs').pmd := by
    rw [pmd_quadrature _ _ h1, pmd_quadrature _ _ h1, (hp.map _).sum_eq]
  have e4 : (accPath a cs).pdl = (accPath a cs').pdl := by
    rw [pdl_quadrature _ _ h2, pdl_quadrature _ _ h2, (hp.map _).sum_eq]
  cases hA : accPath a cs; cases hB : accPath a cs'
  simp only [hA, hB] at e1 e2 e3 e4
  simp [e1, e2, e3, e4]

/-! ### what one fibre contributes -/

/-- a fibre's PMD contribution squared is `pmd_coef² · length` -/
theorem fibre_pmd_sq (k len : ℝ) (h : 0 ≤ len) : fibrePmd k len ^ 2 = k ^ 2 * len := by
  simp only [fibrePmd, transc_sqrt]
  rw [mul_pow, Real.sq_sqrt h]

/-- a fibre leaves the PDL as it is -/
theorem fibre_pdl_unchanged (x : ℝ) (h : 0 ≤ x) : quadStep x ((0:Nat):ℝ) = x := by
  simp only [quadStep, transc_sqrt, Nat.cast_zero, mul_zero, add_zero]
  exact Real.sqrt_mul_self h

/-- latency of a span: `length · n₁ / c` -/
theorem latency_formula (len : ℝ) : latency len = len * n1 / cLight := by
  have hc : (cLight : ℝ) ≠ 0 := by simp only [cLight, Nat.cast_ofNat]; norm_num
  have hn : (n1 : ℝ) ≠ 0 := by simp only [n1, Nat.cast_ofNat]; norm_num
  simp only [latency]; field_simp

/-- at the reference frequency the span adds exactly `D · length` of chromatic dispersion -/
theorem cd_at_ref (d b3 fr len : ℝ) (hf : 0 < fr) :
    chromaticDispersion (beta2OfDisp fr d) b3 fr fr len = d * len := by
  have hpi := Real.pi_pos
  simp only [chromaticDispersion, beta2OfDisp, cLight, haspi_real, Nat.cast_ofNat]
  field_simp
  ring

/-! ### a long fibre cut into equal spans (auto-design `split_fiber`) -/

/-- **cutting a fibre into `n` equal spans changes none of the accumulated figures**: the `n` sub-spans of length
`L/n` add, together, the chromatic dispersion, PMD (in quadrature), PDL and latency of the one fibre of length `L` -/
theorem split_span_invariant (a : Acc ℝ) (b2 b3 f fr len k : ℝ) (n : Nat) (hn : 0 < n) (hlen : 0 ≤ len)
    (h1 : 0 ≤ a.pmd) (h2 : 0 ≤ a.pdl) :
    accPath a (List.replicate n (fibreContribution b2 b3 f fr (len / n) k))
      = accPath a [fibreContribution b2 b3 f fr len k] := by
  have hn' : (n:ℝ) ≠ 0 := Nat.cast_ne_zero.2 (Nat.pos_iff_ne_zero.1 hn)
  have hc : (cLight : ℝ) ≠ 0 := by simp only [cLight, Nat.cast_ofNat]; norm_num
  have hn1 : (n1 : ℝ) ≠ 0 := by simp only [n1, Nat.cast_ofNat]; norm_num
  have hdiv : 0 ≤ len / n := div_nonneg hlen (Nat.cast_nonneg n)
  have e1 : (accPath a (List.replicate n (fibreContribution b2 b3 f fr (len / n) k))).cd
      = (accPath a [fibreContribution b2 b3 f fr len k]).cd := by
    rw [cd_additive, cd_additive]
    simp only [List.map_replicate, List.sum_replicate, List.map_cons, List.map_nil, List.sum_cons, List.sum_nil,
      fibreContribution, chromaticDispersion, nsmul_eq_mul]
    field_simp
    ring
  have e2 : (accPath a (List.replicate n (fibreContribution b2 b3 f fr (len / n) k))).latency
      = (accPath a [fibreContribution b2 b3 f fr len k]).latency := by
    rw [latency_additive, latency_additive]
    simp only [List.map_replicate, List.sum_replicate, List.map_cons, List.map_nil, List.sum_cons, List.sum_nil,
      fibreContribution, latency, nsmul_eq_mul]
    field_simp
    ring
  have e3 : (accPath a (List.replicate n (fibreContribution b2 b3 f fr (len / n) k))).pmd
      = (accPath a [fibreContribution b2 b3 f fr len k]).pmd := by
    rw [pmd_quadrature _ _ h1, pmd_quadrature _ _ h1]
    congr 2
    simp only [List.map_replicate, List.sum_replicate, List.map_cons, List.map_nil, List.sum_cons, List.sum_nil,
      fibreContribution, nsmul_eq_mul, add_zero]
    rw [fibre_pmd_sq k _ hdiv, fibre_pmd_sq k _ hlen]
    field_simp
  have e4 : (accPath a (List.replicate n (fibreContribution b2 b3 f fr (len / n) k))).pdl
      = (accPath a [fibreContribution b2 b3 f fr len k]).pdl := by
    rw [pdl_quadrature _ _ h2, pdl_quadrature _ _ h2]
    congr 2
    simp [List.map_replicate, List.sum_replicate, fibreContribution]
  cases hA : accPath a (List.replicate n (fibreContribution b2 b3 f fr (len / n) k))
  cases hB : accPath a [fibreContribution b2 b3 f fr len k]
  simp only [hA, hB] at e1 e2 e3 e4
  simp [e1, e2, e3, e4]

/-! ### non-vacuity -/
example : lumpedPositionsOk (80000:ℝ) [((20:ℝ), (1:ℝ)), (20, 2)] = true := by
  simp [lumpedPositionsOk]; norm_num
example : (0:ℝ) ≤ ({ cd := 0, pmd := 0, pdl := 0, latency := 0 } : Acc ℝ).pmd := le_refl _
example : [lumpedContribution (1:ℝ) 2, fibreContribution 1 0 1 1 1 1].Perm
    [fibreContribution 1 0 1 1 1 1, lumpedContribution (1:ℝ) 2] := List.Perm.swap _ _ _

end Gnpy.Fiber

/-! ## Raman on: the unidirectional solver (model: namespace Gnpy.Raman in GnpyModel/Fiber.lean)

What is a theorem here: with zero Raman efficiency the explicit-Euler method is the plain attenuation law of the grid
(`euler_zero_cr`), which lies within `2 α² Σ Δz²` Neper of the exact budget (`eulerFactor_bounds`: the tolerance of
the monitor's low-power and method-agreement checks); the perturbative exponent of order 1–4 is exactly `−α z` on every
interval between lumped losses (`perturbative_zero_cr`); the order-1 term is linear in the launch powers
(`perturbative_low_power`: at power scale `t → 0` the no-Raman loss remains) and non-negative for waves with
non-negative Raman efficiency onto the channel, e.g. pumps above the signal (`counterprop_gain_only_partial`).
NOT theorems (monitor only, see PARTIAL in harness/props/c05.py): `raman_methods_agree_partial` — "perturbative and
numerical agree" is a numerical-analysis statement with a resolution- and power-dependent error; the iterative
co/counter-propagating algorithm and the full-order gain-only statement. -/
namespace Gnpy.Raman

/-- **explicit Euler, zero Raman efficiency**: the last column of the power profile is, on every frequency,
`p · Π_k (1 − α Δz_k) · lumped_k` – each lumped loss of the grid exactly once -/
theorem euler_zero_cr (alpha : List ℝ) (cr : List (List ℝ)) (hz : MZero cr) :
    ∀ (grid : List (ℝ × ℝ)) (p : List ℝ), cr.length = p.length → alpha.length = p.length →
      ∃ init, euler alpha cr p grid = init ++ [scaleBy (fun a => eulerFactor a grid) p alpha] := by
  intro grid
  induction grid with
  | nil =>
    intro p _ h2
    exact ⟨[], by simp [euler, eulerFactor, scaleBy_one p alpha h2.symm]⟩
  | cons g0 rest ih =>
    intro p h1 h2
    cases rest with
    | nil => exact ⟨[], by simp [euler, eulerFactor, scaleBy_one p alpha h2.symm]⟩
    | cons g1 rest' =>
      simp only [euler, eulerStep]
      rw [eulerStepGo_zero p (g1.1 - g0.1) g0.2 p alpha cr hz h1]
      have hl := plainStep_length (g1.1 - g0.1) g0.2 p alpha h2.symm
      obtain ⟨init, hinit⟩ := ih (plainStep (g1.1 - g0.1) g0.2 p alpha) (by rw [hl]; exact h1) (by rw [hl]; exact h2)
      refine ⟨p :: init, ?_⟩
      rw [hinit, scaleBy_plainStep]
      simp only [List.cons_append, eulerFactor]

/-- what the grid spans, the sum of its squared steps, the product of its lumped losses -/
def gridSpan : List (ℝ × ℝ) → ℝ
  | g0 :: g1 :: rest => (g1.1 - g0.1) + gridSpan (g1 :: rest)
  | _ => 0
def gridSq : List (ℝ × ℝ) → ℝ
  | g0 :: g1 :: rest => (g1.1 - g0.1) ^ 2 + gridSq (g1 :: rest)
  | _ => 0
def gridLoss : List (ℝ × ℝ) → ℝ
  | g0 :: g1 :: rest => g0.2 * gridLoss (g1 :: rest)
  | _ => 1
/-- every step is resolved (`0 ≤ α Δz ≤ 1/2`) and every lumped factor is positive -/
def GridOk (a : ℝ) : List (ℝ × ℝ) → Prop
  | g0 :: g1 :: rest => 0 ≤ a * (g1.1 - g0.1) ∧ a * (g1.1 - g0.1) ≤ 1 / 2 ∧ 0 < g0.2 ∧ GridOk a (g1 :: rest)
  | _ => True

theorem gridLoss_pos (a : ℝ) : ∀ (grid : List (ℝ × ℝ)), GridOk a grid → 0 < gridLoss grid := by
  intro grid
  induction grid with
  | nil => intro _; simp [gridLoss]
  | cons g0 rest ih =>
    intro h
    cases rest with
    | nil => simp [gridLoss]
    | cons g1 rest' =>
      simp only [GridOk] at h
      simp only [gridLoss]
      exact mul_pos h.2.2.1 (ih h.2.2.2)

/-- **explicit Euler vs the exact attenuation law**: on a resolved grid the Euler factor lies between
`exp(−αL − 2α² Σ Δz²) · Π lumped` and `exp(−αL) · Π lumped`: in dB the numerical method over-estimates the loss budget by
at most `2 · (10/ln 10) · α² · Σ Δz²` (this is the tolerance the monitor uses for the low-power limit) -/
theorem eulerFactor_bounds (a : ℝ) : ∀ (grid : List (ℝ × ℝ)), GridOk a grid →
    Real.exp (-(a * gridSpan grid) - 2 * a ^ 2 * gridSq grid) * gridLoss grid ≤ eulerFactor a grid ∧
    eulerFactor a grid ≤ Real.exp (-(a * gridSpan grid)) * gridLoss grid := by
  intro grid
  induction grid with
  | nil => intro _; simp [gridSpan, gridSq, gridLoss, eulerFactor]
  | cons g0 rest ih =>
    intro h
    cases rest with
    | nil => simp [gridSpan, gridSq, gridLoss, eulerFactor]
    | cons g1 rest' =>
      simp only [GridOk] at h
      obtain ⟨h0, h1, hl, hrest⟩ := h
      obtain ⟨lo, hi⟩ := ih hrest
      have hG := gridLoss_pos a (g1 :: rest') hrest
      have hb := one_sub_bounds (a * (g1.1 - g0.1)) h0 h1
      simp only [gridSpan, gridSq, gridLoss, eulerFactor]
      set x := a * (g1.1 - g0.1) with hx
      set F := eulerFactor a (g1 :: rest') with hF
      set G := gridLoss (g1 :: rest') with hGd
      set S := gridSpan (g1 :: rest') with hS
      set Q := gridSq (g1 :: rest') with hQ
      have hFpos : 0 ≤ F := le_trans (by positivity) lo
      have h1x : 0 ≤ 1 - x := by linarith
      constructor
      · have e : Real.exp (-(a * ((g1.1 - g0.1) + S)) - 2 * a ^ 2 * ((g1.1 - g0.1) ^ 2 + Q)) * (g0.2 * G)
            = (Real.exp (-x - 2 * x ^ 2) * g0.2) * (Real.exp (-(a * S) - 2 * a ^ 2 * Q) * G) := by
          rw [show -(a * ((g1.1 - g0.1) + S)) - 2 * a ^ 2 * ((g1.1 - g0.1) ^ 2 + Q)
              = (-x - 2 * x ^ 2) + (-(a * S) - 2 * a ^ 2 * Q) by rw [hx]; ring, Real.exp_add]
          ring
        rw [e]
        apply mul_le_mul _ lo (by positivity) (mul_nonneg h1x (le_of_lt hl))
        exact mul_le_mul_of_nonneg_right hb.1 (le_of_lt hl)
      · have e : Real.exp (-(a * ((g1.1 - g0.1) + S))) * (g0.2 * G)
            = (Real.exp (-x) * g0.2) * (Real.exp (-(a * S)) * G) := by
          rw [show -(a * ((g1.1 - g0.1) + S)) = -x + -(a * S) by rw [hx]; ring, Real.exp_add]
          ring
        rw [e]
        apply mul_le_mul _ hi hFpos (by positivity)
        exact mul_le_mul_of_nonneg_right hb.2 (le_of_lt hl)

/-- **perturbative method, zero Raman efficiency**: for every implemented order the exponent on an interval is
exactly `−α z`: the plain attenuation law -/
theorem perturbative_zero_cr (order : Nat) (ho : order ≤ 4) (alpha : List ℝ) (cr : List (List ℝ)) (p0 zs : List ℝ)
    (hz : MZero cr) (hl : cr.length = alpha.length) (hzs : zs ≠ []) :
    expoInterval order alpha cr p0 zs = expo0 alpha zs := by
  have hcrp := mzero_crpM cr p0 hz
  have hlen0 : (expo0 alpha zs).length = alpha.length := by simp [expo0, alphazM]
  have hlenx : (expzM alpha zs).length = alpha.length := by simp [expzM, alphazM]
  have hr0 := rect_expo0 alpha zs
  -- first order
  have z1 : ZeroRect zs.length (gamma1 alpha cr p0 zs) := zeroRect_crTimes _ _ _ hcrp (rect_effLenM alpha zs)
  have l1 : (gamma1 alpha cr p0 zs).length = alpha.length := by simp [gamma1, crTimes, crpM, hl]
  have e1 : madd (expo0 alpha zs) (gamma1 alpha cr p0 zs) = expo0 alpha zs :=
    madd_zeroRect _ _ _ (by rw [hlen0, l1]) hr0 z1
  -- second order
  have r2 : Rect zs.length (((expzM alpha zs).zip (gamma1 alpha cr p0 zs)).map
      (fun x => trapCum (vmul x.1 x.2) zs)) := by
    intro r hr
    simp only [List.mem_map] at hr
    obtain ⟨⟨u, v⟩, huv, rfl⟩ := hr
    have hm := List.of_mem_zip huv
    have hu := rect_expzM alpha zs u hm.1
    have hv := (z1 v hm.2).1
    exact trapCum_length _ _ (by rw [vmul_length u v (by rw [hu, hv]), hu]) hzs
  set g1 := gamma1 alpha cr p0 zs with hg1
  set g2 := crTimes zs.length (crpM cr p0) (((expzM alpha zs).zip g1).map (fun x => trapCum (vmul x.1 x.2) zs))
    with hg2
  have z2 : ZeroRect zs.length g2 := zeroRect_crTimes _ _ _ hcrp r2
  have l2 : g2.length = alpha.length := by simp [hg2, crTimes, crpM, hl]
  have e2 : madd (expo0 alpha zs) g2 = expo0 alpha zs := madd_zeroRect _ _ _ (by rw [hlen0, l2]) hr0 z2
  -- third order
  have r3 : Rect zs.length (((expzM alpha zs).zip (g1.zip g2)).map (fun x =>
      trapCum (vmul x.1 (vadd x.2.2 (vscale (((1:Nat):ℝ) / ((2:Nat):ℝ)) (vmul x.2.1 x.2.1)))) zs)) := by
    intro r hr
    simp only [List.mem_map] at hr
    obtain ⟨⟨u, v, w⟩, huv, rfl⟩ := hr
    have hm := List.of_mem_zip huv
    have hm2 := List.of_mem_zip hm.2
    have hu := rect_expzM alpha zs u hm.1
    have hv := (z1 v hm2.1).1
    have hw := (z2 w hm2.2).1
    apply trapCum_length _ _ _ hzs
    have a1 : (vmul v v).length = zs.length := by rw [vmul_length v v rfl, hv]
    have a2 : (vadd w (vscale (((1:Nat):ℝ) / ((2:Nat):ℝ)) (vmul v v))).length = zs.length := by
      rw [vadd_length _ _ (by rw [vscale_length, a1, hw]), hw]
    rw [vmul_length _ _ (by rw [hu, a2]), hu]
  set g3 := crTimes zs.length (crpM cr p0) (((expzM alpha zs).zip (g1.zip g2)).map (fun x =>
      trapCum (vmul x.1 (vadd x.2.2 (vscale (((1:Nat):ℝ) / ((2:Nat):ℝ)) (vmul x.2.1 x.2.1)))) zs)) with hg3
  have z3 : ZeroRect zs.length g3 := zeroRect_crTimes _ _ _ hcrp r3
  have l3 : g3.length = alpha.length := by simp [hg3, crTimes, crpM, hl]
  have e3 : madd (expo0 alpha zs) g3 = expo0 alpha zs := madd_zeroRect _ _ _ (by rw [hlen0, l3]) hr0 z3
  -- fourth order
  have r4 : Rect zs.length (((expzM alpha zs).zip (g1.zip (g2.zip g3))).map (fun x =>
      trapCum (vmul x.1 (vadd (vadd x.2.2.2 (vmul x.2.1 x.2.2.1))
        (vscale (((1:Nat):ℝ) / ((6:Nat):ℝ)) (vmul x.2.1 (vmul x.2.1 x.2.1))))) zs)) := by
    intro r hr
    simp only [List.mem_map] at hr
    obtain ⟨⟨u, v, w, y⟩, huv, rfl⟩ := hr
    have hm := List.of_mem_zip huv
    have hm2 := List.of_mem_zip hm.2
    have hm3 := List.of_mem_zip hm2.2
    have hu := rect_expzM alpha zs u hm.1
    have hv := (z1 v hm2.1).1
    have hw := (z2 w hm3.1).1
    have hy := (z3 y hm3.2).1
    apply trapCum_length _ _ _ hzs
    have a1 : (vmul v w).length = zs.length := by rw [vmul_length v w (by rw [hv, hw]), hv]
    have a2 : (vadd y (vmul v w)).length = zs.length := by rw [vadd_length _ _ (by rw [a1, hy]), hy]
    have a3 : (vmul v v).length = zs.length := by rw [vmul_length v v rfl, hv]
    have a4 : (vmul v (vmul v v)).length = zs.length := by rw [vmul_length _ _ (by rw [a3, hv]), hv]
    have a5 : (vadd (vadd y (vmul v w)) (vscale (((1:Nat):ℝ) / ((6:Nat):ℝ)) (vmul v (vmul v v)))).length
        = zs.length := by rw [vadd_length _ _ (by rw [vscale_length, a4, a2]), a2]
    rw [vmul_length _ _ (by rw [hu, a5]), hu]
  set g4 := crTimes zs.length (crpM cr p0) (((expzM alpha zs).zip (g1.zip (g2.zip g3))).map (fun x =>
      trapCum (vmul x.1 (vadd (vadd x.2.2.2 (vmul x.2.1 x.2.2.1))
        (vscale (((1:Nat):ℝ) / ((6:Nat):ℝ)) (vmul x.2.1 (vmul x.2.1 x.2.1))))) zs)) with hg4
  have z4 : ZeroRect zs.length g4 := zeroRect_crTimes _ _ _ hcrp r4
  have l4 : g4.length = alpha.length := by simp [hg4, crTimes, crpM, hl]
  have e4 : madd (expo0 alpha zs) g4 = expo0 alpha zs := madd_zeroRect _ _ _ (by rw [hlen0, l4]) hr0 z4
  -- assemble
  have hcases : order = 0 ∨ order = 1 ∨ order = 2 ∨ order = 3 ∨ order = 4 := by omega
  rcases hcases with rfl | rfl | rfl | rfl | rfl
  · simp [expoInterval]
  · simp only [expoInterval, Nat.reduceEqDiff, ↓reduceIte]
    rw [← hg1, e1]
  · simp only [expoInterval, Nat.reduceEqDiff, ↓reduceIte]
    rw [← hg1, e1, ← hg2, e2]
  · simp only [expoInterval, Nat.reduceEqDiff, ↓reduceIte]
    rw [← hg1, e1, ← hg2, e2, ← hg3, e3]
  · simp only [expoInterval, Nat.reduceEqDiff, ↓reduceIte]
    rw [← hg1, e1, ← hg2, e2, ← hg3, e3, ← hg4, e4]

/-- the perturbative loop at zero Raman efficiency multiplies every frequency by `pertFactor` -/
theorem perturbGo_zero_cr (order : Nat) (ho : order ≤ 4) (alpha : List ℝ) (cr : List (List ℝ)) (hz : MZero cr)
    (hl : cr.length = alpha.length) :
    ∀ (fuel : Nat) (pin : List ℝ) (ll : ℝ) (grid : List (ℝ × ℝ)) (acc : List (List ℝ)), pin.length = alpha.length →
      (perturbGo order alpha cr fuel pin ll grid acc).2 = scaleBy (fun a => pertFactor a fuel ll grid) pin alpha := by
  intro fuel
  induction fuel with
  | zero => intro pin ll grid acc h; simp [perturbGo, pertFactor, scaleBy_one pin alpha h]
  | succ fuel ih =>
    intro pin ll grid acc h
    cases grid with
    | nil => simp [perturbGo, pertFactor, scaleBy_one pin alpha h]
    | cons g0 rest =>
      cases rest with
      | nil => simp [perturbGo, pertFactor, scaleBy_one pin alpha h]
      | cons g1 rest' =>
        simp only [perturbGo, pertFactor]
        have hzs : (takeInterval (g0 :: g1 :: rest')).1.map (fun g => g.1 - g0.1) ≠ [] := by
          simp [takeInterval]
        have hstep : ((powerInterval order alpha cr (pin.map (fun x => x * ll))
              ((takeInterval (g0 :: g1 :: rest')).1.map (fun g => g.1 - g0.1))).zip pin).map
              (fun x => lastD x.2 x.1)
            = scaleBy (fun a => ll * Real.exp (-(a * lastD 0
                ((takeInterval (g0 :: g1 :: rest')).1.map (fun g => g.1 - g0.1))))) pin alpha := by
          simp only [powerInterval]
          rw [perturbative_zero_cr order ho alpha cr _ _ hz hl hzs]
          exact pinNext_zero ll _ hzs alpha pin h
        rw [hstep, ih _ _ _ _ (by rw [scaleBy_length _ pin alpha h]), scaleBy_scaleBy]
        simp only [Nat.cast_one]
        apply scaleBy_congr
        intro a
        generalize (takeInterval (g0 :: g1 :: rest')).2 = iv2
        cases iv2 <;> rfl

/-- **perturbative method, zero Raman efficiency, whole fibre with lumped losses**: at the fibre end every frequency
carries `p · exp(−α (z_last − z_first)) · Π lumped factors strictly inside the fibre` – the plain attenuation law with
each lumped loss exactly once, for every implemented order -/
theorem perturbative_zero_cr_grid (order : Nat) (ho : order ≤ 4) (alpha : List ℝ) (cr : List (List ℝ)) (hz : MZero cr)
    (hl : cr.length = alpha.length) (pin : List ℝ) (hp : pin.length = alpha.length) (g0 : ℝ × ℝ)
    (rest : List (ℝ × ℝ)) (hne : rest ≠ []) :
    perturbativeEnd order alpha cr pin (g0 :: rest)
      = scaleBy (fun a => Real.exp (-(a * (lastD g0.1 (rest.map (·.1)) - g0.1)))
          * Gnpy.Fiber.prodL (rest.dropLast.map (·.2))) pin alpha := by
  simp only [perturbativeEnd, Nat.cast_one]
  rw [perturbGo_zero_cr order ho alpha cr hz hl _ pin 1 (g0 :: rest) _ hp]
  apply scaleBy_congr
  intro a
  rw [pertFactor_closed a _ 1 g0 rest (by simp) hne]
  ring

/-- **low-power limit of the perturbative method (order 1)**: with all launch powers scaled by `t` the exponent is
`−α z + t · γ₁`; at `t = 0` it is the plain attenuation exponent -/
theorem perturbative_low_power (alpha : List ℝ) (cr : List (List ℝ)) (p0 zs : List ℝ) (t : ℝ) :
    expoInterval 1 alpha cr (vscale t p0) zs
      = madd (expo0 alpha zs) ((gamma1 alpha cr p0 zs).map (vscale t)) ∧
    (cr.length = alpha.length →
      expoInterval 1 alpha cr (vscale 0 p0) zs = expo0 alpha zs) := by
  constructor
  · simp [expoInterval, gamma1_scale]
  · intro hl
    simp only [expoInterval]
    simp only [Nat.succ_ne_zero, if_false, if_true, gamma1_scale]
    apply madd_zeroRect zs.length
    · simp [expo0, alphazM, gamma1, crTimes, crpM, hl]
    · exact rect_expo0 alpha zs
    · intro r hr
      simp only [List.mem_map] at hr
      obtain ⟨q, hq, rfl⟩ := hr
      have hqlen : q.length = zs.length := rect_crTimes _ _ _ (rect_effLenM alpha zs) q hq
      exact ⟨by rw [vscale_length, hqlen], vzero_vscale_of_zero 0 q rfl⟩

/-- **size of the first-order term**: along the whole interval the first-order Raman exponent of a channel is bounded by
`Σ_b |cr_ab| · p_b / α_b` – proportional to the launch powers: this is the quantitative low-power limit of the order-1
perturbative solution (and the `X` of the monitor's tolerance) -/
theorem gamma1_bound (alpha : List ℝ) (row p0 zs : List ℝ) (ha : ∀ a ∈ alpha, 0 < a) (hz : ∀ z ∈ zs, 0 ≤ z) :
    ∀ x ∈ rowTimes zs.length (vmul row p0) (effLenM alpha zs),
      |x| ≤ rowBound (vmul row p0) (alpha.map (fun a => 1 / a)) :=
  rowTimes_abs_le _ _ _ _ (effLenM_bounds alpha zs ha hz)

/-- **sign of the first-order term** (partial form of "counter-propagating pumps only add gain"): when every wave has
a non-negative Raman efficiency onto the channel of row `row` (e.g. pumps above the signal frequency: `cr ≥ 0`),
positive loss coefficients, non-negative launch powers and positions, the first-order Raman term of that channel is
non-negative along the whole interval – relative to plain attenuation the channel only gains.
FULL STATEMENT (not a theorem here): with the counter-propagating pumps switched on, the power of every channel at the
fibre end, as computed by `calculate_stimulated_raman_scattering` (iterative algorithm, any method/order/resolution), is
at least the power computed with the pumps off.  Checked by the monitor only. -/
theorem counterprop_gain_only_partial (alpha : List ℝ) (row p0 zs : List ℝ) (ha : ∀ a ∈ alpha, 0 < a)
    (hz : ∀ z ∈ zs, 0 ≤ z) (hrow : ∀ c ∈ row, 0 ≤ c) (hp : ∀ x ∈ p0, 0 ≤ x) :
    ∀ x ∈ rowTimes zs.length (vmul row p0) (effLenM alpha zs), 0 ≤ x :=
  rowTimes_nonneg _ _ _ (vmul_nonneg row p0 hrow hp) (effLenM_nonneg alpha zs ha hz)

/-- the same for the whole first-order matrix when all efficiencies are non-negative -/
theorem gamma1_nonneg (alpha : List ℝ) (cr : List (List ℝ)) (p0 zs : List ℝ) (ha : ∀ a ∈ alpha, 0 < a)
    (hz : ∀ z ∈ zs, 0 ≤ z) (hcr : ∀ row ∈ cr, ∀ c ∈ row, 0 ≤ c) (hp : ∀ x ∈ p0, 0 ≤ x) :
    ∀ r ∈ gamma1 alpha cr p0 zs, ∀ x ∈ r, 0 ≤ x := by
  intro r hr
  simp only [gamma1, crTimes, crpM, List.map_map, List.mem_map, Function.comp] at hr
  obtain ⟨row, hrow, rfl⟩ := hr
  exact counterprop_gain_only_partial alpha row p0 zs ha hz (hcr row hrow) hp

/-! ### spontaneous Raman scattering (ASE of the pumps) -/

/-- the trapezoid rule of a non-negative profile on an ascending grid is non-negative -/
theorem trapz_nonneg (ys zs : List ℝ) (hy : ∀ y ∈ ys, 0 ≤ y) (hz : zs.Pairwise (· ≤ ·)) : 0 ≤ trapz ys zs :=
  trapz_nonneg' ys zs hy hz

/-- every pump's contribution to the ASE of a channel is non-negative: a pump above the channel (`df > 0`) has a
non-negative efficiency onto it and `1 + η > 0`; the mask `[df > 0]` removes the others -/
theorem sprs_term_nonneg (temp baud f : ℝ) (loss z : List ℝ) (p : PumpAt ℝ) (ht : 0 < temp) (hb : 0 ≤ baud)
    (hf : 0 ≤ f) (hcr : 0 < p.f - f → 0 ≤ p.cr) (hprof : ∀ x ∈ p.profile, 0 ≤ x) (hloss : ∀ x ∈ loss, 0 < x)
    (hz : z.Pairwise (· ≤ ·)) : 0 ≤ sprsTerm temp baud f loss z p := by
  simp only [sprsTerm, Nat.cast_ofNat, Nat.cast_one, Nat.cast_zero]
  have hh := planckH_pos
  have hI := trapz_nonneg' _ _ (vdiv_nonneg p.profile loss hprof hloss) hz
  by_cases hd : 0 < p.f - f
  · have he := one_add_eta_pos (p.f - f) temp hd ht
    have hc := hcr hd
    simp only [hd, if_true]
    have h1 : 0 ≤ 2 * planckH * baud * f * (1 + etaBE (p.f - f) temp) := by
      have : 0 ≤ 1 + etaBE (p.f - f) temp := by linarith
      positivity
    exact mul_nonneg (mul_nonneg (mul_nonneg h1 hc) (by norm_num)) hI
  · simp [hd]

/-- **the spontaneous Raman ASE of every channel is non-negative** -/
theorem sprs_ase_nonneg (temp baud f : ℝ) (loss z : List ℝ) (pumps : List (PumpAt ℝ)) (ht : 0 < temp) (hb : 0 ≤ baud)
    (hf : 0 ≤ f) (hcr : ∀ p ∈ pumps, 0 < p.f - f → 0 ≤ p.cr) (hprof : ∀ p ∈ pumps, ∀ x ∈ p.profile, 0 ≤ x)
    (hloss : ∀ x ∈ loss, 0 < x) (hz : z.Pairwise (· ≤ ·)) : 0 ≤ sprsChannel temp baud f loss z pumps := by
  simp only [sprsChannel, Gnpy.Gn.sumL_eq_sum]
  apply List.sum_nonneg
  intro x hx
  simp only [List.mem_map] at hx
  obtain ⟨p, hp, rfl⟩ := hx
  exact sprs_term_nonneg temp baud f loss z p ht hb hf (hcr p hp) (hprof p hp) hloss hz

/-- **the order of the pump list is irrelevant** – provided every pump keeps its own frequency, power profile and
efficiency column (one `PumpAt` record): exactly what finding F23 violated -/
theorem sprs_pump_order_irrelevant (temp baud f : ℝ) (loss z : List ℝ) (pumps pumps' : List (PumpAt ℝ))
    (hp : pumps.Perm pumps') : sprsChannel temp baud f loss z pumps = sprsChannel temp baud f loss z pumps' := by
  simp only [sprsChannel, Gnpy.Gn.sumL_eq_sum]
  exact (hp.map _).sum_eq

/-- BEFORE FIX 9f87f0b2 (finding F23): the i-th pump of `fiber.raman_pumps` (its frequency, hence `df` and the mask) was
paired with the i-th pump row of the SRS result (profile and efficiency column), which lists co-propagating pumps first.
With a counter-propagating pump ABOVE the channel listed before a co-propagating pump BELOW it, the frequency of the
first met the (negative) efficiency and the profile of the second: the "ASE" came out negative.  Witness: -/
theorem sprs_misindexed_can_be_negative_old :
    sprsTerm (1:ℝ) 1 1 [1, 1] [0, 1] { f := 2, cr := -1, profile := [1, 1] } < 0 := by
  have he := one_add_eta_pos ((2:ℝ) - 1) 1 (by norm_num) (by norm_num)
  have hh : (0:ℝ) < planckH := planckH_pos
  simp only [sprsTerm, trapz, vdiv, Nat.cast_ofNat, Nat.cast_one, Nat.cast_zero]
  have hd : (0:ℝ) < 2 - 1 := by norm_num
  simp only [hd, if_true]
  have h1 : (0:ℝ) < 1 + etaBE ((2:ℝ) - 1) 1 := by linarith
  have h2 : (0:ℝ) < 2 * planckH * 1 * 1 * (1 + etaBE ((2:ℝ) - 1) 1) := by positivity
  have e : 2 * planckH * 1 * 1 * (1 + etaBE ((2:ℝ) - 1) 1) * -1 * 1 * ((1 - 0) * ((1 / 1 + 1 / 1) / 2) + 0)
      = -(2 * planckH * 1 * 1 * (1 + etaBE ((2:ℝ) - 1) 1)) := by ring
  rw [e]
  linarith

/-! ### the grid built by `_create_lumped_losses` -/

theorem prodL_ones_map (z : List ℝ) : Gnpy.Fiber.prodL ((z.map (fun x => (x, ((1:Nat):ℝ)))).map (·.2)) = 1 := by
  induction z with
  | nil => simp [Gnpy.Fiber.prodL]
  | cons x xs ih => simp only [List.map_cons, Gnpy.Fiber.prodL, ih]; simp

/-- the merged grid carries every lumped loss exactly once: the product of all its factors is the product of the
lumped losses of the fibre -/
theorem createLumped_prod (lumped : List (ℝ × ℝ)) (z : List ℝ) :
    Gnpy.Fiber.prodL ((Gnpy.Fiber.createLumped lumped z).map (·.2)) = Gnpy.Fiber.prodL (lumped.map (·.2)) := by
  simp only [Gnpy.Fiber.createLumped]
  rw [Gnpy.Fiber.foldl_insert_prod, List.map_append, Gnpy.Fiber.prodL_append, prodL_ones_map]
  simp [Gnpy.Fiber.prodL]

/-- when the last grid point carries no loss, the Euler product of lumped factors is the product of all of them -/
theorem gridLoss_eq_prod : ∀ (grid : List (ℝ × ℝ)), lastD 1 (grid.map (·.2)) = 1 →
    gridLoss grid = Gnpy.Fiber.prodL (grid.map (·.2)) := by
  intro grid
  induction grid with
  | nil => intro _; simp [gridLoss, Gnpy.Fiber.prodL]
  | cons g0 rest ih =>
    intro h
    cases rest with
    | nil =>
      simp only [List.map_cons, List.map_nil, lastD] at h
      simp [gridLoss, Gnpy.Fiber.prodL, h]
    | cons g1 rest' =>
      simp only [List.map_cons, lastD] at h
      have := ih (by simpa [lastD_cons_ne 1 1] using h)
      simp only [gridLoss, List.map_cons, Gnpy.Fiber.prodL] at this ⊢
      rw [this]

/-- **numerical method, zero Raman efficiency, on the fibre's own grid**: the Euler factor of every frequency lies
within `exp(−2α² Σ Δz²)` of `exp(−αL) · Π lumped` – the loss budget with every lumped loss once -/
theorem euler_budget (a : ℝ) (lumped : List (ℝ × ℝ)) (z : List ℝ)
    (hok : GridOk a (Gnpy.Fiber.createLumped lumped z))
    (hlast : lastD 1 ((Gnpy.Fiber.createLumped lumped z).map (·.2)) = 1) :
    Real.exp (-(a * gridSpan (Gnpy.Fiber.createLumped lumped z)) - 2 * a ^ 2 * gridSq (Gnpy.Fiber.createLumped lumped z))
        * Gnpy.Fiber.prodL (lumped.map (·.2)) ≤ eulerFactor a (Gnpy.Fiber.createLumped lumped z) ∧
      eulerFactor a (Gnpy.Fiber.createLumped lumped z)
        ≤ Real.exp (-(a * gridSpan (Gnpy.Fiber.createLumped lumped z))) * Gnpy.Fiber.prodL (lumped.map (·.2)) := by
  have h := eulerFactor_bounds a _ hok
  rw [gridLoss_eq_prod _ hlast, createLumped_prod] at h
  exact h

/-! ### non-vacuity -/
example : MZero [[(0:ℝ), 0], [0, 0]] := by
  intro r hr x hx; simp at hr; rcases hr with rfl | rfl <;> simpa using hx
example : GridOk (46 / 1000000 : ℝ) [(0, 1), (1000, 1 / 2), (2000, 1)] := by
  simp [GridOk]; norm_num
example : ∀ a ∈ [(46 / 1000000 : ℝ)], 0 < a := by simp

end Gnpy.Raman
