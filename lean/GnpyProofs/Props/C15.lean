import Mathlib.Data.List.Nodup
import Mathlib.Tactic.IntervalCases
import GnpyModel
import GnpyProofs.Lemmas.SlotsMap
import GnpyProofs.Lemmas.SlotsBands
import GnpyProofs.Lemmas.OmsWalk
/- Property theorems for C15 — every designed network yields a consistent OMS partition and spectrum map.
   Model: GnpyModel/Slots.lean (second half). Helper lemmas: GnpyProofs/Lemmas/SlotsMap.lean. -/
namespace Gnpy.Slots
open Gnpy.Py

/-- **slots_roundtrip.** `slots_to_m(mvalue_to_slots(n, m)) = (n, m)` and the slot is `2·m` indices wide. -/
theorem slots_roundtrip (n m : Int) :
    slotsToM (mToSlots n m).1 (mToSlots n m).2 = (n, m) ∧ (mToSlots n m).2 - (mToSlots n m).1 + 1 = 2 * m :=
  slotsToM_mToSlots n m

/-- `frequency_to_n(nvalue_to_frequency(n)) = n` on every grid -/
theorem frequency_roundtrip (n grid : Int) (hg : grid ≠ 0) : frequencyToN (nToFrequency n grid) grid = n :=
  frequencyToN_nToFrequency_grid n grid hg

/-- **bitmap_length.** For every band layout inside the network range (bands ascending, disjoint in slot index) the map
    built by `create_oms_bitmap` has exactly one cell per index of `[n(f_min), n(f_max)]`, so `Bitmap.__init__` accepts
    it (this failed for the code before ec64bb7b: `bitmap_length_fails_old`). -/
theorem bitmap_length (bands : List Band) (fMin fMax grid gb : Int) (cells : List Cell)
    (hl : LayoutOK grid (frequencyToN fMin grid - 1) bands (frequencyToN fMax grid))
    (h : createOmsBitmap bands fMin fMax grid = .ok cells) :
    cells.length = (frequencyToN fMax grid - frequencyToN fMin grid + 1).toNat ∧
    ∃ b, Bitmap.create fMin fMax grid gb (some cells) = .ok b ∧ b.WF1 ∧ b.cells = cells ∧
      b.nMin = frequencyToN fMin grid ∧ b.nMax = frequencyToN fMax grid := by
  obtain ⟨h1, _⟩ := createOmsBitmap_spec bands fMin fMax grid cells hl h
  refine ⟨h1, ?_⟩
  have hg : ¬ grid = 0 := by
    intro hg; unfold createOmsBitmap at h; rw [if_pos hg] at h; cases h
  have hle := layout_le grid bands _ _ hl
  unfold Bitmap.create
  rw [if_neg hg]
  have hlen : cells.length = (intRange (frequencyToN fMin grid) (frequencyToN fMax grid + 1)).length := by
    rw [h1, length_intRange]; congr 1; omega
  simp only [hlen, if_true]
  exact ⟨_, rfl, ⟨⟨rfl, hlen⟩, by show frequencyToN fMin grid ≤ frequencyToN fMax grid + 1; omega⟩, rfl, rfl, rfl⟩

/-- **usable_iff_in_common_band.** In that map a slot is usable (free) exactly when its index lies in one of the common
    bands, and every other slot is unusable – none is occupied. -/
theorem usable_iff_in_common_band (bands : List Band) (fMin fMax grid : Int) (cells : List Cell)
    (hl : LayoutOK grid (frequencyToN fMin grid - 1) bands (frequencyToN fMax grid))
    (h : createOmsBitmap bands fMin fMax grid = .ok cells) (k : Nat) (hk : k < cells.length) :
    (cells[k]? = some Cell.free ↔ InBands grid bands (frequencyToN fMin grid + k)) ∧
    (cells[k]? = some Cell.free ∨ cells[k]? = some Cell.unusable) := by
  obtain ⟨_, h2⟩ := createOmsBitmap_spec bands fMin fMax grid cells hl h
  rcases h2 k hk with ⟨a, b⟩ | ⟨a, b⟩
  · exact ⟨⟨fun _ => b, fun _ => a⟩, Or.inl a⟩
  · refine ⟨⟨fun hh => ?_, fun hh => absurd hh b⟩, Or.inr a⟩
    rw [a] at hh; cases hh

/-- "index inside a band" is "centre frequency of the slot inside the band", for every band edge, on or off the grid
    (this is what the inward rounding of d0f17fb2 achieves; with truncation toward zero it failed for off-grid edges) -/
theorem inBands_iff_frequency (bands : List Band) (x : Int) :
    InBands defaultGrid bands x ↔ ∃ b ∈ bands, b.1 ≤ nToFrequency x ∧ nToFrequency x ≤ b.2 := by
  have lo : ∀ f : Int, bandLo f defaultGrid ≤ x ↔ f ≤ nToFrequency x := by
    intro f
    unfold bandLo ceilDiv nToFrequency anchorHz defaultGrid
    rw [Int.fdiv_eq_ediv_of_nonneg _ (by decide)]
    omega
  have hi : ∀ f : Int, x ≤ bandHi f defaultGrid ↔ nToFrequency x ≤ f := by
    intro f
    unfold bandHi floorDiv nToFrequency anchorHz defaultGrid
    rw [Int.fdiv_eq_ediv_of_nonneg _ (by decide)]
    omega
  constructor
  · rintro ⟨b, hb, h1, h2⟩
    exact ⟨b, hb, (lo b.1).1 h1, (hi b.2).1 h2⟩
  · rintro ⟨b, hb, h1, h2⟩
    exact ⟨b, hb, (lo b.1).2 h1, (hi b.2).2 h2⟩

/-- **common band = intersection.** The band list from which the map of an OMS is drawn (`find_common_range` of its
    amplifiers) contains a frequency exactly when every amplifier of the OMS has a band containing it. -/
theorem common_band_is_intersection (amps : List (List Band)) (dflt : Option Band) (f : Int) (hne : amps ≠ []) :
    Inside (commonRange amps dflt) f ↔ ∀ a ∈ amps, Inside a f :=
  commonRange_inside amps dflt f hne

theorem nodup_intRange (a b : Int) : (intRange a b).Nodup := by
  unfold intRange
  apply List.Nodup.map _ List.nodup_range
  intro x y hxy
  simp only at hxy
  omega

/-- **align_index_unique.** After `align_grids` every map carries the contiguous index list of the common range
    `[lo, hi]` = [lowest n_min, highest n_max]: each slot index exactly once, one cell per index (false for the
    `insert_right` before 5edacf9c: `insert_right_dup_old`). -/
theorem align_index_unique (l l' : List Bitmap) (hwf : ∀ b ∈ l, b.WF1) (h : alignGrids l = .ok l') :
    ∃ lo hi, (∀ b ∈ l, lo ≤ b.nMin ∧ b.nMax ≤ hi) ∧ (∃ b ∈ l, b.nMin = lo) ∧ (∃ b ∈ l, b.nMax = hi) ∧
      l'.length = l.length ∧
      ∀ b' ∈ l', b'.nMin = lo ∧ b'.nMax = hi ∧ b'.freqIndex = intRange lo (hi + 1) ∧ b'.freqIndex.Nodup ∧
        b'.cells.length = b'.freqIndex.length := by
  obtain ⟨lo, hi, a1, a2, a3, a4, a5⟩ := alignGrids_spec l l' hwf h
  refine ⟨lo, hi, a1, a2, a3, a4, ?_⟩
  intro b' hb'
  obtain ⟨i, hi'⟩ := List.mem_iff_getElem?.1 hb'
  have hil : i < l.length := by
    rw [← a4]
    rcases Nat.lt_or_ge i l'.length with hh | hh
    · exact hh
    · rw [List.getElem?_eq_none hh] at hi'; cases hi'
  obtain ⟨b'', g1, g2, g3, g4, _⟩ := a5 i l[i] (List.getElem?_eq_getElem hil)
  rw [hi'] at g1; cases g1
  obtain ⟨⟨w1, w2⟩, _⟩ := g2
  refine ⟨g3, g4, by rw [w1, g3, g4], by rw [w1]; exact nodup_intRange _ _, w2⟩

/-- **align_preserves_occupancy.** Alignment keeps every existing cell at its slot index (hence at its frequency) and
    fills the added indices with `occupied`. -/
theorem align_preserves_occupancy (l l' : List Bitmap) (hwf : ∀ b ∈ l, b.WF1) (h : alignGrids l = .ok l')
    (i : Nat) (b b' : Bitmap) (hb : l[i]? = some b) (hb' : l'[i]? = some b') (x : Int) :
    (b.nMin ≤ x → x ≤ b.nMax → b'.cellAt x = b.cellAt x) ∧
    (b'.nMin ≤ x → x ≤ b'.nMax → ¬ (b.nMin ≤ x ∧ x ≤ b.nMax) → b'.cellAt x = some Cell.occupied) := by
  obtain ⟨lo, hi, _, _, _, _, a5⟩ := alignGrids_spec l l' hwf h
  obtain ⟨b'', g1, _, g3, g4, g5⟩ := a5 i b hb
  rw [hb'] at g1; cases g1
  refine ⟨fun h1 h2 => ?_, fun h1 h2 h3 => ?_⟩
  · rw [g5 x, if_pos ⟨h1, h2⟩]
  · rw [g5 x, if_neg h3, if_pos ⟨by omega, by omega⟩]

/-! ### the OMS list -/

theorem foldl_bandmin_le (bs : List Band) : ∀ a : Int, bs.foldl (fun a x => if x.1 < a then x.1 else a) a ≤ a := by
  induction bs with
  | nil => intro a; simp
  | cons c cs ih =>
    intro a
    simp only [List.foldl_cons]
    have := ih (if c.1 < a then c.1 else a)
    by_cases hc : c.1 < a
    · simp only [hc, if_true] at this ⊢; omega
    · simp only [hc, if_false] at this ⊢; omega

theorem foldl_bandmax_ge (bs : List Band) : ∀ a : Int, a ≤ bs.foldl (fun a x => if x.2 > a then x.2 else a) a := by
  induction bs with
  | nil => intro a; simp
  | cons c cs ih =>
    intro a
    simp only [List.foldl_cons]
    have := ih (if c.2 > a then c.2 else a)
    by_cases hc : c.2 > a
    · simp only [hc, if_true] at this ⊢; omega
    · simp only [hc, if_false] at this ⊢; omega

theorem frequencyToN_mono (f f' : Int) (h : f ≤ f') : frequencyToN f ≤ frequencyToN f' := by
  simp only [frequencyToN, truncDiv, anchorHz, defaultGrid, tdiv_grid']
  split <;> split <;> omega

/-- **oms_partition / same_index_range.** `build_oms_list` turns every line system (ROADM · line elements · ROADM) into
    exactly one OMS, ids in construction order, elements unchanged and in order – so each line element is in exactly
    one OMS when it is in exactly one line system – and all spectrum maps are well formed over the same contiguous slot
    range `[n(f_min), n(f_max)]` of the network-wide amplifier range. -/
theorem oms_partition (chains : List Chain) (netBands : List Band) (si : Option Band) (l : List OmsRec)
    (hne : ∀ b ∈ netBands, b.1 ≤ b.2) (h : buildOmsList chains netBands si = .ok l) :
    ∃ fMin fMax, networkRange netBands = .ok (fMin, fMax) ∧ l.length = chains.length ∧
      (∀ (i : Nat) (c : Chain), chains[i]? = some c → ∃ o, l[i]? = some o ∧ o.id = i ∧ o.els = c.els ∧
        o.reversed = reversedOms (chains.map (·.els)) i) ∧
      ∀ o ∈ l, o.bm.WF1 ∧ o.bm.nMin = frequencyToN fMin ∧ o.bm.nMax = frequencyToN fMax ∧
        o.bm.freqIndex = intRange (frequencyToN fMin) (frequencyToN fMax + 1) := by
  simp only [buildOmsList, bind, Except.bind] at h
  cases hr : networkRange netBands with
  | error e => rw [hr] at h; cases h
  | ok rng =>
    rw [hr] at h
    obtain ⟨fMin, fMax⟩ := rng
    simp only at h
    have hrange : frequencyToN fMin ≤ frequencyToN fMax := by
      apply frequencyToN_mono
      unfold networkRange at hr
      cases netBands with
      | nil => cases hr
      | cons b0 bs =>
        simp only [pure, Except.pure, Except.ok.injEq, Prod.mk.injEq] at hr
        have h1 := foldl_bandmin_le bs b0.1
        have h2 := foldl_bandmax_ge bs b0.2
        have h3 := hne b0 List.mem_cons_self
        omega
    cases hm : mapE (omsBitmap fMin fMax si) chains with
    | error e => rw [hm] at h; cases h
    | ok bms =>
      rw [hm] at h
      simp only at h
      cases ha : alignGrids bms with
      | error e => rw [ha] at h; cases h
      | ok aligned =>
        rw [ha] at h
        simp only [pure, Except.pure, Except.ok.injEq] at h
        obtain ⟨m1, m2⟩ := mapE_ok _ _ _ hm
        -- every created map is well formed over the network range
        have created : ∀ b ∈ bms, b.WF1 ∧ b.nMin = frequencyToN fMin ∧ b.nMax = frequencyToN fMax := by
          intro b hb
          obtain ⟨i, hi⟩ := List.mem_iff_getElem?.1 hb
          have hil : i < chains.length := by
            rw [← m1]
            rcases Nat.lt_or_ge i bms.length with hh | hh
            · exact hh
            · rw [List.getElem?_eq_none hh] at hi; cases hi
          obtain ⟨b2, g1, g2⟩ := m2 i chains[i] (List.getElem?_eq_getElem hil)
          rw [hi] at g1; cases g1
          simp only [omsBitmap, bind, Except.bind] at g2
          cases hc : createOmsBitmap (commonRange chains[i].ampBands si) fMin fMax defaultGrid with
          | error e => rw [hc] at g2; cases g2
          | ok cells =>
            rw [hc] at g2
            simp only [Bitmap.create] at g2
            have hg : ¬ defaultGrid = 0 := by decide
            rw [if_neg hg] at g2
            split at g2
            · next hlen =>
              simp only [pure, Except.pure, Except.ok.injEq] at g2
              subst g2
              exact ⟨⟨⟨rfl, hlen⟩, by show frequencyToN fMin ≤ frequencyToN fMax + 1; omega⟩, rfl, rfl⟩
            · cases g2
        obtain ⟨lo, hi, a1, ⟨bl, hbl, a2⟩, ⟨bh, hbh, a3⟩, a4, a5⟩ :=
          alignGrids_spec bms aligned (fun b hb => (created b hb).1) ha
        have hlo : lo = frequencyToN fMin := by rw [← a2]; exact (created bl hbl).2.1
        have hhi : hi = frequencyToN fMax := by rw [← a3]; exact (created bh hbh).2.2
        subst h
        refine ⟨fMin, fMax, rfl, ?_, ?_, ?_⟩
        · simp [List.length_zip, a4, m1]
        · intro i c hc
          have hil : i < chains.length := by
            rcases Nat.lt_or_ge i chains.length with hh | hh
            · exact hh
            · rw [List.getElem?_eq_none hh] at hc; cases hc
          have hib : i < aligned.length := by rw [a4, m1]; exact hil
          refine ⟨{ id := i, els := c.els, bm := aligned[i], reversed := reversedOms (chains.map (·.els)) i }, ?_, rfl, rfl, rfl⟩
          rw [List.getElem?_map, List.getElem?_zipIdx]
          have hz : (chains.zip aligned)[i]? = some (c, aligned[i]) :=
            List.getElem?_zip_eq_some.2 ⟨hc, List.getElem?_eq_getElem hib⟩
          rw [hz]
          show some _ = some _
          rw [Nat.zero_add]
        · intro o ho
          obtain ⟨p, hp, rfl⟩ := List.mem_map.1 ho
          obtain ⟨⟨c, b⟩, i⟩ := p
          have hmem := List.mem_zipIdx hp
          have hz : (c, b) ∈ chains.zip aligned := by
            obtain ⟨_, h2, h3⟩ := hmem
            rw [h3]; exact List.getElem_mem _
          have hb : b ∈ aligned := (List.of_mem_zip hz).2
          obtain ⟨j, hj⟩ := List.mem_iff_getElem?.1 hb
          have hjl : j < bms.length := by
            rw [← a4]
            rcases Nat.lt_or_ge j aligned.length with hh | hh
            · exact hh
            · rw [List.getElem?_eq_none hh] at hj; cases hj
          obtain ⟨b', g1, g2, g3, g4, _⟩ := a5 j bms[j] (List.getElem?_eq_getElem hjl)
          rw [hj] at g1; cases g1
          refine ⟨g2, by rw [g3, hlo], by rw [g4, hhi], ?_⟩
          show b.freqIndex = _
          rw [g2.1.1, g3, g4, hlo, hhi]

/-- the OMS found by `reversed_oms` runs between the same two ROADMs the other way -/
theorem reversed_endpoints {α : Type} [DecidableEq α] (l : List (List α)) (i j : Nat) (h : reversedOms l i = some j) :
    ∃ e o, l[i]? = some e ∧ l[j]? = some o ∧ e.head? = o.getLast? ∧ e.getLast? = o.head? := by
  unfold reversedOms at h
  cases he : l[i]? with
  | none => rw [he] at h; cases h
  | some e =>
    rw [he] at h
    simp only at h
    obtain ⟨hj, hp, _⟩ := List.findIdx?_eq_some_iff_getElem.1 h
    refine ⟨e, l[j], rfl, List.getElem?_eq_getElem hj, ?_⟩
    simpa using hp

/-- **opposite directions are paired.** When no two OMS run between the same ordered pair of ROADMs (no parallel
    links), `reversed_oms` is an involution: the reverse of the reverse of an OMS is the OMS itself. -/
theorem reversed_involution {α : Type} [DecidableEq α] (l : List (List α))
    (huniq : ∀ (a b : Nat) (x y : List α), l[a]? = some x → l[b]? = some y → x.head? = y.head? →
      x.getLast? = y.getLast? → a = b)
    (i j : Nat) (h : reversedOms l i = some j) : reversedOms l j = some i := by
  obtain ⟨e, o, he, ho, h1, h2⟩ := reversed_endpoints l i j h
  unfold reversedOms
  rw [ho]
  simp only
  have hil : i < l.length := by
    rcases Nat.lt_or_ge i l.length with hh | hh
    · exact hh
    · rw [List.getElem?_eq_none hh] at he; cases he
  have hei : l[i] = e := by
    have := List.getElem?_eq_getElem hil
    rw [he] at this; exact (Option.some.inj this).symm
  rw [List.findIdx?_eq_some_iff_getElem]
  refine ⟨hil, ?_, ?_⟩
  · rw [hei]; simp [h1, h2]
  · intro k hk hpk
    have hkl : k < l.length := by omega
    have hpk' : o.head? = l[k].getLast? ∧ o.getLast? = l[k].head? := by simpa using hpk
    have := huniq k i l[k] e (List.getElem?_eq_getElem hkl) he (by rw [← hpk'.2]; exact h1.symm) (by rw [← hpk'.1]; exact h2.symm)
    omega

/-! ### the graph walk of `build_oms_list` (model `buildWalks` on the exported DiGraph) -/

/-- **The walk terminates** within the fuel (= number of nodes) from every OMS vertex of a well-formed network, without
    exception, and follows line elements up to the next ROADM. -/
theorem walk_terminates (g : Net) (pos : Nat → Nat) (hwf : g.WF pos) (v x : Nat) (hv : v < g.size)
    (hvk : g.kindOf v ≠ NodeKind.line) (hx : x ∈ g.succOf v) (hxk : g.kindOf x ≠ NodeKind.trx) :
    ∃ w, walk g g.size v x = .ok w ∧ OmsPath g v x w := by
  refine walk_ok g pos hwf g.size v x [v] hx hxk (by simp) ?_ ?_ (by simp)
  · intro y hy; have : y = v := by simpa using hy
    rw [this]; exact hv
  · intro _ y hy; have : y = v := by simpa using hy
    rw [this]; exact Or.inl hvk

/-- **oms_partition on the graph.** On every well-formed network (each line element has exactly one successor and one
    predecessor, no ring of line elements, transceivers have a successor) `build_oms_list`'s walk
    * succeeds (no exception, no exhaustion of the fuel),
    * gives OMS `i` = ingress node (ROADM, or transceiver feeding a line) · line elements · egress ROADM, consecutive
      elements joined by edges of the network, ids `0 … n−1` being the positions in construction order,
    * puts every line element into exactly one OMS, and the `oms_id` back reference of the element is that OMS. -/
theorem oms_partition_graph (g : Net) (pos : Nat → Nat) (hwf : g.WF pos) :
    ∃ vs L, omsVertices g = .ok vs ∧ buildWalks g = .ok L ∧ L.length = (omsStarts g vs).length ∧
      (∀ (i : Nat) (st : Nat × Nat), (omsStarts g vs)[i]? = some st → ∃ ls r, L[i]? = some (st.1 :: (ls ++ [r])) ∧
        g.kindOf st.1 ≠ NodeKind.line ∧ (∀ y ∈ ls, g.kindOf y = NodeKind.line) ∧ g.kindOf r = NodeKind.roadm ∧
        Linked g (st.1 :: (ls ++ [r]))) ∧
      (∀ l, g.kindOf l = NodeKind.line → ∃ i els, L[i]? = some els ∧ l ∈ els ∧
        (∀ (j : Nat) (els' : List Nat), L[j]? = some els' → l ∈ els' → j = i) ∧ omsIdOf L l = some i) := by
  obtain ⟨vs, L, hv, hnd, hk, hr, ht, hL, hlen, hidx⟩ := buildWalks_ok g pos hwf
  have hsnd := nodup_omsStarts g pos hwf vs hnd
  -- shape of OMS i
  have hshape : ∀ (i : Nat) (st : Nat × Nat), (omsStarts g vs)[i]? = some st →
      ∃ w ls r, L[i]? = some (st.1 :: w) ∧ OmsPath g st.1 st.2 w ∧ w = ls ++ [r] ∧
        g.kindOf st.1 ≠ NodeKind.line ∧ (∀ y ∈ ls, g.kindOf y = NodeKind.line) ∧ g.kindOf r = NodeKind.roadm := by
    intro i st hi
    obtain ⟨w, hw, hp⟩ := hidx i st hi
    obtain ⟨ls, r, e, h1, h2⟩ := hp.shape
    have hst := (mem_omsStarts g vs st).1 (List.mem_of_getElem? hi)
    exact ⟨w, ls, r, hw, hp, e, (hk _ hst.1).2, h1, h2⟩
  -- a line element of OMS j lies on the walk part
  have honwalk : ∀ (j : Nat) (els : List Nat) (l : Nat), L[j]? = some els → l ∈ els → g.kindOf l = NodeKind.line →
      ∃ st w, (omsStarts g vs)[j]? = some st ∧ els = st.1 :: w ∧ OmsPath g st.1 st.2 w ∧ l ∈ w ∧
        g.kindOf st.1 ≠ NodeKind.line := by
    intro j els l hj hl hll
    have hjl : j < (omsStarts g vs).length := by
      rw [← hlen]
      rcases Nat.lt_or_ge j L.length with hh | hh
      · exact hh
      · rw [List.getElem?_eq_none hh] at hj; cases hj
    obtain ⟨w, ls, r, hw, hp, _, hvk, _, _⟩ := hshape j _ (List.getElem?_eq_getElem hjl)
    rw [hj] at hw
    have he : els = (omsStarts g vs)[j].1 :: w := Option.some.inj hw
    refine ⟨_, w, List.getElem?_eq_getElem hjl, he, hp, ?_, hvk⟩
    rw [he] at hl
    rcases List.mem_cons.1 hl with rfl | hl
    · exact absurd hll hvk
    · exact hl
  refine ⟨vs, L, hv, hL, hlen, ?_, ?_⟩
  · intro i st hi
    obtain ⟨w, ls, r, hw, hp, e, h0, h1, h2⟩ := hshape i st hi
    refine ⟨ls, r, by rw [hw, e], h0, h1, h2, ?_⟩
    rw [← e]; exact hp.linked
  · intro l hl
    have hroute : ∀ st ∈ omsStarts g vs, ∃ w, OmsPath g st.1 st.2 w := by
      intro st hst
      obtain ⟨i, hi⟩ := List.mem_iff_getElem?.1 hst
      obtain ⟨w, _, hp⟩ := hidx i st hi
      exact ⟨w, hp⟩
    obtain ⟨st, hst, w, hw, hlw⟩ := line_on_some_route g pos hwf vs hr ht hroute (pos l) l rfl hl
    obtain ⟨i, hi⟩ := List.mem_iff_getElem?.1 hst
    obtain ⟨w', hw', hp'⟩ := hidx i st hi
    have hww : w = w' := hw.functional hp'
    subst hww
    have huniq : ∀ (j : Nat) (els' : List Nat), L[j]? = some els' → l ∈ els' → j = i := by
      intro j els' hj hlj
      obtain ⟨st', w2, hj', _, hp2, hl2, hvk2⟩ := honwalk j els' l hj hlj hl
      have hvk1 := (hk _ ((mem_omsStarts g vs st).1 hst).1).2
      obtain ⟨e1, e2⟩ := OmsPath.same_start g pos hwf (pos l) l rfl hl st'.1 st'.2 st.1 st.2 w2 w hvk2 hvk1 hp2 hw hl2 hlw
      have hsteq : st' = st := Prod.ext e1 e2
      have hjl : j < (omsStarts g vs).length := by
        rcases Nat.lt_or_ge j (omsStarts g vs).length with hh | hh
        · exact hh
        · rw [List.getElem?_eq_none hh] at hj'; cases hj'
      have hil : i < (omsStarts g vs).length := by
        rcases Nat.lt_or_ge i (omsStarts g vs).length with hh | hh
        · exact hh
        · rw [List.getElem?_eq_none hh] at hi; cases hi
      have h1 : (omsStarts g vs)[j] = st' := by
        have := List.getElem?_eq_getElem hjl; rw [hj'] at this; exact (Option.some.inj this).symm
      have h2 : (omsStarts g vs)[i] = st := by
        have := List.getElem?_eq_getElem hil; rw [hi] at this; exact (Option.some.inj this).symm
      exact (hsnd.getElem_inj_iff (hi := hjl) (hj := hil)).1 (by rw [h1, h2, hsteq])
    refine ⟨i, st.1 :: w, hw', List.mem_cons_of_mem _ hlw, huniq, ?_⟩
    -- the back reference: the only OMS whose interior contains l is OMS i
    unfold omsIdOf
    have hint : ∀ (els : List Nat) (j : Nat), L[j]? = some els → l ∈ interior els → l ∈ els := by
      intro els j _ h
      unfold interior at h
      exact List.mem_of_mem_tail ((List.dropLast_sublist _).subset h)
    have hlint : l ∈ interior (st.1 :: w) := by
      obtain ⟨ls, r, e, h1, h2⟩ := hw.shape
      rw [e] at hlw ⊢
      have : interior (st.1 :: (ls ++ [r])) = ls := by
        unfold interior
        rw [List.tail_cons, List.dropLast_concat]
      rw [this]
      rcases List.mem_append.1 hlw with h | h
      · exact h
      · have : l = r := by simpa using h
        rw [this, h2] at hl; cases hl
    have hmemF : (st.1 :: w, i) ∈ L.zipIdx.filter (fun p => decide (l ∈ interior p.1)) :=
      List.mem_filter.2 ⟨List.mem_zipIdx_iff_getElem?.2 hw', decide_eq_true hlint⟩
    cases hF : (L.zipIdx.filter (fun p => decide (l ∈ interior p.1))).getLast? with
    | none =>
      rw [List.getLast?_eq_none_iff] at hF
      rw [hF] at hmemF; cases hmemF
    | some q =>
      have hq := List.mem_of_getLast? hF
      obtain ⟨hq1, hq2⟩ := List.mem_filter.1 hq
      have hq1' := List.mem_zipIdx_iff_getElem?.1 hq1
      have hq2' : l ∈ interior q.1 := by simpa using hq2
      have := huniq q.2 q.1 hq1' (hint q.1 q.2 hq1' hq2')
      simp [this]

/-- opposite directions are paired on the graph as well: the OMS found by `reversed_oms` runs between the same two nodes
    the other way, and without parallel OMS the pairing is an involution (`reversed_endpoints`, `reversed_involution`
    hold for the element lists produced by the walk, whatever they are) -/
theorem reversed_pairs_walk (L : List (List Nat)) (i j : Nat) (h : reversedOms L i = some j) :
    (∃ e o, L[i]? = some e ∧ L[j]? = some o ∧ e.head? = o.getLast? ∧ e.getLast? = o.head?) ∧
    ((∀ (a b : Nat) (x y : List Nat), L[a]? = some x → L[b]? = some y → x.head? = y.head? → x.getLast? = y.getLast? → a = b) →
      reversedOms L j = some i) :=
  ⟨reversed_endpoints L i j h, fun hu => reversed_involution L hu i j h⟩

/-! ### the two defects of the code before the repairs, decided on faithful models of the old code -/

/-- F2: with the old `n_max = frequency_to_n(f_max) − 1` an OMS whose band ends below the network maximum gets a map
    that is one cell short, which `Bitmap.__init__` rejects (C band 191.3–195.1 THz inside a 191.3–196.1 THz network) -/
theorem bitmap_length_fails_old :
    (createOmsBitmapOld [(anchorHz, anchorHz + 8 * defaultGrid)] anchorHz (anchorHz + 16 * defaultGrid) defaultGrid).toOption.map
      List.length = some 16 ∧
    (createOmsBitmap [(anchorHz, anchorHz + 8 * defaultGrid)] anchorHz (anchorHz + 16 * defaultGrid) defaultGrid).toOption.map
      List.length = some 17 ∧
    frequencyToN (anchorHz + 16 * defaultGrid) - frequencyToN anchorHz + 1 = 17 ∧
    ((createOmsBitmapOld [(anchorHz, anchorHz + 8 * defaultGrid)] anchorHz (anchorHz + 16 * defaultGrid) defaultGrid).toOption.bind
      (fun c => (Bitmap.create anchorHz (anchorHz + 16 * defaultGrid) defaultGrid defaultGuardband (some c)).toOption)) = none := by
  decide

/-- F3: the old `insert_right` started the new indices at `n_max`: the index list is no longer duplicate free -/
theorem insert_right_dup_old :
    ((Bitmap.create (anchorHz - 4 * defaultGrid) (anchorHz + 4 * defaultGrid) defaultGrid 0 none).toOption.bind
      (fun b => (b.insertRightOld (rep 2 Cell.occupied)).toOption)).map (·.freqIndex) =
      some [-4, -3, -2, -1, 0, 1, 2, 3, 4, 4, 5] ∧
    ((Bitmap.create (anchorHz - 4 * defaultGrid) (anchorHz + 4 * defaultGrid) defaultGrid 0 none).toOption.bind
      (fun b => (b.insertRight (rep 2 Cell.occupied)).toOption)).map (·.freqIndex) =
      some [-4, -3, -2, -1, 0, 1, 2, 3, 4, 5, 6] := by decide

section NonVacuity
/-- a C+L layout inside a wider network range satisfies `LayoutOK` -/
example : LayoutOK defaultGrid (frequencyToN 186000000000000 - 1)
    [(186500000000000, 190100000000000), (191300000000000, 195100000000000)] (frequencyToN 196100000000000) := by
  simp only [LayoutOK]
  decide

example : (createOmsBitmap [(anchorHz - 40 * defaultGrid, anchorHz - 20 * defaultGrid), (anchorHz - 8 * defaultGrid, anchorHz + 12 * defaultGrid)]
    (anchorHz - 44 * defaultGrid) (anchorHz + 16 * defaultGrid) defaultGrid).toOption.map List.length = some 61 := by decide

/-- two maps of different extent are aligned on the union range -/
example : ((Bitmap.create (anchorHz - 4 * defaultGrid) (anchorHz + 2 * defaultGrid) defaultGrid 0 none).toOption.bind
    (fun a => (Bitmap.create (anchorHz - 1 * defaultGrid) (anchorHz + 5 * defaultGrid) defaultGrid 0 none).toOption.bind
      (fun b => (alignGrids [a, b]).toOption))).map (fun l => l.map (fun b => (b.nMin, b.nMax, b.cells.length))) =
    some [(-4, 5, 10), (-4, 5, 10)] := by decide

/-- reverse pairing on a three-ROADM line: 0 ↔ 1 and 2 ↔ 3 -/
example : (List.range 4).map (reversedOms [["A", "f1", "B"], ["B", "f2", "A"], ["B", "f3", "C"], ["C", "f4", "B"]]) =
    [some 1, some 0, some 3, some 2] := by decide
/-- a small well-formed network: ROADM 0 with transceiver 1, line 0 → 2 → 3 → ROADM 4, back 4 → 5 → 0 -/
def exNet : Net :=
  { kind := [.roadm, .trx, .line, .line, .roadm, .line],
    succ := [[1, 2], [0], [3], [4], [5], [0]] }
def exPos (l : Nat) : Nat := if l = 3 then 1 else 0

theorem exNet_succ_lt (a l : Nat) (h : l ∈ exNet.succOf a) : a < 6 := by
  rcases Nat.lt_or_ge a 6 with hh | hh
  · exact hh
  · unfold Net.succOf at h
    rw [List.getElem?_eq_none (by simpa [exNet] using hh)] at h
    simp at h

theorem exNet_line (l : Nat) (h : exNet.kindOf l = NodeKind.line) : l = 2 ∨ l = 3 ∨ l = 5 := by
  have hl : l < 6 := exNet.kindOf_lt l (by rw [h]; decide)
  interval_cases l <;> simp_all [Net.kindOf, exNet]

/-- the hypothesis `Net.WF` of the walk theorems is satisfiable -/
example : exNet.WF exPos := by
  refine ⟨rfl, ?_, ?_, ?_, ?_, ?_, ?_, ?_, ?_, ?_, ?_⟩
  · intro i x h
    have := exNet_succ_lt i x h
    interval_cases i <;> simp_all [Net.succOf, exNet, Net.size]
    all_goals omega
  · intro i
    rcases Nat.lt_or_ge i 6 with hh | hh
    · interval_cases i <;> decide
    · unfold Net.succOf; rw [List.getElem?_eq_none (by simpa [exNet] using hh)]; simp
  · intro l h
    rcases exNet_line l h with rfl | rfl | rfl
    · exact ⟨3, rfl, by decide⟩
    · exact ⟨4, rfl, by decide⟩
    · exact ⟨0, rfl, by decide⟩
  · intro a b l h ha hb
    have h1 := exNet_succ_lt a l ha
    have h2 := exNet_succ_lt b l hb
    rcases exNet_line l h with rfl | rfl | rfl <;> interval_cases a <;> interval_cases b <;>
      simp_all [Net.succOf, exNet]
  · intro l h
    rcases exNet_line l h with rfl | rfl | rfl
    · exact ⟨0, by decide⟩
    · exact ⟨2, by decide⟩
    · exact ⟨4, by decide⟩
  · intro a l h ha
    have h1 := exNet_succ_lt a l ha
    rcases exNet_line l h with rfl | rfl | rfl <;> interval_cases a <;> simp_all [Net.succOf, exNet]
  · intro a l h ha hk
    have h1 := exNet_succ_lt a l ha
    rcases exNet_line l h with rfl | rfl | rfl <;> interval_cases a <;> simp_all [Net.succOf, Net.kindOf, exNet, exPos]
  · intro a l h ha hk
    have h1 := exNet_succ_lt a l ha
    rcases exNet_line l h with rfl | rfl | rfl <;> interval_cases a <;> simp_all [Net.succOf, Net.kindOf, exNet, exPos]
  · intro t ht hk
    have : t < 6 := ht
    interval_cases t <;> simp_all [Net.succOf, Net.kindOf, exNet]
  · intro t l hk hl hll
    have h1 := exNet_succ_lt t l hl
    rcases exNet_line l hll with rfl | rfl | rfl <;> interval_cases t <;> simp_all [Net.succOf, Net.kindOf, exNet]

example : (buildWalks exNet).toOption = some [[0, 2, 3, 4], [4, 5, 0]] := by decide
example : ((buildWalks exNet).toOption.map (fun l => (List.range 6).map (omsIdOf l))) =
    some [none, none, some 0, some 0, none, some 1] := by decide
end NonVacuity

end Gnpy.Slots
