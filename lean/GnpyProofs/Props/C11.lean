import GnpyModel
import GnpyProofs.Lemmas.Route
import GnpyProofs.Lemmas.Disjoint
import GnpyProofs.Lemmas.Ispart
/- Property theorems for C11 — every computed route is a real, loop-free, constraint-respecting shortest path.
   Model: GnpyModel/Route.lean.  networkx is not modelled: the theorems establish that the ORACLE (`bestRoute`,
   `decideRoute`) and the CHECKER (`checkRoute`) the harness runs against the implementation mean exactly what the
   property says, for every finite weighted digraph, every source/destination and every include list. -/
namespace Gnpy.Route

/-- **enumeration is sound**: everything `simplePaths` lists is a loop-free walk from `s` to `t` -/
theorem simplePaths_sound (g : Graph) (s t : V) (p : List V) (h : p ∈ simplePaths g s t) :
    IsSimplePath g s t [] p :=
  pathsFrom_sound g t _ s [] p h

/-- **enumeration is complete**: every loop-free walk from `s` to `t` of a well-formed graph is listed -/
theorem simplePaths_complete (g : Graph) (hg : g.WF) (s t : V) (p : List V) (h : IsSimplePath g s t [] p) :
    p ∈ simplePaths g s t :=
  pathsFrom_complete g t _ s [] p h (simple_length_le g hg p h.2.2.1 h.2.2.2.1)

theorem simplePaths_iff (g : Graph) (hg : g.WF) (s t : V) (p : List V) :
    p ∈ simplePaths g s t ↔ IsSimplePath g s t [] p :=
  ⟨simplePaths_sound g s t p, simplePaths_complete g hg s t p⟩

/-- `validPaths` are exactly the routes of the property statement -/
theorem validPaths_iff (g : Graph) (hg : g.WF) (s t : V) (inc p : List V) :
    p ∈ validPaths g s t inc ↔ IsRoute g s t inc p := by
  unfold validPaths IsRoute
  rw [List.mem_filter, simplePaths_iff g hg, List.isSublist_iff_sublist]
  unfold IsSimplePath
  constructor
  · rintro ⟨⟨h1, h2, h3, h4, _⟩, h5⟩; exact ⟨h1, h2, h3, h4, h5⟩
  · rintro ⟨h1, h2, h3, h4, h5⟩; exact ⟨⟨h1, h2, h3, h4, by simp⟩, h5⟩

/-- **the checker decides the route predicate**: the Boolean run on the implementation's path is `true` exactly when
the path starts at the source, ends at the destination, follows existing directed links, visits no element twice and
crosses the include list in order -/
theorem checkRoute_iff (g : Graph) (s t : V) (inc p : List V) :
    checkRoute g s t inc p = true ↔ IsRoute g s t inc p := by
  unfold checkRoute IsRoute
  simp only [Bool.and_eq_true, beq_iff_eq, isWalkB_iff, nodupB_iff, List.isSublist_iff_sublist]
  tauto

/-- **the oracle's answer is a route** -/
theorem bestRoute_valid (g : Graph) (hg : g.WF) (s t : V) (inc p : List V) (h : bestRoute g s t inc = some p) :
    IsRoute g s t inc p :=
  (validPaths_iff g hg s t inc p).1 (argmin_mem _ _ _ h)

/-- **the oracle's answer is lightest**: no route crossing the include list weighs less -/
theorem bestRoute_minimal (g : Graph) (hg : g.WF) (s t : V) (inc p : List V) (h : bestRoute g s t inc = some p) :
    ∀ q, IsRoute g s t inc q → pathWeight g p ≤ pathWeight g q :=
  fun q hq => argmin_le _ _ _ h q ((validPaths_iff g hg s t inc q).2 hq)

/-- **the oracle answers `none` exactly when no route exists** -/
theorem bestRoute_none_iff (g : Graph) (hg : g.WF) (s t : V) (inc : List V) :
    bestRoute g s t inc = none ↔ ¬ ∃ q, IsRoute g s t inc q := by
  unfold bestRoute
  rw [argmin_none_iff]
  constructor
  · rintro h ⟨q, hq⟩
    have := (validPaths_iff g hg s t inc q).2 hq
    rw [h] at this; simp at this
  · intro h
    apply List.eq_nil_iff_forall_not_mem.2
    intro q hq
    exact h ⟨q, (validPaths_iff g hg s t inc q).1 hq⟩

/-- **weight-minimal = length-minimal.**  The code minimises `weight` (fibre metres on fibre edges, 0.01 on every other
edge).  When every fibre length is a multiple of 1 km, every other edge carries at most one 0.01 unit and paths have
fewer than 10⁵ hops, a path of minimal weight has minimal total fibre length: the pseudo-weights cannot change which
fibre length wins.  (The generators respect the hypothesis, so the oracle never demands more than the property.) -/
theorem weight_min_is_length_min (g : Graph) (hkm : ∀ u v, 1000 ∣ g.len u v) (hps : ∀ u v, g.pseudo u v ≤ 1)
    (p q : List V) (hq : q.length ≤ 100000) (h : pathWeight g p ≤ pathWeight g q) :
    pathLen g p ≤ pathLen g q := by
  rw [pathWeight_eq, pathWeight_eq] at h
  obtain ⟨a, ha⟩ := pathSum_dvd 1000 g.len hkm p
  obtain ⟨b, hb⟩ := pathSum_dvd 1000 g.len hkm q
  have hpq := pathSum_le_length g.pseudo hps q
  unfold pathLen pathPseudo at *
  omega

/-- **C11, optimality**: the oracle's route has minimal total fibre length among all routes crossing the include list -/
theorem bestRoute_min_length (g : Graph) (hg : g.WF) (hkm : ∀ u v, 1000 ∣ g.len u v) (hps : ∀ u v, g.pseudo u v ≤ 1)
    (hn : g.n < 100000) (s t : V) (inc p : List V) (h : bestRoute g s t inc = some p) :
    ∀ q, IsRoute g s t inc q → pathLen g p ≤ pathLen g q := by
  intro q hq
  have hl := simple_length_le g hg q hq.2.2.1 hq.2.2.2.1
  exact weight_min_is_length_min g hkm hps p q (by omega) (bestRoute_minimal g hg s t inc p h q hq)

/-- any two routes of minimal weight have the same fibre length: whatever tie-break the library applies, the fibre
length the harness compares is determined -/
theorem min_length_unique (g : Graph) (hkm : ∀ u v, 1000 ∣ g.len u v) (hps : ∀ u v, g.pseudo u v ≤ 1)
    (p q : List V) (hp : p.length ≤ 100000) (hq : q.length ≤ 100000) (h : pathWeight g p = pathWeight g q) :
    pathLen g p = pathLen g q :=
  Nat.le_antisymm (weight_min_is_length_min g hkm hps p q hq (Nat.le_of_eq h))
    (weight_min_is_length_min g hkm hps q p hp (Nat.le_of_eq h.symm))

/-! ### the decision wrapper of `compute_constrained_path` -/

/-- **C11, satisfiable constraint**: when a route crossing the include list exists (and the list is not an explicit
route), the decision is such a route, of minimal weight -/
theorem decide_constrained (g : Graph) (hg : g.WF) (s t : V) (inc : List V) (strict : Bool)
    (hex : ∃ q, IsRoute g s t inc q) :
    ∃ p, decideRoute g s t inc strict none = .constrained p ∧ IsRoute g s t inc p ∧
      ∀ q, IsRoute g s t inc q → pathWeight g p ≤ pathWeight g q := by
  obtain ⟨q, hq⟩ := hex
  have h0 : bestRoute g s t [] ≠ none := by
    rw [Ne, bestRoute_none_iff g hg]
    exact fun h => h ⟨q, hq.1, hq.2.1, hq.2.2.1, hq.2.2.2.1, List.nil_sublist _⟩
  have h1 : bestRoute g s t inc ≠ none := by
    rw [Ne, bestRoute_none_iff g hg]; exact fun h => h ⟨q, hq⟩
  obtain ⟨p0, hp0⟩ := Option.ne_none_iff_exists'.1 h0
  obtain ⟨p, hp⟩ := Option.ne_none_iff_exists'.1 h1
  exact ⟨p, by simp [decideRoute, hp0, hp], bestRoute_valid g hg s t inc p hp, bestRoute_minimal g hg s t inc p hp⟩

/-- **C11, STRICT**: a STRICT include list that no route can honour blocks the request with
`NO_PATH_WITH_CONSTRAINT` (the destination being reachable at all) -/
theorem decide_strict_blocked (g : Graph) (hg : g.WF) (s t : V) (inc : List V)
    (hreach : ∃ q, IsRoute g s t [] q) (hno : ¬ ∃ q, IsRoute g s t inc q) :
    decideRoute g s t inc true none = .noPathWithConstraint := by
  have h0 : bestRoute g s t [] ≠ none := by rw [Ne, bestRoute_none_iff g hg]; exact fun h => h hreach
  obtain ⟨p0, hp0⟩ := Option.ne_none_iff_exists'.1 h0
  have h1 := (bestRoute_none_iff g hg s t inc).2 hno
  simp [decideRoute, hp0, h1]

/-- **C11, LOOSE**: when only LOOSE hops cannot be honoured they are dropped and the decision is the unconstrained
shortest path -/
theorem decide_loose_dropped (g : Graph) (hg : g.WF) (s t : V) (inc : List V)
    (hreach : ∃ q, IsRoute g s t [] q) (hno : ¬ ∃ q, IsRoute g s t inc q) :
    ∃ p, decideRoute g s t inc false none = .unconstrained p ∧ IsRoute g s t [] p ∧
      ∀ q, IsRoute g s t [] q → pathWeight g p ≤ pathWeight g q := by
  have h0 : bestRoute g s t [] ≠ none := by rw [Ne, bestRoute_none_iff g hg]; exact fun h => h hreach
  obtain ⟨p0, hp0⟩ := Option.ne_none_iff_exists'.1 h0
  have h1 := (bestRoute_none_iff g hg s t inc).2 hno
  exact ⟨p0, by simp [decideRoute, hp0, h1], bestRoute_valid g hg s t [] p0 hp0, bestRoute_minimal g hg s t [] p0 hp0⟩

/-- **C11, unreachable destination**: blocked with `NO_PATH`, whatever the include list -/
theorem decide_noPath (g : Graph) (hg : g.WF) (s t : V) (inc : List V) (strict : Bool)
    (hno : ¬ ∃ q, IsRoute g s t [] q) :
    decideRoute g s t inc strict none = .noPath := by
  have h0 := (bestRoute_none_iff g hg s t []).2 hno
  simp [decideRoute, h0]

/-- the decision is total and exclusive: a request is blocked iff no acceptable route exists -/
theorem decide_blocked_iff (g : Graph) (hg : g.WF) (s t : V) (inc : List V) (strict : Bool) :
    (decideRoute g s t inc strict none = .noPath ∨ decideRoute g s t inc strict none = .noPathWithConstraint) ↔
      ((¬ ∃ q, IsRoute g s t [] q) ∨ (strict = true ∧ ¬ ∃ q, IsRoute g s t inc q)) := by
  by_cases hreach : ∃ q, IsRoute g s t [] q
  · by_cases hinc : ∃ q, IsRoute g s t inc q
    · obtain ⟨p, hp, _⟩ := decide_constrained g hg s t inc strict hinc
      simp [hp, hreach, hinc]
    · cases strict with
      | true => simp [decide_strict_blocked g hg s t inc hreach hinc, hinc]
      | false =>
        obtain ⟨p, hp, _⟩ := decide_loose_dropped g hg s t inc hreach hinc
        simp [hp, hreach]
  · simp [decide_noPath g hg s t inc strict hreach, hreach]

/-! ### the explicit-path shortcut -/

/-- **the shortcut only returns admissible paths**: whatever `explicit_path` (repaired) returns follows existing links,
visits no element twice and passes the code's own `ispart` test against the whole include list -/
theorem explicitPath_sound (g : Graph) (omsOf : V → Option Nat) (els : Nat → List V) (sR dR : Option V)
    (inc : List V) (s t : V) (p : List V) (h : explicitPath g omsOf els sR dR inc s t = some p) :
    IsWalk g p ∧ p.Nodup ∧ ispart inc p = true := by
  unfold explicitPath at h
  split at h
  · simp at h
  · split at h
    · simp only at h
      split at h
      · split at h
        · simp at h
        · split at h
          next hcond =>
            simp only [Option.some.injEq] at h
            subst h
            simp only [Bool.and_eq_true] at hcond
            exact ⟨(isWalkB_iff g _).1 hcond.1, uniqueOrdered_nodup _, hcond.2⟩
          · simp at h
      · simp at h
    · simp at h

/-- **an explicit route is the only route.**  `p` is the route spelled by the include list (the concatenated OMS of
`explicit_path`).  If every hop `a → b` of `p` is forced — `b` is the only successor of `a` (transceiver → its ROADM, line
element → next element), or `a` is the only predecessor of `b` and `b` lies on every route crossing the list (first
element of an OMS named in the list, destination transceiver) — then every route crossing the include list IS `p`.
Hence the shortcut returns the unique, and therefore the shortest, admissible route. -/
theorem explicit_path_unique (g : Graph) (s t : V) (inc p q : List V) (hp : IsRoute g s t inc p)
    (hq : IsRoute g s t inc q) (hf : ForcedChain g (fun b => b ∈ q) p) : q = p := by
  have hne : p ≠ [] := by intro h; rw [h] at hp; simp [IsRoute] at hp
  exact forced_path_unique g t p q hq.2.2.1 hq.2.2.2.1 hp.2.2.2.1 (by rw [hp.1, hq.1]) hne hp.2.1 hq.2.1 hf

/-- the element in front of a visited line element is visited too (it is its only predecessor): an include naming any
element of an OMS puts the first element of that OMS on every admissible route, which is what `explicit_path_unique`
needs at the ROADM → first-element hops -/
theorem line_predecessor_on_route (g : Graph) (s t : V) (inc q : List V) (x u : V) (hq : IsRoute g s t inc q)
    (hx : x ∈ q) (hne : x ≠ s) (hpred : ∀ w, x ∈ g.succ w → w = u) : u ∈ q :=
  pred_on_walk g q s x u hq.2.2.1 hq.1 hx hne hpred

/-- consequently the explicit route is a shortest one -/
theorem explicit_path_shortest (g : Graph) (s t : V) (inc p : List V) (hp : IsRoute g s t inc p)
    (hf : ∀ q, IsRoute g s t inc q → ForcedChain g (fun b => b ∈ q) p) :
    ∀ q, IsRoute g s t inc q → pathLen g p ≤ pathLen g q := by
  intro q hq
  rw [explicit_path_unique g s t inc p q hp hq (hf q hq)]

/-! ### the route-list clean-up (`correct_json_route_list`) -/

/-- **clean-up, accepted lists**: when every unusable entry (unknown name or transceiver) is LOOSE, the clean-up keeps
exactly the usable entries, in order, with their hop types (source first / destination last silently removed) -/
theorem clean_ok (isNode isTrx : V → Bool) (s t : V) (route : List (V × Bool)) (hs : isTrx s = true)
    (ht : isTrx t = true)
    (hloose : ∀ p ∈ stripEnds s t route, badNode isNode isTrx p.1 = true → p.2 = false) :
    correctRouteList isNode isTrx s t route =
      .ok ((stripEnds s t route).filter (fun p => !(badNode isNode isTrx p.1))) := by
  have := cleanLoop_ok isNode isTrx (stripEnds s t route) [] (by simp) hloose
  simpa [correctRouteList, hs, ht] using this

/-- **clean-up, STRICT entry that cannot be applied**: the request is refused (`ServiceError`) -/
theorem clean_strict_error (isNode isTrx : V → Bool) (s t : V) (route : List (V × Bool)) (hs : isTrx s = true)
    (ht : isTrx t = true)
    (hbad : ∃ p ∈ stripEnds s t route, badNode isNode isTrx p.1 = true ∧ p.2 = true) :
    correctRouteList isNode isTrx s t route = .error .strictUnknown := by
  have := cleanLoop_error isNode isTrx (stripEnds s t route) (stripEnds s t route) hbad
  simpa [correctRouteList, hs, ht] using this

/-- a list of usable nodes is left untouched, and nothing unusable survives the clean-up -/
theorem clean_result_usable (isNode isTrx : V → Bool) (s t : V) (route r : List (V × Bool))
    (h : correctRouteList isNode isTrx s t route = .ok r) :
    ∀ p ∈ r, isNode p.1 = true ∧ isTrx p.1 = false := by
  by_cases hs : isTrx s = true
  · by_cases ht : isTrx t = true
    · by_cases hbad : ∃ p ∈ stripEnds s t route, badNode isNode isTrx p.1 = true ∧ p.2 = true
      · rw [clean_strict_error isNode isTrx s t route hs ht hbad] at h; cases h
      · have hloose : ∀ p ∈ stripEnds s t route, badNode isNode isTrx p.1 = true → p.2 = false := by
          intro p hp hb
          by_contra hcon
          exact hbad ⟨p, hp, hb, by simpa using hcon⟩
        rw [clean_ok isNode isTrx s t route hs ht hloose] at h
        injection h with h
        subst h
        intro p hp
        have := (List.mem_filter.1 hp).2
        simp only [badNode, Bool.not_or, Bool.not_not, Bool.and_eq_true, Bool.not_eq_true'] at this
        exact this
    · simp [correctRouteList, hs, ht] at h
  · simp [correctRouteList, hs] at h

/-! ### `ispart`, the code's "crosses in order" test -/

/-- **`ispart` is the subsequence test**: on lists without repetition (a loop-free path, an include list naming each
node once) the code's `ispart(a, b)` holds exactly when `a` is a subsequence of `b` — the relation `IsRoute` uses -/
theorem ispart_iff_sublist (a b : List V) (ha : a.Nodup) (hb : b.Nodup) :
    ispart a b = true ↔ a.Sublist b := by
  unfold ispart
  rw [ispartAux_iff]
  constructor
  · rintro ⟨hmem, hch⟩
    have h1 : List.IsChain (· ≤ ·) (a.map (fun x => b.idxOf x)) := hch.tail
    have h2 := List.isChain_iff_pairwise.1 h1
    have h3 : a.Pairwise (fun x y => b.idxOf x ≤ b.idxOf y) := List.pairwise_map.1 h2
    exact sublist_of_idx_mono b a ha hmem h3
  · intro hs
    refine ⟨fun x hx => hs.subset hx, ?_⟩
    have hp := (pairwise_idx_of_nodup b hb).sublist hs
    rw [List.isChain_iff_pairwise, List.pairwise_cons]
    refine ⟨fun y _ => Nat.zero_le y, ?_⟩
    rw [List.pairwise_map]
    exact hp.imp (fun h => Nat.le_of_lt h)

/-- the code also accepts an include list that names a node twice in a row, which no loop-free path can cross twice:
this is where `ispart` and the subsequence relation differ (the generators never repeat a node) -/
theorem ispart_repeated_node : ispart [1, 1] [0, 1, 2] = true ∧ ¬ [1, 1].Sublist [0, 1, 2] := by decide

/-! ### the reverse path of a bidirectional request -/

/-- **C11, reverse path**: the path rebuilt from the reversed OMS (`find_reversed_path`: reversed OMS of every crossed
OMS, in reverse order) visits the same sites (ROADMs) in reverse.  `c` is the chain of OMS the forward path crosses,
`rev` maps an OMS to `oms.reversed_oms` (same two ROADMs, opposite direction). -/
theorem reverse_sites (rev : Oms → Oms) : ∀ c : List Oms, Adjacent c → RevOk rev c →
    sitesOf (revChain rev c) = (sitesOf c).reverse
  | [], _, _ => by simp [revChain, sitesOf]
  | [o], _, hr => by
    have := hr o (by simp)
    simp [revChain, sitesOf, this.1, this.2]
  | o :: o' :: rest, hc, hr => by
    have hadj : o.dst = o'.src := (List.isChain_cons_cons.1 hc).1
    have ih := reverse_sites rev (o' :: rest) (List.isChain_cons_cons.1 hc).2
      (fun x hx => hr x (List.mem_cons_of_mem _ hx))
    rw [revChain_cons, sitesOf_append_singleton _ _ (revChain_ne_nil rev _ (by simp)), ih, (hr o (by simp)).2]
    simp only [sitesOf, List.map_cons, List.reverse_cons, List.append_assoc, List.cons_append, List.nil_append]
    rw [hadj]

/-- the reversed chain is again a chain of adjacent OMS: the reverse path follows existing links -/
theorem reverse_adjacent (rev : Oms → Oms) (c : List Oms) (hc : Adjacent c) (hr : RevOk rev c) :
    Adjacent (revChain rev c) :=
  adjacent_revChain rev c hc hr

/-! ### non-vacuity: a 4-node diamond 0→1→3, 0→2→3 (fibre 80 km / 50 km + 50 km) -/

def demoG : Graph where
  n := 4
  succ := fun u => if u = 0 then [1, 2] else if u = 1 then [3] else if u = 2 then [3] else []
  len := fun u _ => if u = 1 then 80000 else if u = 2 then 50000 else 0
  pseudo := fun u _ => if u = 0 then 1 else 0

example : demoG.WF := by
  intro u v h
  have hn : demoG.n = 4 := rfl
  rw [hn]
  simp only [demoG] at h
  by_cases h0 : u = 0
  · subst h0; simp at h; rcases h with rfl | rfl <;> simp
  · by_cases h1 : u = 1
    · subst h1; simp at h; subst h; simp
    · by_cases h2 : u = 2
      · subst h2; simp at h; subst h; simp
      · simp [h0, h1, h2] at h

example : simplePaths demoG 0 3 = [[0, 1, 3], [0, 2, 3]] := by decide
example : bestRoute demoG 0 3 [] = some [0, 2, 3] := by decide
example : bestRoute demoG 0 3 [1] = some [0, 1, 3] := by decide
example : bestRoute demoG 0 3 [2, 1] = none := by decide
example : decideRoute demoG 0 3 [2, 1] true none = .noPathWithConstraint := by decide
example : decideRoute demoG 0 3 [2, 1] false none = .unconstrained [0, 2, 3] := by decide
example : decideRoute demoG 3 0 [] false none = .noPath := by decide
example : checkRoute demoG 0 3 [1] [0, 1, 3] = true ∧ checkRoute demoG 0 3 [1] [0, 2, 3] = false := by decide
/-- in the diamond the include list [1] spells the route 0-1-3: node 1 has the single predecessor 0 and the single
successor 3 -/
example (q : List V) (hq : IsRoute demoG 0 3 [1] q) : q = [0, 1, 3] := by
  refine explicit_path_unique demoG 0 3 [1] [0, 1, 3] q ((checkRoute_iff demoG 0 3 [1] [0, 1, 3]).1 (by decide)) hq ?_
  refine ⟨Or.inr ⟨?_, hq.2.2.2.2.subset (by simp)⟩, Or.inl (by simp [demoG]), trivial⟩
  intro w hw
  simp only [demoG] at hw
  by_cases h0 : w = 0
  · exact h0
  · by_cases h1 : w = 1
    · subst h1; simp at hw
    · by_cases h2 : w = 2
      · subst h2; simp at hw
      · simp [h0, h1, h2] at hw
example : (∀ u v, 1000 ∣ demoG.len u v) ∧ (∀ u v, demoG.pseudo u v ≤ 1) := by
  constructor <;> intro u v <;> simp only [demoG] <;> split <;> (try split) <;> omega

end Gnpy.Route
