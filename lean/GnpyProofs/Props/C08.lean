import GnpyModel
import GnpyProofs.Lemmas.ChainNum
import GnpyProofs.Lemmas.ChainList
import GnpyProofs.Lemmas.ChainPad
import GnpyProofs.Lemmas.ChainSplit
import GnpyProofs.Lemmas.ChainGraph
/- Property theorems for C08 — auto-design yields a complete line system.
   Model: GnpyModel/Chain.lean (lists of line elements between two endpoints).  Numeric statements over ℝ.
   Helper lemmas: GnpyProofs/Lemmas/ChainNum.lean, ChainList.lean. -/
namespace Gnpy.Chain

/-! ### calculate_new_length / split_fiber -/

/-- the counting loop is `int(a // b)`: `k·b ≤ a < (k+1)·b` -/
theorem floorDiv_spec (fuel : Nat) (a b : ℝ) (ha : 0 ≤ a) (hf : a < ((fuel + 1 : Nat) : ℝ) * b) :
    ((floorDiv fuel a b : Nat) : ℝ) * b ≤ a ∧ a < ((floorDiv fuel a b + 1 : Nat) : ℝ) * b :=
  floorDiv_spec' fuel a b ha hf

/-- a fibre shorter than `max_length` is left alone -/
theorem calcNewLength_short (fuel : Nat) (L lo hi target : ℝ) (h : L < hi) :
    calcNewLength fuel L lo hi target = (L, 1) := by
  simp [calcNewLength, calcWith, h]

/-- **calculate_new_length.** For every fibre length `L > 0` and bounds with `0 < target ≤ max_length`
(always the case when `min_length ≤ max_length`): at least one span, the spans add up to `L` exactly, and no span
is longer than `max_length`. -/
theorem calcNewLength_spec (fuel : Nat) (L lo hi target : ℝ) (hL : 0 < L) (_ht : 0 < target) (hth : target ≤ hi)
    (hf : L < ((fuel + 1 : Nat) : ℝ) * target) :
    1 ≤ (calcNewLength fuel L lo hi target).2 ∧
    ((calcNewLength fuel L lo hi target).2 : ℝ) * (calcNewLength fuel L lo hi target).1 = L ∧
    (calcNewLength fuel L lo hi target).1 ≤ hi := by
  obtain ⟨h1, h2⟩ := floorDiv_spec' fuel L target (le_of_lt hL) hf
  unfold calcNewLength calcWith
  set n2 := floorDiv fuel L target with hn2
  by_cases hlt : L < hi
  · simp only [hlt, if_true]
    exact ⟨le_refl 1, by simp, le_of_lt hlt⟩
  · simp only [hlt, if_false]
    have hge : hi ≤ L := not_lt.mp hlt
    -- n2 ≥ 1 because target ≤ hi ≤ L
    have hn2pos : 1 ≤ n2 := by
      by_contra hc
      have h0 : n2 = 0 := by omega
      rw [h0] at h2
      simp at h2
      linarith
    have hn2r : (0:ℝ) < (n2 : ℝ) := by exact_mod_cast hn2pos
    have hn1r : (0:ℝ) < ((n2 + 1 : Nat) : ℝ) := by positivity
    have e1 : ((n2 + 1 : Nat) : ℝ) * (L / ((n2 + 1 : Nat) : ℝ)) = L := by field_simp
    have e2 : (n2 : ℝ) * (L / (n2 : ℝ)) = L := by field_simp
    have l1lt : L / ((n2 + 1 : Nat) : ℝ) ≤ hi := by
      have : L / ((n2 + 1 : Nat) : ℝ) < target := by
        rw [div_lt_iff₀ hn1r]; linarith [h2, mul_comm (((n2 + 1 : Nat) : ℝ)) target]
      linarith
    split_ifs with c1 c2 c3
    · exact ⟨by omega, e1, c1.1.2⟩
    · exact ⟨hn2pos, e2, c2.1.2⟩
    · exact ⟨hn2pos, e2, c3.2⟩
    · exact ⟨by omega, e1, l1lt⟩

/-- a fibre longer than `max_length` is always split (at least two spans) -/
theorem calcNewLength_long (fuel : Nat) (L lo hi target : ℝ) (ht : 0 < target) (hth : target ≤ hi) (h : hi < L)
    (hf : L < ((fuel + 1 : Nat) : ℝ) * target) :
    2 ≤ (calcNewLength fuel L lo hi target).2 := by
  have hL : 0 < L := by linarith
  obtain ⟨h1, h2⟩ := floorDiv_spec' fuel L target (le_of_lt hL) hf
  obtain ⟨s1, s2, s3⟩ := calcNewLength_spec fuel L lo hi target hL ht hth hf
  by_contra hc
  have hn : (calcNewLength fuel L lo hi target).2 = 1 := by omega
  rw [hn] at s2
  simp at s2
  linarith


/-! ### amplifier insertion -/

set_option linter.unusedSectionVars false

section
variable {α : Type} [Add α] [Sub α] [Mul α] [Div α] [Neg α] [NatCast α] [LT α] [LE α]
  [DecidableLT α] [DecidableLE α] [Transc α]

/-- **After `add_missing_elements_in_network` no fibre is directly followed by a fibre**, whatever the input line. -/
theorem no_adjacent_fibres (c : SplitCfg α) (ch : Chain α) : NoAdjFib (addMissingLine c ch) :=
  addInline_noAdj _ _

/-- **ROADM–fibre junctions are amplified**: a chain leaving a ROADM does not begin with a fibre, a chain entering a
ROADM does not end with one.  (Junctions with a Fused element, an existing amplifier or a transceiver are left
alone, exactly as `add_roadm_booster` / `add_roadm_preamp` do: see `junction_exceptions`.) -/
theorem roadm_fibre_junction_amplified (c : SplitCfg α) (ch : Chain α) :
    (ch.srcKind = .roadm → ∀ e, (addMissingLine c ch).head? = some e → e.isFiber = false) ∧
    (ch.dstKind = .roadm → ∀ e, (addMissingLine c ch).getLast? = some e → e.isFiber = false) := by
  constructor
  · intro hs e he
    unfold addMissingLine at he
    rw [addInline_head, hs] at he
    exact addBooster_head _ _ _ e he
  · intro hd e he
    unfold addMissingLine at he
    rw [addInline_getLast, addBooster_getLast, hd] at he
    exact addPreamp_getLast _ _ _ e he

/-- the deliberate exceptions: nothing is inserted at a transceiver end, nor when the neighbour of the ROADM is not
a fibre (Fused, user amplifier) -/
theorem junction_exceptions (src dst : String) (m : Bool) (l : List (Elem α)) :
    addBooster src .trx m l = l ∧ addPreamp dst .trx m l = l ∧
    (∀ e t, l = e :: t → e.isFiber = false → addBooster src .roadm m l = l) ∧
    (∀ e, l.getLast? = some e → e.isFiber = false → addPreamp dst .roadm m l = l) := by
  refine ⟨by simp [addBooster], by simp [addPreamp], ?_, ?_⟩
  · intro e t hl he
    subst hl
    cases e <;> simp [addBooster, Elem.isFiber] at he ⊢
  · intro e hl he
    unfold addPreamp
    rw [hl]
    cases e <;> simp [Elem.isFiber] at he ⊢

/-- **The input survives in its order**: the line after splitting is a subsequence of the completed line (design only
inserts amplifiers), and the endpoints of the chain are untouched — so which ROADMs/transceivers reach which is
unchanged. -/
theorem original_order_preserved (c : SplitCfg α) (ch : Chain α) :
    List.Sublist (splitLine c ch.line) (addMissingLine c ch) := by
  unfold addMissingLine
  exact (addPreamp_sublist _ _ _ _).trans ((addBooster_sublist _ _ _ _).trans (addInline_sublist _ _))

theorem addMissing_endpoints (c : SplitCfg α) (ch : Chain α) :
    (addMissing c ch).src = ch.src ∧ (addMissing c ch).dst = ch.dst ∧
    (addMissing c ch).srcKind = ch.srcKind ∧ (addMissing c ch).dstKind = ch.dstKind := by
  simp [addMissing]

/-- splitting touches fibres only: every other element stays in place as it is, a fibre is replaced in place by
fibres -/
theorem splitLine_kinds (c : SplitCfg α) (l : List (Elem α)) :
    splitLine c l = l.flatMap (splitElem c) ∧
    (∀ e, e.isFiber = false → splitElem c e = [e]) ∧
    (∀ u p, ∀ x ∈ splitElem c (.fiber u p), x.isFiber = true) := by
  refine ⟨rfl, ?_, ?_⟩
  · intro e he
    cases e <;> simp [splitElem, Elem.isFiber] at he ⊢
  · intro u p x hx
    simp only [splitElem, splitFiber] at hx
    split at hx
    · simp at hx; subst hx; rfl
    · simp at hx
      obtain ⟨k, _, hk⟩ := hx
      subst hk; rfl

/-- every fibre has both connector losses after `add_connector_loss` -/
theorem connectors_defined (dIn dOut eol : α) (l : List (Elem α)) :
    ∀ e ∈ addConn dIn dOut eol l, ConnOK e :=
  addConn_connOK dIn dOut eol l

end

/-! ### Edfa or Multiband_amplifier: the kind of the inserted amplifiers -/

section
variable {α : Type} [Add α] [Sub α] [Mul α] [Div α] [Neg α] [NatCast α] [LT α] [LE α]
  [DecidableLT α] [DecidableLE α] [Transc α]

/-- "amplifier" in `no_adjacent_fibres`, `roadm_fibre_junction_amplified`, `original_order_preserved`,
`addMissing_fixpoint` means Edfa OR Multiband_amplifier: both are the constructor `Elem.edfa` (flag `multi`), the
inserted element has the same uid either way, and none of those statements depends on the flag. What the flag is:

**on a line without user amplifiers every inserted amplifier — booster, in-line, preamp — is a Multiband_amplifier iff
the line leaves a ROADM with more than one design band**, whatever the shape of the line and whatever the order in
which the ROADMs are visited (repaired `_oms_needs_multiband`). -/
theorem multiband_kinds_follow_design_bands (c : SplitCfg α) (ch : Chain α) (hno : NoAmp (splitLine c ch.line)) :
    ∀ e ∈ addMissingLine c ch, e.isEdfa = true →
      e.isMulti = (ch.srcKind == .roadm && decide (1 < ch.srcBands)) := by
  obtain ⟨hm, hs⟩ := hasMulti_noAmp _ hno
  have hk : omsKind ch.srcKind ch.srcBands (splitLine c ch.line) = (ch.srcKind == .roadm && decide (1 < ch.srcBands)) := by
    simp [omsKind, hm, hs]
  intro e he hamp
  unfold addMissingLine at he
  simp only [hk] at he
  set m := (ch.srcKind == .roadm && decide (1 < ch.srcBands)) with hmdef
  rcases addInline_kinds m _ e he with h | h
  · -- e comes from booster / preamp / the split line
    unfold addBooster at h
    split at h
    · rename_i u p rest heq
      simp only [List.mem_cons] at h
      rcases h with h | h
      · subst h; simp [Elem.isMulti, newAmp]
      · have hmem : e ∈ addPreamp ch.dst ch.dstKind m (splitLine c ch.line) := by rw [heq]; simpa using h
        unfold addPreamp at hmem
        split at hmem
        · simp only [List.mem_append, List.mem_singleton] at hmem
          rcases hmem with hmem | hmem
          · rw [hno e hmem] at hamp; simp at hamp
          · subst hmem; simp [Elem.isMulti, newAmp]
        · rw [hno e hmem] at hamp; simp at hamp
    · unfold addPreamp at h
      split at h
      · simp only [List.mem_append, List.mem_singleton] at h
        rcases h with h | h
        · rw [hno e h] at hamp; simp at hamp
        · subst h; simp [Elem.isMulti, newAmp]
      · rw [hno e h] at hamp; simp at hamp
  · exact h.2

/-- user amplifiers on the line decide first: a Multiband_amplifier anywhere on the OMS makes every inserted amplifier a
Multiband_amplifier, a (single-band) Edfa makes them Edfas — so design never creates a mixed OMS by itself -/
theorem inserted_kind_follows_user_amplifiers (sk : EndKind) (bands : Nat) (l : List (Elem α)) :
    (hasMulti l = true → omsKind sk bands l = true) ∧
    (hasMulti l = false → hasSingle l = true → omsKind sk bands l = false) := by
  constructor
  · intro h; simp [omsKind, h]
  · intro h1 h2; simp [omsKind, h1, h2]

/-- **Old code, defect (multiband-type-decision, repaired):** with the DESTINATION ROADM visited first its preamp was
decided before anything else was on the line, and `add_roadm_preamp` did not look at design bands, so it was an
Edfa; the booster then followed the preamp: an all-Edfa line left a ROADM with two design bands
(`set_per_degree_design_band` rejected it). The kind depended on the order of the ROADMs in the document. -/
theorem multiband_dst_first_fails_old (f g : FiberP ℝ) :
    endAmpKindsOld .roadm .roadm 2 true [Elem.fiber "a" f, Elem.fiber "b" g] = (false, false) ∧
    endAmpKindsOld .roadm .roadm 2 false [Elem.fiber "a" f, Elem.fiber "b" g] = (true, true) ∧
    kindsRaise 2 (addInlineOld (addBooster "R1" .roadm false (addPreamp "R0" .roadm false
      [Elem.fiber "a" f, Elem.fiber "b" g]))) = true ∧
    omsKind .roadm 2 [Elem.fiber "a" f, Elem.fiber "b" g] = true := by
  refine ⟨?_, ?_, ?_, ?_⟩ <;>
    simp [endAmpKindsOld, preampRuleOld, boosterRuleOld, preampInserted, boosterInserted, hasMulti, hasSingle,
      Elem.isMulti, Elem.isSingle, newAmp, kindsRaise, addInlineOld, addBooster, addPreamp, omsKind]

/-- **Old code, defect (multiband-type-decision, repaired):** a line ending `… Fiber – Fused – ROADM` gets no preamp;
with two design bands the booster was a Multiband_amplifier, but the in-line amplifier only looked downstream, found
no amplifier and became an Edfa: a mixed OMS, which `check_oms_single_type` rejects. The repaired completion of the
same line is all-Multiband. -/
theorem multiband_fused_end_mixed_fails_old (f g : FiberP ℝ) :
    let l : List (Elem ℝ) := [.fiber "a" f, .fiber "b" g, .fused "x" 1]
    let k := endAmpKindsOld .roadm .roadm 2 false l
    k = (true, true) ∧
    hasMulti (addInlineOld (addBooster "R0" .roadm k.1 (addPreamp "R1" .roadm k.2 l))) = true ∧
    hasSingle (addInlineOld (addBooster "R0" .roadm k.1 (addPreamp "R1" .roadm k.2 l))) = true ∧
    hasSingle (addInline true (addBooster "R0" .roadm true (addPreamp "R1" .roadm true l))) = false := by
  simp [endAmpKindsOld, preampRuleOld, boosterRuleOld, preampInserted, boosterInserted, hasMulti, hasSingle,
    Elem.isMulti, Elem.isSingle, newAmp, addInlineOld, addInline, addBooster, addPreamp]

end

/-! ### the graph stays a set of one-in/one-out chains with unchanged reachability -/

section
variable {α : Type} [Add α] [Sub α] [Mul α] [Div α] [Neg α] [NatCast α] [LT α] [LE α]
  [DecidableLT α] [DecidableLE α] [Transc α]

/-- **Every line element has exactly one predecessor and one successor** in the graph of a set of chains, as soon as
the names in its own chain are distinct and no other chain mentions it (for the completed chains that is what
`names_unique_partial` and the monitor establish). Holds for any set of chains, in particular for
`chs.map (completeChain …)`. -/
theorem one_in_one_out (pre post : List (Chain α)) (ch : Chain α) (u : String)
    (hn : (chainNodes ch).Nodup) (hu : u ∈ ch.line.map Elem.uid)
    (hother : ∀ c ∈ pre ++ post, u ∉ chainNodes c) :
    inDeg (toGraph (pre ++ ch :: post)) u = 1 ∧ outDeg (toGraph (pre ++ ch :: post)) u = 1 := by
  have hpre := deg_zero_of_absent pre u (fun c hc => hother c (by simp [hc]))
  have hpost := deg_zero_of_absent post u (fun c hc => hother c (by simp [hc]))
  rw [toGraph_append, toGraph_cons, inDeg_append, inDeg_append, outDeg_append, outDeg_append,
    hpre.1, hpre.2, hpost.1, hpost.2]
  have hin := inDeg_pathEdges (chainNodes ch) hn u
  have hout := outDeg_pathEdges (chainNodes ch) hn u
  have htail : u ∈ (chainNodes ch).tail := by simp [chainNodes]; exact Or.inl (by simpa using hu)
  have hdrop : u ∈ (chainNodes ch).dropLast := by
    have : (chainNodes ch).dropLast = ch.src :: ch.line.map Elem.uid := by
      simp only [chainNodes]
      rw [← List.cons_append, List.dropLast_concat]
    rw [this]; exact List.mem_cons_of_mem _ hu
  simp only [chainEdges]
  rw [hin, hout, if_pos htail, if_pos hdrop]
  exact ⟨rfl, rfl⟩

/-- **Degrees of the endpoints**: a ROADM/transceiver that is not used as a line element has as many outgoing edges
as chains leave it and as many incoming edges as chains end at it -/
theorem endpoints_degree (chs : List (Chain α)) (r : String)
    (hn : ∀ c ∈ chs, (chainNodes c).Nodup) (hr : ∀ c ∈ chs, r ∉ c.line.map Elem.uid) :
    outDeg (toGraph chs) r = (chs.filter (fun c => c.src == r)).length ∧
    inDeg (toGraph chs) r = (chs.filter (fun c => c.dst == r)).length := by
  induction chs with
  | nil => simp [toGraph, inDeg, outDeg]
  | cons c rest ih =>
    have hc := hn c (by simp)
    have hrc := hr c (by simp)
    obtain ⟨io, ii⟩ := ih (fun x hx => hn x (by simp [hx])) (fun x hx => hr x (by simp [hx]))
    have hdrop : (chainNodes c).dropLast = c.src :: c.line.map Elem.uid := by
      simp only [chainNodes]
      rw [← List.cons_append, List.dropLast_concat]
    have hsd : c.src ≠ c.dst := by
      intro h
      have := (List.nodup_cons.mp hc).1
      apply this; simp [h]
    rw [toGraph_cons, outDeg_append, inDeg_append, io, ii]
    simp only [chainEdges]
    rw [outDeg_pathEdges _ hc r, inDeg_pathEdges _ hc r, hdrop]
    simp only [chainNodes, List.tail_cons, List.mem_cons, List.mem_append, List.filter_cons]
    constructor
    · by_cases h : c.src = r
      · simp [h]; omega
      · have h' : ¬ r = c.src := fun x => h x.symm
        simp [h, h', hrc]
    · by_cases h : c.dst = r
      · simp [h]; omega
      · have h' : ¬ r = c.dst := fun x => h x.symm
        have hrc' : ¬ ∃ a ∈ c.line, a.uid = r := by simpa using hrc
        simp [h, h', hrc']

/-- every chain is a path of the graph from its source to its destination -/
theorem chain_is_path (chs : List (Chain α)) (ch : Chain α) (h : ch ∈ chs) :
    ∀ e ∈ chainEdges ch, e ∈ toGraph chs := by
  intro e he
  simp only [toGraph, List.mem_flatMap]
  exact ⟨ch, h, he⟩

/-- **Reachability is unchanged**: completing the lines (split, amplifier insertion, connector losses, padding) leaves
the set of ROADM/transceiver pairs that are joined by a chain exactly as it was — and by `chain_is_path` every such
pair is still joined by a path in the graph of the completed chains. -/
theorem reachability_unchanged (c : SplitCfg α) (dIn dOut eol padding : α) (chs : List (Chain α)) :
    endpointPairs (chs.map (completeChain c dIn dOut eol padding)) = endpointPairs chs := by
  simp [endpointPairs, completeChain, Function.comp_def]

end

/-! ### split_fiber: equal spans with the original length and fibre loss -/

/-- all spans produced from one fibre are fibres of one and the same length, with the original loss coefficient -/
theorem split_spans_equal (c : SplitCfg ℝ) (uid : String) (p : FiberP ℝ) :
    ∀ x ∈ splitFiber c uid p, ∃ v q, x = .fiber v q ∧ q.lossCoef = p.lossCoef ∧
      q.length = (if (calcNewLength c.fuel p.length c.lo c.hi c.target).2 = 1 then p.length
                  else (calcNewLength c.fuel p.length c.lo c.hi c.target).1) := by
  intro x hx
  simp only [splitFiber] at hx
  split at hx
  · rename_i h
    simp at hx; subst hx
    exact ⟨uid, p, rfl, rfl, by simp [h]⟩
  · rename_i h
    simp at hx
    obtain ⟨k, _, hk⟩ := hx
    subst hk
    exact ⟨_, _, rfl, rfl, by simp [h]⟩

/-- **The spans of a split fibre together have the original length and the original fibre loss.** -/
theorem split_preserves_length_and_loss (c : SplitCfg ℝ) (uid : String) (p : FiberP ℝ)
    (hL : 0 < p.length) (ht : 0 < c.target) (hth : c.target ≤ c.hi)
    (hf : p.length < ((c.fuel + 1 : Nat) : ℝ) * c.target) :
    ((splitFiber c uid p).map Elem.length).sum = p.length ∧
    ((splitFiber c uid p).map Elem.glass).sum = p.glassLoss := by
  obtain ⟨_, s2, _⟩ := calcNewLength_spec c.fuel p.length c.lo c.hi c.target hL ht hth hf
  simp only [splitFiber]
  split
  · simp [Elem.length, Elem.glass]
  · set r := calcNewLength c.fuel p.length c.lo c.hi c.target with hr
    constructor
    · simp only [List.map_map, Function.comp_def, Elem.length, List.map_const', List.length_range,
        List.sum_replicate]
      simpa using s2
    · simp only [List.map_map, Function.comp_def, Elem.glass, FiberP.glassLoss, List.map_const', List.length_range,
        List.sum_replicate]
      rw [← s2]; simp; ring

/-- **… and the original total loss**: fibre attenuation + input attenuation + lumped losses of the spans add up to
those of the original fibre — `att_in` stays on the first span only and every lumped loss (position strictly inside
the fibre) lands in exactly one span (repaired `_span_params`; connector losses are per-span attributes and are
not part of this sum). -/
theorem split_preserves_total_loss (c : SplitCfg ℝ) (uid : String) (p : FiberP ℝ)
    (hL : 0 < p.length) (ht : 0 < c.target) (hth : c.target ≤ c.hi)
    (hf : p.length < ((c.fuel + 1 : Nat) : ℝ) * c.target)
    (hlumps : ∀ l ∈ p.lumps, 0 ≤ l.1 ∧ l.1 < p.length * milli) :
    ((splitFiber c uid p).map Elem.body).sum = p.glassLoss + p.attIn + p.lumped := by
  obtain ⟨s1, s2, _⟩ := calcNewLength_spec c.fuel p.length c.lo c.hi c.target hL ht hth hf
  simp only [splitFiber]
  split
  · simp [Elem.body]
  · set r := calcNewLength c.fuel p.length c.lo c.hi c.target with hr
    have hnpos : (0:ℝ) < (r.2 : ℝ) := by exact_mod_cast s1
    have hlen : 0 ≤ r.1 := by
      by_contra hneg
      have : (r.2 : ℝ) * r.1 < 0 := mul_neg_of_pos_of_neg hnpos (not_le.mp hneg)
      linarith
    have hmilli : (0:ℝ) ≤ milli := by simp only [milli, Nat.cast_one, Nat.cast_ofNat]; norm_num
    have hs : 0 ≤ r.1 * milli := mul_nonneg hlen hmilli
    have hin : ∀ l ∈ p.lumps, 0 ≤ l.1 ∧ l.1 < (r.2 : ℝ) * (r.1 * milli) := by
      intro l hl
      have := hlumps l hl
      rw [← mul_assoc, s2]; exact this
    simp only [List.map_map, Function.comp_def, Elem.body, FiberP.glassLoss, FiberP.lumped]
    simp only [spanLumps_lumped]
    rw [List.sum_map_add, List.sum_map_add]
    simp only [Nat.cast_zero]
    rw [sum_first_only _ _ s1, spanLumps_total p.lumps r.2 (r.1 * milli) hs hin]
    simp only [List.map_const', List.length_range, List.sum_replicate, sumLeft_eq_sum]
    rw [← s2]; ring

/-! ### add_fiber_padding -/

/-- **Padding is reached.** A run of spliced Fiber/Fused elements whose first and last elements are fibres (the last
one not a RamanFiber) leaves `add_fiber_padding` with loss `max(padding, loss before)`; in particular ≥ padding. -/
theorem padding_reached (padding : ℝ) (r : List (Elem ℝ)) (u : String) (p : FiberP ℝ) (v : String) (q : FiberP ℝ)
    (t : List (Elem ℝ)) (hr : r = .fiber v q :: t) (hl : r.getLast? = some (.fiber u p)) (hnr : p.raman = false) :
    runLoss (padRun padding r) = max padding (runLoss r) ∧ padding ≤ runLoss (padRun padding r) := by
  have key : runLoss (padRun padding r) = max padding (runLoss r) := by
    unfold padRun
    rw [hl]
    simp only [hnr, Bool.false_eq_true, if_false]
    by_cases hlt : runLoss r < padding
    · simp only [hlt, if_true]
      rw [max_eq_left (le_of_lt hlt)]
      subst hr
      cases t with
      | nil =>
        simp at hl
        obtain ⟨h1, h2⟩ := hl
        subst h1; subst h2
        simp only [runLoss_eq, List.map_cons, List.map_nil, List.sum_cons, List.sum_nil]
        simp only [Elem.loss, Elem.ramanGain, FiberP.loss, FiberP.lumped, hnr, Bool.false_eq_true, if_false]
        ring
      | cons y t' =>
        have hl' : (y :: t').getLast? = some (.fiber u p) := by
          rw [List.getLast?_cons_cons] at hl; exact hl
        have hsplit := eq_dropLast_append (y :: t') _ hl'
        simp only [runLoss_eq]
        have e1 : ((Elem.fiber v q :: y :: t').map Elem.loss).sum
            = q.loss + (((y :: t').dropLast).map Elem.loss).sum + p.loss := by
          conv_lhs => rw [hsplit]
          simp [Elem.loss]; ring
        have e2 : ((Elem.fiber v q :: y :: t').map Elem.ramanGain).sum
            = (Elem.fiber v q).ramanGain + (((y :: t').dropLast).map Elem.ramanGain).sum
              + (Elem.fiber u p).ramanGain := by
          conv_lhs => rw [hsplit]
          simp; ring
        rw [e1, e2]
        simp only [List.map_cons, List.map_append, List.map_nil, List.sum_cons, List.sum_append, List.sum_nil]
        simp only [Elem.loss, Elem.ramanGain, FiberP.loss, FiberP.lumped, hnr, Bool.false_eq_true, if_false]
        ring
    · simp only [hlt, if_false]
      rw [max_eq_right (not_lt.mp hlt)]
      have hsplit := eq_dropLast_append r _ hl
      simp only [runLoss_eq]
      conv_rhs => rw [hsplit]
      simp only [List.map_append, List.map_cons, List.map_nil, List.sum_append, List.sum_cons, List.sum_nil]
      simp only [Elem.loss, Elem.ramanGain, FiberP.loss, FiberP.lumped, hnr]
  exact ⟨key, by rw [key]; exact le_max_left _ _⟩

/-- after padding, the cached `design_span_loss` of the run's last fibre IS the loss of the run (whatever `att_in` the
first fibre carried: repaired behaviour, the unrepaired code over-counted a user `att_in`) — so the gain computation
of C09, which reads this cache, works on the true span loss. -/
theorem padRun_dsl (padding : ℝ) (r : List (Elem ℝ)) (u : String) (p : FiberP ℝ) (v : String) (q : FiberP ℝ)
    (t : List (Elem ℝ)) (hr : r = .fiber v q :: t) (hl : r.getLast? = some (.fiber u p)) (hnr : p.raman = false) :
    ∃ p', (padRun padding r).getLast? = some (.fiber u p') ∧ p'.raman = false ∧
      p'.dsl = some (runLoss (padRun padding r)) := by
  obtain ⟨key, _⟩ := padding_reached padding r u p v q t hr hl hnr
  rw [key]
  have hne : ¬ (p.raman = true) := by simp [hnr]
  unfold padRun
  rw [hl]
  dsimp only
  rw [if_neg hne]
  by_cases hlt : runLoss r < padding
  · rw [if_pos hlt, max_eq_left (le_of_lt hlt)]
    subst hr
    cases t with
    | nil =>
      simp at hl
      obtain ⟨h1, h2⟩ := hl
      subst h1; subst h2
      refine ⟨{ q with attIn := q.attIn + padding - runLoss [Elem.fiber v q],
                       dsl := some (runLoss [Elem.fiber v q] + (padding - runLoss [Elem.fiber v q])) },
              ?_, hnr, ?_⟩
      · simp
      · simp only [Option.some.injEq]; ring
    | cons y t' =>
      refine ⟨{ p with dsl := some (runLoss (Elem.fiber v q :: y :: t')
                  + (padding - runLoss (Elem.fiber v q :: y :: t'))) }, ?_, hnr, ?_⟩
      · rw [List.getLast?_cons, List.getLast?_concat]; simp
      · simp only [Option.some.injEq]; ring
  · rw [if_neg hlt, max_eq_right (not_lt.mp hlt)]
    exact ⟨{ p with dsl := some (runLoss r) }, by simp [List.getLast?_append], hnr, by simp⟩

/-- **Current code, defect:** a span that begins or ends with a Fused element is never padded — `[Fused 1 dB,
Fiber 2 dB]` and `[Fiber 2 dB, Fused 1 dB]` keep 3 dB under a padding of 10 dB. -/
theorem padRun_fused_edge_unpadded_fails_current :
    ∃ (padding : ℝ) (r1 r2 : List (Elem ℝ)),
      r1.head?.map Elem.isFused = some true ∧ r2.getLast?.map Elem.isFused = some true ∧
      runLoss (padRun padding r1) = 3 ∧ runLoss (padRun padding r2) = 3 ∧ (3:ℝ) < padding := by
  let f : Elem ℝ := .fiber "f" { length := 10, lossCoef := 0.2, conIn := some 0, conOut := some 0, attIn := 0,
                                 lumps := [], raman := false, ramanGain := none, dsl := none }
  refine ⟨10, [.fused "x" 1, f], [f, .fused "x" 1], by simp [Elem.isFused], by simp [Elem.isFused], ?_, ?_, by norm_num⟩
  · have h : runLoss [Elem.fused "x" 1, f] < 10 := by
      simp only [runLoss_eq]; norm_num [f, Elem.loss, FiberP.loss, FiberP.lumped, sumLeft_eq_sum, Elem.ramanGain]
    simp only [padRun, f, List.getLast?_cons_cons, List.getLast?_singleton, Bool.false_eq_true, if_false]
    rw [if_pos h]
    simp only [runLoss_eq]
    norm_num [Elem.loss, FiberP.loss, FiberP.lumped, sumLeft_eq_sum, Elem.ramanGain]
  · simp only [padRun, f, List.getLast?_cons_cons, List.getLast?_singleton]
    simp only [runLoss_eq]
    norm_num [Elem.loss, FiberP.loss, FiberP.lumped, sumLeft_eq_sum, Elem.ramanGain]

/-- padding a padded run again changes nothing (needed for redesign, C17) -/
theorem padRun_idempotent (padding : ℝ) (r : List (Elem ℝ)) (u : String) (p : FiberP ℝ) (v : String) (q : FiberP ℝ)
    (t : List (Elem ℝ)) (hr : r = .fiber v q :: t) (hl : r.getLast? = some (.fiber u p)) (hnr : p.raman = false) :
    padRun padding (padRun padding r) = padRun padding r := by
  obtain ⟨key, hge⟩ := padding_reached padding r u p v q t hr hl hnr
  obtain ⟨p', hl', hnr', hd'⟩ := padRun_dsl padding r u p v q t hr hl hnr
  set r' := padRun padding r with hr'
  have hsplit := eq_dropLast_append r' _ hl'
  conv_lhs => unfold padRun
  rw [hl']
  simp only [hnr', Bool.false_eq_true, if_false, not_lt.mpr hge]
  rw [← hd']
  conv_rhs => rw [hsplit]
  congr 2
  cases p'
  simp at hnr' ⊢
  exact hnr'

/-- names (partial): the uids of the completed line are the uids before inline amplification plus the generated
`Edfa_<fibre uid>` names; hence unique as soon as those are pairwise distinct.
Full statement (not proved): if the input uids are unique and none of them has one of the generated shapes
`<uid>_(k/n)`, `Edfa_<uid>`, `Edfa_booster_<roadm>_to_<uid>`, `Edfa_preamp_<roadm>_from_<uid>`, then the uids of the
designed network are unique. What is missing is the injectivity of the string formatting. -/
theorem names_unique_partial {α : Type} [Add α] [Sub α] [Mul α] [Div α] [Neg α] [NatCast α] [LT α] [LE α]
    [DecidableLT α] [DecidableLE α] [Transc α] (c : SplitCfg α) (ch : Chain α) :
    let m := omsKind ch.srcKind ch.srcBands (splitLine c ch.line)
    let mid := addBooster ch.src ch.srcKind m (addPreamp ch.dst ch.dstKind m (splitLine c ch.line))
    (mid.map Elem.uid ++ inlineNames mid).Nodup → ((addMissingLine c ch).map Elem.uid).Nodup := by
  intro m mid h
  exact (addInline_uids m mid).nodup_iff.mpr h

/-- **Every amplifier ends up with a gain, an output VOA and — in power mode — a power offset and target**: the
operating point `set_one_amplifier` computes is total (gain, `out_voa`, `in_voa` are plain numbers for every
input), and `delta_p`, `target_pch_out_dbm` are set exactly in power mode.  (That the type_variety is a library
model is property C10.) -/
theorem amps_complete [Rint ℝ] (c : Cfg ℝ) (pref prefTotal pd pv : ℝ) (a : AmpIn ℝ) :
    (c.powerMode = true → (ampStep c pref prefTotal pd pv a).deltaP.isSome = true ∧
                          (ampStep c pref prefTotal pd pv a).targetPch.isSome = true) ∧
    (c.powerMode = false → (ampStep c pref prefTotal pd pv a).deltaP = none ∧
                           (ampStep c pref prefTotal pd pv a).targetPch = none) := by
  constructor
  · intro h
    cases hd : a.user.deltaP <;> simp [ampStep, h, hd]
  · intro h
    simp [ampStep, h]

/-! ### non-vacuity -/

/-- the hypotheses of `calcNewLength_spec` / `calcNewLength_long` hold for the shipped configuration
(bounds 50–150 km, target 90 km) and a 300 km fibre, which becomes 3 × 100 km -/
example : calcNewLength 5 (300000:ℝ) 50000 150000 90000 = (100000, 3) := by
  norm_num [calcNewLength, calcWith, floorDiv, floorDivAux, inBounds]

example : (0:ℝ) < 300000 ∧ (0:ℝ) < 90000 ∧ (90000:ℝ) ≤ 150000 ∧ (300000:ℝ) < ((5 + 1 : Nat) : ℝ) * 90000 := by
  norm_num

/-- the hypotheses of `padding_reached` / `padRun_dsl` / `padRun_idempotent` are satisfiable: Fiber–Fused–Fiber -/
example : ∃ (r : List (Elem ℝ)) (u : String) (p : FiberP ℝ) (v : String) (q : FiberP ℝ) (t : List (Elem ℝ)),
    r = .fiber v q :: t ∧ r.getLast? = some (.fiber u p) ∧ p.raman = false ∧ runLoss r < 10 := by
  let f : FiberP ℝ := { length := 10, lossCoef := 0.2, conIn := some 0, conOut := some 0, attIn := 1.5,
                        lumps := [], raman := false, ramanGain := none, dsl := none }
  refine ⟨[.fiber "a" f, .fused "x" 1, .fiber "b" f], "b", f, "a", f, _, rfl, by simp, rfl, ?_⟩
  simp only [runLoss_eq]; norm_num [f, Elem.loss, FiberP.loss, FiberP.lumped, sumLeft_eq_sum, Elem.ramanGain]

end Gnpy.Chain
