import GnpyModel
import GnpyProofs.Lemmas.Db
import GnpyProofs.Lemmas.Spectrum
import GnpyProofs.Props.C01
/- Property theorems for C02 — signal quality never improves along a path; passive elements leave it
   unchanged.  Model: GnpyModel/Spectrum.lean.  All statements over ℝ.

   The three figures are `snrLin = s/a` (OSNR_ASE), `snrNli = s/n`, `gsnr = s/(a+n)`.  While a noise share is still
   zero the figure is +∞ in the code (numpy division) – to state monotonicity for *every* state the theorems are
   first given for the inverse figures `nsrAse = a/s`, `nsrNli = n/s`, `nsr = (a+n)/s` (non-decreasing), then for
   the figures themselves where they are finite. -/
namespace Gnpy.Spectrum
open Chan

/-! ### attenuation and gain do not touch the shares -/

/-- attenuation / gain (linear or dB) leave the three shares literally unchanged -/
theorem attLin_ratios (c : Chan ℝ) (g : ℝ) :
    (c.attLin g).s = c.s ∧ (c.attLin g).a = c.a ∧ (c.attLin g).n = c.n := ⟨rfl, rfl, rfl⟩
theorem attDb_ratios (c : Chan ℝ) (d : ℝ) :
    (c.attDb d).s = c.s ∧ (c.attDb d).a = c.a ∧ (c.attDb d).n = c.n := ⟨rfl, rfl, rfl⟩
theorem gainLin_ratios (c : Chan ℝ) (g : ℝ) :
    (c.gainLin g).s = c.s ∧ (c.gainLin g).a = c.a ∧ (c.gainLin g).n = c.n := ⟨rfl, rfl, rfl⟩
theorem gainDb_ratios (c : Chan ℝ) (d : ℝ) :
    (c.gainDb d).s = c.s ∧ (c.gainDb d).a = c.a ∧ (c.gainDb d).n = c.n := ⟨rfl, rfl, rfl⟩

/-- equal shares give equal figures (all three, and their inverses) -/
theorem figures_of_ratios (c c' : Chan ℝ) (hs : c'.s = c.s) (ha : c'.a = c.a) (hn : c'.n = c.n) :
    c'.gsnr = c.gsnr ∧ c'.snrLin = c.snrLin ∧ c'.snrNli = c.snrNli ∧
    c'.nsr = c.nsr ∧ c'.nsrAse = c.nsrAse ∧ c'.nsrNli = c.nsrNli := by
  simp only [gsnr, snrLin, snrNli, nsr, nsrAse, nsrNli, hs, ha, hn, and_self]

/-- a run of attenuations and gains only -/
def Passive : List (Op ℝ) → Prop
  | [] => True
  | .attLin _ :: r => Passive r
  | .attDb _ :: r => Passive r
  | .gainLin _ :: r => Passive r
  | .gainDb _ :: r => Passive r
  | _ :: _ => False

/-- **passive op lists leave the shares – hence GSNR, OSNR_ASE and SNR_NLI – exactly unchanged** -/
theorem passive_unchanged (ops : List (Op ℝ)) (c : Chan ℝ) (h : Passive ops) :
    (run ops c).s = c.s ∧ (run ops c).a = c.a ∧ (run ops c).n = c.n := by
  induction ops generalizing c with
  | nil => exact ⟨rfl, rfl, rfl⟩
  | cons o r ih =>
    cases o <;> simp only [Passive] at h
    all_goals (rw [run_cons]; exact ih _ h)

/-! ### adding ASE -/

/-- ASE does not touch SNR_NLI -/
theorem addAse_snrNli_eq (c : Chan ℝ) (e : ℝ) (hp : 0 < c.p) (he : 0 ≤ e) :
    (c.addAse e).snrNli = c.snrNli ∧ (c.addAse e).nsrNli = c.nsrNli := by
  have hp' : 0 < c.p + e := by linarith
  have hk : c.p / (c.p + e) ≠ 0 := by positivity
  simp only [addAse, snrNli, nsrNli]
  exact ⟨mul_div_mul_right _ _ hk, mul_div_mul_right _ _ hk⟩

/-- ASE raises the ASE-to-signal ratio by exactly `e / signal power` -/
theorem addAse_nsrAse (c : Chan ℝ) (e : ℝ) (hp : 0 < c.p) (hs : 0 < c.s) (he : 0 ≤ e) :
    (c.addAse e).nsrAse = c.nsrAse + e / c.signal := by
  have hp' : c.p + e ≠ 0 := by linarith
  simp only [addAse, nsrAse, signal]
  field_simp

theorem addAse_nsrAse_ge (c : Chan ℝ) (e : ℝ) (hp : 0 < c.p) (hs : 0 < c.s) (he : 0 ≤ e) :
    c.nsrAse ≤ (c.addAse e).nsrAse := by
  rw [addAse_nsrAse c e hp hs he]
  have : 0 ≤ e / c.signal := by simp only [signal]; positivity
  linarith

/-- OSNR_ASE can only go down when ASE is added (stated where it is finite) -/
theorem addAse_snr_le (c : Chan ℝ) (e : ℝ) (hp : 0 < c.p) (hs : 0 < c.s) (ha : 0 < c.a) (he : 0 ≤ e) :
    (c.addAse e).snrLin ≤ c.snrLin := by
  have h := addAse_nsrAse_ge c e hp hs he
  have h0 : 0 < c.nsrAse := by simp only [nsrAse]; positivity
  have e1 : c.snrLin = 1 / c.nsrAse := by simp only [snrLin, nsrAse, one_div, inv_div]
  have e2 : (c.addAse e).snrLin = 1 / (c.addAse e).nsrAse := by simp only [snrLin, nsrAse, one_div, inv_div]
  rw [e1, e2]
  exact one_div_le_one_div_of_le h0 h

theorem nsr_eq (c : Chan ℝ) : c.nsr = c.nsrAse + c.nsrNli := nsr_split c

theorem addAse_nsr_ge (c : Chan ℝ) (e : ℝ) (hp : 0 < c.p) (hs : 0 < c.s) (he : 0 ≤ e) :
    c.nsr ≤ (c.addAse e).nsr := by
  rw [nsr_eq, nsr_eq, (addAse_snrNli_eq c e hp he).2]
  have := addAse_nsrAse_ge c e hp hs he
  linarith

theorem inv_figures (c : Chan ℝ) : c.gsnr = 1 / c.nsr ∧ c.snrLin = 1 / c.nsrAse ∧ c.snrNli = 1 / c.nsrNli := by
  simp only [gsnr, snrLin, snrNli, nsr, nsrAse, nsrNli, one_div, inv_div, and_self]

/-- GSNR can only go down when ASE is added -/
theorem addAse_gsnr_le (c : Chan ℝ) (e : ℝ) (hp : 0 < c.p) (hs : 0 < c.s) (hno : 0 < c.a + c.n) (he : 0 ≤ e) :
    (c.addAse e).gsnr ≤ c.gsnr := by
  have h := addAse_nsr_ge c e hp hs he
  have h0 : 0 < c.nsr := by simp only [nsr]; positivity
  rw [(inv_figures c).1, (inv_figures (c.addAse e)).1]
  exact one_div_le_one_div_of_le h0 h

/-! ### adding NLI -/

/-- NLI does not touch OSNR_ASE (signal and ASE are reduced by the same factor) -/
theorem addNli_snr_eq (c : Chan ℝ) (x : ℝ) (hp : 0 < c.p) (hx : x < c.p) :
    (c.addNli x).snrLin = c.snrLin ∧ (c.addNli x).nsrAse = c.nsrAse := by
  have hr : x / c.p < 1 := by rw [div_lt_one hp]; exact hx
  have hk : (1:ℝ) - x / c.p ≠ 0 := by linarith
  simp only [addNli, snrLin, nsrAse, Nat.cast_one]
  exact ⟨mul_div_mul_right _ _ hk, mul_div_mul_right _ _ hk⟩

/-- NLI raises the NLI-to-signal ratio by exactly `r / (s·(1−r))`, `r = x / p` -/
theorem addNli_nsrNli (c : Chan ℝ) (x : ℝ) (hp : 0 < c.p) (hs : 0 < c.s) (hx : x < c.p) :
    (c.addNli x).nsrNli = c.nsrNli + (x / c.p) / (c.s * (1 - x / c.p)) := by
  have hr : x / c.p < 1 := by rw [div_lt_one hp]; exact hx
  have hk : (1:ℝ) - x / c.p ≠ 0 := by linarith
  have hs' : c.s ≠ 0 := ne_of_gt hs
  have hpx : c.p - x ≠ 0 := by linarith
  simp only [addNli, nsrNli, Nat.cast_one]
  field_simp

theorem addNli_nsrNli_ge (c : Chan ℝ) (x : ℝ) (hp : 0 < c.p) (hs : 0 < c.s) (hx0 : 0 ≤ x) (hx : x < c.p) :
    c.nsrNli ≤ (c.addNli x).nsrNli := by
  rw [addNli_nsrNli c x hp hs hx]
  have hr : x / c.p < 1 := by rw [div_lt_one hp]; exact hx
  have h1 : 0 < 1 - x / c.p := by linarith
  have : 0 ≤ (x / c.p) / (c.s * (1 - x / c.p)) := by positivity
  linarith

/-- SNR_NLI can only go down when NLI is added (stated where it is finite) -/
theorem addNli_snrNli_le (c : Chan ℝ) (x : ℝ) (hp : 0 < c.p) (hs : 0 < c.s) (hn : 0 < c.n) (hx0 : 0 ≤ x)
    (hx : x < c.p) : (c.addNli x).snrNli ≤ c.snrNli := by
  have h := addNli_nsrNli_ge c x hp hs hx0 hx
  have h0 : 0 < c.nsrNli := by simp only [nsrNli]; positivity
  rw [(inv_figures c).2.2, (inv_figures (c.addNli x)).2.2]
  exact one_div_le_one_div_of_le h0 h

theorem addNli_nsr_ge (c : Chan ℝ) (x : ℝ) (hp : 0 < c.p) (hs : 0 < c.s) (hx0 : 0 ≤ x) (hx : x < c.p) :
    c.nsr ≤ (c.addNli x).nsr := by
  rw [nsr_eq, nsr_eq, (addNli_snr_eq c x hp hx).2]
  have := addNli_nsrNli_ge c x hp hs hx0 hx
  linarith

theorem addNli_gsnr_le (c : Chan ℝ) (x : ℝ) (hp : 0 < c.p) (hs : 0 < c.s) (hno : 0 < c.a + c.n) (hx0 : 0 ≤ x)
    (hx : x < c.p) : (c.addNli x).gsnr ≤ c.gsnr := by
  have h := addNli_nsr_ge c x hp hs hx0 hx
  have h0 : 0 < c.nsr := by simp only [nsr]; positivity
  rw [(inv_figures c).1, (inv_figures (c.addNli x)).1]
  exact one_div_le_one_div_of_le h0 h

/-! ### monotonicity along every run and every path -/

/-- "no better than": each of the three noise-to-signal ratios of `c'` is at least that of `c` -/
def Worse (c c' : Chan ℝ) : Prop := c.nsrAse ≤ c'.nsrAse ∧ c.nsrNli ≤ c'.nsrNli ∧ c.nsr ≤ c'.nsr

theorem worse_refl (c : Chan ℝ) : Worse c c := ⟨le_refl _, le_refl _, le_refl _⟩
theorem worse_trans {a b c : Chan ℝ} (h1 : Worse a b) (h2 : Worse b c) : Worse a c :=
  ⟨le_trans h1.1 h2.1, le_trans h1.2.1 h2.2.1, le_trans h1.2.2 h2.2.2⟩

theorem worse_of_ratios (c c' : Chan ℝ) (hs : c'.s = c.s) (ha : c'.a = c.a) (hn : c'.n = c.n) : Worse c c' := by
  obtain ⟨_, _, _, h1, h2, h3⟩ := figures_of_ratios c c' hs ha hn
  exact ⟨le_of_eq h2.symm, le_of_eq h3.symm, le_of_eq h1.symm⟩

/-- one guarded mutating call never improves any of the three figures -/
theorem step_monotone (c : Chan ℝ) (o : Op ℝ) (h : Live c) (ho : OpOk c o) : Worse c (step c o) := by
  have hp := h.1.1
  cases o with
  | attLin g => exact worse_of_ratios _ _ rfl rfl rfl
  | attDb d => exact worse_of_ratios _ _ rfl rfl rfl
  | gainLin g => exact worse_of_ratios _ _ rfl rfl rfl
  | gainDb d => exact worse_of_ratios _ _ rfl rfl rfl
  | addAse e =>
    exact ⟨addAse_nsrAse_ge c e hp h.2 ho, le_of_eq (addAse_snrNli_eq c e hp ho).2.symm, addAse_nsr_ge c e hp h.2 ho⟩
  | addNli x =>
    exact ⟨le_of_eq (addNli_snr_eq c x hp ho.2).2.symm, addNli_nsrNli_ge c x hp h.2 ho.1 ho.2,
           addNli_nsr_ge c x hp h.2 ho.1 ho.2⟩

/-- **C02, every operation sequence**: GSNR, OSNR_ASE and SNR_NLI (as inverse figures) are monotone along the run -/
theorem run_monotone (ops : List (Op ℝ)) (c : Chan ℝ) (h : Live c) (hok : RunOk ops c) : Worse c (run ops c) := by
  induction ops generalizing c with
  | nil => exact worse_refl c
  | cons o r ih =>
    exact worse_trans (step_monotone c o h hok.1) (ih (step c o) (step_live c o h hok.1) hok.2)

/-- the figures themselves, where finite, are non-increasing along every run -/
theorem run_figures_antitone (ops : List (Op ℝ)) (c : Chan ℝ) (h : Live c) (hok : RunOk ops c) :
    (0 < c.a → (run ops c).snrLin ≤ c.snrLin) ∧ (0 < c.n → (run ops c).snrNli ≤ c.snrNli) ∧
    (0 < c.a + c.n → (run ops c).gsnr ≤ c.gsnr) := by
  obtain ⟨h1, h2, h3⟩ := run_monotone ops c h hok
  have hs := h.2
  refine ⟨fun ha => ?_, fun hn => ?_, fun hno => ?_⟩
  · have h0 : 0 < c.nsrAse := by simp only [nsrAse]; positivity
    rw [(inv_figures c).2.1, (inv_figures (run ops c)).2.1]
    exact one_div_le_one_div_of_le h0 h1
  · have h0 : 0 < c.nsrNli := by simp only [nsrNli]; positivity
    rw [(inv_figures c).2.2, (inv_figures (run ops c)).2.2]
    exact one_div_le_one_div_of_le h0 h2
  · have h0 : 0 < c.nsr := by simp only [nsr]; positivity
    rw [(inv_figures c).1, (inv_figures (run ops c)).1]
    exact one_div_le_one_div_of_le h0 h3

theorem path_append (l r : List (Elem ℝ)) (c : Chan ℝ) : path (l ++ r) c = path r (path l c) := by
  simp [path, List.foldl_append]

theorem pathOk_append (l r : List (Elem ℝ)) (c : Chan ℝ) :
    PathOk (l ++ r) c ↔ PathOk l c ∧ PathOk r (path l c) := by
  induction l generalizing c with
  | nil => simp [PathOk, path_nil]
  | cons e l ih => simp [PathOk, path_cons, ih, and_assoc]

theorem path_live (es : List (Elem ℝ)) (c : Chan ℝ) (h : Live c) (hok : PathOk es c) : Live (path es c) := by
  rw [path_eq_run]; exact run_live _ c h ((pathOk_iff es c).1 hok)

/-- **C02, every path, from element to element**: after any prefix `l` of a path the figures are no
better than at the start, and after any longer prefix `l ++ r` no better than after `l` -/
theorem path_monotone (l r : List (Elem ℝ)) (c : Chan ℝ) (h : Live c) (hok : PathOk (l ++ r) c) :
    Worse c (path l c) ∧ Worse (path l c) (path (l ++ r) c) := by
  obtain ⟨hl, hr⟩ := (pathOk_append l r c).1 hok
  refine ⟨?_, ?_⟩
  · rw [path_eq_run]; exact run_monotone _ c h ((pathOk_iff l c).1 hl)
  · rw [path_append, path_eq_run r]
    exact run_monotone _ _ (path_live l c h hl) ((pathOk_iff r _).1 hr)

/-! ### element corollaries -/

/-- a ROADM leaves all three figures exactly unchanged (whatever its loss and equalisation) -/
theorem roadm_unchanged (ml d : ℝ) (c : Chan ℝ) :
    ((Elem.roadm ml d).apply c).s = c.s ∧ ((Elem.roadm ml d).apply c).a = c.a ∧ ((Elem.roadm ml d).apply c).n = c.n :=
  ⟨rfl, rfl, rfl⟩

/-- a fused attenuator / connector / padding loss leaves all three figures exactly unchanged -/
theorem fused_unchanged (l : ℝ) (c : Chan ℝ) :
    ((Elem.fused l).apply c).s = c.s ∧ ((Elem.fused l).apply c).a = c.a ∧ ((Elem.fused l).apply c).n = c.n :=
  ⟨rfl, rfl, rfl⟩

theorem trx_unchanged (c : Chan ℝ) : (Elem.trx : Elem ℝ).apply c = c := rfl

theorem passive_elements_figures (c : Chan ℝ) (ml d l : ℝ) :
    ((Elem.roadm ml d).apply c).gsnr = c.gsnr ∧ ((Elem.roadm ml d).apply c).snrLin = c.snrLin ∧
    ((Elem.roadm ml d).apply c).snrNli = c.snrNli ∧
    ((Elem.fused l).apply c).gsnr = c.gsnr ∧ ((Elem.fused l).apply c).snrLin = c.snrLin ∧
    ((Elem.fused l).apply c).snrNli = c.snrNli := ⟨rfl, rfl, rfl, rfl, rfl, rfl⟩

/-- **an amplifier can only lower OSNR_ASE**: SNR_NLI is exactly unchanged, the ASE-to-signal ratio does not decrease -/
theorem edfa_only_osnr (v : Option ℝ) (e g : ℝ) (c : Chan ℝ) (h : Live c) (he : 0 ≤ e) :
    ((Elem.edfa v e g).apply c).snrNli = c.snrNli ∧ ((Elem.edfa v e g).apply c).nsrNli = c.nsrNli ∧
    c.nsrAse ≤ ((Elem.edfa v e g).apply c).nsrAse := by
  cases v with
  | none =>
    have hp := h.1.1
    refine ⟨(addAse_snrNli_eq c e hp he).1, (addAse_snrNli_eq c e hp he).2, addAse_nsrAse_ge c e hp h.2 he⟩
  | some v =>
    have hl : Live (c.attDb v) := ⟨attDb_inv c v h.1, h.2⟩
    have hp := hl.1.1
    refine ⟨(addAse_snrNli_eq (c.attDb v) e hp he).1, (addAse_snrNli_eq (c.attDb v) e hp he).2,
            addAse_nsrAse_ge (c.attDb v) e hp hl.2 he⟩

/-- **a (non-Raman) fibre can only lower SNR_NLI**: OSNR_ASE is exactly unchanged -/
theorem fiber_only_nli (i x f o : ℝ) (c : Chan ℝ) (h : Live c) (hx0 : 0 ≤ x) (hx : x < (c.attDb i).p) :
    ((Elem.fiber i x f o).apply c).snrLin = c.snrLin ∧ ((Elem.fiber i x f o).apply c).nsrAse = c.nsrAse ∧
    c.nsrNli ≤ ((Elem.fiber i x f o).apply c).nsrNli := by
  have hl : Live (c.attDb i) := ⟨attDb_inv c i h.1, h.2⟩
  have hp := hl.1.1
  exact ⟨(addNli_snr_eq (c.attDb i) x hp hx).1, (addNli_snr_eq (c.attDb i) x hp hx).2,
         addNli_nsrNli_ge (c.attDb i) x hp hl.2 hx0 hx⟩

/-- a Raman fibre adds both kinds of noise: neither figure improves -/
theorem raman_monotone (i x e f o : ℝ) (c : Chan ℝ) (h : Live c) (hx0 : 0 ≤ x) (hx : x < (c.attDb i).p)
    (he : 0 ≤ e) (hf : 0 < f) : Worse c ((Elem.raman i x e f o).apply c) :=
  run_monotone _ c h ⟨trivial, ⟨hx0, hx⟩, he, hf, trivial, trivial⟩

/-- through a multiband amplifier every channel keeps its SNR_NLI and its OSNR_ASE does not improve -/
theorem multiband_only_osnr (amps : List ((Int → Bool) × (Int → Elem ℝ))) (sp out : List (Int × Chan ℝ))
    (h : multiband amps sp = some out) (hlive : ∀ kc ∈ sp, Live kc.2)
    (hedfa : ∀ bf ∈ amps, ∀ f, ∃ v e g, bf.2 f = Elem.edfa v e g ∧ 0 ≤ e) :
    ∀ kc ∈ out, ∃ c, (kc.1, c) ∈ sp ∧ kc.2.nsrNli = c.nsrNli ∧ c.nsrAse ≤ kc.2.nsrAse := by
  intro kc hkc
  obtain ⟨bf, hbf, c, hc, _, heq⟩ := multiband_mem amps sp out h kc hkc
  obtain ⟨v, e, g, hel, he⟩ := hedfa bf hbf kc.1
  refine ⟨c, hc, ?_, ?_⟩
  · rw [heq, hel]; exact (edfa_only_osnr v e g c (hlive _ hc) he).2.1
  · rw [heq, hel]; exact (edfa_only_osnr v e g c (hlive _ hc) he).2.2

/-- a spectrum through one element: channel by channel no figure improves -/
theorem applyElems_monotone (es : List (Elem ℝ)) (sp : List (Chan ℝ))
    (h : List.Forall₂ (fun e c => Live c ∧ RunOk e.ops c) es sp) :
    List.Forall₂ (fun c c' => Worse c c') sp (applyElems es sp) := by
  induction h with
  | nil => exact List.Forall₂.nil
  | cons hd _ ih =>
    simp only [applyElems, List.zipWith_cons_cons]
    exact List.Forall₂.cons (run_monotone _ _ hd.1 hd.2) ih


/-! ### non-vacuity -/

/-- a guarded path ROADM → amplifier → fibre → amplifier exists (hypotheses of `path_monotone`) -/
example : PathOk [Elem.roadm 0 0, Elem.edfa (some 0) (1/1000000000) 20, Elem.fiber 0 (1/100000000) (1/100) 0,
                  Elem.edfa none (1/1000000000) 20]
    ({ p := 1/1000, s := 1, a := 0, n := 0 } : Chan ℝ) := by
  have h20 : (1:ℝ) < db2lin 20 := by rw [← db2lin_zero]; exact (db2lin_lt_iff 0 20).2 (by norm_num)
  have h0 : db2lin (0:ℝ) = 1 := db2lin_zero
  refine ⟨⟨trivial, trivial, trivial⟩, ⟨trivial, ?_, trivial, trivial⟩, ⟨trivial, ⟨?_, ?_⟩, ?_, trivial, trivial⟩,
          ⟨?_, trivial, trivial⟩, trivial⟩
  · show (0:ℝ) ≤ 1/1000000000; norm_num
  · show (0:ℝ) ≤ 1/100000000; norm_num
  · -- the NLI (1e-8 W) is below the power entering the fibre, (1e-3 + 1e-9)·db2lin 20 > 1e-3
    simp only [Elem.apply, Elem.ops, roadmOps, edfaOps, run, List.foldl, step, attDb, attLin, gainDb, gainLin, addAse,
      List.cons_append, List.nil_append, Nat.cast_one, h0]
    nlinarith
  · show (0:ℝ) < 1/100; norm_num
  · show (0:ℝ) ≤ 1/1000000000; norm_num

example : Live ({ p := 1/1000, s := 1, a := 0, n := 0 } : Chan ℝ) :=
  ⟨⟨by norm_num, by norm_num, by norm_num, by norm_num, by norm_num⟩, by norm_num⟩

end Gnpy.Spectrum
