import GnpyModel
import GnpyProofs.Lemmas.RoundHE
import GnpyProofs.Lemmas.Response
/- Property theorems for C19 — the reported response states exactly what was computed for each request.
   Model: GnpyModel/Response.lean. -/
namespace Gnpy.Response
open Gnpy.HE
open Gnpy.Verdict (Pen)
set_option linter.unusedSectionVars false

/-! ### every request once, under its id -/

theorem pathResult_id (req : Req ℝ) (path : List El) (fwd rev : Option (Recv ℝ)) (j : J ℝ)
    (h : pathResult req path fwd rev = .ok j) : j.get? "response-id" = some (.str req.id) := by
  unfold pathResult at h
  cases hb : req.blocking with
  | none =>
    rw [hb] at h; simp only at h
    cases hp : pathProperties req path fwd rev with
    | error e => rw [hp] at h; simp at h
    | ok p => rw [hp] at h; simp only [Except.ok.injEq] at h; subst h; simp [J.get?]
  | some b =>
    rw [hb] at h; simp only at h
    split at h
    · simp only [Except.ok.injEq] at h; subst h; simp [J.get?]
    · cases hp : pathProperties req path fwd rev with
      | error e => rw [hp] at h; simp at h
      | ok p => rw [hp] at h; simp only [Except.ok.injEq] at h; subst h; simp [J.get?]

theorem mapM_ok_length {β γ : Type} (f : β → Except String γ) (l : List β) (out : List γ)
    (h : l.mapM f = .ok out) : out.length = l.length ∧ ∀ i (hi : i < l.length) (ho : i < out.length),
      f l[i] = .ok out[i] := by
  induction l generalizing out with
  | nil => simp [List.mapM_nil, pure, Except.pure] at h; subst h; simp
  | cons x xs ih =>
    rw [List.mapM_cons] at h
    cases hx : f x with
    | error e => rw [hx] at h; simp [bind, Except.bind] at h
    | ok y =>
      rw [hx] at h
      cases hxs : xs.mapM f with
      | error e => rw [hxs] at h; simp [bind, Except.bind] at h
      | ok ys =>
        rw [hxs] at h
        simp only [bind, Except.bind, pure, Except.pure, Except.ok.injEq] at h
        subst h
        obtain ⟨h1, h2⟩ := ih ys hxs
        refine ⟨by simp [h1], ?_⟩
        intro i hi ho
        cases i with
        | zero => simpa using hx
        | succ k => simpa using h2 k (by simpa using hi) (by simpa using ho)

/-- **one response per request**: the response list has exactly one entry per (aggregated) request, in order, and
entry `i` carries the id of request `i` -/
theorem one_response_per_request (rs : List (Res ℝ)) (out : List (J ℝ)) (h : resultsToJson rs = .ok out) :
    out.length = rs.length ∧
    ∀ i (hi : i < rs.length) (ho : i < out.length), out[i].get? "response-id" = some (.str rs[i].req.id) := by
  obtain ⟨h1, h2⟩ := mapM_ok_length _ rs out h
  exact ⟨h1, fun i hi ho => pathResult_id _ _ _ _ _ (h2 i hi ho)⟩

/-! ### aggregation -/

/-- **aggregation_spec.** For any request list with distinct positions whose entries are consistent with per-id
bandwidth / N / M tables (in particular the initial list, every request being its own single component):
the id components of the output are a permutation of those of the input (every input id in exactly one output
id when the input ids are distinct), the total bandwidth is conserved, and every output request carries the joined
id of its components, the SUM of their bandwidths and the concatenation of their N and M. -/
theorem aggregation_spec {κ : Type} [DecidableEq κ] (bw0 : String → ℝ) (n0 m0 : String → List (Option Int))
    (rs : List (AReq κ ℝ)) (hnd : (rs.map (·.pos)).Nodup) (hc : ∀ r ∈ rs, Consistent bw0 n0 m0 r) :
    (allParts (requestsAggregation rs)).Perm (allParts rs) ∧
    totalBw (requestsAggregation rs) = totalBw rs ∧
    ∀ r ∈ requestsAggregation rs,
      r.idStr = " | ".intercalate r.parts ∧ r.bw = (r.parts.map bw0).sum ∧
      r.n = r.parts.flatMap n0 ∧ r.m = r.parts.flatMap m0 := by
  have hinv : Inv bw0 n0 m0 rs rs := ⟨hnd, List.Perm.refl _, rfl, hc⟩
  have h := foldl_aggStep_inv bw0 n0 m0 rs rs (List.range rs.length) hinv
  refine ⟨h.parts, h.bw, ?_⟩
  intro r hr
  obtain ⟨a, b, c⟩ := h.cons r hr
  exact ⟨rfl, a, b, c⟩

/-- with distinct input ids every input id sits in exactly one output id -/
theorem aggregation_exactly_once {κ : Type} [DecidableEq κ] (bw0 : String → ℝ) (n0 m0 : String → List (Option Int))
    (rs : List (AReq κ ℝ)) (hnd : (rs.map (·.pos)).Nodup) (hc : ∀ r ∈ rs, Consistent bw0 n0 m0 r)
    (hids : (allParts rs).Nodup) (x : String) (hx : x ∈ allParts rs) :
    (allParts (requestsAggregation rs)).count x = 1 := by
  have hp := (aggregation_spec bw0 n0 m0 rs hnd hc).1
  rw [hp.count_eq]
  exact List.count_eq_one_of_mem hids hx

/-! ### shapes -/

/-- **blocked, no path**: only the id and the reason -/
theorem blocked_nopath_shape (req : Req ℝ) (path : List El) (fwd rev : Option (Recv ℝ)) (b : String)
    (hb : req.blocking = some b) (hn : blockingNoPath.contains b = true) :
    pathResult req path fwd rev =
      .ok (.obj [("response-id", .str req.id), ("no-path", .obj [("no-path", .str b)])]) := by
  have hn' : b ∈ blockingNoPath := by simpa using hn
  simp [pathResult, hb, hn']

/-- no route object produced for a blocked request carries a label hop -/
theorem hopObjs_no_labels (tsp : String) (mode : Option String) (idx : Nat) (path : List El) :
    ∀ o ∈ hopObjs (α := ℝ) tsp mode none idx path, (proOf o).hasKey "label-hop" = false := by
  induction path generalizing idx with
  | nil => simp [hopObjs]
  | cons e rest ih =>
    intro o ho
    simp only [hopObjs, List.mem_cons, List.nil_append, List.length_nil, Nat.add_zero] at ho
    rcases ho with ho | ho
    · subst ho; simp [proOf, pro, J.get?, J.hasKey, List.lookup]
    · rcases List.mem_append.1 ho with ho | ho
      · by_cases ht : e.isTrx = true
        · simp only [ht, if_true, List.mem_singleton] at ho
          subst ho; simp [proOf, pro, J.get?, J.hasKey, List.lookup]
        · simp [ht] at ho
      · exact ih _ o ho

/-- **blocked with properties**: the reason is present, the path properties are attached under `no-path`, and no
route object carries N/M labels (a blocked request that still has N or M is refused with ServiceError) -/
theorem blocked_shape (req : Req ℝ) (path : List El) (fwd rev : Option (Recv ℝ)) (b : String) (j : J ℝ)
    (hb : req.blocking = some b) (hn : blockingNoPath.contains b = false)
    (h : pathResult req path fwd rev = .ok j) :
    ∃ p d, pathProperties req path fwd rev = .ok p ∧
      j = .obj [("response-id", .str req.id), ("no-path", .obj [("no-path", .str b), ("path-properties", p)])] ∧
      p.get? "path-route-objects" = some (.arr d) ∧
      (∀ o ∈ d, (proOf o).hasKey "label-hop" = false) ∧
      (path ≠ [] → req.n = none ∧ req.m = none) := by
  unfold pathResult at h
  rw [hb] at h; simp only [hn] at h
  cases hp : pathProperties req path fwd rev with
  | error e => rw [hp] at h; simp at h
  | ok p =>
    rw [hp] at h
    simp only [Bool.false_eq_true, if_false, Except.ok.injEq] at h
    -- analyse pathProperties
    have hd : ∃ d, detailedPath req path = .ok d ∧ p.get? "path-route-objects" = some (.arr d) := by
      unfold pathProperties at hp
      cases fwd with
      | none => simp at hp
      | some f =>
        simp only at hp
        split at hp
        · cases rev with
          | none => simp at hp
          | some r =>
            simp only at hp
            cases hdp : detailedPath req path with
            | error e => rw [hdp] at hp; simp at hp
            | ok d => rw [hdp] at hp; simp only [Except.ok.injEq] at hp; subst hp; exact ⟨d, rfl, by simp [J.get?, List.lookup]⟩
        · cases hdp : detailedPath req path with
          | error e => rw [hdp] at hp; simp at hp
          | ok d => rw [hdp] at hp; simp only [Except.ok.injEq] at hp; subst hp; exact ⟨d, rfl, by simp [J.get?, List.lookup]⟩
    obtain ⟨d, hdp, hget⟩ := hd
    refine ⟨p, d, rfl, h.symm, hget, ?_, ?_⟩
    · unfold detailedPath at hdp
      cases path with
      | nil => simp only [Except.ok.injEq] at hdp; subst hdp; simp
      | cons e rest =>
        simp only [hb] at hdp
        cases hn' : req.n <;> cases hm' : req.m <;> rw [hn', hm'] at hdp <;> simp at hdp
        subst hdp
        exact hopObjs_no_labels _ _ _ _
    · intro hne
      unfold detailedPath at hdp
      cases path with
      | nil => exact absurd rfl hne
      | cons e rest =>
        simp only [hb] at hdp
        cases hn' : req.n <;> cases hm' : req.m <;> rw [hn', hm'] at hdp <;> simp at hdp
        exact ⟨rfl, rfl⟩

/-- **served**: id and path properties only; route objects are, for every element of the propagated path in order,
the hop, then the label hop with the assigned (N, M) pairs, then — on transceivers — the transponder object with
the request's type and mode; indices count up from 0 -/
theorem served_shape (req : Req ℝ) (path : List El) (fwd rev : Option (Recv ℝ)) (j : J ℝ)
    (hb : req.blocking = none) (hne : path ≠ []) (h : pathResult req path fwd rev = .ok j) :
    ∃ p n m, pathProperties req path fwd rev = .ok p ∧ req.n = some n ∧ req.m = some m ∧
      j = .obj [("response-id", .str req.id), ("path-properties", p)] ∧
      p.get? "path-route-objects" = some (.arr (hopObjs req.tsp req.tspMode
        (some (.arr ((n.zip m).map (fun nm => .obj [("N", jOptInt nm.1), ("M", jOptInt nm.2)])))) 0 path)) := by
  unfold pathResult at h
  rw [hb] at h; simp only at h
  cases hp : pathProperties req path fwd rev with
  | error e => rw [hp] at h; simp at h
  | ok p =>
    rw [hp] at h
    simp only [Except.ok.injEq] at h
    have hd : ∃ d, detailedPath req path = .ok d ∧ p.get? "path-route-objects" = some (.arr d) := by
      unfold pathProperties at hp
      cases fwd with
      | none => simp at hp
      | some f =>
        simp only at hp
        split at hp
        · cases rev with
          | none => simp at hp
          | some r =>
            simp only at hp
            cases hdp : detailedPath req path with
            | error e => rw [hdp] at hp; simp at hp
            | ok d => rw [hdp] at hp; simp only [Except.ok.injEq] at hp; subst hp; exact ⟨d, rfl, by simp [J.get?, List.lookup]⟩
        · cases hdp : detailedPath req path with
          | error e => rw [hdp] at hp; simp at hp
          | ok d => rw [hdp] at hp; simp only [Except.ok.injEq] at hp; subst hp; exact ⟨d, rfl, by simp [J.get?, List.lookup]⟩
    obtain ⟨d, hdp, hget⟩ := hd
    unfold detailedPath at hdp
    cases path with
    | nil => exact absurd rfl hne
    | cons e rest =>
      simp only [hb] at hdp
      cases hn' : req.n with
      | none => rw [hn'] at hdp; simp at hdp
      | some n =>
        cases hm' : req.m with
        | none => rw [hn', hm'] at hdp; simp at hdp
        | some m =>
          rw [hn', hm'] at hdp
          simp only [Except.ok.injEq] at hdp
          subst hdp
          exact ⟨p, n, m, rfl, rfl, rfl, h.symm, hget⟩

/-- the transponder objects of a path carry the request's type and mode (the SELECTED mode, `tsp_mode`) -/
theorem hopObjs_transponder (tsp : String) (mode : Option String) (labels : Option (J ℝ)) (idx : Nat) (path : List El) :
    ∀ o ∈ hopObjs tsp mode labels idx path, ∀ t, (proOf o).get? "transponder" = some t →
      t = .obj [("transponder-type", .str tsp), ("transponder-mode", jOptStr mode)] := by
  induction path generalizing idx with
  | nil => simp [hopObjs]
  | cons e rest ih =>
    intro o ho t ht
    simp only [hopObjs, List.mem_cons] at ho
    rcases ho with ho | ho
    · subst ho; simp [proOf, pro, J.get?, List.lookup] at ht
    · rcases List.mem_append.1 ho with ho | ho
      · rcases List.mem_append.1 ho with ho | ho
        · cases labels with
          | none => simp at ho
          | some l =>
            simp only [List.mem_singleton] at ho
            subst ho; simp [proOf, pro, J.get?, List.lookup] at ht
        · by_cases hte : e.isTrx = true
          · simp only [hte, if_true, List.mem_singleton] at ho
            subst ho
            simp [proOf, pro, J.get?, List.lookup] at ht
            exact ht.symm
          · simp [hte] at ho
      · exact ih _ o ho t ht

/-- **bidirectional requests carry both directions**: `path-metric` is computed from the forward receiver and
`z-a-path-metric` from the REVERSE receiver; a unidirectional request has no `z-a-path-metric` -/
theorem bidir_has_both (req : Req ℝ) (path : List El) (f r : Recv ℝ) (p : J ℝ)
    (h : pathProperties req path (some f) (some r) = .ok p) :
    p.get? "path-metric" = some (pathMetric f req.power req.pathBandwidth) ∧
    (req.bidir = true → p.get? "z-a-path-metric" = some (pathMetric r req.power req.pathBandwidth)) ∧
    (req.bidir = false → p.get? "z-a-path-metric" = none) := by
  unfold pathProperties at h
  simp only at h
  cases hbd : req.bidir with
  | true =>
    rw [hbd] at h; simp only [if_true] at h
    cases hdp : detailedPath req path with
    | error e => rw [hdp] at h; simp at h
    | ok d => rw [hdp] at h; simp only [Except.ok.injEq] at h; subst h; simp [J.get?, List.lookup]
  | false =>
    rw [hbd] at h; simp only [Bool.false_eq_true, if_false] at h
    cases hdp : detailedPath req path with
    | error e => rw [hdp] at h; simp at h
    | ok d => rw [hdp] at h; simp only [Except.ok.injEq] at h; subst h; simp [J.get?, List.lookup]

/-- **metrics are the receiver's values rounded to two decimals**: each metric of a direction is read from the
receiver handed in for THAT direction -/
theorem metrics_are_receiver_values (r : Recv ℝ) (power bw : ℝ) :
    pathMetric r power bw = .arr
      [ metricEntry "SNR-bandwidth" (.num (round2 (mean r.snr))),
        metricEntry "SNR-0.1nm" (.num (round2 (mean r.snr01))),
        metricEntry "OSNR-bandwidth" (.num (round2 (mean r.osnrAse))),
        metricEntry "OSNR-0.1nm" (.num (round2 (mean r.osnrAse01))),
        metricEntry "lowest_SNR-0.1nm" (optNum (minL r.snr01)),
        metricEntry "biggest_SNR-0.1nm" (optNum (maxL r.snr01)),
        metricEntry "PDL_penalty" (penMetric r "pdl"),
        metricEntry "CD_penalty" (penMetric r "chromatic_dispersion"),
        metricEntry "PMD_penalty" (penMetric r "pmd"),
        metricEntry "reference_power" (.num power),
        metricEntry "path_bandwidth" (.num bw) ] ∧
    (∀ v, minL r.snr01 = some v → v ∈ r.snr01 ∧ ∀ x ∈ r.snr01, v ≤ x) ∧
    |round2 (mean r.snr01) - mean r.snr01| ≤ 1 / 200 := by
  refine ⟨rfl, ?_, abs_round2_sub_le _⟩
  intro v hv
  cases hl : r.snr01 with
  | nil => rw [hl] at hv; simp [minL] at hv
  | cons a rest =>
    rw [hl] at hv
    simp only [minL, Option.some.injEq] at hv
    subst hv
    have key : ∀ (l : List ℝ) (a : ℝ),
        (l.foldl (fun a b => if b < a then b else a) a ∈ a :: l) ∧
        (l.foldl (fun a b => if b < a then b else a) a ≤ a) ∧
        ∀ x ∈ l, l.foldl (fun a b => if b < a then b else a) a ≤ x := by
      intro l
      induction l with
      | nil => intro a; simp
      | cons b bs ih =>
        intro a
        simp only [List.foldl_cons]
        by_cases hba : b < a
        · simp only [hba, if_true]
          obtain ⟨i1, i2, i3⟩ := ih b
          refine ⟨?_, le_trans i2 (le_of_lt hba), ?_⟩
          · rcases List.mem_cons.1 i1 with i1 | i1
            · rw [i1]; simp
            · exact List.mem_cons_of_mem _ (List.mem_cons_of_mem _ i1)
          · intro x hx
            rcases List.mem_cons.1 hx with hx | hx
            · subst hx; exact i2
            · exact i3 x hx
        · simp only [hba, if_false]
          obtain ⟨i1, i2, i3⟩ := ih a
          refine ⟨?_, i2, ?_⟩
          · rcases List.mem_cons.1 i1 with i1 | i1
            · rw [i1]; simp
            · exact List.mem_cons_of_mem _ (List.mem_cons_of_mem _ i1)
          · intro x hx
            rcases List.mem_cons.1 hx with hx | hx
            · subst hx; exact le_trans i2 (not_lt.1 hba)
            · exact i3 x hx
    obtain ⟨k1, k2, k3⟩ := key rest a
    refine ⟨k1, ?_⟩
    intro x hx
    rcases List.mem_cons.1 hx with hx | hx
    · subst hx; exact k2
    · exact k3 x hx

/-! ### CSV -/

/-- **CSV row = response values**: the fifteen parameter columns are, in order, the response's (re-rounded)
metrics, the library's required OSNR plus the system margin, baud rate, power, hop string, spectrum string, bit
rate; the SNR min/max and penalty columns are the response's values verbatim -/
theorem csv_consistent (osnr snr snrbw smin smax pdl cd pmd power pbw : J ℝ) (mode : ModeInfo ℝ) (margin : ℝ)
    (pth sptrm : String) :
    ∃ vals, paramVals [osnr, snr, snrbw, smin, smax, pdl, cd, pmd, power, pbw] mode margin pth sptrm = some vals ∧
      (paramFields.zip vals).lookup "SNR-0.1nm (min)" = some smin ∧
      (paramFields.zip vals).lookup "SNR-0.1nm (max)" = some smax ∧
      (paramFields.zip vals).lookup "OSNR-0.1nm (average)" = some osnr ∧
      (paramFields.zip vals).lookup "SNR-0.1nm (average)" = some snr ∧
      (paramFields.zip vals).lookup "PDL_penalty" = some pdl ∧
      (paramFields.zip vals).lookup "CD_penalty" = some cd ∧
      (paramFields.zip vals).lookup "PMD_penalty" = some pmd ∧
      (paramFields.zip vals).lookup "min required OSNR (inc. margin)" = some (.num (mode.osnr + margin)) ∧
      (paramFields.zip vals).lookup "path" = some (.str pth) ∧
      (paramFields.zip vals).lookup "spectrum (N,M)" = some (.str sptrm) := by
  refine ⟨_, rfl, ?_⟩
  simp [paramFields, List.lookup]

/-- **pass flag = margin-inclusive threshold**: with a reported lowest SNR the flag is `lowest ≥ OSNR + margin` -/
theorem csv_pass_iff (x avg osnr margin : ℝ) :
    passFlag (.num x) (.num avg) (.num (osnr + margin)) = .ok (decide (osnr + margin ≤ x)) := by
  simp [passFlag, geJ]

/-- a request blocked without a path gives a row with only its id and the reason in the `Pass?` column -/
theorem csv_nopath_row (rid b : String) (lib : List (ModeInfo ℝ)) (margin : ℝ) (hn : blockingNoPath.contains b = true) :
    csvRow (.obj [("response-id", .str rid), ("no-path", .obj [("no-path", .str b)])]) lib margin =
      .ok (⟨[("response-id", .str rid), ("Pass?", .str b)]⟩, none, .str "") := by
  have hn' : b ∈ blockingNoPath := by simpa using hn
  simp [csvRow, J.get?, List.lookup, hn', bind, Except.bind, pure, Except.pure]

/-! ### non-vacuity -/
example : (requestsAggregation
    [({ pos := 0, parts := ["a"], key := 7, hasMode := true, bw := 100, n := [none], m := [none] } : AReq Nat Int),
     { pos := 1, parts := ["b"], key := 7, hasMode := true, bw := 300, n := [none], m := [none] }]).map
      (fun r => (r.parts, r.bw)) = [(["b", "a"], 400)] := by
  decide

end Gnpy.Response
