import GnpyModel
/- Property theorems for C19 (only the property theorems and their non-vacuity examples live here;
   helper lemmas go to GnpyProofs/Lemmas). -/
