import GnpyModel
import GnpyProofs.Lemmas.Db
/- Property theorems for C06 — a ROADM never amplifies and equalises every channel to its egress
   target.  Model: GnpyModel/Roadm.lean.  All statements over ℝ. -/
namespace Gnpy.Roadm

/-- `calculate_absolute_min_or_zero x = max(-x, 0)` -/
theorem absMinOrZero_eq_max (x : ℝ) : absMinOrZero x = max (-x) 0 := by
  simp only [absMinOrZero, transc_abs, Nat.cast_ofNat]
  rcases le_total 0 x with h | h
  · rw [abs_of_nonneg h, max_eq_right (by linarith)]; ring
  · rw [abs_of_nonpos h, max_eq_left (by linarith)]; ring

/-- **C06, main statement (dBm form).** Each channel leaves with
`min(target + per-channel offset, input power − path loss)`; holds for every policy because the
policy only determines `target`. -/
theorem chanOutDbm_eq_min (i ml t o : ℝ) : chanOutDbm i ml t o = min (t + o) (i - ml) := by
  simp only [chanOutDbm, deltaPower, absMinOrZero_eq_max]
  rcases le_total (t + o) (i - ml) with h | h
  · rw [min_eq_left h, max_eq_right (by linarith)]; ring
  · rw [min_eq_right h, max_eq_left (by linarith)]; ring

/-- the literal linear-domain computation of `Roadm.propagate` agrees with the dBm statement -/
theorem chanOut_dbm (p ml t o : ℝ) (hp : 0 < p) :
    watt2dbm (chanOut p ml t o) = min (t + o) (watt2dbm p - ml) := by
  have h1 : 0 < db2lin ml := db2lin_pos ml
  have hp1 : 0 < p * (1 / db2lin ml) := by positivity
  have hnet : watt2dbm (p * (1 / db2lin ml)) = watt2dbm p - ml := by
    simp only [watt2dbm, Nat.cast_ofNat]
    rw [show p * (1 / db2lin ml) * 1000 = (p * 1000) / db2lin ml by ring,
        lin2db_div _ _ (by positivity) h1, lin2db_db2lin]
  have key := chanOutDbm_eq_min (watt2dbm p) ml t o
  simp only [chanOutDbm] at key
  simp only [chanOut, Nat.cast_one]
  rw [hnet]
  set d := deltaPower (watt2dbm p - ml) t o with hd
  have hd1 : 0 < db2lin d := db2lin_pos d
  have : watt2dbm (p * (1 / db2lin ml) * (1 / db2lin d)) = watt2dbm p - ml - d := by
    simp only [watt2dbm, Nat.cast_ofNat]
    rw [show p * (1 / db2lin ml) * (1 / db2lin d) * 1000 = ((p * 1000) / db2lin ml) / db2lin d by ring,
        lin2db_div _ _ (by positivity) hd1, lin2db_div _ _ (by positivity) h1, lin2db_db2lin, lin2db_db2lin]
  rw [this]; exact key

/-- the attenuation applied after the max-loss stage is never negative -/
theorem deltaPower_nonneg (net t o : ℝ) : 0 ≤ deltaPower net t o := by
  simp only [deltaPower, absMinOrZero_eq_max]
  rcases le_total (t + o) net with h | h
  · rw [max_eq_right (by linarith)]; linarith
  · rw [max_eq_left (by linarith)]; linarith

/-- **No channel leaves a ROADM with more power than it entered** (linear units; path loss ≥ 0). -/
theorem never_amplifies (p ml t o : ℝ) (hp : 0 < p) (hml : 0 ≤ ml) : chanOut p ml t o ≤ p := by
  simp only [chanOut, Nat.cast_one]
  have h1 : 1 ≤ db2lin ml := by
    rw [← db2lin_zero]; exact (db2lin_le_iff 0 ml).2 hml
  have h2 : 1 ≤ db2lin (deltaPower (watt2dbm (p * (1 / db2lin ml))) t o) := by
    rw [← db2lin_zero]; exact (db2lin_le_iff 0 _).2 (deltaPower_nonneg _ _ _)
  have a1 : 1 / db2lin ml ≤ 1 := by rw [div_le_one (by linarith)]; exact h1
  have a2 : 1 / db2lin (deltaPower (watt2dbm (p * (1 / db2lin ml))) t o) ≤ 1 := by
    rw [div_le_one (by linarith)]; exact h2
  have b1 : 0 ≤ 1 / db2lin ml := by positivity
  have b2 : 0 ≤ 1 / db2lin (deltaPower (watt2dbm (p * (1 / db2lin ml))) t o) := by
    have := db2lin_pos (deltaPower (watt2dbm (p * (1 / db2lin ml))) t o); positivity
  calc p * (1 / db2lin ml) * (1 / db2lin (deltaPower (watt2dbm (p * (1 / db2lin ml))) t o))
      ≤ p * 1 * 1 := by
        apply mul_le_mul _ a2 b2 (by positivity)
        exact mul_le_mul_of_nonneg_left a1 (le_of_lt hp)
    _ = p := by ring

/-- dBm form of the same -/
theorem never_amplifies_dbm (i ml t o : ℝ) (hml : 0 ≤ ml) : chanOutDbm i ml t o ≤ i := by
  rw [chanOutDbm_eq_min]; exact le_trans (min_le_right _ _) (by linarith)

/-- a channel arriving below its target is left unequalised (only the path loss applies) -/
theorem below_target_untouched (i ml t o : ℝ) (h : i - ml ≤ t + o) : chanOutDbm i ml t o = i - ml := by
  rw [chanOutDbm_eq_min, min_eq_right h]

/-- a channel arriving above its target leaves exactly at target + offset -/
theorem above_target_equalised (i ml t o : ℝ) (h : t + o ≤ i - ml) : chanOutDbm i ml t o = t + o := by
  rw [chanOutDbm_eq_min, min_eq_left h]

/-- reference channel: `ref_pch_out_dbm` is the same `min`, and the effective loss is ≥ the path loss -/
theorem refOut_eq_min (ri ml rt : ℝ) : refOut ri ml rt = min (ri - ml) rt := by
  simp only [refOut, smin]; split <;> rename_i h
  · exact (min_eq_left h).symm
  · exact (min_eq_right (le_of_lt (not_le.1 h))).symm

theorem refLoss_ge (ri ml rt : ℝ) : ml ≤ refLoss ri ml rt := by
  simp only [refLoss, refOut_eq_min]; have := min_le_left (ri - ml) rt; linarith

/-! ### target resolution -/

/-- the egress degree's own constant-power setting wins -/
theorem degree_pch_wins (d : DegreeTargets ℝ) (t : NodeTargets ℝ) (g : String) (b s v : ℝ)
    (h : d.pch.lookup g = some v) : degreeTarget d t g b s = some v := by
  simp [degreeTarget, h]

/-- a degree PSD setting is converted with the channel's baud rate -/
theorem degree_psd_wins (d : DegreeTargets ℝ) (t : NodeTargets ℝ) (g : String) (b s v : ℝ)
    (h0 : d.pch.lookup g = none) (h : d.psd.lookup g = some v) :
    degreeTarget d t g b s = some (psd2powerdbm v b) := by
  simp [degreeTarget, h0, h]

/-- a degree power-per-slot-width setting is converted with the channel's slot width -/
theorem degree_psw_wins (d : DegreeTargets ℝ) (t : NodeTargets ℝ) (g : String) (b s v : ℝ)
    (h0 : d.pch.lookup g = none) (h1 : d.psd.lookup g = none) (h : d.psw.lookup g = some v) :
    degreeTarget d t g b s = some (psd2powerdbm v s) := by
  simp [degreeTarget, h0, h1, h]

/-- no setting on the degree: the node's -/
theorem degree_default (d : DegreeTargets ℝ) (t : NodeTargets ℝ) (g : String) (b s : ℝ)
    (h0 : d.pch.lookup g = none) (h1 : d.psd.lookup g = none) (h2 : d.psw.lookup g = none) :
    degreeTarget d t g b s = nodeTarget t b s := by
  simp [degreeTarget, h0, h1, h2]

/-- psd × baud rate expressed in dBm: `db2lin (psd2powerdbm psd B) = B · psd · 1e-9` (mW) -/
theorem psd2powerdbm_lin (psd b : ℝ) (hp : 0 < psd) (hb : 0 < b) :
    db2lin (psd2powerdbm psd b) = b * psd * (1 / 1000000000) := by
  simp only [psd2powerdbm, nano, Nat.cast_one, Nat.cast_ofNat]
  rw [db2lin_lin2db]; positivity

/-! ### exactly one policy -/

theorem paramsAccepted_iff (t : NodeTargets ℝ) : paramsAccepted t = true ↔ policyCount t ≤ 1 := by
  simp [paramsAccepted]

/-- two node-level policies are always rejected (RoadmParams) -/
theorem two_policies_rejected (t : NodeTargets ℝ)
    (h : (t.pch.isSome ∧ t.psd.isSome) ∨ (t.pch.isSome ∧ t.psw.isSome) ∨ (t.psd.isSome ∧ t.psw.isSome)) :
    paramsAccepted t = false := by
  simp only [paramsAccepted, policyCount]
  rcases h with ⟨a, b⟩ | ⟨a, b⟩ | ⟨a, b⟩ <;> simp [a, b] <;> split <;> omega

/-- … and likewise by `merge_equalization` on the element's own keys -/
theorem merge_rejects_two (a b c : Bool) (h : (a ∧ b) ∨ (a ∧ c) ∨ (b ∧ c)) :
    mergeEqualization a b c = none := by
  rcases h with ⟨x, y⟩ | ⟨x, y⟩ | ⟨x, y⟩ <;> simp [mergeEqualization, x, y] <;> split <;> omega

/-- an element that states one policy drops the library default; one that states none keeps it -/
theorem merge_spec (a b c : Bool) :
    (mergeEqualization a b c = some true ↔ (a && !b && !c) || (!a && b && !c) || (!a && !b && c)) ∧
    (mergeEqualization a b c = some false ↔ (!a && !b && !c)) := by
  cases a <;> cases b <;> cases c <;> simp [mergeEqualization]

/-- a library ROADM entry is accepted iff exactly one equalisation key is present -/
theorem eqpt_exactly_one (a b c : Bool) :
    eqptAccepted a b c = true ↔ (a && !b && !c) || (!a && b && !c) || (!a && !b && c) := by
  cases a <;> cases b <;> cases c <;> simp [eqptAccepted]

/-- for an accepted ROADM with some policy, the target in force is that of the single policy given -/
theorem nodeTarget_single (t : NodeTargets ℝ) (b s : ℝ) (h : paramsAccepted t = true) :
    (∀ v, t.pch = some v → nodeTarget t b s = some v ∧ t.psd = none ∧ t.psw = none) ∧
    (∀ v, t.psd = some v → nodeTarget t b s = some (psd2powerdbm v b) ∧ t.pch = none ∧ t.psw = none) ∧
    (∀ v, t.psw = some v → nodeTarget t b s = some (psd2powerdbm v s) ∧ t.pch = none ∧ t.psd = none) := by
  obtain ⟨p, q, r⟩ := t
  simp only [paramsAccepted, policyCount] at h
  cases p <;> cases q <;> cases r <;> simp_all [nodeTarget]

/-! ### per-degree targets populated at design -/

/-- a degree that already has a setting keeps everything as the user gave it -/
theorem populate_keeps_user (d : DegreeTargets ℝ) (t : NodeTargets ℝ) (g : String)
    (h : (d.pch.lookup g).isSome ∨ (d.psd.lookup g).isSome ∨ (d.psw.lookup g).isSome) :
    populateDegree d t g = some d := by
  simp only [populateDegree]
  rcases h with h | h | h <;> simp [h]

private theorem lookup_append_new (l : List (String × ℝ)) (g : String) (v : ℝ) (h : l.lookup g = none) :
    (l ++ [(g, v)]).lookup g = some v := by
  induction l with
  | nil => simp [List.lookup]
  | cons x xs ih =>
    obtain ⟨k, w⟩ := x
    rw [List.cons_append]
    by_cases hk : g = k
    · subst hk; simp [List.lookup] at h
    · have hk' : (g == k) = false := by simpa using hk
      simp only [List.lookup, hk'] at h ⊢
      exact ih h

/-- a degree without a setting receives exactly the node default, in exactly one dictionary,
**whatever its value (0 dBm included)**; without any node default the design is rejected. -/
theorem populate_default (d : DegreeTargets ℝ) (t : NodeTargets ℝ) (g : String)
    (h0 : d.pch.lookup g = none) (h1 : d.psd.lookup g = none) (h2 : d.psw.lookup g = none)
    (hacc : paramsAccepted t = true) :
    (∀ v, t.pch = some v → ∃ d', populateDegree d t g = some d' ∧ d'.pch.lookup g = some v ∧
        d'.psd = d.psd ∧ d'.psw = d.psw) ∧
    (∀ v, t.psd = some v → ∃ d', populateDegree d t g = some d' ∧ d'.psd.lookup g = some v ∧
        d'.pch = d.pch ∧ d'.psw = d.psw) ∧
    (∀ v, t.psw = some v → ∃ d', populateDegree d t g = some d' ∧ d'.psw.lookup g = some v ∧
        d'.pch = d.pch ∧ d'.psd = d.psd) ∧
    (t.pch = none → t.psd = none → t.psw = none → populateDegree d t g = none) := by
  obtain ⟨p, q, r⟩ := t
  simp only [paramsAccepted, policyCount, decide_eq_true_eq] at hacc
  refine ⟨?_, ?_, ?_, ?_⟩
  · intro v hv; simp only at hv; subst hv
    exact ⟨{ d with pch := d.pch ++ [(g, v)] }, by simp [populateDegree, h0, h1, h2],
      lookup_append_new _ _ _ h0, rfl, rfl⟩
  · intro v hv; simp only at hv; subst hv
    cases p
    · exact ⟨{ d with psd := d.psd ++ [(g, v)] }, by simp [populateDegree, h0, h1, h2],
        lookup_append_new _ _ _ h1, rfl, rfl⟩
    · simp at hacc; split at hacc <;> omega
  · intro v hv; simp only at hv; subst hv
    cases p <;> cases q
    · exact ⟨{ d with psw := d.psw ++ [(g, v)] }, by simp [populateDegree, h0, h1, h2],
        lookup_append_new _ _ _ h2, rfl, rfl⟩
    all_goals simp at hacc
  · intro a b c; simp only at a b c; subst a b c
    simp [populateDegree, h0, h1, h2]


/-! ### impairment profile selection (which path loss enters the `min`) -/

/-- a `per_degree_impairments` entry selects exactly the named profile (on express connections whatever its
type, on add/drop connections when its type matches) -/
theorem select_user_wins (ps : List (Profile ℝ)) (i : Nat) (t : PType) (p : Profile ℝ)
    (hp : profileById ps i = some p) (ht : t = PType.express ∨ p.ptype = t) :
    selectProfile ps (some i) t = .ok (some p) := by
  simp only [selectProfile, hp]
  rcases ht with h | h <;> simp [h]

/-- an entry naming an unknown profile id is rejected -/
theorem select_unknown_rejected (ps : List (Profile ℝ)) (i : Nat) (t : PType)
    (hp : profileById ps i = none) : selectProfile ps (some i) t = .error "NetworkTopologyError" := by
  simp [selectProfile, hp]

/-- on an add or drop connection a profile of another path type is rejected -/
theorem select_mismatch_rejected (ps : List (Profile ℝ)) (i : Nat) (t : PType) (p : Profile ℝ)
    (hp : profileById ps i = some p) (ht : t ≠ PType.express) (hne : p.ptype ≠ t) :
    selectProfile ps (some i) t = .error "NetworkTopologyError" := by
  simp [selectProfile, hp, ht, hne]

/-- without an entry the first library profile of the connection's path type applies -/
theorem select_default_first (ps : List (Profile ℝ)) (t : PType) :
    selectProfile ps none t = .ok (firstOfType ps t) := rfl

theorem firstOfType_spec (ps : List (Profile ℝ)) (t : PType) (p : Profile ℝ) (h : firstOfType ps t = some p) :
    p ∈ ps ∧ p.ptype = t := by
  unfold firstOfType at h
  exact ⟨List.mem_of_find?_eq_some h, by simpa using List.find?_some h⟩

/-- no profile at all for this path type: the loss is the default 0 for every carrier -/
theorem maxloss_default_zero (f : ℝ) : maxlossOf (none : Option (Profile ℝ)) f = some 0 := by
  simp [maxlossOf]

/-- the value found for a carrier is the value of a band of the profile that contains the carrier -/
theorem lookupBands_sound (bs : List (Band ℝ)) (f v : ℝ) (h : lookupBands bs f = some v) :
    ∃ b ∈ bs, b.value = some v ∧ (b.lo = none ∨ ∃ lo, b.lo = some lo ∧ lo ≤ f ∧ f ≤ b.hi) := by
  induction bs with
  | nil => simp [lookupBands] at h
  | cons b bs ih =>
    unfold lookupBands at h
    cases hlo : b.lo with
    | none =>
      simp only [hlo] at h
      cases hv : b.value with
      | none => simp only [hv] at h; obtain ⟨b', hb', r⟩ := ih (by simpa using h); exact ⟨b', List.mem_cons_of_mem _ hb', r⟩
      | some w =>
        simp only [hv] at h
        have : w = v := by simpa using h
        exact ⟨b, List.mem_cons_self, by rw [hv, this], Or.inl hlo⟩
    | some lo =>
      simp only [hlo] at h
      by_cases hin : lo ≤ f ∧ f ≤ b.hi
      · have hd : (decide (lo ≤ f) && decide (f ≤ b.hi)) = true := by simp [hin.1, hin.2]
        rw [hd] at h
        cases hv : b.value with
        | none => simp only [hv] at h; obtain ⟨b', hb', r⟩ := ih (by simpa using h); exact ⟨b', List.mem_cons_of_mem _ hb', r⟩
        | some w =>
          simp only [hv] at h
          have : w = v := by simpa using h
          exact ⟨b, List.mem_cons_self, by rw [hv, this], Or.inr ⟨lo, hlo, hin.1, hin.2⟩⟩
      · have hd : (decide (lo ≤ f) && decide (f ≤ b.hi)) = false := by
          rcases not_and_or.1 hin with h1 | h1 <;> simp [h1]
        rw [hd] at h
        obtain ⟨b', hb', r⟩ := ih (by simpa using h); exact ⟨b', List.mem_cons_of_mem _ hb', r⟩

/-! ### non-vacuity -/
example : chanOutDbm (-15 : ℝ) 0 (-20) 1 = -19 := by
  rw [chanOutDbm_eq_min]; norm_num
example : chanOutDbm (-25 : ℝ) 2 (-20) 0 = -27 := by
  rw [chanOutDbm_eq_min]; norm_num
example : paramsAccepted ({ pch := some (0:ℝ), psd := none, psw := none } : NodeTargets ℝ) = true := by
  simp [paramsAccepted, policyCount]

end Gnpy.Roadm
