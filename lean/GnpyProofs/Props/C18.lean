import GnpyModel
import GnpyProofs.Lemmas.Round
import GnpyProofs.Lemmas.Yang
import GnpyProofs.Lemmas.YangDoc
/- Property theorems for C18 — input documents mean the same thing in legacy and YANG form.
   Models: GnpyModel/Round.lean (decimal formatting), GnpyModel/Json.lean, GnpyModel/Yang.lean.
   Only the property theorems and their non-vacuity examples live here; helper lemmas are in
   GnpyProofs/Lemmas/{Round,Json,Yang}.lean. -/
namespace Gnpy.Round

/-- **values are preserved to the declared precision.**  The text printed for a double `x` with `d`
declared fraction digits denotes the decimal `R / 10^d` (`R = roundDigits x d`); it differs from the
exact binary value of `x` by at most half a unit of the last declared digit. -/
theorem fmt_error_bound (x : Dyadic) (d : Nat) :
    |(roundDigits x d : ℚ) / (10 : ℚ) ^ d - x.absVal| ≤ 1 / 2 / (10 : ℚ) ^ d := by
  obtain ⟨hpos, hval⟩ := scaled_spec x d
  have he := roundHalfEvenDiv_err (scaled x d).1 (scaled x d).2 hpos
  rw [hval] at he
  have hp : (0 : ℚ) < (10 : ℚ) ^ d := by positivity
  unfold roundDigits
  simp only
  have : ((roundHalfEvenDiv (scaled x d).1 (scaled x d).2 : ℚ)) / (10 : ℚ) ^ d - x.absVal
      = ((roundHalfEvenDiv (scaled x d).1 (scaled x d).2 : ℚ) - x.absVal * (10 : ℚ) ^ d) / (10 : ℚ) ^ d := by
    field_simp
  rw [this, abs_div, abs_of_pos hp]
  exact div_le_div_of_nonneg_right he (le_of_lt hp)

/-- **a second pass changes nothing.**  Any double `y` that lies strictly within half a unit of the
last declared digit of the decimal printed for `x` (in particular the double `float(text)` that
`convert_back` reads, as long as |x|·10^d < 2^52) is printed with the same digits again. -/
theorem fmt_fixpoint (x y : Dyadic) (d : Nat)
    (h : |y.absVal - (roundDigits x d : ℚ) / (10 : ℚ) ^ d| < 1 / 2 / (10 : ℚ) ^ d) :
    roundDigits y d = roundDigits x d := by
  obtain ⟨hpos, hval⟩ := scaled_spec y d
  have hp : (0 : ℚ) < (10 : ℚ) ^ d := by positivity
  show roundHalfEvenDiv (scaled y d).1 (scaled y d).2 = roundDigits x d
  apply roundHalfEvenDiv_unique _ _ _ hpos
  rw [hval]
  have : ((roundDigits x d : ℚ)) - y.absVal * (10 : ℚ) ^ d
      = -((y.absVal - (roundDigits x d : ℚ) / (10 : ℚ) ^ d) * (10 : ℚ) ^ d) := by
    field_simp
    ring
  rw [this, abs_neg, abs_mul, abs_of_pos hp]
  calc |y.absVal - (roundDigits x d : ℚ) / (10 : ℚ) ^ d| * (10 : ℚ) ^ d
      < 1 / 2 / (10 : ℚ) ^ d * (10 : ℚ) ^ d := mul_lt_mul_of_pos_right h hp
    _ = 1 / 2 := by field_simp

/-- printing is a fixpoint on values that already have at most `d` digits: R/10^d prints as R -/
theorem fmt_exact (x : Dyadic) (d R : Nat) (h : x.absVal = (R : ℚ) / (10 : ℚ) ^ d) :
    roundDigits x d = R := by
  obtain ⟨hpos, hval⟩ := scaled_spec x d
  have hp : (0 : ℚ) < (10 : ℚ) ^ d := by positivity
  show roundHalfEvenDiv (scaled x d).1 (scaled x d).2 = R
  apply roundHalfEvenDiv_unique _ _ _ hpos
  rw [hval, h]
  have : (R : ℚ) - (R : ℚ) / (10 : ℚ) ^ d * (10 : ℚ) ^ d = 0 := by field_simp; ring
  rw [this]; norm_num

/-- non-vacuity: 0.125 printed with two digits is the tie 12.5 → "0.12" (half-even), and the bound
    is attained -/
example : roundDigits ⟨false, 1, -3⟩ 2 = 12 := by decide
example : fmtBits 4593671619917905920 2 = some "0.12" := by decide
example : fmtBits 4600427019358961664 2 = some "0.38" := by decide

end Gnpy.Round

namespace Gnpy.Yang
open Gnpy

/-! ### nulls -/

/-- **`None ↔ [None]` are inverse.**  For every legacy tree (no `[null]` list in it) turning every
null into `[null]` and back gives the tree again; -/
theorem none_empty_inverse (j : J) (h : noBoxedNull j = true) : emptyToNone (noneToEmpty j) = j :=
  emptyToNone_noneToEmpty j h

/-- and `convert_none_to_empty` is idempotent on every tree (first step of `legacy_to_yang`) -/
theorem none_to_empty_idempotent (j : J) : noneToEmpty (noneToEmpty j) = noneToEmpty j :=
  noneToEmpty_idem j

example : noBoxedNull (.obj [("out_voa", .null), ("amps", .arr [.null, .flt 3])]) = true := by decide
example : emptyToNone (noneToEmpty (.obj [("out_voa", .null), ("amps", .arr [.null, .flt 3])]))
    = .obj [("out_voa", .null), ("amps", .arr [.null, .flt 3])] := by decide

/-! ### decimal strings: second pass of `convert_dict` -/

/-- **`convert_dict` is idempotent.**  If the first pass succeeded and left no binary float behind
(it leaves one only for an integer stored under a string-typed key, which libyang refuses), a second
pass with the same declared digits returns the same tree: strings are kept, integers under
integer-typed keys are kept. -/
theorem convert_dict_idempotent (rp rp' : List (Nat × String)) (fd : Int) (j r : J)
    (h : convertDict rp fd j = .ok r) (hn : noFlt r = true) : convertDict rp' fd r = .ok r :=
  convertDict_second rp rp' fd j r h hn

example : convertDict [] 2 (.obj [("gain_target", .flt 4625619029774565376), ("N", .int 3), ("loss", .int 2)])
    = .ok (.obj [("gain_target", .str "17.5"), ("N", .int 3), ("loss", .str "2.0")]) := by decide

/-! ### per-degree targets of the three kinds -/

/-- a legacy per-degree entry: absent, or a non-empty dict with distinct degree names -/
def WfKind (p : Dict) (k : String) : Prop :=
  p.get? k = none ∨ ∃ ts : Dict, p.get? k = some (.obj ts) ∧ ts ≠ [] ∧ (ts.map (·.1)).Nodup

/-- what `popTargets` returns on a well-formed entry: the key is gone, the contribution is the list of
the entry's targets (`T = []` exactly when the key was absent) -/
theorem popTargets_spec (k : String) (p : Dict) (h : WfKind p k) :
    ∃ T : Dict, popTargets k p = .ok (p.erase k, targetsOf k T) ∧
      p.get? k = (if T = [] then none else some (.obj T)) ∧ (T = [] ∨ (T.map (·.1)).Nodup) := by
  rcases h with h | ⟨ts, h, hne, hnd⟩
  · exact ⟨[], by simp [popTargets, h, Dict.erase_of_get?_none p k h, targetsOf, pure, Except.pure], by simp [h], Or.inl rfl⟩
  · refine ⟨ts, ?_, by simp [h, hne], Or.inr hnd⟩
    have : (J.obj ts).truthy = true := by
      cases ts with
      | nil => exact absurd rfl hne
      | cons _ _ => rfl
    simp [popTargets, h, this, pure, Except.pure]

theorem applyTargets_step (k : String) (hk : k ∈ eqTypes) (P T : Dict) (hP : P.get? k = none)
    (hT : T = [] ∨ (T.map (·.1)).Nodup) :
    ∃ q, applyTargets (targetsOf k T) P = .ok q ∧
      q.get? k = (if T = [] then none else some (.obj T)) ∧ ∀ k', k' ≠ k → q.get? k' = P.get? k' := by
  by_cases hT0 : T = []
  · subst hT0
    exact ⟨P, by simp [targetsOf, applyTargets, pure, Except.pure], by simpa using hP, fun _ _ => rfl⟩
  · rcases hT with hT | hT
    · exact absurd hT hT0
    · obtain ⟨q, h1, h2, h3⟩ := applyTargets_targetsOf_fresh k hk T P hP hT0 hT
      exact ⟨q, h1, by simp [hT0, h2], h3⟩

/-- **every per-degree target of the three kinds survives legacy → YANG → legacy, in order.**
For a ROADM `params` dict in legacy form whose `per_degree_pch_out_db`, `per_degree_psd_out_mWperGHz`
and `per_degree_psd_out_mWperSlotWidth` entries are absent or non-empty dicts with distinct degree
names, `convert_degree` followed by `convert_back_degree` succeeds and gives a dict with the same
value under every key – in particular each of the three degree dicts comes back entry for entry in
the original order (values are equal as trees, so the order inside them is part of the claim). -/
theorem degree_roundtrip (p : Dict) (h0 : p.get? "per_degree_power_targets" = none)
    (h1 : WfKind p "per_degree_pch_out_db") (h2 : WfKind p "per_degree_psd_out_mWperGHz")
    (h3 : WfKind p "per_degree_psd_out_mWperSlotWidth") :
    ∃ y q, degreeToYang p = .ok y ∧ degreeToLegacy y = .ok q ∧ ∀ k, q.get? k = p.get? k := by
  have n12 : ("per_degree_pch_out_db" : String) ≠ "per_degree_psd_out_mWperGHz" := by decide
  have n13 : ("per_degree_pch_out_db" : String) ≠ "per_degree_psd_out_mWperSlotWidth" := by decide
  have n23 : ("per_degree_psd_out_mWperGHz" : String) ≠ "per_degree_psd_out_mWperSlotWidth" := by decide
  have n1p : ("per_degree_pch_out_db" : String) ≠ "per_degree_power_targets" := by decide
  have n2p : ("per_degree_psd_out_mWperGHz" : String) ≠ "per_degree_power_targets" := by decide
  have n3p : ("per_degree_psd_out_mWperSlotWidth" : String) ≠ "per_degree_power_targets" := by decide
  obtain ⟨T1, e1, g1, w1⟩ := popTargets_spec _ p h1
  have h2' : WfKind (p.erase "per_degree_pch_out_db") "per_degree_psd_out_mWperGHz" := by
    unfold WfKind; rw [Dict.get?_erase_other _ _ _ n12]; exact h2
  obtain ⟨T2, e2, g2, w2⟩ := popTargets_spec _ _ h2'
  have h3' : WfKind ((p.erase "per_degree_pch_out_db").erase "per_degree_psd_out_mWperGHz")
      "per_degree_psd_out_mWperSlotWidth" := by
    unfold WfKind; rw [Dict.get?_erase_other _ _ _ n23, Dict.get?_erase_other _ _ _ n13]; exact h3
  obtain ⟨T3, e3, g3, w3⟩ := popTargets_spec _ _ h3'
  rw [Dict.get?_erase_other _ _ _ n12] at g2
  rw [Dict.get?_erase_other _ _ _ n23, Dict.get?_erase_other _ _ _ n13] at g3
  set p3 := ((p.erase "per_degree_pch_out_db").erase "per_degree_psd_out_mWperGHz").erase
    "per_degree_psd_out_mWperSlotWidth" with hp3
  set newT := targetsOf "per_degree_pch_out_db" T1 ++ targetsOf "per_degree_psd_out_mWperGHz" T2 ++
    targetsOf "per_degree_psd_out_mWperSlotWidth" T3 with hnewT
  have hy : degreeToYang p = .ok (if newT.isEmpty then p3 else p3.set "per_degree_power_targets" (.arr newT)) := by
    simp only [degreeToYang, e1, e2, e3, bind, Except.bind, pure, Except.pure]
    split <;> rfl
  -- lookups in p3
  have p3k1 : p3.get? "per_degree_pch_out_db" = none := by
    rw [hp3, Dict.get?_erase_other _ _ _ n13.symm, Dict.get?_erase_other _ _ _ n12.symm, Dict.get?_erase_same]
  have p3k2 : p3.get? "per_degree_psd_out_mWperGHz" = none := by
    rw [hp3, Dict.get?_erase_other _ _ _ n23.symm, Dict.get?_erase_same]
  have p3k3 : p3.get? "per_degree_psd_out_mWperSlotWidth" = none := by
    rw [hp3, Dict.get?_erase_same]
  have p3o : ∀ k, k ≠ "per_degree_pch_out_db" → k ≠ "per_degree_psd_out_mWperGHz" →
      k ≠ "per_degree_psd_out_mWperSlotWidth" → p3.get? k = p.get? k := by
    intro k a b c
    rw [hp3, Dict.get?_erase_other _ _ _ c.symm, Dict.get?_erase_other _ _ _ b.symm, Dict.get?_erase_other _ _ _ a.symm]
  -- replaying the targets on any dict that looks like p3 (the three kinds absent)
  have replay : ∀ P : Dict, (∀ k, k ≠ "per_degree_power_targets" → P.get? k = p3.get? k) →
      P.get? "per_degree_power_targets" = none →
      ∃ q, applyTargets newT P = .ok q ∧ ∀ k, q.get? k = p.get? k := by
    intro P hP hPp
    obtain ⟨q1, a1, b1, c1⟩ := applyTargets_step "per_degree_pch_out_db" (by simp [eqTypes]) P T1
      (by rw [hP _ n1p, p3k1]) w1
    obtain ⟨q2, a2, b2, c2⟩ := applyTargets_step "per_degree_psd_out_mWperGHz" (by simp [eqTypes]) q1 T2
      (by rw [c1 _ n12.symm, hP _ n2p, p3k2]) w2
    obtain ⟨q3, a3, b3, c3⟩ := applyTargets_step "per_degree_psd_out_mWperSlotWidth" (by simp [eqTypes]) q2 T3
      (by rw [c2 _ n23.symm, c1 _ n13.symm, hP _ n3p, p3k3]) w3
    refine ⟨q3, ?_, ?_⟩
    · rw [hnewT, applyTargets_append, applyTargets_append]
      simp only [a1, a2, a3, bind, Except.bind]
    · intro k
      by_cases k3 : k = "per_degree_psd_out_mWperSlotWidth"
      · rw [k3, b3, g3]
      · rw [c3 k k3]
        by_cases k2 : k = "per_degree_psd_out_mWperGHz"
        · rw [k2, b2, g2]
        · rw [c2 k k2]
          by_cases k1 : k = "per_degree_pch_out_db"
          · rw [k1, b1, g1]
          · rw [c1 k k1]
            by_cases kp : k = "per_degree_power_targets"
            · rw [kp, hPp, h0]
            · rw [hP k kp, p3o k k1 k2 k3]
  by_cases hemp : newT.isEmpty = true
  · -- nothing to convert: the YANG form is the dict itself
    refine ⟨p3, p3, by rw [hy]; simp [hemp], ?_, ?_⟩
    · have : p3.get? "per_degree_power_targets" = none := by rw [p3o _ n1p.symm n2p.symm n3p.symm, h0]
      simp [degreeToLegacy, this, pure, Except.pure]
    · have hnil : newT = [] := List.isEmpty_iff.1 hemp
      obtain ⟨q, hq, hqk⟩ := replay p3 (fun _ _ => rfl) (by rw [p3o _ n1p.symm n2p.symm n3p.symm, h0])
      rw [hnil] at hq
      simp only [applyTargets, pure, Except.pure, Except.ok.injEq] at hq
      subst hq
      exact hqk
  · refine ⟨p3.set "per_degree_power_targets" (.arr newT), ?_⟩
    have hne : newT ≠ [] := fun e => hemp (by simp [e])
    have htr : (J.arr newT).truthy = true := by
      cases hh : newT with
      | nil => exact absurd hh hne
      | cons _ _ => rfl
    obtain ⟨q, hq, hqk⟩ := replay ((p3.set "per_degree_power_targets" (.arr newT)).erase "per_degree_power_targets")
      (fun k hk => by rw [Dict.get?_erase_other _ _ _ (Ne.symm hk), Dict.get?_set_other _ _ _ _ (Ne.symm hk)])
      (Dict.get?_erase_same _ _)
    refine ⟨q, by rw [hy]; simp [hemp], ?_, hqk⟩
    simp only [degreeToLegacy, Dict.get?_set_same, htr, Bool.not_true, Bool.false_eq_true, if_false, asArr,
      bind, Except.bind, pure, Except.pure]
    exact hq

/-- non-vacuity: two kinds, three degrees; the round trip gives back the dict (here even with the
    same key order because the per-degree keys were the last ones) -/
example : (degreeToYang [("target_pch_out_db", .int (-20)),
      ("per_degree_pch_out_db", .obj [("east", .int (-19)), ("west", .int (-21))]),
      ("per_degree_psd_out_mWperGHz", .obj [("north", .int 1)])] >>= degreeToLegacy)
    = .ok [("target_pch_out_db", .int (-20)),
      ("per_degree_pch_out_db", .obj [("east", .int (-19)), ("west", .int (-21))]),
      ("per_degree_psd_out_mWperGHz", .obj [("north", .int 1)])] := by decide

/-! ### design bands per degree, per-frequency loss, Raman coefficient -/

/-- **every per-degree design band list survives, in order.** -/
theorem design_band_roundtrip (p : Dict) (T : Dict) (h0 : p.get? "per_degree_design_bands_targets" = none)
    (h1 : p.get? "per_degree_design_bands" = some (.obj T)) (hne : T ≠ []) (hnd : (T.map (·.1)).Nodup) :
    ∃ y q, designBandToYang p = .ok y ∧ designBandToLegacy y = .ok q ∧ ∀ k, q.get? k = p.get? k := by
  have n : ("per_degree_design_bands" : String) ≠ "per_degree_design_bands_targets" := by decide
  have htr : (J.obj T).truthy = true := by
    cases T with
    | nil => exact absurd rfl hne
    | cons _ _ => rfl
  set newT := T.map (fun dv => J.obj [("degree_uid", .str dv.1), ("design_bands", dv.2)]) with hnewT
  have hy : designBandToYang p = .ok ((p.erase "per_degree_design_bands").set "per_degree_design_bands_targets" (.arr newT)) := by
    simp [designBandToYang, h1, htr, pure, Except.pure, hnewT]
  have htr2 : (J.arr newT).truthy = true := by
    cases T with
    | nil => exact absurd rfl hne
    | cons _ _ => rfl
  have hcol : collectBands newT [] = .ok ([] ++ T) := collectBands_generated T [] (by simpa using hnd)
  have hTe : T.isEmpty = false := by
    cases T with
    | nil => exact absurd rfl hne
    | cons _ _ => rfl
  refine ⟨_, ((((p.erase "per_degree_design_bands").set "per_degree_design_bands_targets" (.arr newT)).erase
    "per_degree_design_bands_targets").set "per_degree_design_bands" (.obj T)), hy, ?_, ?_⟩
  · simp only [designBandToLegacy, Dict.get?_set_same, htr2, Bool.not_true, Bool.false_eq_true, if_false, asArr,
      bind, Except.bind, pure, Except.pure, hcol, List.nil_append, hTe]
  · intro k
    by_cases k1 : k = "per_degree_design_bands"
    · rw [k1, Dict.get?_set_same, h1]
    · rw [Dict.get?_set_other _ _ _ _ (Ne.symm k1)]
      by_cases k2 : k = "per_degree_design_bands_targets"
      · rw [k2, Dict.get?_erase_same, h0]
      · rw [Dict.get?_erase_other _ _ _ (Ne.symm k2), Dict.get?_set_other _ _ _ _ (Ne.symm k2),
          Dict.get?_erase_other _ _ _ (Ne.symm k1)]

/-- **the per-frequency loss list survives, entry by entry.**  `loss_coef: {value: [...],
frequency: [...]}` (lists of equal length, not empty) goes to `loss_coef_per_frequency` and back;
afterwards `loss_coef` holds the same two lists (keys in the order frequency, value) and every
other key of `params` is untouched. -/
theorem loss_coef_roundtrip (p lc : Dict) (fl vl : List J)
    (h0 : p.get? "loss_coef_per_frequency" = none)
    (h1 : p.get? "loss_coef" = some (.obj lc))
    (hv : lc.get? "value" = some (.arr vl)) (hf : lc.get? "frequency" = some (.arr fl))
    (hne : vl ≠ []) (hlen : fl.length = vl.length) :
    ∃ y q, lossCoefToYang p = .ok y ∧ lossCoefToLegacy y = .ok q ∧
      q.get? "loss_coef" = some (.obj [("frequency", .arr fl), ("value", .arr vl)]) ∧
      ∀ k, k ≠ "loss_coef" → q.get? k = p.get? k := by
  have n : ("loss_coef" : String) ≠ "loss_coef_per_frequency" := by decide
  have nfv : ("frequency" : String) ≠ "loss_coef_value" := by decide
  have htr : (J.arr vl).truthy = true := by
    cases vl with
    | nil => exact absurd rfl hne
    | cons _ _ => rfl
  have hfl : fl ≠ [] := by
    intro e; rw [e] at hlen; exact hne (List.length_eq_zero_iff.1 hlen.symm)
  set z := zipDicts "frequency" "loss_coef_value" fl vl with hz
  have hy : lossCoefToYang p = .ok ((p.erase "loss_coef").set "loss_coef_per_frequency" (.arr z)) := by
    simp [lossCoefToYang, h1, hv, hf, htr, asArr, bind, Except.bind, pure, Except.pure, hz]
  have hzne : z ≠ [] := zipDicts_ne_nil _ _ _ _ hfl hlen
  have htr2 : (J.arr z).truthy = true := by
    cases hh : z with
    | nil => exact absurd hh hzne
    | cons _ _ => rfl
  refine ⟨_, ((((p.erase "loss_coef").set "loss_coef_per_frequency" (.arr z)).erase
    "loss_coef_per_frequency").set "loss_coef" (.obj [("frequency", .arr fl), ("value", .arr vl)])), hy, ?_, ?_, ?_⟩
  · have c1 : column "frequency" z = .ok fl := column_zipDicts_fst _ _ nfv fl vl hlen
    have c2 : column "loss_coef_value" z = .ok vl := column_zipDicts_snd _ _ nfv fl vl hlen
    simp only [lossCoefToLegacy, Dict.get?_set_same, htr2, Bool.not_true, Bool.false_eq_true, if_false, asArr,
      bind, Except.bind, pure, Except.pure, c1, c2]
  · rw [Dict.get?_set_same]
  · intro k k1
    rw [Dict.get?_set_other _ _ _ _ (Ne.symm k1)]
    by_cases k2 : k = "loss_coef_per_frequency"
    · rw [k2, Dict.get?_erase_same, h0]
    · rw [Dict.get?_erase_other _ _ _ (Ne.symm k2), Dict.get?_set_other _ _ _ _ (Ne.symm k2),
        Dict.get?_erase_other _ _ _ (Ne.symm k1)]

/-- **the Raman coefficient of a fibre element survives, entry by entry**, with its reference
frequency. -/
theorem raman_coef_roundtrip (p rc : Dict) (fl gl : List J) (rf : J)
    (h1 : p.get? "raman_coefficient" = some (.obj rc))
    (hg : rc.get? "g0" = some (.arr gl)) (hf : rc.get? "frequency_offset" = some (.arr fl))
    (hr : rc.get? "reference_frequency" = some rf)
    (hne : fl ≠ []) (hlen : fl.length = gl.length) :
    ∃ y q, ramanCoefToYang p = .ok y ∧ ramanCoefToLegacy y = .ok q ∧
      q.get? "raman_coefficient" = some (.obj [("reference_frequency", rf), ("g0", .arr gl), ("frequency_offset", .arr fl)]) ∧
      ∀ k, k ≠ "raman_coefficient" → q.get? k = p.get? k := by
  have nfg : ("frequency_offset" : String) ≠ "g0" := by decide
  have htr : (J.arr fl).truthy = true := by
    cases fl with
    | nil => exact absurd rfl hne
    | cons _ _ => rfl
  have hin : pyIn "g0" (J.obj rc) = true := by
    simp only [pyIn]; exact (Dict.has_true_iff rc "g0").2 ⟨_, hg⟩
  have hrf : ((rc.erase "g0").erase "frequency_offset").get "reference_frequency" = .ok rf := by
    simp only [Dict.get]
    rw [Dict.get?_erase_other _ _ _ (by decide), Dict.get?_erase_other _ _ _ (by decide), hr]
    rfl
  set z := zipDicts "frequency_offset" "g0" fl gl with hz
  have hy : ramanCoefToYang p = .ok ((p.erase "raman_coefficient").set "raman_coefficient"
      (.obj [("reference_frequency", rf), ("g0_per_frequency", .arr z)])) := by
    simp [ramanCoefToYang, h1, hin, asObj, popD, hg, hf, htr, hrf, asArr, bind, Except.bind, pure, Except.pure, hz]
  have c1 : column "frequency_offset" z = .ok fl := column_zipDicts_fst _ _ nfg fl gl hlen
  have c2 : column "g0" z = .ok gl := column_zipDicts_snd _ _ nfg fl gl hlen
  have hfe : fl.isEmpty = false := by
    cases fl with
    | nil => exact absurd rfl hne
    | cons _ _ => rfl
  refine ⟨_, (((p.erase "raman_coefficient").set "raman_coefficient"
      (.obj [("reference_frequency", rf), ("g0_per_frequency", .arr z)])).erase "raman_coefficient").set "raman_coefficient"
      (.obj [("reference_frequency", rf), ("g0", .arr gl), ("frequency_offset", .arr fl)]), hy, ?_, ?_, ?_⟩
  · have hin2 : pyIn "g0_per_frequency" (J.obj [("reference_frequency", rf), ("g0_per_frequency", .arr z)]) = true := by
      simp [pyIn, Dict.has]
    simp only [ramanCoefToLegacy, Dict.get?_set_same, hin2, Bool.not_true, Bool.false_eq_true, if_false, asObj, popD,
      Dict.get?, asArr, bind, Except.bind, pure, Except.pure]
    simp [c1, c2, hfe, Dict.get, Dict.get?, Dict.erase, bind, Except.bind, pure, Except.pure]
  · rw [Dict.get?_set_same]
  · intro k k1
    rw [Dict.get?_set_other _ _ _ _ (Ne.symm k1), Dict.get?_erase_other _ _ _ (Ne.symm k1),
      Dict.get?_set_other _ _ _ _ (Ne.symm k1), Dict.get?_erase_other _ _ _ (Ne.symm k1)]

/-! ### every structural converter is a no-op on its own output -/

theorem popTargets_absent (k : String) (p : Dict) (h : p.get? k = none) : popTargets k p = .ok (p, []) := by
  simp [popTargets, h, pure, Except.pure]

/-- `convert_degree` applied to its own output changes nothing -/
theorem degree_to_yang_idempotent (p y : Dict) (h : degreeToYang p = .ok y) : degreeToYang y = .ok y := by
  simp only [degreeToYang, bind_ok, pure_ok] at h
  obtain ⟨⟨p1, t1⟩, e1, ⟨p2, t2⟩, e2, ⟨p3, t3⟩, e3, h⟩ := h
  have n12 : ("per_degree_pch_out_db" : String) ≠ "per_degree_psd_out_mWperGHz" := by decide
  have n13 : ("per_degree_pch_out_db" : String) ≠ "per_degree_psd_out_mWperSlotWidth" := by decide
  have n23 : ("per_degree_psd_out_mWperGHz" : String) ≠ "per_degree_psd_out_mWperSlotWidth" := by decide
  -- after popping, the key is absent
  have pop_none : ∀ (k : String) (a b : Dict) (t : List J), popTargets k a = .ok (b, t) → b.get? k = none ∧
      ∀ k', k' ≠ k → b.get? k' = a.get? k' := by
    intro k a b t hk
    unfold popTargets at hk
    split at hk
    · rename_i hn
      simp only [pure_ok, Prod.mk.injEq] at hk
      obtain ⟨rfl, _⟩ := hk
      exact ⟨hn, fun _ _ => rfl⟩
    · split at hk
      · simp only [pure_ok, Prod.mk.injEq] at hk
        obtain ⟨rfl, _⟩ := hk
        exact ⟨Dict.get?_erase_same _ _, fun k' hk' => Dict.get?_erase_other _ _ _ (Ne.symm hk')⟩
      · split at hk
        · simp only [pure_ok, Prod.mk.injEq] at hk
          obtain ⟨rfl, _⟩ := hk
          exact ⟨Dict.get?_erase_same _ _, fun k' hk' => Dict.get?_erase_other _ _ _ (Ne.symm hk')⟩
        · simp [attributeError] at hk
  obtain ⟨a1, b1⟩ := pop_none _ _ _ _ e1
  obtain ⟨a2, b2⟩ := pop_none _ _ _ _ e2
  obtain ⟨a3, b3⟩ := pop_none _ _ _ _ e3
  have k1 : p3.get? "per_degree_pch_out_db" = none := by rw [b3 _ n13, b2 _ n12, a1]
  have k2 : p3.get? "per_degree_psd_out_mWperGHz" = none := by rw [b3 _ n23, a2]
  have k3 : p3.get? "per_degree_psd_out_mWperSlotWidth" = none := a3
  have done : ∀ z : Dict, z.get? "per_degree_pch_out_db" = none → z.get? "per_degree_psd_out_mWperGHz" = none →
      z.get? "per_degree_psd_out_mWperSlotWidth" = none → degreeToYang z = .ok z := by
    intro z z1 z2 z3
    simp [degreeToYang, popTargets_absent _ z z1, popTargets_absent _ z z2, popTargets_absent _ z z3,
      bind, Except.bind, pure, Except.pure]
  split at h
  · simp only [pure_ok] at h; subst h; exact done _ k1 k2 k3
  · simp only [pure_ok] at h; subst h
    exact done _ (by rw [Dict.get?_set_other _ _ _ _ (by decide), k1])
      (by rw [Dict.get?_set_other _ _ _ _ (by decide), k2]) (by rw [Dict.get?_set_other _ _ _ _ (by decide), k3])

/-- `convert_design_band` applied to its own output changes nothing -/
theorem design_band_to_yang_idempotent (p y : Dict) (h : designBandToYang p = .ok y) : designBandToYang y = .ok y := by
  have absent : ∀ z : Dict, z.get? "per_degree_design_bands" = none → designBandToYang z = .ok z := by
    intro z hz; simp [designBandToYang, hz, pure, Except.pure]
  unfold designBandToYang at h
  split at h
  · rename_i hn
    simp only [pure_ok] at h; subst h; exact absent _ hn
  · rename_i t ht
    simp only at h
    split at h
    · simp only [pure_ok] at h; subst h; exact absent _ (Dict.get?_erase_same _ _)
    · split at h
      · simp only [pure_ok] at h; subst h
        exact absent _ (by rw [Dict.get?_set_other _ _ _ _ (by decide), Dict.get?_erase_same])
      · simp [attributeError] at h

/-- `process_span_data` / `process_si_data` applied to their own output change nothing -/
theorem range_to_yang_idempotent (lk dk : String) (e y : Dict) (hne : lk ≠ dk) (h : rangeToYang lk dk e = .ok y) :
    rangeToYang lk dk y = .ok y := by
  unfold rangeToYang at h
  split at h
  · rename_i hh
    simp only [pure_ok] at h; subst h
    simp [rangeToYang, hh, pure, Except.pure]
  · split at h
    · simp [keyError] at h
    · rename_i r hr
      simp only [bind_ok, pure_ok] at h
      obtain ⟨d, _, rfl⟩ := h
      have : ((e.set dk d).erase lk).has dk = true := by
        rw [Dict.has_true_iff]; exact ⟨d, by rw [Dict.get?_erase_other _ _ _ hne, Dict.get?_set_same]⟩
      simp [rangeToYang, this, pure, Except.pure]

/-- `convert_loss_coeff_list` applied to its own output changes nothing -/
theorem loss_coef_to_yang_idempotent (p y : Dict) (h : lossCoefToYang p = .ok y) : lossCoefToYang y = .ok y := by
  have absent : ∀ z : Dict, z.get? "loss_coef" = none → lossCoefToYang z = .ok z := by
    intro z hz; simp [lossCoefToYang, hz, pure, Except.pure]
  unfold lossCoefToYang at h
  split at h
  · rename_i lc hlc
    simp only at h
    split at h
    · simp only [pure_ok] at h; subst h; exact absent _ (Dict.get?_erase_same _ _)
    · simp only [bind_ok, pure_ok] at h
      obtain ⟨vl, _, h⟩ := h
      split at h
      · simp only [bind, Except.bind, pure, Except.pure, Except.ok.injEq] at h
        subst h
        exact absent _ (by rw [Dict.get?_set_other _ _ _ _ (by decide), Dict.get?_erase_same])
      · simp [typeError, bind, Except.bind] at h
  · rename_i hno
    simp only [pure_ok] at h; subst h
    unfold lossCoefToYang
    split
    · rename_i lc hlc; exact absurd hlc (hno lc)
    · rfl

/-- the four converters of the way back are no-ops on their own output -/
theorem design_band_to_legacy_idempotent (p y : Dict) (h : designBandToLegacy p = .ok y) :
    designBandToLegacy y = .ok y := by
  have absent : ∀ z : Dict, z.get? "per_degree_design_bands_targets" = none → designBandToLegacy z = .ok z := by
    intro z hz; simp [designBandToLegacy, hz, pure, Except.pure]
  unfold designBandToLegacy at h
  split at h
  · rename_i hn
    simp only [pure_ok] at h; subst h; exact absent _ hn
  · simp only at h
    split at h
    · simp only [pure_ok] at h; subst h; exact absent _ (Dict.get?_erase_same _ _)
    · simp only [bind_ok] at h
      obtain ⟨l, _, bands, _, h⟩ := h
      split at h
      · simp only [pure_ok] at h; subst h; exact absent _ (Dict.get?_erase_same _ _)
      · simp only [pure_ok] at h; subst h
        exact absent _ (by rw [Dict.get?_set_other _ _ _ _ (by decide), Dict.get?_erase_same])

theorem loss_coef_to_legacy_idempotent (p y : Dict) (h : lossCoefToLegacy p = .ok y) :
    lossCoefToLegacy y = .ok y := by
  have absent : ∀ z : Dict, z.get? "loss_coef_per_frequency" = none → lossCoefToLegacy z = .ok z := by
    intro z hz; simp [lossCoefToLegacy, hz, pure, Except.pure]
  unfold lossCoefToLegacy at h
  split at h
  · rename_i hn
    simp only [pure_ok] at h; subst h; exact absent _ hn
  · simp only at h
    split at h
    · simp only [pure_ok] at h; subst h; exact absent _ (Dict.get?_erase_same _ _)
    · simp only [bind_ok, pure_ok] at h
      obtain ⟨items, _, fr, _, va, _, rfl⟩ := h
      exact absent _ (by rw [Dict.get?_set_other _ _ _ _ (by decide), Dict.get?_erase_same])

theorem range_to_legacy_idempotent (lk dk : String) (e y : Dict) (hne : lk ≠ dk) (h : rangeToLegacy lk dk e = .ok y) :
    rangeToLegacy lk dk y = .ok y := by
  unfold rangeToLegacy at h
  split at h
  · rename_i hh
    simp only [pure_ok] at h; subst h
    simp [rangeToLegacy, hh, pure, Except.pure]
  · simp only [bind_ok, pure_ok] at h
    obtain ⟨r, _, a, _, b, _, c, _, rfl⟩ := h
    simp [rangeToLegacy, Dict.get?_erase_same, pure, Except.pure]

/-! ### SI / Span power ranges (finding F6) -/

/-- `[min, max, step]` → dict → `[min, max, step]` for one SI/Span entry: the list comes back, the
dict form is gone, every other key is untouched -/
theorem range_roundtrip (lk dk : String) (hne : lk ≠ dk) (e : Dict) (a b c : J)
    (h1 : e.get? lk = some (.arr [a, b, c])) (h2 : e.get? dk = none) :
    ∃ y e', rangeToYang lk dk e = .ok y ∧ rangeToLegacy lk dk y = .ok e' ∧
      e'.get? lk = some (.arr [a, b, c]) ∧ e'.get? dk = none ∧
      ∀ k, k ≠ lk → k ≠ dk → e'.get? k = e.get? k := by
  have hhas : e.has dk = false := (Dict.has_false_iff e dk).2 h2
  refine ⟨(e.set dk (.obj [("min_value", a), ("max_value", b), ("step", c)])).erase lk, ?_⟩
  have hy : rangeToYang lk dk e
      = .ok ((e.set dk (.obj [("min_value", a), ("max_value", b), ("step", c)])).erase lk) := by
    simp [rangeToYang, hhas, h1, rangeToDict, idx, bind, Except.bind, pure, Except.pure]
  have hget : ((e.set dk (.obj [("min_value", a), ("max_value", b), ("step", c)])).erase lk).get? dk
      = some (.obj [("min_value", a), ("max_value", b), ("step", c)]) := by
    rw [Dict.get?_erase_other _ _ _ hne, Dict.get?_set_same]
  refine ⟨((((e.set dk (.obj [("min_value", a), ("max_value", b), ("step", c)])).erase lk).set lk
      (.arr [a, b, c])).erase dk), hy, ?_, ?_, ?_, ?_⟩
  · simp [rangeToLegacy, hget, asObj, Dict.get, Dict.get?, bind, Except.bind, pure, Except.pure]
  · rw [Dict.get?_erase_other _ _ _ (Ne.symm hne), Dict.get?_set_same]
  · rw [Dict.get?_erase_same]
  · intro k hk1 hk2
    rw [Dict.get?_erase_other _ _ _ (Ne.symm hk2), Dict.get?_set_other _ _ _ _ (Ne.symm hk1),
      Dict.get?_erase_other _ _ _ (Ne.symm hk1), Dict.get?_set_other _ _ _ _ (Ne.symm hk2)]

/-- a two-entry SI list (the shape of `eqpt_config_multiband.json`) -/
def f6Doc : Dict :=
  [("SI", .arr [.obj [("power_range_db", .arr [.int 0, .int 0, .int 1])],
                .obj [("type_variety", .str "lband"), ("power_range_db", .arr [.int (-2), .int 1, .int 1])]])]

/-- **every SI / Span entry gets its range list back** (behaviour since the repair f4882f89) -/
theorem delta_power_range_roundtrip_witness :
    (convertDeltaPowerRange f6Doc >>= convertBackDeltaPowerRange) = .ok f6Doc := by
  decide

/-- **F6 (repaired in /repo by f4882f89): the old converter fails the property** – after
`convert_delta_power_range` and the old `convert_back_delta_power_range` the SECOND SI entry still
has `power_range_dict_db` and no `power_range_db`. -/
theorem delta_power_range_fails_old :
    (convertDeltaPowerRange f6Doc >>= convertBackDeltaPowerRangeOld)
      = .ok [("SI", .arr [.obj [("power_range_db", .arr [.int 0, .int 0, .int 1])],
          .obj [("type_variety", .str "lband"),
                ("power_range_dict_db", .obj [("min_value", .int (-2)), ("max_value", .int 1), ("step", .int 1)])]])] := by
  decide

/-! ### Raman efficiency of the equipment library (finding F7, repaired by df307dac) -/

def f7Entry : Dict :=
  [("type_variety", .str "SSMF"),
   ("raman_efficiency", .obj [("cr", .arr [.int 0, .int 1]), ("frequency_offset", .arr [.int 0, .int 5])])]

/-- the legacy spelling the entry comes back with (pinned by the repo's expected files) -/
def f7Back : Dict :=
  [("type_variety", .str "SSMF"),
   ("raman_coefficient", .obj [("g0", .arr [.int 0, .int 1]), ("frequency_offset", .arr [.int 0, .int 5])])]

theorem raman_efficiency_back_spelling : (ramanEffToYang f7Entry >>= ramanEffToLegacy) = .ok f7Back := by
  decide

/-- **the returned spelling converts to the same YANG entry again** (a second round trip changes
nothing) and **the loader builds the same Raman coefficient from both spellings**: the same three
entries (`g0`, `frequency_offset`, and the library's default reference frequency), in another key
order -/
theorem raman_efficiency_roundtrip_witness :
    (ramanEffAcceptCoef f7Back >>= ramanEffToYang) = ramanEffToYang f7Entry ∧
    fiberRaman (.int 206) f7Back = some [("g0", .arr [.int 0, .int 1]), ("frequency_offset", .arr [.int 0, .int 5]),
      ("reference_frequency", .int 206)] ∧
    fiberRaman (.int 206) f7Entry = some [("frequency_offset", .arr [.int 0, .int 5]), ("g0", .arr [.int 0, .int 1]),
      ("reference_frequency", .int 206)] := by
  decide

/-- **F7 (repaired in /repo by df307dac): the old code fails the property** – the old converter does
not recognise the returned spelling (it stays `raman_coefficient`, which libyang refuses in an
equipment RamanFiber entry) and the old loader builds no Raman coefficient from it. -/
theorem raman_efficiency_fails_old :
    ramanEffToYang f7Back = .ok f7Back ∧ fiberRamanOld (.int 206) f7Back = none ∧
    (fiberRamanOld (.int 206) f7Entry).isSome = true := by
  decide

/-! ### document level: `legacy_to_yang` is idempotent -/

/-- **`legacy_to_yang` is the identity on a YANG-normal document that one of its own runs produced.**
`yangNormal`, `noBareNull` and `noFlt` are decidable predicates on the output; the harness evaluates
them (op `c18.wf`) on the model's output for every document libyang accepts. -/
theorem to_yang_idempotent_of_normal (rp rp' : List (Nat × String)) (d y : J)
    (h : legacyToYang rp d = .ok y) (hn : yangNormal y = true) (hb : noBareNull y = true) (hf : noFlt y = true) :
    legacyToYang rp' y = .ok y := by
  simp only [legacyToYang, legacyToYangWith, bind_ok] at h
  obtain ⟨dd, _, s, _, hconv⟩ := h
  have hc := convertDict_second rp rp' 2 (.obj s) y hconv hf
  cases y with
  | obj l =>
    cases l with
    | nil => simp [yangNormal] at hn
    | cons kv rest =>
      cases rest with
      | cons _ _ => simp [yangNormal] at hn
      | nil =>
        obtain ⟨k, v⟩ := kv
        have hs := toYangStruct_fixpoint k v hn
        simp only [toYangStruct] at hs
        simp only [legacyToYang, legacyToYangWith, noneToEmpty_of_noBareNull _ hb, asObj, hs, hc, bind, Except.bind,
          pure, Except.pure]
  | _ => simp [yangNormal] at hn

/-- **to_yang_idempotent**: for every well-formed document (decidable predicate `wfDoc`: the
conversion succeeds and its result is YANG-normal, without bare null and without binary float) of
any of the five kinds, converting the converted document again changes nothing – whatever repr
table the second run is given. -/
theorem to_yang_idempotent (rp rp' : List (Nat × String)) (d : J) (h : wfDoc rp d = true) :
    ∃ y, legacyToYang rp d = .ok y ∧ legacyToYang rp' y = .ok y := by
  unfold wfDoc at h
  split at h
  · rename_i y hy
    simp only [Bool.and_eq_true] at h
    exact ⟨y, hy, to_yang_idempotent_of_normal rp rp' d y hy h.1.1 h.1.2 h.2⟩
  · cases h

/-- a topology with per-degree targets of two kinds, design bands, a per-frequency loss list, a
    Raman coefficient, a null and floats -/
def wfTopo : J := .obj [
  ("elements", .arr [
    .obj [("uid", .str "roadm A"), ("type", .str "Roadm"),
          ("params", .obj [("target_pch_out_db", .int (-20)),
            ("per_degree_pch_out_db", .obj [("fiber 1", .flt 13849554016582762496)]),
            ("per_degree_psd_out_mWperGHz", .obj [("trx A", .flt 4553247309662628348)]),
            ("per_degree_design_bands", .obj [("fiber 1", .arr [.obj [("f_min", .flt 4820469601659060224), ("f_max", .flt 4820623201659060224)]])])]),
          ("metadata", .obj [("location", .obj [("city", .null), ("region", .str "r"), ("latitude", .int 0), ("longitude", .flt 4609434218613702656)])])],
    .obj [("uid", .str "fiber 1"), ("type", .str "Fiber"), ("type_variety", .str "SSMF"),
          ("params", .obj [("length", .flt 4635329916471083008), ("length_units", .str "km"), ("con_in", .null),
            ("loss_coef", .obj [("value", .arr [.flt 4596734067664517857, .flt 4596373779694328218]), ("frequency", .arr [.flt 4820300001659060224, .flt 4820524001659060224])]),
            ("raman_coefficient", .obj [("g0", .arr [.int 0, .flt 4547007122018943789]), ("frequency_offset", .arr [.int 0, .flt 4796950003522207744]),
              ("reference_frequency", .flt 4820940001659060224)])])]]),
  ("connections", .arr [.obj [("from_node", .str "roadm A"), ("to_node", .str "fiber 1")]])]

example : wfDoc [] wfTopo = true := by decide +kernel

/-- an equipment library with two SI entries, a RamanFiber with raman_efficiency, an openroadm Edfa and an unnamed Roadm -/
def wfEqpt : J := .obj [
  ("Edfa", .arr [.obj [("type_variety", .str "oa"), ("type_def", .str "openroadm"), ("gain_flatmax", .int 27),
     ("nf_coef", .arr [.flt 13783985880825014374, .flt 13812498263740769234, .flt 13826851596041169194, .flt 4630491361621426831])]]),
  ("RamanFiber", .arr [.obj [("type_variety", .str "SSMF"), ("dispersion", .flt 4535550195151214168),
     ("raman_efficiency", .obj [("cr", .arr [.int 0, .flt 4547007122018943789]), ("frequency_offset", .arr [.int 0, .flt 4796950003522207744])])]]),
  ("Roadm", .arr [.obj [("target_pch_out_db", .int (-20)), ("add_drop_osnr", .int 38)]]),
  ("SI", .arr [.obj [("f_min", .flt 4820469601659060224), ("power_range_db", .arr [.int 0, .int 0, .int 1])],
               .obj [("type_variety", .str "lband"), ("power_range_db", .arr [.int (-2), .int 1, .flt 4602678819172646912])]])]

example : wfDoc [] wfEqpt = true := by decide +kernel

/-- a service document with a route whose index is not the first member, null N/M and a null mode -/
def wfServ : J := .obj [
  ("path-request", .arr [.obj [("request-id", .str "0"), ("source", .str "trx A"), ("destination", .str "trx B"),
     ("bidirectional", .bool false),
     ("path-constraints", .obj [("te-bandwidth", .obj [("trx_type", .str "Voyager"), ("trx_mode", .null),
        ("effective-freq-slot", .arr [.obj [("N", .null), ("M", .null)]]), ("spacing", .flt 4766858406130614272),
        ("max-nb-of-channel", .int 80), ("output-power", .flt 4563448591618756055), ("path_bandwidth", .flt 4771362005757984768)])]),
     ("explicit-route-objects", .obj [("route-object-include-exclude", .arr [
        .obj [("explicit-route-usage", .str "route-include-ero"), ("index", .int 0),
              ("num-unnum-hop", .obj [("node-id", .str "roadm A"), ("hop-type", .str "LOOSE")])]])])]])]

example : wfDoc [] wfServ = true := by decide +kernel

def wfSpec : J := .obj [("spectrum", .arr [.obj [("f_min", .flt 4820472801659060224), ("f_max", .flt 4820527201659060224),
  ("baud_rate", .flt 4764189814503243776), ("slot_width", .flt 4766858406130614272), ("roll_off", .flt 4594572339843380019), ("tx_osnr", .int 40)]])]

example : wfDoc [] wfSpec = true := by decide +kernel

def wfSim : J := .obj [("raman_params", .obj [("flag", .bool true), ("result_spatial_resolution", .flt 4666723172467343360),
    ("solver_spatial_resolution", .int 50)]),
  ("nli_params", .obj [("method", .str "gn_model_analytic"), ("dispersion_tolerance", .int 1),
    ("phase_shift_tolerance", .flt 4591870180066957722), ("computed_channels", .arr [.int 1, .int 18])])]

example : wfDoc [] wfSim = true := by decide +kernel

/-! ### document level: `yang_to_legacy` is idempotent -/

/-- **to_legacy_idempotent**: for every well-formed legacy document (decidable predicate
`wfLegacyDoc`: legacy-normal, no `[null]`, numbers already numbers, accepted by the validation step)
of any of the five kinds – in particular for what `yang_to_legacy` returned, which the harness checks
with op `c18.wf` on every run – `yang_to_legacy` changes nothing. -/
theorem to_legacy_idempotent (rp : List (Nat × String)) (l : J) (h : wfLegacyDoc rp l = true) :
    yangToLegacy rp l = .ok l := by
  simp only [wfLegacyDoc, Bool.and_eq_true] at h
  obtain ⟨⟨⟨hn, hb⟩, hs⟩, hok⟩ := h
  cases l with
  | obj d =>
    have h1 := toLegacyStruct_fixpoint d hn
    have h2 := backStable_spec _ hs
    have h3 := emptyToNone_of_noBoxedNull _ hb
    cases hy : legacyToYang rp (J.obj d) with
    | error e => simp [hy, isOk] at hok
    | ok y =>
      have hy' : legacyToYangWith convertRamanEfficiency rp (J.obj d) = .ok y := hy
      simp only [yangToLegacy, yangToLegacyWith, hy', h3, h2, asObj, h1, bind, Except.bind, pure, Except.pure]
  | _ => simp [legacyNormal] at hn

/-- the normal form of a legacy document: through YANG and back -/
def roundTrip (d : J) : PyR J := legacyToYang [] d >>= yangToLegacy []

/-- what the document becomes after YANG and back is a well-formed legacy document -/
def rtWf (d : J) : Bool :=
  match roundTrip d with
  | .ok l => wfLegacyDoc [] l
  | .error _ => false

/-- a second trip through YANG reproduces the first result exactly -/
def rtStable (d : J) : Bool :=
  match roundTrip d with
  | .ok l => (match roundTrip l with
    | .ok l2 => l2 == l
    | .error _ => false)
  | .error _ => false

/-- non-vacuity of `to_legacy_idempotent`: the round-tripped example documents are well-formed -/
example : rtWf wfTopo = true := by decide +kernel
example : rtWf wfEqpt = true := by decide +kernel
example : rtWf wfServ = true := by decide +kernel
example : rtWf wfSpec = true := by decide +kernel
example : rtWf wfSim = true := by decide +kernel

/-- `roundtrip_structure` on the five witnesses: a second trip through YANG reproduces the normal form
exactly (every degree, band, frequency entry, slot, request in place).
PARTIAL – the general statement `∀ d, wfDoc d → roundTrip d = .ok l → roundTrip l = .ok l ∧ l ≈ d`
(`≈` = same members under every key, numbers within half a unit of the declared digit) is not proved at
document level.  Proved pieces: per-structure round trips (`degree_roundtrip`, `design_band_roundtrip`,
`loss_coef_roundtrip`, `raman_coef_roundtrip`, `range_roundtrip`), the value bound (`fmt_error_bound`,
`fmt_fixpoint`), the two document-level idempotence theorems above, the lifting lemma
`forEachIn_roundtrip` (= `forEachIn_congr`) with `onRoadmParams_roundtrip` / `withParams_roundtrip`, and
the document-level per-converter round trips `range_roundtrip_doc` (every SI/Span entry),
`degree_roundtrip_doc`, `loss_coef_roundtrip_doc` (every element of a topology).  Still missing:
(1) `struct_compose`: the four topology converters act on disjoint members of the same `params`; composing
their round trips needs that each one preserves the others' well-formedness and respects lookup
equality (design bands and Raman coefficient also still need their `_doc` instance, same pattern);
(2) `convertBack_convertDict_leaf`: `convertBack (precision? k) (convertDict (precisionD k) leaf)` is the
leaf's normal form (`parseFloatBits (fmtBits b d)` = nearest double of the rounded decimal), and its
commutation with the structural steps, which move leaves between members of different declared digits
(`value` ↔ `loss_coef_value`, degree name ↔ `per_degree_pch_out_db`). -/
theorem roundtrip_structure_partial :
    rtStable wfTopo = true ∧ rtStable wfEqpt = true ∧ rtStable wfServ = true ∧ rtStable wfSpec = true ∧
    rtStable wfSim = true := by
  refine ⟨?_, ?_, ?_, ?_, ?_⟩ <;> decide +kernel

/-! ### document level: every entry of every list makes the structural round trip -/

/-- **every SI / Span entry gets its range list back** (the general form of the F6 repair): for a
library whose `key` list (`SI` or `Span`) has any number of entries in list form, converting to the
dict form and back keeps the number and order of the entries, every member of every entry, and every
other member of the library. -/
theorem range_roundtrip_doc (key lk dk : String) (hne : lk ≠ dk) (doc : Dict) (l : List J)
    (hget : doc.get? key = some (.arr l))
    (hwf : ∀ ej ∈ l, ∃ (e : Dict) (a b c : J), ej = J.obj e ∧ e.get? lk = some (.arr [a, b, c]) ∧ e.get? dk = none) :
    ∃ y q l', forEachIn doc key (rangeToYang lk dk) = .ok y ∧ forEachIn y key (rangeToLegacy lk dk) = .ok q ∧
      q.get? key = some (.arr l') ∧ l'.length = l.length ∧ (∀ k, k ≠ key → q.get? k = doc.get? k) ∧
      ∀ (i : Nat) (e : Dict), l[i]? = some (J.obj e) → ∃ e' : Dict, l'[i]? = some (J.obj e') ∧ ∀ k, e'.get? k = e.get? k := by
  apply forEachIn_roundtrip doc key _ _ l (fun e e' => ∀ k, Dict.get? e' k = Dict.get? e k) hget
  intro ej hej
  obtain ⟨e, a, b, c, rfl, h1, h2⟩ := hwf ej hej
  obtain ⟨y, e', hy, he', g1, g2, g3⟩ := range_roundtrip lk dk hne e a b c h1 h2
  refine ⟨e, y, e', rfl, hy, he', ?_⟩
  intro k
  by_cases k1 : k = lk
  · rw [k1, g1, h1]
  · by_cases k2 : k = dk
    · rw [k2, g2, h2]
    · exact g3 k k1 k2

/-- relation between a topology element and its image: same members, and the `params` member holds a
dict related by `Rp` -/
def ElemRel (Rp : Dict → Dict → Prop) (e q : Dict) : Prop :=
  (∀ k, k ≠ "params" → q.get? k = e.get? k) ∧
  (e.get? "params" = none → q.get? "params" = none) ∧
  (∀ p : Dict, e.get? "params" = some (.obj p) → ∃ p' : Dict, q.get? "params" = some (.obj p') ∧ Rp p p')

theorem onParams_roundtrip (f g : Dict → PyR Dict) (Rp : Dict → Dict → Prop) (e p : Dict)
    (hp : e.get? "params" = some (.obj p)) (h : ∃ y q, f p = .ok y ∧ g y = .ok q ∧ Rp p q) :
    ∃ y q, onParams e f = .ok y ∧ onParams y g = .ok q ∧ y.get? "type" = e.get? "type" ∧ y.has "params" = true ∧
      ElemRel Rp e q := by
  obtain ⟨yp, qp, hf, hg, hR⟩ := h
  refine ⟨e.set "params" (.obj yp), (e.set "params" (.obj yp)).set "params" (.obj qp), ?_, ?_, ?_, ?_, ?_, ?_, ?_⟩
  · simp [onParams, Dict.get, hp, asObj, hf, bind, Except.bind, pure, Except.pure]
  · simp [onParams, Dict.get, asObj, hg, bind, Except.bind, pure, Except.pure]
  · rw [Dict.get?_set_other _ _ _ _ (by decide)]
  · exact (Dict.has_true_iff _ _).2 ⟨_, Dict.get?_set_same _ _ _⟩
  · intro k hk
    rw [Dict.get?_set_other _ _ _ _ (Ne.symm hk), Dict.get?_set_other _ _ _ _ (Ne.symm hk)]
  · intro hn; rw [hn] at hp; cases hp
  · intro p0 hp0
    rw [hp] at hp0; cases hp0
    exact ⟨qp, Dict.get?_set_same _ _ _, hR⟩

theorem elemRel_refl (Rp : Dict → Dict → Prop) (hrefl : ∀ p, Rp p p) (e : Dict) : ElemRel Rp e e :=
  ⟨fun _ _ => rfl, fun h => h, fun p hp => ⟨p, hp, hrefl p⟩⟩

/-- lifting a params-level round trip through `onRoadmParams` (converters that look at ROADM params) -/
theorem onRoadmParams_roundtrip (f g : Dict → PyR Dict) (Rp : Dict → Dict → Prop) (hrefl : ∀ p, Rp p p) (e : Dict)
    (ht : e.has "type" = true)
    (hp : e.get? "params" = none ∨ ∃ p : Dict, e.get? "params" = some (.obj p) ∧
      (e.get? "type" = some (.str "Roadm") → ∃ y q, f p = .ok y ∧ g y = .ok q ∧ Rp p q)) :
    ∃ y q, onRoadmParams f e = .ok y ∧ onRoadmParams g y = .ok q ∧ ElemRel Rp e q := by
  obtain ⟨t, htt⟩ := (Dict.has_true_iff e "type").1 ht
  have same : ∀ (w : Dict → PyR Dict), ((t == J.str "Roadm") && e.has "params") = false → onRoadmParams w e = .ok e := by
    intro w hc
    simp [onRoadmParams, isRoadmWithParams, Dict.get, htt, hc, bind, Except.bind, pure, Except.pure]
  by_cases hc : ((t == J.str "Roadm") && e.has "params") = true
  · simp only [Bool.and_eq_true, beq_iff_eq] at hc
    obtain ⟨hroadm, hhas⟩ := hc
    rcases hp with hp | ⟨p, hp, hfg⟩
    · rw [(Dict.has_false_iff _ _).2 hp] at hhas; cases hhas
    · obtain ⟨y, q, h1, h2, h3, h4, h5⟩ := onParams_roundtrip f g Rp e p hp (hfg (by rw [htt, hroadm]))
      refine ⟨y, q, ?_, ?_, h5⟩
      · simp [onRoadmParams, isRoadmWithParams, Dict.get, htt, hroadm, hhas, h1, bind, Except.bind, pure, Except.pure]
      · rw [htt] at h3
        simp [onRoadmParams, isRoadmWithParams, Dict.get, h3, hroadm, h4, h2, bind, Except.bind, pure, Except.pure]
  · have hc' : ((t == J.str "Roadm") && e.has "params") = false := by simpa using hc
    exact ⟨e, e, same f hc', same g hc', elemRel_refl Rp hrefl e⟩

/-- lifting a params-level round trip through `withParams` (converters that look at every params) -/
theorem withParams_roundtrip (f g : Dict → PyR Dict) (Rp : Dict → Dict → Prop) (e : Dict)
    (hp : e.get? "params" = none ∨ ∃ p : Dict, e.get? "params" = some (.obj p) ∧ ∃ y q, f p = .ok y ∧ g y = .ok q ∧ Rp p q) :
    ∃ y q, withParams e f = .ok y ∧ withParams y g = .ok q ∧ ElemRel Rp e q := by
  rcases hp with hp | ⟨p, hp, hfg⟩
  · have : e.has "params" = false := (Dict.has_false_iff _ _).2 hp
    exact ⟨e, e, by simp [withParams, this, pure, Except.pure], by simp [withParams, this, pure, Except.pure],
      ⟨fun _ _ => rfl, fun h => h, fun p0 hp0 => by rw [hp] at hp0; cases hp0⟩⟩
  · obtain ⟨y, q, h1, h2, _, h4, h5⟩ := onParams_roundtrip f g Rp e p hp hfg
    have : e.has "params" = true := (Dict.has_true_iff _ _).2 ⟨_, hp⟩
    exact ⟨y, q, by simp [withParams, this, h1], by simp [withParams, h4, h2], h5⟩

/-- **every per-degree target of every ROADM of a topology survives `convert_degree` followed by
`convert_back_degree`**: same number and order of elements, every member of every element, and in every
ROADM `params` the same value under every key (the three degree dicts entry for entry, in order). -/
theorem degree_roundtrip_doc (doc : Dict) (l : List J) (hget : doc.get? "elements" = some (.arr l))
    (hwf : ∀ ej ∈ l, ∃ e : Dict, ej = J.obj e ∧ e.has "type" = true ∧
      (e.get? "params" = none ∨ ∃ p : Dict, e.get? "params" = some (.obj p) ∧
        (e.get? "type" = some (.str "Roadm") → p.get? "per_degree_power_targets" = none ∧
          WfKind p "per_degree_pch_out_db" ∧ WfKind p "per_degree_psd_out_mWperGHz" ∧
          WfKind p "per_degree_psd_out_mWperSlotWidth"))) :
    ∃ y q l', convertDegree doc = .ok y ∧ convertBackDegree y = .ok q ∧
      q.get? "elements" = some (.arr l') ∧ l'.length = l.length ∧ (∀ k, k ≠ "elements" → q.get? k = doc.get? k) ∧
      ∀ (i : Nat) (e : Dict), l[i]? = some (J.obj e) →
        ∃ e' : Dict, l'[i]? = some (J.obj e') ∧ ElemRel (fun p p' => ∀ k, Dict.get? p' k = Dict.get? p k) e e' := by
  apply forEachIn_roundtrip doc "elements" _ _ l _ hget
  intro ej hej
  obtain ⟨e, rfl, ht, hp⟩ := hwf ej hej
  obtain ⟨y, q, h1, h2, h3⟩ := onRoadmParams_roundtrip degreeToYang degreeToLegacy
    (fun p p' => ∀ k, Dict.get? p' k = Dict.get? p k) (fun _ _ => rfl) e ht (by
      rcases hp with hp | ⟨p, hp, hw⟩
      · exact Or.inl hp
      · refine Or.inr ⟨p, hp, fun hr => ?_⟩
        obtain ⟨a, b, c, d⟩ := hw hr
        exact degree_roundtrip p a b c d)
  exact ⟨e, y, q, rfl, h1, h2, h3⟩

/-- params before and after the loss-list round trip: every other member equal; a per-frequency
`loss_coef` comes back with the same two lists (members in the order frequency, value); a scalar one
is untouched -/
def LossRel (p p' : Dict) : Prop :=
  (∀ k, k ≠ "loss_coef" → p'.get? k = p.get? k) ∧
  (∀ lc : Dict, p.get? "loss_coef" = some (.obj lc) → ∃ fl vl, lc.get? "frequency" = some (.arr fl) ∧
      lc.get? "value" = some (.arr vl) ∧ p'.get? "loss_coef" = some (.obj [("frequency", .arr fl), ("value", .arr vl)])) ∧
  ((∀ lc, p.get? "loss_coef" ≠ some (.obj lc)) → p'.get? "loss_coef" = p.get? "loss_coef")

/-- **every per-frequency loss list of every fibre of a topology survives** `convert_loss_coeff_list`
followed by `convert_back_loss_coeff_list` (document level, every element) -/
theorem loss_coef_roundtrip_doc (doc : Dict) (l : List J) (hget : doc.get? "elements" = some (.arr l))
    (hwf : ∀ ej ∈ l, ∃ e : Dict, ej = J.obj e ∧
      (e.get? "params" = none ∨ ∃ p : Dict, e.get? "params" = some (.obj p) ∧
        ((p.get? "loss_coef_per_frequency" = none ∧ ∀ lc, p.get? "loss_coef" ≠ some (.obj lc)) ∨
         (p.get? "loss_coef_per_frequency" = none ∧ ∃ (lc : Dict) (fl vl : List J), p.get? "loss_coef" = some (.obj lc) ∧
            lc.get? "value" = some (.arr vl) ∧ lc.get? "frequency" = some (.arr fl) ∧ vl ≠ [] ∧ fl.length = vl.length)))) :
    ∃ y q l', convertLossCoefList doc = .ok y ∧ convertBackLossCoefList y = .ok q ∧
      q.get? "elements" = some (.arr l') ∧ l'.length = l.length ∧ (∀ k, k ≠ "elements" → q.get? k = doc.get? k) ∧
      ∀ (i : Nat) (e : Dict), l[i]? = some (J.obj e) → ∃ e' : Dict, l'[i]? = some (J.obj e') ∧ ElemRel LossRel e e' := by
  apply forEachIn_roundtrip doc "elements" _ _ l _ hget
  intro ej hej
  obtain ⟨e, rfl, hp⟩ := hwf ej hej
  obtain ⟨y, q, h1, h2, h3⟩ := withParams_roundtrip lossCoefToYang lossCoefToLegacy LossRel e (by
      rcases hp with hp | ⟨p, hp, hw⟩
      · exact Or.inl hp
      · refine Or.inr ⟨p, hp, ?_⟩
        rcases hw with ⟨h0, hno⟩ | ⟨h0, lc, fl, vl, hlc, hv, hf, hne, hlen⟩
        · refine ⟨p, p, lossCoefToYang_nonobj p hno, by simp [lossCoefToLegacy, h0, pure, Except.pure],
            fun _ _ => rfl, fun lc hlc => absurd hlc (hno lc), fun _ => rfl⟩
        · obtain ⟨y, q, a, b, c, d⟩ := loss_coef_roundtrip p lc fl vl h0 hlc hv hf hne hlen
          refine ⟨y, q, a, b, d, ?_, fun hno => absurd hlc (hno lc)⟩
          intro lc' hlc'
          rw [hlc] at hlc'; cases hlc'
          exact ⟨fl, vl, hf, hv, c⟩)
  exact ⟨e, y, q, rfl, h1, h2, h3⟩

/-! ### aliases -/

/-- **every alias yields an entry with identical parameters whose reported name is that alias.**
For an entry with `other_name = names` (strings) and name `s`, the library receives, for each
`a ∈ names ++ [s]`, exactly the entry `(a, kwargs)` where `kwargs` is the declaring entry without
`other_name` and with `type_variety = a`; in particular all parameters other than the name agree. -/
theorem alias_entries (entry : Dict) (names : List String) (s : String)
    (ho : entry.get? "other_name" = some (.arr (names.map J.str)))
    (hs : entry.get? "type_variety" = some (.str s)) :
    ∃ out, expandAliases entry = .ok out ∧
      out.map (·.1) = names ++ [s] ∧
      ∀ nd ∈ out, nd.2.get? "type_variety" = some (.str nd.1) ∧ nd.2.get? "other_name" = none ∧
        ∀ k, k ≠ "type_variety" → k ≠ "other_name" → nd.2.get? k = entry.get? k := by
  have hhas : entry.has "other_name" = true := (Dict.has_true_iff _ _).2 ⟨_, ho⟩
  have hstr : ∀ l : List String, strList (l.map J.str) = .ok l := by
    intro l
    induction l with
    | nil => rfl
    | cons x xs ih => simp [strList, ih, bind, Except.bind, pure, Except.pure]
  have hnames : aliasNames entry = .ok (names ++ [s]) := by
    simp [aliasNames, hs, Dict.get, ho, asArr, hstr names, bind, Except.bind, pure, Except.pure]
  refine ⟨(names ++ [s]).map (fun n => (n, (entry.set "type_variety" (.str n)).erase "other_name")), ?_, ?_, ?_⟩
  · simp [expandAliases, hhas, hnames, bind, Except.bind, pure, Except.pure]
  · simp [List.map_map, Function.comp_def]
  · intro nd hnd
    simp only [List.mem_map] at hnd
    obtain ⟨n, _, rfl⟩ := hnd
    refine ⟨?_, ?_, ?_⟩
    · rw [Dict.get?_erase_other _ _ _ (by decide), Dict.get?_set_same]
    · rw [Dict.get?_erase_same]
    · intro k hk1 hk2
      rw [Dict.get?_erase_other _ _ _ (Ne.symm hk2), Dict.get?_set_other _ _ _ _ (Ne.symm hk1)]

/-- the corpus witness: `T0` with aliases `A`, `B` -/
def t0Entry : Dict :=
  [("type_variety", .str "T0"), ("other_name", .arr [.str "A", .str "B"]), ("mode", .arr [])]

/-- **F4 (repaired in /repo): the Transceiver code before the repair fails the property** – the
entries stored under `A`, `B`, `T0` reported the names `T0`, `A`, `B`. -/
theorem alias_fails_pre_fix :
    (expandAliasesF4 t0Entry).map (fun l => l.map (fun nd => (nd.1, nd.2.get? "type_variety")))
      = .ok [("A", some (.str "T0")), ("B", some (.str "A")), ("T0", some (.str "B"))] := by
  decide

example : (expandAliases t0Entry).map (fun l => l.map (fun nd => (nd.1, nd.2.get? "type_variety")))
      = .ok [("A", some (.str "A")), ("B", some (.str "B")), ("T0", some (.str "T0"))] := by
  decide

end Gnpy.Yang
