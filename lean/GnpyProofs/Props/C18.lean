import GnpyModel
import GnpyProofs.Lemmas.Round
import GnpyProofs.Lemmas.Yang
/- Property theorems for C18 — input documents mean the same thing in legacy and YANG form.
   Models: GnpyModel/Round.lean (decimal formatting), GnpyModel/Json.lean, GnpyModel/Yang.lean.
   Only the property theorems and their non-vacuity examples live here; helper lemmas are in
   GnpyProofs/Lemmas/{Round,Json,Yang}.lean. -/
namespace Gnpy.Round

/-- **values are preserved to the declared precision.**  The text printed for a double `x` with `d`
declared fraction digits denotes the decimal `R / 10^d` (`R = roundDigits x d`); it differs from the
exact binary value of `x` by at most half a unit of the last declared digit. -/
theorem fmt_error_bound (x : Dyadic) (d : Nat) :
    |(roundDigits x d : ℚ) / (10 : ℚ) ^ d - x.absVal| ≤ 1 / 2 / (10 : ℚ) ^ d := by
  obtain ⟨hpos, hval⟩ := scaled_spec x d
  have he := roundHalfEvenDiv_err (scaled x d).1 (scaled x d).2 hpos
  rw [hval] at he
  have hp : (0 : ℚ) < (10 : ℚ) ^ d := by positivity
  unfold roundDigits
  simp only
  have : ((roundHalfEvenDiv (scaled x d).1 (scaled x d).2 : ℚ)) / (10 : ℚ) ^ d - x.absVal
      = ((roundHalfEvenDiv (scaled x d).1 (scaled x d).2 : ℚ) - x.absVal * (10 : ℚ) ^ d) / (10 : ℚ) ^ d := by
    field_simp
  rw [this, abs_div, abs_of_pos hp]
  exact div_le_div_of_nonneg_right he (le_of_lt hp)

/-- **a second pass changes nothing.**  Any double `y` that lies strictly within half a unit of the
last declared digit of the decimal printed for `x` (in particular the double `float(text)` that
`convert_back` reads, as long as |x|·10^d < 2^52) is printed with the same digits again. -/
theorem fmt_fixpoint (x y : Dyadic) (d : Nat)
    (h : |y.absVal - (roundDigits x d : ℚ) / (10 : ℚ) ^ d| < 1 / 2 / (10 : ℚ) ^ d) :
    roundDigits y d = roundDigits x d := by
  obtain ⟨hpos, hval⟩ := scaled_spec y d
  have hp : (0 : ℚ) < (10 : ℚ) ^ d := by positivity
  show roundHalfEvenDiv (scaled y d).1 (scaled y d).2 = roundDigits x d
  apply roundHalfEvenDiv_unique _ _ _ hpos
  rw [hval]
  have : ((roundDigits x d : ℚ)) - y.absVal * (10 : ℚ) ^ d
      = -((y.absVal - (roundDigits x d : ℚ) / (10 : ℚ) ^ d) * (10 : ℚ) ^ d) := by
    field_simp
    ring
  rw [this, abs_neg, abs_mul, abs_of_pos hp]
  calc |y.absVal - (roundDigits x d : ℚ) / (10 : ℚ) ^ d| * (10 : ℚ) ^ d
      < 1 / 2 / (10 : ℚ) ^ d * (10 : ℚ) ^ d := mul_lt_mul_of_pos_right h hp
    _ = 1 / 2 := by field_simp

/-- printing is a fixpoint on values that already have at most `d` digits: R/10^d prints as R -/
theorem fmt_exact (x : Dyadic) (d R : Nat) (h : x.absVal = (R : ℚ) / (10 : ℚ) ^ d) :
    roundDigits x d = R := by
  obtain ⟨hpos, hval⟩ := scaled_spec x d
  have hp : (0 : ℚ) < (10 : ℚ) ^ d := by positivity
  show roundHalfEvenDiv (scaled x d).1 (scaled x d).2 = R
  apply roundHalfEvenDiv_unique _ _ _ hpos
  rw [hval, h]
  have : (R : ℚ) - (R : ℚ) / (10 : ℚ) ^ d * (10 : ℚ) ^ d = 0 := by field_simp; ring
  rw [this]; norm_num

/-- non-vacuity: 0.125 printed with two digits is the tie 12.5 → "0.12" (half-even), and the bound
    is attained -/
example : roundDigits ⟨false, 1, -3⟩ 2 = 12 := by decide
example : fmtBits 4593671619917905920 2 = some "0.12" := by decide
example : fmtBits 4600427019358961664 2 = some "0.38" := by decide

end Gnpy.Round

namespace Gnpy.Yang
open Gnpy

/-! ### nulls -/

/-- **`None ↔ [None]` are inverse.**  For every legacy tree (no `[null]` list in it) turning every
null into `[null]` and back gives the tree again; -/
theorem none_empty_inverse (j : J) (h : noBoxedNull j = true) : emptyToNone (noneToEmpty j) = j :=
  emptyToNone_noneToEmpty j h

/-- and `convert_none_to_empty` is idempotent on every tree (first step of `legacy_to_yang`) -/
theorem none_to_empty_idempotent (j : J) : noneToEmpty (noneToEmpty j) = noneToEmpty j :=
  noneToEmpty_idem j

example : noBoxedNull (.obj [("out_voa", .null), ("amps", .arr [.null, .flt 3])]) = true := by decide
example : emptyToNone (noneToEmpty (.obj [("out_voa", .null), ("amps", .arr [.null, .flt 3])]))
    = .obj [("out_voa", .null), ("amps", .arr [.null, .flt 3])] := by decide

/-! ### decimal strings: second pass of `convert_dict` -/

/-- **`convert_dict` is idempotent.**  If the first pass succeeded and left no binary float behind
(it leaves one only for an integer stored under a string-typed key, which libyang refuses), a second
pass with the same declared digits returns the same tree: strings are kept, integers under
integer-typed keys are kept. -/
theorem convert_dict_idempotent (rp rp' : List (Nat × String)) (fd : Int) (j r : J)
    (h : convertDict rp fd j = .ok r) (hn : noFlt r = true) : convertDict rp' fd r = .ok r :=
  convertDict_second rp rp' fd j r h hn

example : convertDict [] 2 (.obj [("gain_target", .flt 4625619029774565376), ("N", .int 3), ("loss", .int 2)])
    = .ok (.obj [("gain_target", .str "17.5"), ("N", .int 3), ("loss", .str "2.0")]) := by decide

/-! ### SI / Span power ranges (finding F6) -/

/-- `[min, max, step]` → dict → `[min, max, step]` for one SI/Span entry: the list comes back, the
dict form is gone, every other key is untouched -/
theorem range_roundtrip (lk dk : String) (hne : lk ≠ dk) (e : Dict) (a b c : J)
    (h1 : e.get? lk = some (.arr [a, b, c])) (h2 : e.get? dk = none) :
    ∃ y e', rangeToYang lk dk e = .ok y ∧ rangeToLegacy lk dk y = .ok e' ∧
      e'.get? lk = some (.arr [a, b, c]) ∧ e'.get? dk = none ∧
      ∀ k, k ≠ lk → k ≠ dk → e'.get? k = e.get? k := by
  have hhas : e.has dk = false := (Dict.has_false_iff e dk).2 h2
  refine ⟨(e.set dk (.obj [("min_value", a), ("max_value", b), ("step", c)])).erase lk, ?_⟩
  have hy : rangeToYang lk dk e
      = .ok ((e.set dk (.obj [("min_value", a), ("max_value", b), ("step", c)])).erase lk) := by
    simp [rangeToYang, hhas, h1, rangeToDict, idx, bind, Except.bind, pure, Except.pure]
  have hget : ((e.set dk (.obj [("min_value", a), ("max_value", b), ("step", c)])).erase lk).get? dk
      = some (.obj [("min_value", a), ("max_value", b), ("step", c)]) := by
    rw [Dict.get?_erase_other _ _ _ hne, Dict.get?_set_same]
  refine ⟨((((e.set dk (.obj [("min_value", a), ("max_value", b), ("step", c)])).erase lk).set lk
      (.arr [a, b, c])).erase dk), hy, ?_, ?_, ?_, ?_⟩
  · simp [rangeToLegacy, hget, asObj, Dict.get, Dict.get?, bind, Except.bind, pure, Except.pure]
  · rw [Dict.get?_erase_other _ _ _ (Ne.symm hne), Dict.get?_set_same]
  · rw [Dict.get?_erase_same]
  · intro k hk1 hk2
    rw [Dict.get?_erase_other _ _ _ (Ne.symm hk2), Dict.get?_set_other _ _ _ _ (Ne.symm hk1),
      Dict.get?_erase_other _ _ _ (Ne.symm hk1), Dict.get?_set_other _ _ _ _ (Ne.symm hk2)]

/-- a two-entry SI list (the shape of `eqpt_config_multiband.json`) -/
def f6Doc : Dict :=
  [("SI", .arr [.obj [("power_range_db", .arr [.int 0, .int 0, .int 1])],
                .obj [("type_variety", .str "lband"), ("power_range_db", .arr [.int (-2), .int 1, .int 1])]])]

/-- **F6: the property fails for the code as it is.**  After `convert_delta_power_range` and
`convert_back_delta_power_range` the SECOND SI entry still has `power_range_dict_db` and no
`power_range_db`. -/
theorem delta_power_range_fails_current :
    (convertDeltaPowerRange f6Doc >>= convertBackDeltaPowerRange)
      = .ok [("SI", .arr [.obj [("power_range_db", .arr [.int 0, .int 0, .int 1])],
          .obj [("type_variety", .str "lband"),
                ("power_range_dict_db", .obj [("min_value", .int (-2)), ("max_value", .int 1), ("step", .int 1)])]])] := by
  decide

/-- the repaired converter (every entry converted back) restores the document -/
theorem delta_power_range_fixed_witness :
    (convertDeltaPowerRange f6Doc >>= convertBackDeltaPowerRangeAll) = .ok f6Doc := by
  decide

/-! ### Raman efficiency of the equipment library (finding F7) -/

def f7Entry : Dict :=
  [("type_variety", .str "SSMF"),
   ("raman_efficiency", .obj [("cr", .arr [.int 0, .int 1]), ("frequency_offset", .arr [.int 0, .int 5])])]

/-- **F7: the property fails for the code as it is.**  `raman_efficiency` goes to YANG and comes
back under another key (`raman_coefficient`, without reference frequency), which the loader
`json_io.Fiber` does not read. -/
theorem raman_efficiency_fails_current :
    (ramanEffToYang f7Entry >>= ramanEffToLegacy)
      = .ok [("type_variety", .str "SSMF"),
             ("raman_coefficient", .obj [("g0", .arr [.int 0, .int 1]), ("frequency_offset", .arr [.int 0, .int 5])])] := by
  decide

/-! ### aliases -/

/-- **every alias yields an entry with identical parameters whose reported name is that alias.**
For an entry with `other_name = names` (strings) and name `s`, the library receives, for each
`a ∈ names ++ [s]`, exactly the entry `(a, kwargs)` where `kwargs` is the declaring entry without
`other_name` and with `type_variety = a`; in particular all parameters other than the name agree. -/
theorem alias_entries (entry : Dict) (names : List String) (s : String)
    (ho : entry.get? "other_name" = some (.arr (names.map J.str)))
    (hs : entry.get? "type_variety" = some (.str s)) :
    ∃ out, expandAliases entry = .ok out ∧
      out.map (·.1) = names ++ [s] ∧
      ∀ nd ∈ out, nd.2.get? "type_variety" = some (.str nd.1) ∧ nd.2.get? "other_name" = none ∧
        ∀ k, k ≠ "type_variety" → k ≠ "other_name" → nd.2.get? k = entry.get? k := by
  have hhas : entry.has "other_name" = true := (Dict.has_true_iff _ _).2 ⟨_, ho⟩
  have hstr : ∀ l : List String, strList (l.map J.str) = .ok l := by
    intro l
    induction l with
    | nil => rfl
    | cons x xs ih => simp [strList, ih, bind, Except.bind, pure, Except.pure]
  have hnames : aliasNames entry = .ok (names ++ [s]) := by
    simp [aliasNames, hs, Dict.get, ho, asArr, hstr names, bind, Except.bind, pure, Except.pure]
  refine ⟨(names ++ [s]).map (fun n => (n, (entry.set "type_variety" (.str n)).erase "other_name")), ?_, ?_, ?_⟩
  · simp [expandAliases, hhas, hnames, bind, Except.bind, pure, Except.pure]
  · simp [List.map_map, Function.comp_def]
  · intro nd hnd
    simp only [List.mem_map] at hnd
    obtain ⟨n, _, rfl⟩ := hnd
    refine ⟨?_, ?_, ?_⟩
    · rw [Dict.get?_erase_other _ _ _ (by decide), Dict.get?_set_same]
    · rw [Dict.get?_erase_same]
    · intro k hk1 hk2
      rw [Dict.get?_erase_other _ _ _ (Ne.symm hk2), Dict.get?_set_other _ _ _ _ (Ne.symm hk1)]

/-- the corpus witness: `T0` with aliases `A`, `B` -/
def t0Entry : Dict :=
  [("type_variety", .str "T0"), ("other_name", .arr [.str "A", .str "B"]), ("mode", .arr [])]

/-- **F4 (repaired in /repo): the Transceiver code before the repair fails the property** – the
entries stored under `A`, `B`, `T0` reported the names `T0`, `A`, `B`. -/
theorem alias_fails_pre_fix :
    (expandAliasesF4 t0Entry).map (fun l => l.map (fun nd => (nd.1, nd.2.get? "type_variety")))
      = .ok [("A", some (.str "T0")), ("B", some (.str "A")), ("T0", some (.str "B"))] := by
  decide

example : (expandAliases t0Entry).map (fun l => l.map (fun nd => (nd.1, nd.2.get? "type_variety")))
      = .ok [("A", some (.str "A")), ("B", some (.str "B")), ("T0", some (.str "T0"))] := by
  decide

end Gnpy.Yang
