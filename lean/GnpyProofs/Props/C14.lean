import GnpyModel
import GnpyProofs.Lemmas.SlotsStep
import GnpyProofs.Lemmas.SlotsHistory
import GnpyProofs.Lemmas.SlotsOrder
import GnpyProofs.Lemmas.SlotsGrant
/- Property theorems for C14 — spectrum assignment never double-books a slot and honours what the user fixed.
   Model: GnpyModel/Slots.lean (`step` = one iteration of `pth_assign_spectrum`, `run` = a history of calls).
   Helper lemmas: GnpyProofs/Lemmas/{PyList,Slots,SlotsStep}.lean. -/
namespace Gnpy.Slots
open Gnpy.Py

/-- **A blocked (or skipped) request changes no spectrum state** – neither the maps nor the service bookkeeping of any
    OMS; holds for every state, well formed or not. -/
theorem step_blocked_unchanged (pol : Policy) (s s' : List Oms) (r : Request) (o : Outcome)
    (h : step pol s r = .ok (s', o)) (ho : ∀ nm, o ≠ Outcome.accepted nm) : s' = s := by
  unfold step at h
  split at h
  · simp only [pure, Except.pure, Except.ok.injEq, Prod.mk.injEq] at h
    exact h.1.symm
  · simp only [bind, Except.bind] at h
    cases h1 : slotsVsBandwidth r.pathBandwidth r.spacing r.bitRate with
    | error e => rw [h1] at h; cases h
    | ok nr =>
      rw [h1] at h
      simp only at h
      cases h2 : slotsVsBandwidth r.bitRate r.spacing r.bitRate with
      | error e => rw [h2] at h; cases h
      | ok pc =>
        rw [h2] at h
        simp only at h
        cases h3 : reservedShort r.entries pc.2 nr.1 with
        | error e => rw [h3] at h; cases h
        | ok blk =>
          rw [h3] at h
          cases blk with
          | true =>
            simp only [if_true, pure, Except.pure, Except.ok.injEq, Prod.mk.injEq] at h
            exact h.1.symm
          | false =>
            simp only [Bool.false_eq_true, if_false] at h
            cases h4 : computeNM nr.2 r.entries r.pathOms s pc.2 pol with
            | error e => rw [h4] at h; cases h
            | ok sr =>
              rw [h4] at h
              simp only at h
              split at h
              · simp only [pure, Except.pure, Except.ok.injEq, Prod.mk.injEq] at h
                exact h.1.symm
              · cases h5 : applyPath sr.1 r.id nr.1 r.pathOms s with
                | error e => rw [h5] at h; cases h
                | ok s1 =>
                  rw [h5] at h
                  simp only [pure, Except.pure, Except.ok.injEq, Prod.mk.injEq] at h
                  exact absurd h.2.symm (ho _)

/-- **Every granted slot range was free on every OMS of the route (both directions), inside the guard-band limits and
    the bounds of each of those maps, and has positive width.** -/
theorem step_accept_free (pol : Policy) (s s' : List Oms) (r : Request) (out : List (Int × Int)) (hs : StateWF s)
    (hnd : r.pathOms.Nodup) (h : step pol s r = .ok (s', Outcome.accepted out)) :
    ∀ nm ∈ out, 0 < nm.2 ∧ ∀ k ∈ r.pathOms, ∃ o, s[k]? = some o ∧ RangeOK o.bm nm.1 nm.2 ∧
      o.bm.nMin < nm.1 - nm.2 ∧ nm.1 + nm.2 - 1 ≤ o.bm.nMax := by
  obtain ⟨nbWl, requiredM, pcm, t, sel, _, a1, a2, a3, _, _, _⟩ := step_accepted_spec pol s s' r out hs hnd h
  obtain ⟨_, hwf, c1, c2, c3⟩ := aggregate_spec s hs _ t a1
  obtain ⟨_, b2, _, _⟩ := nmLoop_spec pcm pol _ t requiredM sel _ hwf a2
  intro nm hnm
  obtain ⟨d1, ⟨d2, d3, d4⟩, d5, d6⟩ := b2 nm (a3.mem_iff.1 hnm)
  refine ⟨d1, ?_⟩
  intro k hk
  obtain ⟨o, ho⟩ := c1 k hk
  obtain ⟨e1, e2, e3, e4⟩ := c2 k hk o ho
  obtain ⟨g1, g2⟩ := hs.guard o (List.mem_of_getElem? ho)
  refine ⟨o, ho, ⟨by omega, by omega, ?_⟩, by omega, by omega⟩
  intro x hx1 hx2
  exact (c3 x).1 (d4 x hx1 hx2) k hk o ho

/-- the slot ranges given to one request do not overlap each other -/
theorem step_slots_disjoint (pol : Policy) (s s' : List Oms) (r : Request) (out : List (Int × Int)) (hs : StateWF s)
    (hnd : r.pathOms.Nodup) (h : step pol s r = .ok (s', Outcome.accepted out)) : out.Pairwise Disj := by
  obtain ⟨nbWl, requiredM, pcm, t, sel, _, a1, a2, a3, _, _, _⟩ := step_accepted_spec pol s s' r out hs hnd h
  obtain ⟨_, hwf, _, _, _⟩ := aggregate_spec s hs _ t a1
  obtain ⟨_, _, b3, _⟩ := nmLoop_spec pcm pol _ t requiredM sel _ hwf a2
  exact a3.symm.pairwise b3 (fun hh => Disj.symm hh)

/-- **The new state is the old one with exactly `[N−M, N+M−1]` of every granted pair marked occupied on exactly the
    OMS of the route** (`Oms.served`: same marks on every OMS of the route — "identical on every OMS of the path");
    every other OMS is untouched. -/
theorem step_marks_exactly (pol : Policy) (s s' : List Oms) (r : Request) (out : List (Int × Int)) (hs : StateWF s)
    (hnd : r.pathOms.Nodup) (h : step pol s r = .ok (s', Outcome.accepted out)) :
    s'.length = s.length ∧ (∀ k, k ∉ r.pathOms → s'[k]? = s[k]?) ∧
    ∃ nb, ∀ k ∈ r.pathOms, ∃ o, s[k]? = some o ∧ s'[k]? = some (o.served out r.id nb) := by
  obtain ⟨nbWl, _, _, _, _, _, _, _, _, _, _, a7⟩ := step_accepted_spec pol s s' r out hs hnd h
  obtain ⟨b1, b2, b3⟩ := applyPath_spec out r.id nbWl _ s s' hnd hs.wf a7
  refine ⟨b1, b2, nbWl, ?_⟩
  intro k hk
  obtain ⟨o, h1, h2, _⟩ := b3 k hk
  exact ⟨o, h1, h2⟩

/-- what `served` means slot by slot: a slot covered by a granted range becomes occupied, every other slot keeps its
    value (in particular unusable stays unusable, nothing is ever freed) -/
theorem served_cellAt (o : Oms) (sel : List (Int × Int)) (id : String) (nb : Int) (x : Int) :
    (o.served sel id nb).bm.cellAt x = (o.bm.cellAt x).map (fun c => if covers sel x then Cell.occupied else c) :=
  Bitmap.cellAt_markAll sel o.bm x

/-- **same_on_all_oms**: the assignment is identical on every OMS of the route: the cells that change are given by the
    one list `out`, whatever the OMS -/
theorem same_on_all_oms (pol : Policy) (s s' : List Oms) (r : Request) (out : List (Int × Int)) (hs : StateWF s)
    (hnd : r.pathOms.Nodup) (h : step pol s r = .ok (s', Outcome.accepted out)) :
    ∀ k ∈ r.pathOms, ∃ o o', s[k]? = some o ∧ s'[k]? = some o' ∧
      ∀ x, o'.bm.cellAt x = (o.bm.cellAt x).map (fun c => if covers out x then Cell.occupied else c) := by
  obtain ⟨_, _, nb, h3⟩ := step_marks_exactly pol s s' r out hs hnd h
  intro k hk
  obtain ⟨o, h1, h2⟩ := h3 k hk
  exact ⟨o, _, h1, h2, fun x => served_cellAt o out r.id nb x⟩

/-- **enough_slots**: the granted widths add up to at least the slots needed for the requested bandwidth
    (`ceil(spacing / 12.5 GHz) · ceil(path_bandwidth / bit_rate)`) -/
theorem enough_slots (pol : Policy) (s s' : List Oms) (r : Request) (out : List (Int × Int)) (hs : StateWF s)
    (hnd : r.pathOms.Nodup) (h : step pol s r = .ok (s', Outcome.accepted out)) :
    r.bitRate ≠ 0 ∧
    ceilDiv r.spacing slotWidthHz * ceilDiv r.pathBandwidth r.bitRate ≤ sumInt (out.map (·.2)) := by
  obtain ⟨nbWl, requiredM, _, _, _, a0, _, _, _, _, a6, _⟩ := step_accepted_spec pol s s' r out hs hnd h
  unfold slotsVsBandwidth at a0
  split at a0
  · cases a0
  · next hb =>
    simp only [pure, Except.pure, Except.ok.injEq, Prod.mk.injEq] at a0
    refine ⟨hb, ?_⟩
    rw [a0.2]; exact a6


/-- a well-formed state stays well formed -/
theorem step_preserves_wf (pol : Policy) (s s' : List Oms) (r : Request) (o : Outcome) (hs : StateWF s)
    (hnd : r.pathOms.Nodup) (h : step pol s r = .ok (s', o)) : StateWF s' := by
  cases o with
  | skipped => rw [step_blocked_unchanged pol s s' r _ h (by intro nm hh; cases hh)]; exact hs
  | blocked reason => rw [step_blocked_unchanged pol s s' r _ h (by intro nm hh; cases hh)]; exact hs
  | accepted out =>
    obtain ⟨_, m2, nb, m3⟩ := step_marks_exactly pol s s' r out hs hnd h
    exact StateWF_served s s' hs r.pathOms out r.id nb m2 m3

/-- The invariant of every history of `pth_assign_spectrum` calls (induction over ANY request list). -/
theorem run_spec (pol : Policy) : ∀ (rs : List Request) (s s' : List Oms) (os : List Outcome), StateWF s →
    (∀ r ∈ rs, r.pathOms.Nodup) → run pol s rs = .ok (s', os) →
    StateWF s' ∧ s'.length = s.length ∧
    (∀ g ∈ grants rs os, 0 < g.m ∧ ∀ k ∈ g.path, ∃ o, s[k]? = some o ∧ RangeOK o.bm g.n g.m) ∧
    (grants rs os).Pairwise Grant.Compatible ∧
    (∀ (k : Nat) (o : Oms), s[k]? = some o → ∃ o' : Oms, s'[k]? = some o' ∧ ∀ x : Int, o'.bm.cellAt x =
      (o.bm.cellAt x).map (fun c => if (grants rs os).any (fun g => g.covers k x) then Cell.occupied else c)) := by
  intro rs
  induction rs with
  | nil =>
    intro s s' os hs _ h
    have : s' = s ∧ os = [] := by
      simp only [run, pure, Except.pure, Except.ok.injEq, Prod.mk.injEq] at h
      exact ⟨h.1.symm, h.2.symm⟩
    obtain ⟨rfl, rfl⟩ := this
    refine ⟨hs, rfl, by simp [grants], by simp [grants], ?_⟩
    intro k o ho
    refine ⟨o, ho, fun x => ?_⟩
    cases o.bm.cellAt x <;> simp [grants]
  | cons r rs ih =>
    intro s s' os hs hnd h
    obtain ⟨s1, o, os', h1, h2, rfl⟩ := run_cons pol s s' r rs os h
    have hndr : r.pathOms.Nodup := hnd r List.mem_cons_self
    have hs1 : StateWF s1 := step_preserves_wf pol s s1 r o hs hndr h1
    obtain ⟨i1, i2, i4, i5, i6⟩ := ih s1 s' os' hs1 (fun q hq => hnd q (List.mem_cons_of_mem _ hq)) h2
    by_cases hacc : ∃ out, o = Outcome.accepted out
    · obtain ⟨out, rfl⟩ := hacc
      have F := step_accept_free pol s s1 r out hs hndr h1
      have Dj := step_slots_disjoint pol s s1 r out hs hndr h1
      obtain ⟨m1, m2, nb, m3⟩ := step_marks_exactly pol s s1 r out hs hndr h1
      have hpos : ∀ nm ∈ out, 0 < nm.2 := fun nm hnm => (F nm hnm).1
      -- a later grant, seen from the state before this request
      have later : ∀ g ∈ grants rs os', 0 < g.m ∧ (∀ k ∈ g.path, ∃ o, s[k]? = some o ∧ RangeOK o.bm g.n g.m) ∧
          ((∃ k, k ∈ r.pathOms ∧ k ∈ g.path) → ∀ nm ∈ out, Disj nm (g.n, g.m)) := by
        intro g hg
        obtain ⟨gm, gk⟩ := i4 g hg
        refine ⟨gm, ?_, ?_⟩
        · intro k hk
          obtain ⟨o1, q1, q2⟩ := gk k hk
          by_cases hp : k ∈ r.pathOms
          · obtain ⟨o0, p1, p2⟩ := m3 k hp
            rw [p2] at q1; cases q1
            exact ⟨o0, p1, (RangeOK_markAll o0.bm out g.n g.m gm hpos q2).1⟩
          · rw [m2 k hp] at q1
            exact ⟨o1, q1, q2⟩
        · rintro ⟨k, hp, hk⟩ nm hnm
          obtain ⟨o1, q1, q2⟩ := gk k hk
          obtain ⟨o0, p1, p2⟩ := m3 k hp
          rw [p2] at q1; cases q1
          exact (RangeOK_markAll o0.bm out g.n g.m gm hpos q2).2 nm hnm
      have hgr : grants (r :: rs) (Outcome.accepted out :: os') =
          out.map (fun p => (⟨r.pathOms, p.1, p.2⟩ : Grant)) ++ grants rs os' := rfl
      refine ⟨i1, by omega, ?_, ?_, ?_⟩
      · intro g hg
        rw [hgr] at hg
        rcases List.mem_append.1 hg with hg | hg
        · obtain ⟨nm, hnm, rfl⟩ := List.mem_map.1 hg
          obtain ⟨f1, f2⟩ := F nm hnm
          refine ⟨f1, fun k hk => ?_⟩
          obtain ⟨o0, p1, p2, _⟩ := f2 k hk
          exact ⟨o0, p1, p2⟩
        · exact ⟨(later g hg).1, (later g hg).2.1⟩
      · rw [hgr, List.pairwise_append]
        refine ⟨?_, i5, ?_⟩
        · rw [List.pairwise_map]
          refine List.Pairwise.imp ?_ Dj
          intro a b hd _
          exact hd
        · intro g1 hg1 g2 hg2
          obtain ⟨nm, hnm, rfl⟩ := List.mem_map.1 hg1
          intro hshare
          exact (later g2 hg2).2.2 hshare nm hnm
      · intro k o0 ho0
        by_cases hp : k ∈ r.pathOms
        · obtain ⟨o0', p1, p2⟩ := m3 k hp
          rw [ho0] at p1; cases p1
          obtain ⟨o', q1, q2⟩ := i6 k _ p2
          refine ⟨o', q1, fun x => ?_⟩
          rw [q2 x, served_cellAt, hgr, List.any_append, any_grantsOf_accepted]
          cases o0.bm.cellAt x with
          | none => rfl
          | some c =>
            simp only [Option.map_some, hp, decide_true, Bool.true_and]
            cases covers out x <;> cases (grants rs os').any (fun g => g.covers k x) <;> simp
        · have p2 : s1[k]? = some o0 := by rw [m2 k hp]; exact ho0
          obtain ⟨o', q1, q2⟩ := i6 k _ p2
          refine ⟨o', q1, fun x => ?_⟩
          rw [q2 x, hgr, List.any_append, any_grantsOf_accepted]
          simp [hp]
    · have hno : ∀ nm, o ≠ Outcome.accepted nm := fun nm hh => hacc ⟨nm, hh⟩
      have hsame : s1 = s := step_blocked_unchanged pol s s1 r o h1 hno
      subst hsame
      have hgr : grants (r :: rs) (o :: os') = grants rs os' := by
        cases o with
        | skipped => rfl
        | blocked reason => rfl
        | accepted out => exact absurd rfl (hno out)
      rw [hgr]
      exact ⟨i1, i2, i4, i5, i6⟩

/-- **history_no_overlap.** Across any sequence of requests (any mix of fixed/free N and M, blocked or accepted, one or
    both directions, any policy) two granted slot ranges that share an OMS never share a slot; and every granted range
    was free in the initial state on each of its OMS, inside their guard-band limits (so it never sits on a slot that
    was occupied or unusable before the history started). -/
theorem history_no_overlap (pol : Policy) (rs : List Request) (s s' : List Oms) (os : List Outcome) (hs : StateWF s)
    (hnd : ∀ r ∈ rs, r.pathOms.Nodup) (h : run pol s rs = .ok (s', os)) :
    (grants rs os).Pairwise Grant.Compatible ∧
    ∀ g ∈ grants rs os, 0 < g.m ∧ ∀ k ∈ g.path, ∃ o, s[k]? = some o ∧ RangeOK o.bm g.n g.m :=
  ⟨(run_spec pol rs s s' os hs hnd h).2.2.2.1, (run_spec pol rs s s' os hs hnd h).2.2.1⟩

/-- **occupancy_is_union.** After any history the map of every OMS is the initial map with exactly the slots of the
    accepted grants that cross this OMS turned to occupied: nothing else changes, nothing is freed, unusable stays
    unusable. -/
theorem occupancy_is_union (pol : Policy) (rs : List Request) (s s' : List Oms) (os : List Outcome) (hs : StateWF s)
    (hnd : ∀ r ∈ rs, r.pathOms.Nodup) (h : run pol s rs = .ok (s', os)) :
    s'.length = s.length ∧ ∀ (k : Nat) (o : Oms), s[k]? = some o → ∃ o' : Oms, s'[k]? = some o' ∧ ∀ x : Int, o'.bm.cellAt x =
      (o.bm.cellAt x).map (fun c => if (grants rs os).any (fun g => g.covers k x) then Cell.occupied else c) :=
  ⟨(run_spec pol rs s s' os hs hnd h).2.1, (run_spec pol rs s s' os hs hnd h).2.2.2.2⟩


/-- a feasible position for a slot of half-width `m` centred on `n'` on a route, measured as the test bitmap of
    `compute_n_m` measures it: free on every OMS of the route and inside the guard band counted from the first/last
    slot index of the maps -/
def Feasible (s : List Oms) (path : List Nat) (n' m : Int) : Prop :=
  ∀ k ∈ path, ∀ o, s[k]? = some o → o.bm.aggIdxMin ≤ n' - m ∧ n' + m - 1 ≤ o.bm.aggIdxMax ∧
    ∀ x : Int, n' - m ≤ x → x ≤ n' + m - 1 → o.bm.cellAt x = some Cell.free

/-- a one-entry request with a free N that is accepted got its centre from `spectrum_selection` on the test bitmap -/
theorem single_free_entry_selection (pol : Policy) (s s' : List Oms) (r : Request) (e : Entry) (n m : Int)
    (hs : StateWF s) (hnd : r.pathOms.Nodup) (he : r.entries = [e]) (hn : e.n = none)
    (h : step pol s r = .ok (s', Outcome.accepted [(n, m)])) :
    ∃ t, aggregate r.pathOms s = .ok t ∧ 0 < m ∧ spectrumSelection t m pol = .ok (some n) := by
  obtain ⟨nbWl, requiredM, pcm, t, sel, _, a1, a2, a3, _, _, _⟩ := step_accepted_spec _ s s' r _ hs hnd h
  obtain ⟨hne, hwf, c1, c2, c3⟩ := aggregate_spec s hs _ t a1
  have hsel : sel = [(n, m)] := (List.Perm.singleton_eq a3).symm
  subst hsel
  rw [he] at a2
  have hord : (orderSlots [e]).map (·.2) = [e] := rfl
  rw [hord] at a2
  simp only [nmLoop, bind, Except.bind] at a2
  cases hsl : selectOne t e requiredM pcm pol with
  | error err => rw [hsl] at a2; cases a2
  | ok v =>
    rw [hsl] at a2
    cases v with
    | none => simp [pure, Except.pure] at a2
    | some nm =>
      simp only at a2
      cases has : assignSpectrum t nm.1 nm.2 with
      | error err => rw [has] at a2; cases a2
      | ok t' =>
        rw [has] at a2
        simp only [pure, Except.pure, Except.ok.injEq, Prod.mk.injEq, List.cons.injEq, and_true] at a2
        have hnm : nm = (n, m) := Prod.ext a2.1.1 a2.1.2
        subst hnm
        obtain ⟨hm, _⟩ := assignSpectrum_ok t t' _ _ hwf has
        refine ⟨t, a1, hm, ?_⟩
        unfold selectOne at hsl
        rw [hn] at hsl
        cases hem : e.m with
        | none =>
          rw [hem] at hsl
          simp only at hsl
          split at hsl
          · cases hsl
          · simp only [bind, Except.bind] at hsl
            cases hd : spectrumSelection t requiredM pol with
            | error err => rw [hd] at hsl; cases hsl
            | ok o =>
              rw [hd] at hsl
              cases o with
              | none => cases hsl
              | some n0 =>
                have : n0 = n ∧ requiredM = m := by simpa [pure, Except.pure] using hsl
                obtain ⟨rfl, rfl⟩ := this
                exact hd
        | some m0 =>
          rw [hem] at hsl
          simp only [bind, Except.bind] at hsl
          cases hd : spectrumSelection t m0 pol with
          | error err => rw [hd] at hsl; cases hsl
          | ok o =>
            rw [hd] at hsl
            cases o with
            | none => cases hsl
            | some n0 =>
              have : n0 = n ∧ m0 = m := by simpa [pure, Except.pure] using hsl
              obtain ⟨rfl, rfl⟩ := this
              exact hd

theorem feasible_rangeOK (s : List Oms) (hs : StateWF s) (path : List Nat) (t : Bitmap) (ha : aggregate path s = .ok t)
    (n' m : Int) (hfeas : Feasible s path n' m) : RangeOK t n' m := by
  obtain ⟨hne, hwf, c1, c2, c3⟩ := aggregate_spec s hs _ t ha
  obtain ⟨k, hk⟩ := List.exists_mem_of_ne_nil _ hne
  obtain ⟨o, ho⟩ := c1 k hk
  obtain ⟨_, _, e3, e4⟩ := c2 k hk o ho
  obtain ⟨f1, f2, _⟩ := hfeas k hk o ho
  refine ⟨by omega, by omega, ?_⟩
  intro x hx1 hx2
  exact (c3 x).2 (fun k' hk' o' ho' => (hfeas k' hk' o' ho').2.2 x hx1 hx2)

/-- **first_fit_lowest.** With the first-fit policy a request with one slot and a free N (M fixed or free) is placed
    at the lowest feasible position: no centre below the granted one is feasible on the route. -/
theorem first_fit_lowest (s s' : List Oms) (r : Request) (e : Entry) (n m : Int) (hs : StateWF s)
    (hnd : r.pathOms.Nodup) (he : r.entries = [e]) (hn : e.n = none)
    (h : step Policy.firstFit s r = .ok (s', Outcome.accepted [(n, m)])) :
    ∀ n' : Int, n' < n → ¬ Feasible s r.pathOms n' m := by
  obtain ⟨t, ha, hm, hsp⟩ := single_free_entry_selection _ s s' r e n m hs hnd he hn h
  obtain ⟨_, hwf, _, _, _⟩ := aggregate_spec s hs _ t ha
  intro n' hlt hfeas
  exact spectrumSelection_first t hwf m hm n hsp n' hlt (feasible_rangeOK s hs _ t ha n' m hfeas)

/-- with the last-fit policy the same request is placed at the highest feasible position -/
theorem last_fit_highest (s s' : List Oms) (r : Request) (e : Entry) (n m : Int) (hs : StateWF s)
    (hnd : r.pathOms.Nodup) (he : r.entries = [e]) (hn : e.n = none)
    (h : step Policy.lastFit s r = .ok (s', Outcome.accepted [(n, m)])) :
    ∀ n' : Int, n < n' → ¬ Feasible s r.pathOms n' m := by
  obtain ⟨t, ha, hm, hsp⟩ := single_free_entry_selection _ s s' r e n m hs hnd he hn h
  obtain ⟨_, hwf, _, _, _⟩ := aggregate_spec s hs _ t ha
  intro n' hlt hfeas
  exact spectrumSelection_last t hwf m hm n hsp n' hlt (feasible_rangeOK s hs _ t ha n' m hfeas)

theorem forall₂_mem_right {α β : Type} {R : α → β → Prop} {l1 : List α} {l2 : List β} (h : List.Forall₂ R l1 l2)
    (b : β) (hb : b ∈ l2) : ∃ a ∈ l1, R a b := by
  induction h with
  | nil => cases hb
  | cons hr _ ih =>
    rcases List.mem_cons.1 hb with rfl | hb
    · exact ⟨_, List.mem_cons_self, hr⟩
    · obtain ⟨a, ha, hab⟩ := ih hb
      exact ⟨a, List.mem_cons_of_mem _ ha, hab⟩

/-- membership form of `user_fixed_honoured` (below): every returned (N, M) pair stems from an entry of the request and
    carries that entry's fixed N / M unchanged, and no more pairs than entries are returned -/
theorem user_fixed_membership (pol : Policy) (s s' : List Oms) (r : Request) (out : List (Int × Int))
    (hs : StateWF s) (hnd : r.pathOms.Nodup) (h : step pol s r = .ok (s', Outcome.accepted out)) :
    out.length ≤ r.entries.length ∧ ∀ nm ∈ out, ∃ e ∈ r.entries, Honoured e nm := by
  obtain ⟨nbWl, requiredM, pcm, t, sel, _, a1, a2, a3, _, _, _⟩ := step_accepted_spec pol s s' r out hs hnd h
  obtain ⟨_, hwf, _, _, _⟩ := aggregate_spec s hs _ t a1
  obtain ⟨_, _, _, b4⟩ := nmLoop_spec pcm pol _ t requiredM sel _ hwf a2
  have hlen := nmLoop_length pcm pol _ t requiredM sel _ hwf a2
  rw [List.length_map, orderSlots_length] at hlen
  refine ⟨by rw [a3.length_eq]; exact hlen, ?_⟩
  intro nm hnm
  obtain ⟨e, he, hon⟩ := forall₂_mem_right b4 nm (a3.mem_iff.1 hnm)
  refine ⟨e, ?_, hon⟩
  have he' : e ∈ (orderSlots r.entries).map (·.2) := List.mem_of_mem_take he
  obtain ⟨q, hq, rfl⟩ := List.mem_map.1 he'
  have hq' : q ∈ enumerate r.entries := (sorted_perm _ _).mem_iff.1 hq
  exact List.mem_of_getElem? (mem_enumerate _ _ hq')

theorem forall₂_getElem? {α β : Type} {R : α → β → Prop} {l1 : List α} {l2 : List β} (h : List.Forall₂ R l1 l2) :
    ∀ (p : Nat) (a : α) (b : β), l1[p]? = some a → l2[p]? = some b → R a b := by
  induction h with
  | nil => intro p a b ha; simp at ha
  | cons hr _ ih =>
    intro p a b ha hb
    cases p with
    | zero =>
      simp only [List.getElem?_cons_zero, Option.some.injEq] at ha hb
      subst ha hb; exact hr
    | succ p =>
      simp only [List.getElem?_cons_succ] at ha hb
      exact ih p a b ha hb

/-- **user_fixed_honoured.** For an accepted request the returned (N, M) pairs are, in request order, the entries that
    were served: position `k` of the request either is left unused (`g k = none`, intended when the demand is already
    served) or receives a pair that carries the user's N (resp. M) of that very entry unchanged. A request whose fixed
    values cannot be used is blocked instead (`step_blocked_unchanged`). -/
theorem user_fixed_honoured (pol : Policy) (s s' : List Oms) (r : Request) (out : List (Int × Int))
    (hs : StateWF s) (hnd : r.pathOms.Nodup) (h : step pol s r = .ok (s', Outcome.accepted out)) :
    ∃ g : Nat → Option (Int × Int), out = (List.range r.entries.length).filterMap g ∧
      ∀ (k : Nat) (nm : Int × Int), g k = some nm → ∃ e, r.entries[k]? = some e ∧ Honoured e nm := by
  obtain ⟨nbWl, requiredM, pcm, t, sel, _, a1, a2, a3, a4, _, _⟩ := step_accepted_spec pol s s' r out hs hnd h
  obtain ⟨_, hwf, _, _, _⟩ := aggregate_spec s hs _ t a1
  obtain ⟨_, _, _, b4⟩ := nmLoop_spec pcm pol _ t requiredM sel _ hwf a2
  have hlen := nmLoop_length pcm pol _ t requiredM sel _ hwf a2
  rw [List.length_map, orderSlots_length] at hlen
  have hol : ((orderSlots r.entries).map (·.1)).length = r.entries.length := by
    rw [List.length_map, orderSlots_length]
  have hperm : ((orderSlots r.entries).map (·.1)).Perm (List.range ((orderSlots r.entries).map (·.1)).length) := by
    rw [hol, ← enumerate_map_fst]
    exact (sorted_perm _ _).map _
  obtain ⟨g, g1, g2⟩ := restoreOrder_positional
    (sel.map some ++ List.replicate ((orderSlots r.entries).length - sel.length) none) _ hperm
  rw [hol] at g1
  refine ⟨g, by rw [a4]; exact g1, ?_⟩
  intro k nm hk
  obtain ⟨p, hp1, hp2⟩ := g2 k nm hk
  -- the element at sorted position p is one of the selected pairs
  have hpl : p < sel.length := by
    rcases Nat.lt_or_ge p sel.length with hh | hh
    · exact hh
    · rw [List.getElem?_append_right (by simpa using hh), List.getElem?_replicate] at hp2
      split at hp2 <;> cases hp2
  have hselp : sel[p]? = some nm := by
    rw [List.getElem?_append_left (by simpa using hpl), List.getElem?_map] at hp2
    cases hsp : sel[p]? with
    | none => rw [hsp] at hp2; cases hp2
    | some v => rw [hsp] at hp2; simp at hp2; rw [hp2]
  -- the entry at sorted position p is entry k of the request
  rw [List.getElem?_map] at hp1
  cases hq : (orderSlots r.entries)[p]? with
  | none => rw [hq] at hp1; cases hp1
  | some q =>
    rw [hq] at hp1
    have hq1 : q.1 = k := by simpa using hp1
    have hqm : q ∈ enumerate r.entries := (sorted_perm _ _).mem_iff.1 (List.mem_of_getElem? hq)
    have hent := mem_enumerate r.entries q hqm
    refine ⟨q.2, by rw [← hq1]; exact hent, ?_⟩
    apply forall₂_getElem? b4 p q.2 nm _ hselp
    rw [List.getElem?_take]
    simp only [hpl, if_true, List.getElem?_map, hq]
    rfl

theorem reservedChannels_all (entries : List Entry) (pcm : Int) (hpcm : pcm ≠ 0)
    (hall : ∀ e ∈ entries, ∃ m, e.m = some m ∧ m ≠ 0) :
    reservedChannels entries pcm = .ok (some (sumInt (entries.map (fun e => floorDiv (e.m.getD 0) pcm)))) := by
  unfold reservedChannels
  simp only [hpcm, if_false]
  split
  · rfl
  · next hn =>
    exfalso; apply hn
    rw [List.all_eq_true]
    intro e he
    obtain ⟨m, hm, hm0⟩ := hall e he
    rw [hm]; simpa using hm0

/-- **reserved_check.** When every M of the request is fixed (and non-zero) the request is blocked with
    `NOT_ENOUGH_RESERVED_SPECTRUM` exactly when the channels that fit into the reserved widths, `Σ M // m₁` with `m₁` the
    slots of one channel, are fewer than the channels needed for the bandwidth — independently of the spectrum state. -/
theorem reserved_check (pol : Policy) (s : List Oms) (r : Request) (nbWl requiredM x pcm : Int)
    (hpb : r.preBlocked = false)
    (h1 : slotsVsBandwidth r.pathBandwidth r.spacing r.bitRate = .ok (nbWl, requiredM))
    (h2 : slotsVsBandwidth r.bitRate r.spacing r.bitRate = .ok (x, pcm)) (hpcm : pcm ≠ 0)
    (hall : ∀ e ∈ r.entries, ∃ m, e.m = some m ∧ m ≠ 0) :
    (∃ s', step pol s r = .ok (s', Outcome.blocked "NOT_ENOUGH_RESERVED_SPECTRUM")) ↔
      sumInt (r.entries.map (fun e => floorDiv (e.m.getD 0) pcm)) < nbWl := by
  have hrs : reservedShort r.entries pcm nbWl =
      .ok (decide (nbWl > sumInt (r.entries.map (fun e => floorDiv (e.m.getD 0) pcm)))) := by
    simp only [reservedShort, bind, Except.bind, reservedChannels_all r.entries pcm hpcm hall]
    rfl
  unfold step
  simp only [hpb, Bool.false_eq_true, if_false, bind, Except.bind, h1, h2, hrs]
  by_cases hlt : nbWl > sumInt (r.entries.map (fun e => floorDiv (e.m.getD 0) pcm))
  · simp only [decide_eq_true hlt, if_true]
    constructor
    · intro _; exact hlt
    · intro _; exact ⟨s, rfl⟩
  · simp only [decide_eq_false hlt, Bool.false_eq_true, if_false]
    constructor
    · rintro ⟨s', hh⟩
      exfalso
      cases hc : computeNM requiredM r.entries r.pathOms s pcm pol with
      | error e => rw [hc] at hh; cases hh
      | ok sr =>
        rw [hc] at hh
        simp only at hh
        split at hh
        · simp only [pure, Except.pure, Except.ok.injEq, Prod.mk.injEq, Outcome.blocked.injEq] at hh
          exact absurd hh.2 (by decide)
        · cases ha : applyPath sr.1 r.id nbWl r.pathOms s with
          | error e => rw [ha] at hh; cases hh
          | ok s1 =>
            rw [ha] at hh
            simp only [pure, Except.pure, Except.ok.injEq, Prod.mk.injEq] at hh
            cases hh.2
    · intro hh; exact absurd hh hlt


/-- **a free fixed slot is granted** (completeness for the fully fixed one-slot request): when the user fixes (N, M), the
    width carries the demand (`nb_wl ≤ M // m₁`, required slots ≤ M) and `[N−M, N+M−1]` is feasible on the route — free
    on every OMS, inside the guard band, above the first index of the maps — the request is accepted with exactly
    (N, M), whatever the policy. Together with `step_blocked_unchanged` this is what makes a blocked request invisible
    to the requests that follow it. -/
theorem fixed_free_granted (pol : Policy) (s : List Oms) (r : Request) (n m nbWl req x pcm : Int)
    (hs : StateWF s) (hnd : r.pathOms.Nodup) (hne : r.pathOms ≠ []) (hpb : r.preBlocked = false)
    (he : r.entries = [⟨some n, some m⟩])
    (h1 : slotsVsBandwidth r.pathBandwidth r.spacing r.bitRate = .ok (nbWl, req))
    (h2 : slotsVsBandwidth r.bitRate r.spacing r.bitRate = .ok (x, pcm)) (hpcm : pcm ≠ 0)
    (hm : 0 < m) (hres : nbWl ≤ floorDiv m pcm) (hreq : req ≤ m)
    (hfeas : Feasible s r.pathOms n m)
    (hin : ∀ k ∈ r.pathOms, ∃ o, s[k]? = some o ∧ o.bm.nMin < n - m ∧ n + m - 1 ≤ o.bm.nMax) :
    ∃ s', step pol s r = .ok (s', Outcome.accepted [(n, m)]) := by
  have hvalid : ∀ k ∈ r.pathOms, ∃ o, s[k]? = some o := fun k hk => by
    obtain ⟨o, ho, _⟩ := hin k hk; exact ⟨o, ho⟩
  obtain ⟨t, ht⟩ := aggregate_total s hs r.pathOms hne hvalid
  obtain ⟨_, hwf, c1, c2, c3⟩ := aggregate_spec s hs _ t ht
  have hok : RangeOK t n m := feasible_rangeOK s hs _ t ht n m hfeas
  obtain ⟨k0, hk0⟩ := List.exists_mem_of_ne_nil _ hne
  obtain ⟨o0, ho0, g1, g2⟩ := hin k0 hk0
  obtain ⟨e1, e2, _, _⟩ := c2 k0 hk0 o0 ho0
  obtain ⟨t', ht'⟩ := assignSpectrum_of t n m hwf hm (by have := hok.1; omega) (by have := hok.2.1; omega)
    (by omega) (by omega)
  -- the selection loop on the single entry
  have hsel : selectOne t ⟨some n, some m⟩ req pcm pol = .ok (some (n, m)) := by
    simp only [selectOne, bind, Except.bind, determineSlotNumbers_of t hwf n m hm hok]
    have : ¬ m = 0 := by omega
    simp [this, pure, Except.pure]
  have hloop : nmLoop pcm pol t req [⟨some n, some m⟩] = .ok ([(n, m)], req - m) := by
    simp only [nmLoop, bind, Except.bind, hsel, ht']
    rfl
  have hcomp : computeNM req r.entries r.pathOms s pcm pol = .ok ([(n, m)], req - m) := by
    rw [he]
    have hord : (orderSlots [(⟨some n, some m⟩ : Entry)]).map (·.2) = [⟨some n, some m⟩] := rfl
    simp only [computeNM, bind, Except.bind, ht, hord, hloop]
    rfl
  -- the final loop on the OMS of the route
  obtain ⟨s', hs'⟩ := applyPath_total n m r.id nbWl r.pathOms s hnd (by
    intro k hk
    obtain ⟨o, ho, a1, a2⟩ := hin k hk
    obtain ⟨f1, f2, _⟩ := hfeas k hk o ho
    obtain ⟨q1, q2⟩ := hs.guard o (List.mem_of_getElem? ho)
    exact ⟨o, ho, hs.wf o (List.mem_of_getElem? ho), hm, by omega, by omega, a1, a2⟩)
  have hall : ∀ e ∈ r.entries, ∃ m', e.m = some m' ∧ m' ≠ 0 := by
    intro e hee
    rw [he] at hee
    have : e = ⟨some n, some m⟩ := by simpa using hee
    subst this
    exact ⟨m, rfl, by omega⟩
  have hrs : reservedShort r.entries pcm nbWl = .ok false := by
    have hrc := reservedChannels_all r.entries pcm hpcm hall
    simp only [reservedShort, bind, Except.bind, hrc]
    have : ¬ (nbWl > sumInt (List.map (fun e : Entry => floorDiv (e.m.getD 0) pcm) r.entries)) := by
      rw [he]
      simp only [List.map_cons, List.map_nil, sumInt, List.foldr_cons, List.foldr_nil, Option.getD_some]
      omega
    simp [this, pure, Except.pure]
  refine ⟨s', ?_⟩
  unfold step
  simp only [hpb, Bool.false_eq_true, if_false, bind, Except.bind, h1, h2, hrs, hcomp]
  have : ¬ (req - m > 0) := by omega
  simp only [this, if_false, hs']
  rfl

/-! ### the hypotheses are what `build_oms_list` produces (and are satisfiable) -/

theorem tdiv_grid (a : Int) : a.tdiv 6250000000 = if 0 ≤ a then a / 6250000000 else -((-a) / 6250000000) := by
  split
  · next h => exact Int.tdiv_eq_ediv_of_nonneg h
  · next h =>
    have : a = -(-a) := by omega
    rw [this, Int.neg_tdiv, Int.tdiv_eq_ediv_of_nonneg (by omega)]
    simp

/-- A map built by `OMS.update_spectrum` / `Bitmap.__init__` on the default grid is well formed; when the guard band is
    a non-negative multiple of the grid step (the shipped flow uses 25 GHz = 4 steps) the guard-band limits recomputed
    by `aggregate_oms_bitmap` are never looser than the recorded `freq_index_min/max`. -/
theorem create_wf (fMin fMax k : Int) (hk : 0 ≤ k) (cells : Option (List Cell)) (b : Bitmap)
    (h : Bitmap.create fMin fMax defaultGrid (k * defaultGrid) cells = .ok b) :
    b.WF ∧ b.idxMin ≤ b.aggIdxMin ∧ b.aggIdxMax ≤ b.idxMax ∧ b.nMin = frequencyToN fMin ∧ b.nMax = frequencyToN fMax ∧
      b.guardband = k * defaultGrid := by
  unfold Bitmap.create at h
  have hg : ¬ defaultGrid = 0 := by decide
  rw [if_neg hg] at h
  have key : ∀ c : List Cell, c.length = (intRange (frequencyToN fMin) (frequencyToN fMax + 1)).length →
      b = { nMin := frequencyToN fMin, nMax := frequencyToN fMax,
            idxMin := frequencyToN (fMin + k * defaultGrid), idxMax := frequencyToN (fMax - k * defaultGrid),
            freqIndex := intRange (frequencyToN fMin) (frequencyToN fMax + 1), cells := c,
            guardband := k * defaultGrid } →
      b.WF ∧ b.idxMin ≤ b.aggIdxMin ∧ b.aggIdxMax ≤ b.idxMax ∧ b.nMin = frequencyToN fMin ∧ b.nMax = frequencyToN fMax ∧
        b.guardband = k * defaultGrid := by
    intro c hc hb
    subst hb
    refine ⟨⟨rfl, hc⟩, ?_, ?_, rfl, rfl, rfl⟩
    · simp only [Bitmap.aggIdxMin, frequencyToN, nToFrequency, truncDiv, anchorHz, defaultGrid, tdiv_grid]
      split <;> split <;> split <;> omega
    · simp only [Bitmap.aggIdxMax, frequencyToN, nToFrequency, truncDiv, anchorHz, defaultGrid, tdiv_grid]
      split <;> split <;> split <;> omega
  cases cells with
  | none =>
    simp only [pure, Except.pure, Except.ok.injEq] at h
    refine key _ ?_ h.symm
    rw [length_rep, length_intRange]; congr 1; omega
  | some c =>
    simp only at h
    split at h
    · next hc =>
      simp only [pure, Except.pure, Except.ok.injEq] at h
      exact key c hc h.symm
    · cases h

/-- every OMS list whose maps were all created over one frequency range with one guard band (a multiple of the grid
    step) – which is what `build_oms_list` does – satisfies the hypothesis `StateWF` of the theorems above -/
theorem stateWF_of_create (fMin fMax k : Int) (hk : 0 ≤ k) (s : List Oms)
    (h : ∀ o ∈ s, ∃ cells, Bitmap.create fMin fMax defaultGrid (k * defaultGrid) cells = .ok o.bm) : StateWF s := by
  refine ⟨fun o ho => ?_, fun o ho o' ho' => ?_, fun o ho => ?_⟩
  · obtain ⟨c, hc⟩ := h o ho
    exact (create_wf fMin fMax k hk c _ hc).1
  · obtain ⟨c, hc⟩ := h o ho
    obtain ⟨c', hc'⟩ := h o' ho'
    obtain ⟨_, _, _, a1, a2, a3⟩ := create_wf fMin fMax k hk c _ hc
    obtain ⟨_, _, _, b1, b2, b3⟩ := create_wf fMin fMax k hk c' _ hc'
    exact ⟨by rw [a1, b1], by rw [a2, b2], by rw [a3, b3]⟩
  · obtain ⟨c, hc⟩ := h o ho
    obtain ⟨_, g1, g2, _⟩ := create_wf fMin fMax k hk c _ hc
    exact ⟨g1, g2⟩

/-- after any history on such an OMS list the state is again well formed (so the theorems apply to every prefix) -/
theorem run_preserves_wf (pol : Policy) (rs : List Request) (s s' : List Oms) (os : List Outcome) (hs : StateWF s)
    (hnd : ∀ r ∈ rs, r.pathOms.Nodup) (h : run pol s rs = .ok (s', os)) : StateWF s' :=
  (run_spec pol rs s s' os hs hnd h).1

section NonVacuity
/-- a 41-slot map (n = −20 … 20, guard band 25 GHz) as `Bitmap.__init__` builds it -/
def exBitmap : Bitmap :=
  { nMin := -20, nMax := 20, idxMin := -16, idxMax := 16, freqIndex := intRange (-20) 21,
    cells := List.replicate 41 Cell.free, guardband := 25000000000 }
def exState : List Oms := [⟨exBitmap, 0, []⟩, ⟨exBitmap, 0, []⟩, ⟨exBitmap, 0, []⟩]
def exReq (id : String) (entries : List Entry) (path : List Nat) : Request :=
  { id := id, preBlocked := false, entries := entries, pathBandwidth := 100000000000, bitRate := 100000000000,
    spacing := 50000000000, pathOms := path }

example : (Bitmap.create (anchorHz - 20 * defaultGrid) (anchorHz + 20 * defaultGrid) defaultGrid (4 * defaultGrid) none).toOption
    = some exBitmap := by decide

/-- the hypothesis `StateWF` holds for a concrete non-trivial state -/
example : StateWF exState := by
  apply stateWF_of_create (anchorHz - 20 * defaultGrid) (anchorHz + 20 * defaultGrid) 4 (by decide)
  intro o ho
  refine ⟨none, ?_⟩
  simp only [exState, List.mem_cons, List.not_mem_nil, or_false] at ho
  rcases ho with rfl | rfl | rfl <;> decide

/-- an accepted request (free N and M, two-OMS route): first fit puts it at N = −12 -/
example : (step .firstFit exState (exReq "a" [⟨none, none⟩] [0, 1])).toOption.map (·.2) =
    some (Outcome.accepted [(-12, 4)]) := by decide

/-- a history with an accepted, a blocked (fixed slot already taken on the shared OMS 1) and a multi-slot request:
    the grant list is not empty and two grants share OMS 1 -/
example : (run .firstFit exState [exReq "a" [⟨none, none⟩] [0, 1], exReq "b" [⟨some (-12), some 4⟩] [1, 2],
                                 exReq "c" [⟨none, some 4⟩, ⟨some 8, some 4⟩] [1, 2]]).toOption.map (·.2) =
    some [Outcome.accepted [(-12, 4)], Outcome.blocked "NO_SPECTRUM", Outcome.accepted [(-4, 4), (8, 4)]] := by decide

/-- the reserved-spectrum check fires: M = 2 carries no 50 GHz channel -/
example : (step .firstFit exState (exReq "d" [⟨some 0, some 2⟩] [0])).toOption.map (·.2) =
    some (Outcome.blocked "NOT_ENOUGH_RESERVED_SPECTRUM") := by decide
end NonVacuity

end Gnpy.Slots
