import GnpyModel
import GnpyProofs.Lemmas.SlotsStep
import GnpyProofs.Lemmas.SlotsHistory
/- Property theorems for C14 — spectrum assignment never double-books a slot and honours what the user fixed.
   Model: GnpyModel/Slots.lean (`step` = one iteration of `pth_assign_spectrum`, `run` = a history of calls).
   Helper lemmas: GnpyProofs/Lemmas/{PyList,Slots,SlotsStep}.lean. -/
namespace Gnpy.Slots
open Gnpy.Py

/-- **A blocked (or skipped) request changes no spectrum state** – neither the maps nor the service bookkeeping of any
    OMS; holds for every state, well formed or not. -/
theorem step_blocked_unchanged (pol : Policy) (s s' : List Oms) (r : Request) (o : Outcome)
    (h : step pol s r = .ok (s', o)) (ho : ∀ nm, o ≠ Outcome.accepted nm) : s' = s := by
  unfold step at h
  split at h
  · simp only [pure, Except.pure, Except.ok.injEq, Prod.mk.injEq] at h
    exact h.1.symm
  · simp only [bind, Except.bind] at h
    cases h1 : slotsVsBandwidth r.pathBandwidth r.spacing r.bitRate with
    | error e => rw [h1] at h; cases h
    | ok nr =>
      rw [h1] at h
      simp only at h
      cases h2 : slotsVsBandwidth r.bitRate r.spacing r.bitRate with
      | error e => rw [h2] at h; cases h
      | ok pc =>
        rw [h2] at h
        simp only at h
        cases h3 : reservedShort r.entries pc.2 nr.1 with
        | error e => rw [h3] at h; cases h
        | ok blk =>
          rw [h3] at h
          cases blk with
          | true =>
            simp only [if_true, pure, Except.pure, Except.ok.injEq, Prod.mk.injEq] at h
            exact h.1.symm
          | false =>
            simp only [Bool.false_eq_true, if_false] at h
            cases h4 : computeNM nr.2 r.entries r.pathOms s pc.2 pol with
            | error e => rw [h4] at h; cases h
            | ok sr =>
              rw [h4] at h
              simp only at h
              split at h
              · simp only [pure, Except.pure, Except.ok.injEq, Prod.mk.injEq] at h
                exact h.1.symm
              · cases h5 : applyPath sr.1 r.id nr.1 r.pathOms s with
                | error e => rw [h5] at h; cases h
                | ok s1 =>
                  rw [h5] at h
                  simp only [pure, Except.pure, Except.ok.injEq, Prod.mk.injEq] at h
                  exact absurd h.2.symm (ho _)

/-- **Every granted slot range was free on every OMS of the route (both directions), inside the guard-band limits and
    the bounds of each of those maps, and has positive width.** -/
theorem step_accept_free (pol : Policy) (s s' : List Oms) (r : Request) (out : List (Int × Int)) (hs : StateWF s)
    (hnd : r.pathOms.Nodup) (h : step pol s r = .ok (s', Outcome.accepted out)) :
    ∀ nm ∈ out, 0 < nm.2 ∧ ∀ k ∈ r.pathOms, ∃ o, s[k]? = some o ∧ RangeOK o.bm nm.1 nm.2 ∧
      o.bm.nMin < nm.1 - nm.2 ∧ nm.1 + nm.2 - 1 ≤ o.bm.nMax := by
  obtain ⟨nbWl, requiredM, pcm, t, sel, _, a1, a2, a3, _, _, _⟩ := step_accepted_spec pol s s' r out hs hnd h
  obtain ⟨_, hwf, c1, c2, c3⟩ := aggregate_spec s hs _ t a1
  obtain ⟨_, b2, _, _⟩ := nmLoop_spec pcm pol _ t requiredM sel _ hwf a2
  intro nm hnm
  obtain ⟨d1, ⟨d2, d3, d4⟩, d5, d6⟩ := b2 nm (a3.mem_iff.1 hnm)
  refine ⟨d1, ?_⟩
  intro k hk
  obtain ⟨o, ho⟩ := c1 k hk
  obtain ⟨e1, e2, e3, e4⟩ := c2 k hk o ho
  obtain ⟨g1, g2⟩ := hs.guard o (List.mem_of_getElem? ho)
  refine ⟨o, ho, ⟨by omega, by omega, ?_⟩, by omega, by omega⟩
  intro x hx1 hx2
  exact (c3 x).1 (d4 x hx1 hx2) k hk o ho

/-- the slot ranges given to one request do not overlap each other -/
theorem step_slots_disjoint (pol : Policy) (s s' : List Oms) (r : Request) (out : List (Int × Int)) (hs : StateWF s)
    (hnd : r.pathOms.Nodup) (h : step pol s r = .ok (s', Outcome.accepted out)) : out.Pairwise Disj := by
  obtain ⟨nbWl, requiredM, pcm, t, sel, _, a1, a2, a3, _, _, _⟩ := step_accepted_spec pol s s' r out hs hnd h
  obtain ⟨_, hwf, _, _, _⟩ := aggregate_spec s hs _ t a1
  obtain ⟨_, _, b3, _⟩ := nmLoop_spec pcm pol _ t requiredM sel _ hwf a2
  exact a3.symm.pairwise b3 (fun hh => Disj.symm hh)

/-- **The new state is the old one with exactly `[N−M, N+M−1]` of every granted pair marked occupied on exactly the
    OMS of the route** (`Oms.served`: same marks on every OMS of the route — "identical on every OMS of the path");
    every other OMS is untouched. -/
theorem step_marks_exactly (pol : Policy) (s s' : List Oms) (r : Request) (out : List (Int × Int)) (hs : StateWF s)
    (hnd : r.pathOms.Nodup) (h : step pol s r = .ok (s', Outcome.accepted out)) :
    s'.length = s.length ∧ (∀ k, k ∉ r.pathOms → s'[k]? = s[k]?) ∧
    ∃ nb, ∀ k ∈ r.pathOms, ∃ o, s[k]? = some o ∧ s'[k]? = some (o.served out r.id nb) := by
  obtain ⟨nbWl, _, _, _, _, _, _, _, _, _, _, a7⟩ := step_accepted_spec pol s s' r out hs hnd h
  obtain ⟨b1, b2, b3⟩ := applyPath_spec out r.id nbWl _ s s' hnd hs.wf a7
  refine ⟨b1, b2, nbWl, ?_⟩
  intro k hk
  obtain ⟨o, h1, h2, _⟩ := b3 k hk
  exact ⟨o, h1, h2⟩

/-- what `served` means slot by slot: a slot covered by a granted range becomes occupied, every other slot keeps its
    value (in particular unusable stays unusable, nothing is ever freed) -/
theorem served_cellAt (o : Oms) (sel : List (Int × Int)) (id : String) (nb : Int) (x : Int) :
    (o.served sel id nb).bm.cellAt x = (o.bm.cellAt x).map (fun c => if covers sel x then Cell.occupied else c) :=
  Bitmap.cellAt_markAll sel o.bm x

/-- **same_on_all_oms**: the assignment is identical on every OMS of the route: the cells that change are given by the
    one list `out`, whatever the OMS -/
theorem same_on_all_oms (pol : Policy) (s s' : List Oms) (r : Request) (out : List (Int × Int)) (hs : StateWF s)
    (hnd : r.pathOms.Nodup) (h : step pol s r = .ok (s', Outcome.accepted out)) :
    ∀ k ∈ r.pathOms, ∃ o o', s[k]? = some o ∧ s'[k]? = some o' ∧
      ∀ x, o'.bm.cellAt x = (o.bm.cellAt x).map (fun c => if covers out x then Cell.occupied else c) := by
  obtain ⟨_, _, nb, h3⟩ := step_marks_exactly pol s s' r out hs hnd h
  intro k hk
  obtain ⟨o, h1, h2⟩ := h3 k hk
  exact ⟨o, _, h1, h2, fun x => served_cellAt o out r.id nb x⟩

/-- **enough_slots**: the granted widths add up to at least the slots needed for the requested bandwidth
    (`ceil(spacing / 12.5 GHz) · ceil(path_bandwidth / bit_rate)`) -/
theorem enough_slots (pol : Policy) (s s' : List Oms) (r : Request) (out : List (Int × Int)) (hs : StateWF s)
    (hnd : r.pathOms.Nodup) (h : step pol s r = .ok (s', Outcome.accepted out)) :
    r.bitRate ≠ 0 ∧
    ceilDiv r.spacing slotWidthHz * ceilDiv r.pathBandwidth r.bitRate ≤ sumInt (out.map (·.2)) := by
  obtain ⟨nbWl, requiredM, _, _, _, a0, _, _, _, _, a6, _⟩ := step_accepted_spec pol s s' r out hs hnd h
  unfold slotsVsBandwidth at a0
  split at a0
  · cases a0
  · next hb =>
    simp only [pure, Except.pure, Except.ok.injEq, Prod.mk.injEq] at a0
    refine ⟨hb, ?_⟩
    rw [a0.2]; exact a6


/-- a well-formed state stays well formed -/
theorem step_preserves_wf (pol : Policy) (s s' : List Oms) (r : Request) (o : Outcome) (hs : StateWF s)
    (hnd : r.pathOms.Nodup) (h : step pol s r = .ok (s', o)) : StateWF s' := by
  cases o with
  | skipped => rw [step_blocked_unchanged pol s s' r _ h (by intro nm hh; cases hh)]; exact hs
  | blocked reason => rw [step_blocked_unchanged pol s s' r _ h (by intro nm hh; cases hh)]; exact hs
  | accepted out =>
    obtain ⟨_, m2, nb, m3⟩ := step_marks_exactly pol s s' r out hs hnd h
    exact StateWF_served s s' hs r.pathOms out r.id nb m2 m3

/-- The invariant of every history of `pth_assign_spectrum` calls (induction over ANY request list). -/
theorem run_spec (pol : Policy) : ∀ (rs : List Request) (s s' : List Oms) (os : List Outcome), StateWF s →
    (∀ r ∈ rs, r.pathOms.Nodup) → run pol s rs = .ok (s', os) →
    StateWF s' ∧ s'.length = s.length ∧
    (∀ g ∈ grants rs os, 0 < g.m ∧ ∀ k ∈ g.path, ∃ o, s[k]? = some o ∧ RangeOK o.bm g.n g.m) ∧
    (grants rs os).Pairwise Grant.Compatible ∧
    (∀ (k : Nat) (o : Oms), s[k]? = some o → ∃ o' : Oms, s'[k]? = some o' ∧ ∀ x : Int, o'.bm.cellAt x =
      (o.bm.cellAt x).map (fun c => if (grants rs os).any (fun g => g.covers k x) then Cell.occupied else c)) := by
  intro rs
  induction rs with
  | nil =>
    intro s s' os hs _ h
    have : s' = s ∧ os = [] := by
      simp only [run, pure, Except.pure, Except.ok.injEq, Prod.mk.injEq] at h
      exact ⟨h.1.symm, h.2.symm⟩
    obtain ⟨rfl, rfl⟩ := this
    refine ⟨hs, rfl, by simp [grants], by simp [grants], ?_⟩
    intro k o ho
    refine ⟨o, ho, fun x => ?_⟩
    cases o.bm.cellAt x <;> simp [grants]
  | cons r rs ih =>
    intro s s' os hs hnd h
    obtain ⟨s1, o, os', h1, h2, rfl⟩ := run_cons pol s s' r rs os h
    have hndr : r.pathOms.Nodup := hnd r List.mem_cons_self
    have hs1 : StateWF s1 := step_preserves_wf pol s s1 r o hs hndr h1
    obtain ⟨i1, i2, i4, i5, i6⟩ := ih s1 s' os' hs1 (fun q hq => hnd q (List.mem_cons_of_mem _ hq)) h2
    by_cases hacc : ∃ out, o = Outcome.accepted out
    · obtain ⟨out, rfl⟩ := hacc
      have F := step_accept_free pol s s1 r out hs hndr h1
      have Dj := step_slots_disjoint pol s s1 r out hs hndr h1
      obtain ⟨m1, m2, nb, m3⟩ := step_marks_exactly pol s s1 r out hs hndr h1
      have hpos : ∀ nm ∈ out, 0 < nm.2 := fun nm hnm => (F nm hnm).1
      -- a later grant, seen from the state before this request
      have later : ∀ g ∈ grants rs os', 0 < g.m ∧ (∀ k ∈ g.path, ∃ o, s[k]? = some o ∧ RangeOK o.bm g.n g.m) ∧
          ((∃ k, k ∈ r.pathOms ∧ k ∈ g.path) → ∀ nm ∈ out, Disj nm (g.n, g.m)) := by
        intro g hg
        obtain ⟨gm, gk⟩ := i4 g hg
        refine ⟨gm, ?_, ?_⟩
        · intro k hk
          obtain ⟨o1, q1, q2⟩ := gk k hk
          by_cases hp : k ∈ r.pathOms
          · obtain ⟨o0, p1, p2⟩ := m3 k hp
            rw [p2] at q1; cases q1
            exact ⟨o0, p1, (RangeOK_markAll o0.bm out g.n g.m gm hpos q2).1⟩
          · rw [m2 k hp] at q1
            exact ⟨o1, q1, q2⟩
        · rintro ⟨k, hp, hk⟩ nm hnm
          obtain ⟨o1, q1, q2⟩ := gk k hk
          obtain ⟨o0, p1, p2⟩ := m3 k hp
          rw [p2] at q1; cases q1
          exact (RangeOK_markAll o0.bm out g.n g.m gm hpos q2).2 nm hnm
      have hgr : grants (r :: rs) (Outcome.accepted out :: os') =
          out.map (fun p => (⟨r.pathOms, p.1, p.2⟩ : Grant)) ++ grants rs os' := rfl
      refine ⟨i1, by omega, ?_, ?_, ?_⟩
      · intro g hg
        rw [hgr] at hg
        rcases List.mem_append.1 hg with hg | hg
        · obtain ⟨nm, hnm, rfl⟩ := List.mem_map.1 hg
          obtain ⟨f1, f2⟩ := F nm hnm
          refine ⟨f1, fun k hk => ?_⟩
          obtain ⟨o0, p1, p2, _⟩ := f2 k hk
          exact ⟨o0, p1, p2⟩
        · exact ⟨(later g hg).1, (later g hg).2.1⟩
      · rw [hgr, List.pairwise_append]
        refine ⟨?_, i5, ?_⟩
        · rw [List.pairwise_map]
          refine List.Pairwise.imp ?_ Dj
          intro a b hd _
          exact hd
        · intro g1 hg1 g2 hg2
          obtain ⟨nm, hnm, rfl⟩ := List.mem_map.1 hg1
          intro hshare
          exact (later g2 hg2).2.2 hshare nm hnm
      · intro k o0 ho0
        by_cases hp : k ∈ r.pathOms
        · obtain ⟨o0', p1, p2⟩ := m3 k hp
          rw [ho0] at p1; cases p1
          obtain ⟨o', q1, q2⟩ := i6 k _ p2
          refine ⟨o', q1, fun x => ?_⟩
          rw [q2 x, served_cellAt, hgr, List.any_append, any_grantsOf_accepted]
          cases o0.bm.cellAt x with
          | none => rfl
          | some c =>
            simp only [Option.map_some, hp, decide_true, Bool.true_and]
            cases covers out x <;> cases (grants rs os').any (fun g => g.covers k x) <;> simp
        · have p2 : s1[k]? = some o0 := by rw [m2 k hp]; exact ho0
          obtain ⟨o', q1, q2⟩ := i6 k _ p2
          refine ⟨o', q1, fun x => ?_⟩
          rw [q2 x, hgr, List.any_append, any_grantsOf_accepted]
          simp [hp]
    · have hno : ∀ nm, o ≠ Outcome.accepted nm := fun nm hh => hacc ⟨nm, hh⟩
      have hsame : s1 = s := step_blocked_unchanged pol s s1 r o h1 hno
      subst hsame
      have hgr : grants (r :: rs) (o :: os') = grants rs os' := by
        cases o with
        | skipped => rfl
        | blocked reason => rfl
        | accepted out => exact absurd rfl (hno out)
      rw [hgr]
      exact ⟨i1, i2, i4, i5, i6⟩

/-- **history_no_overlap.** Across any sequence of requests (any mix of fixed/free N and M, blocked or accepted, one or
    both directions, any policy) two granted slot ranges that share an OMS never share a slot; and every granted range
    was free in the initial state on each of its OMS, inside their guard-band limits (so it never sits on a slot that
    was occupied or unusable before the history started). -/
theorem history_no_overlap (pol : Policy) (rs : List Request) (s s' : List Oms) (os : List Outcome) (hs : StateWF s)
    (hnd : ∀ r ∈ rs, r.pathOms.Nodup) (h : run pol s rs = .ok (s', os)) :
    (grants rs os).Pairwise Grant.Compatible ∧
    ∀ g ∈ grants rs os, 0 < g.m ∧ ∀ k ∈ g.path, ∃ o, s[k]? = some o ∧ RangeOK o.bm g.n g.m :=
  ⟨(run_spec pol rs s s' os hs hnd h).2.2.2.1, (run_spec pol rs s s' os hs hnd h).2.2.1⟩

/-- **occupancy_is_union.** After any history the map of every OMS is the initial map with exactly the slots of the
    accepted grants that cross this OMS turned to occupied: nothing else changes, nothing is freed, unusable stays
    unusable. -/
theorem occupancy_is_union (pol : Policy) (rs : List Request) (s s' : List Oms) (os : List Outcome) (hs : StateWF s)
    (hnd : ∀ r ∈ rs, r.pathOms.Nodup) (h : run pol s rs = .ok (s', os)) :
    s'.length = s.length ∧ ∀ (k : Nat) (o : Oms), s[k]? = some o → ∃ o' : Oms, s'[k]? = some o' ∧ ∀ x : Int, o'.bm.cellAt x =
      (o.bm.cellAt x).map (fun c => if (grants rs os).any (fun g => g.covers k x) then Cell.occupied else c) :=
  ⟨(run_spec pol rs s s' os hs hnd h).2.1, (run_spec pol rs s s' os hs hnd h).2.2.2.2⟩

end Gnpy.Slots
