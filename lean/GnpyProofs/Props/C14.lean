import GnpyModel
import GnpyProofs.Lemmas.SlotsStep
/- Property theorems for C14 — spectrum assignment never double-books a slot and honours what the user fixed.
   Model: GnpyModel/Slots.lean (`step` = one iteration of `pth_assign_spectrum`, `run` = a history of calls).
   Helper lemmas: GnpyProofs/Lemmas/{PyList,Slots,SlotsStep}.lean. -/
namespace Gnpy.Slots
open Gnpy.Py

/-- **A blocked (or skipped) request changes no spectrum state** – neither the maps nor the service bookkeeping of any
    OMS; holds for every state, well formed or not. -/
theorem step_blocked_unchanged (pol : Policy) (s s' : List Oms) (r : Request) (o : Outcome)
    (h : step pol s r = .ok (s', o)) (ho : ∀ nm, o ≠ Outcome.accepted nm) : s' = s := by
  unfold step at h
  split at h
  · simp only [pure, Except.pure, Except.ok.injEq, Prod.mk.injEq] at h
    exact h.1.symm
  · simp only [bind, Except.bind] at h
    cases h1 : slotsVsBandwidth r.pathBandwidth r.spacing r.bitRate with
    | error e => rw [h1] at h; cases h
    | ok nr =>
      rw [h1] at h
      simp only at h
      cases h2 : slotsVsBandwidth r.bitRate r.spacing r.bitRate with
      | error e => rw [h2] at h; cases h
      | ok pc =>
        rw [h2] at h
        simp only at h
        cases h3 : reservedShort r.entries pc.2 nr.1 with
        | error e => rw [h3] at h; cases h
        | ok blk =>
          rw [h3] at h
          cases blk with
          | true =>
            simp only [if_true, pure, Except.pure, Except.ok.injEq, Prod.mk.injEq] at h
            exact h.1.symm
          | false =>
            simp only [Bool.false_eq_true, if_false] at h
            cases h4 : computeNM nr.2 r.entries r.pathOms s pc.2 pol with
            | error e => rw [h4] at h; cases h
            | ok sr =>
              rw [h4] at h
              simp only at h
              split at h
              · simp only [pure, Except.pure, Except.ok.injEq, Prod.mk.injEq] at h
                exact h.1.symm
              · cases h5 : applyPath sr.1 r.id nr.1 r.pathOms s with
                | error e => rw [h5] at h; cases h
                | ok s1 =>
                  rw [h5] at h
                  simp only [pure, Except.pure, Except.ok.injEq, Prod.mk.injEq] at h
                  exact absurd h.2.symm (ho _)

/-- **Every granted slot range was free on every OMS of the route (both directions), inside the guard-band limits and
    the bounds of each of those maps, and has positive width.** -/
theorem step_accept_free (pol : Policy) (s s' : List Oms) (r : Request) (out : List (Int × Int)) (hs : StateWF s)
    (hnd : r.pathOms.Nodup) (h : step pol s r = .ok (s', Outcome.accepted out)) :
    ∀ nm ∈ out, 0 < nm.2 ∧ ∀ k ∈ r.pathOms, ∃ o, s[k]? = some o ∧ RangeOK o.bm nm.1 nm.2 ∧
      o.bm.nMin < nm.1 - nm.2 ∧ nm.1 + nm.2 - 1 ≤ o.bm.nMax := by
  obtain ⟨nbWl, requiredM, pcm, t, sel, _, a1, a2, a3, _, _, _⟩ := step_accepted_spec pol s s' r out hs hnd h
  obtain ⟨_, hwf, c1, c2, c3⟩ := aggregate_spec s hs _ t a1
  obtain ⟨_, b2, _, _⟩ := nmLoop_spec pcm pol _ t requiredM sel _ hwf a2
  intro nm hnm
  obtain ⟨d1, ⟨d2, d3, d4⟩, d5, d6⟩ := b2 nm (a3.mem_iff.1 hnm)
  refine ⟨d1, ?_⟩
  intro k hk
  obtain ⟨o, ho⟩ := c1 k hk
  obtain ⟨e1, e2, e3, e4⟩ := c2 k hk o ho
  obtain ⟨g1, g2⟩ := hs.guard o (List.mem_of_getElem? ho)
  refine ⟨o, ho, ⟨by omega, by omega, ?_⟩, by omega, by omega⟩
  intro x hx1 hx2
  exact (c3 x).1 (d4 x hx1 hx2) k hk o ho

/-- the slot ranges given to one request do not overlap each other -/
theorem step_slots_disjoint (pol : Policy) (s s' : List Oms) (r : Request) (out : List (Int × Int)) (hs : StateWF s)
    (hnd : r.pathOms.Nodup) (h : step pol s r = .ok (s', Outcome.accepted out)) : out.Pairwise Disj := by
  obtain ⟨nbWl, requiredM, pcm, t, sel, _, a1, a2, a3, _, _, _⟩ := step_accepted_spec pol s s' r out hs hnd h
  obtain ⟨_, hwf, _, _, _⟩ := aggregate_spec s hs _ t a1
  obtain ⟨_, _, b3, _⟩ := nmLoop_spec pcm pol _ t requiredM sel _ hwf a2
  exact a3.symm.pairwise b3 (fun hh => Disj.symm hh)

/-- **The new state is the old one with exactly `[N−M, N+M−1]` of every granted pair marked occupied on exactly the
    OMS of the route** (`Oms.served`: same marks on every OMS of the route — "identical on every OMS of the path");
    every other OMS is untouched. -/
theorem step_marks_exactly (pol : Policy) (s s' : List Oms) (r : Request) (out : List (Int × Int)) (hs : StateWF s)
    (hnd : r.pathOms.Nodup) (h : step pol s r = .ok (s', Outcome.accepted out)) :
    s'.length = s.length ∧ (∀ k, k ∉ r.pathOms → s'[k]? = s[k]?) ∧
    ∃ nb, ∀ k ∈ r.pathOms, ∃ o, s[k]? = some o ∧ s'[k]? = some (o.served out r.id nb) := by
  obtain ⟨nbWl, _, _, _, _, _, _, _, _, _, _, a7⟩ := step_accepted_spec pol s s' r out hs hnd h
  obtain ⟨b1, b2, b3⟩ := applyPath_spec out r.id nbWl _ s s' hnd hs.wf a7
  refine ⟨b1, b2, nbWl, ?_⟩
  intro k hk
  obtain ⟨o, h1, h2, _⟩ := b3 k hk
  exact ⟨o, h1, h2⟩

/-- what `served` means slot by slot: a slot covered by a granted range becomes occupied, every other slot keeps its
    value (in particular unusable stays unusable, nothing is ever freed) -/
theorem served_cellAt (o : Oms) (sel : List (Int × Int)) (id : String) (nb : Int) (x : Int) :
    (o.served sel id nb).bm.cellAt x = (o.bm.cellAt x).map (fun c => if covers sel x then Cell.occupied else c) :=
  Bitmap.cellAt_markAll sel o.bm x

/-- **same_on_all_oms**: the assignment is identical on every OMS of the route: the cells that change are given by the
    one list `out`, whatever the OMS -/
theorem same_on_all_oms (pol : Policy) (s s' : List Oms) (r : Request) (out : List (Int × Int)) (hs : StateWF s)
    (hnd : r.pathOms.Nodup) (h : step pol s r = .ok (s', Outcome.accepted out)) :
    ∀ k ∈ r.pathOms, ∃ o o', s[k]? = some o ∧ s'[k]? = some o' ∧
      ∀ x, o'.bm.cellAt x = (o.bm.cellAt x).map (fun c => if covers out x then Cell.occupied else c) := by
  obtain ⟨_, _, nb, h3⟩ := step_marks_exactly pol s s' r out hs hnd h
  intro k hk
  obtain ⟨o, h1, h2⟩ := h3 k hk
  exact ⟨o, _, h1, h2, fun x => served_cellAt o out r.id nb x⟩

/-- **enough_slots**: the granted widths add up to at least the slots needed for the requested bandwidth
    (`ceil(spacing / 12.5 GHz) · ceil(path_bandwidth / bit_rate)`) -/
theorem enough_slots (pol : Policy) (s s' : List Oms) (r : Request) (out : List (Int × Int)) (hs : StateWF s)
    (hnd : r.pathOms.Nodup) (h : step pol s r = .ok (s', Outcome.accepted out)) :
    r.bitRate ≠ 0 ∧
    ceilDiv r.spacing slotWidthHz * ceilDiv r.pathBandwidth r.bitRate ≤ sumInt (out.map (·.2)) := by
  obtain ⟨nbWl, requiredM, _, _, _, a0, _, _, _, _, a6, _⟩ := step_accepted_spec pol s s' r out hs hnd h
  unfold slotsVsBandwidth at a0
  split at a0
  · cases a0
  · next hb =>
    simp only [pure, Except.pure, Except.ok.injEq, Prod.mk.injEq] at a0
    refine ⟨hb, ?_⟩
    rw [a0.2]; exact a6

end Gnpy.Slots
