import GnpyModel
import GnpyProofs.RealInst
import Mathlib.Data.List.Basic
import Mathlib.Data.List.Perm.Basic
import Mathlib.Tactic.Linarith
/- Property theorems for C16 — each request's result is independent of the other requests in the batch.
   Model: GnpyModel/Plan.lean.
   What a theorem cannot show: whether the Python objects are REALLY copied (aliasing through deepcopy, shared
   library dicts, class attributes).  `edfa_state_leaks` shows that the property rests on that copy; the copy itself
   is covered by the correspondence check and the monitor only (level: partial for run-time aliasing). -/
namespace Gnpy.Plan

variable {Settings Request Result Slots SlotOut : Type}

/-- **plan_results_pointwise**: in any batch, the result of request `i` is what `computeOne` gives for that request
with the given settings — i.e. exactly the result of the batch that contains this request alone, whatever comes
before or after it (dense-comb, saturating, blocked, failing requests included) and whatever the slot state -/
theorem plan_results_pointwise (P : Pipeline Settings Request Result Slots SlotOut) (st : Settings) (s0 s0' : Slots)
    (reqs : List Request) :
    (plan P st s0 reqs).results = reqs.map (P.computeOne st) ∧
    ∀ i (hi : i < reqs.length), (plan P st s0 reqs).results[i]? = (plan P st s0' [reqs[i]]).results[0]? := by
  refine ⟨rfl, ?_⟩
  intro i hi
  simp [plan, hi]

/-- first, last, or in between: prepending and appending other requests does not change a request's result -/
theorem plan_result_context (P : Pipeline Settings Request Result Slots SlotOut) (st : Settings) (s0 : Slots)
    (before after : List Request) (r : Request) :
    (plan P st s0 (before ++ r :: after)).results[before.length]? = some (P.computeOne st r) := by
  simp [plan]

/-- **plan_perm**: permuting the batch permutes the results in the same way (only the slot outcomes may change) -/
theorem plan_perm (P : Pipeline Settings Request Result Slots SlotOut) (st : Settings) (s0 : Slots)
    (reqs reqs' : List Request) (h : reqs.Perm reqs') :
    ((plan P st s0 reqs).results).Perm ((plan P st s0 reqs').results) ∧
    (reqs.zip (plan P st s0 reqs).results).Perm (reqs'.zip (plan P st s0 reqs').results) := by
  constructor
  · exact List.Perm.map _ h
  · have e : ∀ l : List Request, l.zip (plan P st s0 l).results = l.map (fun r => (r, P.computeOne st r)) := by
      intro l
      induction l with
      | nil => rfl
      | cons x xs ih =>
        simp only [plan, List.map_cons, List.zip_cons_cons] at ih ⊢
        rw [ih]
    rw [e, e]; exact List.Perm.map _ h

/-- computing a batch leaves the settings unchanged -/
theorem plan_leaves_settings (P : Pipeline Settings Request Result Slots SlotOut) (st : Settings) (s0 : Slots)
    (reqs : List Request) : (plan P st s0 reqs).settings = st := rfl

/-! ### the amplifier machine: what the deep copy protects -/

/-- **copy_leaves_settings**: propagation on a copy returns the network as it was -/
theorem copy_leaves_settings (net : List (ℝ × Edfa ℝ)) (p : ℝ) : (propagateOnCopy net p).1 = net := rfl

theorem planCopy_spec (net : List (ℝ × Edfa ℝ)) (ps : List ℝ) :
    (planCopy net ps).1 = net ∧ (planCopy net ps).2 = ps.map (fun p => (propagate net p).2) := by
  induction ps with
  | nil => simp [planCopy]
  | cons p rest ih => simp [planCopy, propagateOnCopy, ih.1, ih.2]

/-- with the copy, the batch is an instance of the pipeline: pointwise results, settings unchanged -/
theorem planCopy_pointwise (net : List (ℝ × Edfa ℝ)) (before after : List ℝ) (p : ℝ) :
    (planCopy net (before ++ p :: after)).2[before.length]? = some (planCopy net [p]).2[0]! ∧
    (planCopy net (before ++ p :: after)).1 = net := by
  rw [(planCopy_spec net _).2, (planCopy_spec net _).1, (planCopy_spec net [p]).2]
  simp

/-- the clamp never raises the stored gain: once clamped, an amplifier stays clamped for whoever comes next -/
theorem effGain_antitone (e : Edfa ℝ) (pin : ℝ) : (e.call pin).1.effGain ≤ e.effGain ∧ (e.call pin).1.pMax = e.pMax := by
  simp only [Edfa.call]
  constructor
  · split
    · exact le_refl _
    · rename_i h; exact le_of_lt (not_le.1 h)
  · trivial

/-- an unsaturated call leaves the amplifier as it was -/
theorem call_unsaturated (e : Edfa ℝ) (pin : ℝ) (h : pin + e.effGain ≤ e.pMax) : (e.call pin).1 = e := by
  have : e.effGain ≤ e.pMax - pin := by linarith
  simp [Edfa.call, this]

/-- a saturating call lowers the stored gain strictly -/
theorem call_saturated (e : Edfa ℝ) (pin : ℝ) (h : e.pMax < pin + e.effGain) : (e.call pin).1.effGain < e.effGain := by
  have : ¬ e.effGain ≤ e.pMax - pin := by intro hc; linarith
  simp only [Edfa.call, this, if_false]
  linarith

/-- **edfa_state_leaks**: without the copy the property fails.  One amplifier (gain 20 dB, p_max 21 dBm) after 10 dB
of loss: a saturating request (+15 dBm) followed by a light one (0 dBm).  Sharing the amplifier object, the light
request leaves at +6 dBm; alone (or with the copy) it leaves at +10 dBm; and the network is left changed. -/
theorem edfa_state_leaks :
    (planShared [((10:Int), ({ effGain := 20, pMax := 21 } : Edfa Int))] [15, 0]).2 = [21, 6] ∧
    (planShared [((10:Int), ({ effGain := 20, pMax := 21 } : Edfa Int))] [0]).2 = [10] ∧
    (planCopy [((10:Int), ({ effGain := 20, pMax := 21 } : Edfa Int))] [15, 0]).2 = [21, 10] ∧
    ((planShared [((10:Int), ({ effGain := 20, pMax := 21 } : Edfa Int))] [15, 0]).1.map (·.2.effGain)) = [16] ∧
    ((planCopy [((10:Int), ({ effGain := 20, pMax := 21 } : Edfa Int))] [15, 0]).1.map (·.2.effGain)) = [20] := by
  decide

/-- the same over ℝ for ANY single amplifier that the first request saturates and the second does not: the second
request's output differs from its output alone -/
theorem shared_differs (loss g pmax p1 p2 : ℝ) (hsat : pmax < p1 - loss + g) (hun : p2 - loss + g ≤ pmax)
    (hp : p2 < p1) :
    (planShared [(loss, ({ effGain := g, pMax := pmax } : Edfa ℝ))] [p1, p2]).2 ≠
      [(propagate [(loss, ({ effGain := g, pMax := pmax } : Edfa ℝ))] p1).2,
       (propagate [(loss, ({ effGain := g, pMax := pmax } : Edfa ℝ))] p2).2] := by
  have h1 : ¬ g ≤ pmax - (p1 - loss) := by intro hc; linarith
  have h2 : g ≤ pmax - (p2 - loss) := by linarith
  have h3 : pmax - (p1 - loss) ≤ pmax - (p2 - loss) := by linarith
  simp only [planShared, propagate, Edfa.call, h1, h2, h3, if_true, if_false]
  intro hc
  simp only [List.cons.injEq, and_true, true_and] at hc
  linarith

/-- no amplifier of the line clamps for launch power `p` -/
def Unsat : List (ℝ × Edfa ℝ) → ℝ → Prop
  | [], _ => True
  | (loss, e) :: rest, p => p - loss + e.effGain ≤ e.pMax ∧ Unsat rest (p - loss + e.effGain)

theorem propagate_unsaturated (net : List (ℝ × Edfa ℝ)) (p : ℝ) (h : Unsat net p) : (propagate net p).1 = net := by
  induction net generalizing p with
  | nil => rfl
  | cons x rest ih =>
    obtain ⟨loss, e⟩ := x
    obtain ⟨h1, h2⟩ := h
    have hc : e.effGain ≤ e.pMax - (p - loss) := by linarith
    simp only [propagate, Edfa.call, hc, if_true]
    rw [ih _ h2]

/-- the copy is needed exactly because of the clamp: when no request of the batch drives any amplifier into its
clamp, sharing the objects gives the same results and leaves the network as it was -/
theorem planShared_eq_planCopy_of_unsaturated (net : List (ℝ × Edfa ℝ)) (ps : List ℝ) (h : ∀ p ∈ ps, Unsat net p) :
    planShared net ps = planCopy net ps := by
  induction ps with
  | nil => rfl
  | cons p rest ih =>
    have hp := propagate_unsaturated net p (h p (by simp))
    have hrest := ih (fun q hq => h q (List.mem_cons_of_mem _ hq))
    simp only [planShared, planCopy, propagateOnCopy]
    have : propagate net p = (net, (propagate net p).2) := Prod.ext hp rfl
    rw [this]
    simp only [hrest]

/-! ### process-wide simulation parameters -/

section sim
variable {Net : Type}

/-- **plan_leaves_simparams**: planning a batch never writes the process-wide simulation parameters — whatever the
batch (sparse combs, full combs, blocked requests), they are after the batch what they were before; and every request
of the batch is computed with those same parameters, so its result equals the result computed alone -/
theorem plan_leaves_simparams (P : Pipeline (World Net) Request Result Slots SlotOut) (w : World Net) (s0 : Slots)
    (reqs : List Request) :
    (plan P w s0 reqs).settings.sim = w.sim ∧ (plan P w s0 reqs).settings.network = w.network ∧
    (plan P w s0 reqs).results = reqs.map (P.computeOne ⟨w.network, w.sim⟩) := ⟨rfl, rfl, rfl⟩

/-- the channel selection of the GGN methods only READS the parameters: whatever comb was evaluated before, a comb of
`n` carriers gets the same indices -/
theorem cutIndices_order_free (p : NliParams) (before : List Nat) (n : Nat) :
    (before.map (cutIndices p) ++ [cutIndices p n]).getLast? = some (cutIndices p n) := by simp

/-- a comb with at least as many carriers as `computed_number_of_channels` gets strictly increasing distinct indices
starting at 0 and ending at the last channel (c ≥ 2) -/
theorem cutIndices_ends (p : NliParams) (c n : Nat) (hc : 2 ≤ c) (h1 : p.computedChannels = none)
    (h2 : p.computedNumberOfChannels = some c) (l : List Nat) (h : cutIndices p n = .ok l) :
    l.length = c ∧ l.head? = some 0 ∧ l.getLast? = some (n - 1) := by
  have hc1 : c ≠ 1 := by omega
  simp only [cutIndices, h1, h2, hc1, if_false, Except.ok.injEq] at h
  subst h
  refine ⟨by simp, ?_, ?_⟩
  · cases c with
    | zero => omega
    | succ k => simp [List.range_succ_eq_map, roundDiv]
  · have hpos : 0 < c - 1 := by omega
    have : (List.range c).getLast? = some (c - 1) := by
      cases c with
      | zero => omega
      | succ k => simp [List.range_succ]
    rw [List.getLast?_map, this]
    simp only [Option.map_some, Option.some.injEq]
    unfold roundDiv
    have hq : (c - 1) * (n - 1) / (c - 1) = n - 1 := Nat.mul_div_cancel_left _ hpos
    have hr : (c - 1) * (n - 1) % (c - 1) = 0 := Nat.mul_mod_right _ _
    simp [hq, hr, hpos]

/-- **simparams_leak_example**: with the write-back defect a sparse comb (2 carriers, 8 computed channels) computed
BEFORE a full comb (12 carriers) leaves `computed_number_of_channels = 2` behind, and the full comb is then evaluated
on channels {0, 11} instead of 8 channels; in the other order both get their correct indices -/
theorem simparams_leak_example :
    let p : NliParams := { method := "ggn_approx", computedChannels := none, computedNumberOfChannels := some 8 }
    (selectAllClamping p [2, 12]).2 = [.ok [0, 1], .ok [0, 11]] ∧
    (selectAllClamping p [2, 12]).1.computedNumberOfChannels = some 2 ∧
    cutIndices p 12 = .ok [0, 2, 3, 5, 6, 8, 9, 11] ∧
    (selectAllClamping p [12, 2]).2 = [.ok [0, 2, 3, 5, 6, 8, 9, 11], .ok [0, 1]] := by
  decide

end sim

/-! ### non-vacuity -/
example : (plan (⟨fun (s : Nat) (r : Nat) => s + r, fun (sl : Nat) x => (sl + 1, sl)⟩ : Pipeline Nat Nat Nat Nat Nat)
    5 0 [1, 2, 3]).results = [6, 7, 8] := by decide
example : (plan (⟨fun (s : Nat) (r : Nat) => s + r, fun (sl : Nat) x => (sl + 1, sl)⟩ : Pipeline Nat Nat Nat Nat Nat)
    5 0 [1, 2, 3]).slotOuts = [0, 1, 2] := by decide

end Gnpy.Plan
