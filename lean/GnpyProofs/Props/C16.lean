import GnpyModel
import GnpyProofs.RealInst
import Mathlib.Data.List.Basic
import Mathlib.Data.List.Perm.Basic
import Mathlib.Tactic.Linarith
/- Property theorems for C16 — each request's result is independent of the other requests in the batch.
   Model: GnpyModel/Plan.lean.
   What a theorem cannot show: whether the Python objects are REALLY copied (aliasing through deepcopy, shared
   library dicts, class attributes).  `edfa_state_leaks` shows that the property rests on that copy; the copy itself
   is covered by the correspondence check and the monitor only (level: partial for run-time aliasing). -/
namespace Gnpy.Plan

variable {Settings Request Result Slots SlotOut : Type}

/-- **plan_results_pointwise**: in any batch, the result of request `i` is what `computeOne` gives for that request
with the given settings — i.e. exactly the result of the batch that contains this request alone, whatever comes
before or after it (dense-comb, saturating, blocked, failing requests included) and whatever the slot state -/
theorem plan_results_pointwise (P : Pipeline Settings Request Result Slots SlotOut) (st : Settings) (s0 s0' : Slots)
    (reqs : List Request) :
    (plan P st s0 reqs).results = reqs.map (P.computeOne st) ∧
    ∀ i (hi : i < reqs.length), (plan P st s0 reqs).results[i]? = (plan P st s0' [reqs[i]]).results[0]? := by
  refine ⟨rfl, ?_⟩
  intro i hi
  simp [plan, hi]

/-- first, last, or in between: prepending and appending other requests does not change a request's result -/
theorem plan_result_context (P : Pipeline Settings Request Result Slots SlotOut) (st : Settings) (s0 : Slots)
    (before after : List Request) (r : Request) :
    (plan P st s0 (before ++ r :: after)).results[before.length]? = some (P.computeOne st r) := by
  simp [plan]

/-- **plan_perm**: permuting the batch permutes the results in the same way (only the slot outcomes may change) -/
theorem plan_perm (P : Pipeline Settings Request Result Slots SlotOut) (st : Settings) (s0 : Slots)
    (reqs reqs' : List Request) (h : reqs.Perm reqs') :
    ((plan P st s0 reqs).results).Perm ((plan P st s0 reqs').results) ∧
    (reqs.zip (plan P st s0 reqs).results).Perm (reqs'.zip (plan P st s0 reqs').results) := by
  constructor
  · exact List.Perm.map _ h
  · have e : ∀ l : List Request, l.zip (plan P st s0 l).results = l.map (fun r => (r, P.computeOne st r)) := by
      intro l
      induction l with
      | nil => rfl
      | cons x xs ih =>
        simp only [plan, List.map_cons, List.zip_cons_cons] at ih ⊢
        rw [ih]
    rw [e, e]; exact List.Perm.map _ h

/-- computing a batch leaves the settings unchanged -/
theorem plan_leaves_settings (P : Pipeline Settings Request Result Slots SlotOut) (st : Settings) (s0 : Slots)
    (reqs : List Request) : (plan P st s0 reqs).settings = st := rfl

/-! ### the amplifier machine (as repaired): every call clamps from the SET gain -/

/-- propagation on a copy returns the network as it was -/
theorem copy_leaves_settings (net : List (ℝ × Edfa ℝ)) (p : ℝ) : (propagateOnCopy net p).1 = net := rfl

/-- one call: the gain is `min(set gain, p_max − pin)` whatever the amplifier did before; set gain and p_max are kept -/
theorem call_spec (e : Edfa ℝ) (pin : ℝ) :
    (e.call pin).1.effGain = min e.setGain (e.pMax - pin) ∧ (e.call pin).2 = pin + min e.setGain (e.pMax - pin) ∧
    (e.call pin).1.setGain = e.setGain ∧ (e.call pin).1.pMax = e.pMax := by
  simp only [Edfa.call]
  by_cases h : e.setGain ≤ e.pMax - pin
  · simp [h, min_eq_left h]
  · have h' : e.pMax - pin ≤ e.setGain := le_of_lt (not_le.1 h)
    simp [h, min_eq_right h']

/-- "set gain, reduced only as far as needed": never above the set gain, never above what p_max allows, and equal to the set
gain whenever that fits -/
theorem call_reduced_only_as_needed (e : Edfa ℝ) (pin : ℝ) :
    (e.call pin).1.effGain ≤ e.setGain ∧ pin + (e.call pin).1.effGain ≤ e.pMax ∧
    (pin + e.setGain ≤ e.pMax → (e.call pin).1.effGain = e.setGain) := by
  rw [(call_spec e pin).1]
  refine ⟨min_le_left _ _, ?_, ?_⟩
  · have := min_le_right e.setGain (e.pMax - pin); linarith
  · intro h; exact min_eq_left (by linarith)

/-- **call_history_free**: any sequence of calls on ONE shared amplifier object gives, for every call, the output
`pin_i + min(set gain, p_max − pin_i)` — irrespective of the earlier calls (a cold spectrum after a hot one gets the full set
gain again) — and leaves the set gain and p_max as they were -/
theorem call_history_free (e : Edfa ℝ) (pins : List ℝ) :
    (callSeq e pins).2 = pins.map (fun p => p + min e.setGain (e.pMax - p)) ∧
    (callSeq e pins).1.setGain = e.setGain ∧ (callSeq e pins).1.pMax = e.pMax := by
  unfold callSeq
  induction pins generalizing e with
  | nil => simp [callSeqWith]
  | cons p ps ih =>
    obtain ⟨_, h2, h3, h4⟩ := call_spec e p
    obtain ⟨i1, i2, i3⟩ := ih (e.call p).1
    simp only [callSeqWith, List.map_cons]
    refine ⟨?_, by rw [i2, h3], by rw [i3, h4]⟩
    rw [i1, h2, h3, h4]

/-- the set gain is invariant under any call sequence (the quantity `network_to_json` must keep exporting) -/
theorem setGain_invariant (e : Edfa ℝ) (pins : List ℝ) : (callSeq e pins).1.setGain = e.setGain :=
  (call_history_free e pins).2.1

/-- a propagation reads only the SETTINGS of the line (losses, set gains, p_max) and leaves them unchanged -/
theorem propagate_settings (net net' : List (ℝ × Edfa ℝ)) (p : ℝ) (h : settingsOf net = settingsOf net') :
    (propagate net p).2 = (propagate net' p).2 ∧ settingsOf (propagate net p).1 = settingsOf net := by
  unfold propagate
  induction net generalizing net' p with
  | nil =>
    cases net' with
    | nil => simp [propagateWith, settingsOf]
    | cons y ys => simp [settingsOf] at h
  | cons x xs ih =>
    cases net' with
    | nil => simp [settingsOf] at h
    | cons y ys =>
      obtain ⟨l, e⟩ := x
      obtain ⟨l', e'⟩ := y
      simp only [settingsOf, List.map_cons, List.cons.injEq, Prod.mk.injEq] at h
      obtain ⟨⟨hl, hs, hp⟩, hrest⟩ := h
      obtain ⟨c1, c2, c3, c4⟩ := call_spec e (p - l)
      obtain ⟨d1, d2, d3, d4⟩ := call_spec e' (p - l')
      have hout : (e.call (p - l)).2 = (e'.call (p - l')).2 := by rw [c2, d2, hl, hs, hp]
      obtain ⟨i1, i2⟩ := ih ys (e.call (p - l)).2 (by simpa [settingsOf] using hrest)
      simp only [propagateWith]
      refine ⟨by rw [i1, hout], ?_⟩
      simp only [settingsOf, List.map_cons, List.cons.injEq, Prod.mk.injEq]
      refine ⟨⟨trivial, c3, c4⟩, ?_⟩
      simpa [settingsOf] using i2

theorem planCopy_spec (net : List (ℝ × Edfa ℝ)) (ps : List ℝ) :
    (planCopy net ps).1 = net ∧ (planCopy net ps).2 = ps.map (fun p => (propagate net p).2) := by
  unfold planCopy propagate
  induction ps with
  | nil => simp [planCopyWith]
  | cons p rest ih => simp [planCopyWith, ih.1, ih.2]

/-- with the copy, the batch is an instance of the pipeline: pointwise results, settings unchanged -/
theorem planCopy_pointwise (net : List (ℝ × Edfa ℝ)) (before after : List ℝ) (p : ℝ) :
    (planCopy net (before ++ p :: after)).2[before.length]? = some (planCopy net [p]).2[0]! ∧
    (planCopy net (before ++ p :: after)).1 = net := by
  rw [(planCopy_spec net _).2, (planCopy_spec net _).1, (planCopy_spec net [p]).2]
  simp

/-- **with the repaired amplifier the results no longer rest on the copy**: sharing the amplifier objects across the batch
gives every request the result it has alone, and the settings of the network (set gains, p_max, losses) are unchanged.
What is still shared is only the gain of the LAST call (`effGain`), which no computation reads. -/
theorem planShared_results_eq_planCopy (net : List (ℝ × Edfa ℝ)) (ps : List ℝ) :
    (planShared net ps).2 = (planCopy net ps).2 ∧ settingsOf (planShared net ps).1 = settingsOf net := by
  rw [(planCopy_spec net ps).2]
  unfold planShared
  suffices h : ∀ net' : List (ℝ × Edfa ℝ), settingsOf net' = settingsOf net →
      (planSharedWith Edfa.call net' ps).2 = ps.map (fun p => (propagate net p).2) ∧
      settingsOf (planSharedWith Edfa.call net' ps).1 = settingsOf net from h net rfl
  induction ps with
  | nil => intro net' h; simp [planSharedWith, h]
  | cons p rest ih =>
    intro net' h
    obtain ⟨a1, a2⟩ := propagate_settings net' net p h
    obtain ⟨i1, i2⟩ := ih (propagate net' p).1 (by rw [a2, h])
    simp only [planSharedWith, List.map_cons]
    unfold propagate at i1 i2 a1
    refine ⟨?_, i2⟩
    rw [i1, a1]; rfl

/-! ### the counter-model (`callLeaky`, the behaviour before the repair): why the per-request copy was needed -/

/-- the leaky clamp never raises the stored gain: once clamped, the amplifier stayed clamped for whoever came next -/
theorem leaky_effGain_antitone (e : Edfa ℝ) (pin : ℝ) :
    (e.callLeaky pin).1.effGain ≤ e.effGain ∧ (e.callLeaky pin).1.pMax = e.pMax := by
  simp only [Edfa.callLeaky]
  constructor
  · split
    · exact le_refl _
    · rename_i h; exact le_of_lt (not_le.1 h)
  · trivial

/-- a saturating leaky call lowers the stored gain strictly -/
theorem leaky_call_saturated (e : Edfa ℝ) (pin : ℝ) (h : e.pMax < pin + e.effGain) :
    (e.callLeaky pin).1.effGain < e.effGain := by
  have : ¬ e.effGain ≤ e.pMax - pin := by intro hc; linarith
  simp only [Edfa.callLeaky, this, if_false]
  linarith

/-- **edfa_state_leaks** (about the LEAKY variant): one amplifier (gain 20 dB, p_max 21 dBm) after 10 dB of loss: a saturating
request (+15 dBm) followed by a light one (0 dBm).  Sharing the leaky amplifier object, the light request leaves at +6 dBm;
with the copy it leaves at +10 dBm.  The repaired amplifier gives +10 dBm in both cases. -/
theorem edfa_state_leaks :
    (planSharedLeaky [((10:Int), ({ setGain := 20, effGain := 20, pMax := 21 } : Edfa Int))] [15, 0]).2 = [21, 6] ∧
    (planCopyLeaky [((10:Int), ({ setGain := 20, effGain := 20, pMax := 21 } : Edfa Int))] [15, 0]).2 = [21, 10] ∧
    ((planSharedLeaky [((10:Int), ({ setGain := 20, effGain := 20, pMax := 21 } : Edfa Int))] [15, 0]).1.map (·.2.effGain)) = [16] ∧
    (planShared [((10:Int), ({ setGain := 20, effGain := 20, pMax := 21 } : Edfa Int))] [15, 0]).2 = [21, 10] ∧
    ((planShared [((10:Int), ({ setGain := 20, effGain := 20, pMax := 21 } : Edfa Int))] [15, 0]).1.map (·.2.setGain)) = [20] := by
  decide

/-- the same over ℝ for ANY single leaky amplifier that the first request saturates and the second does not: the second
request's output differs from its output alone -/
theorem shared_differs (loss g pmax p1 p2 : ℝ) (hsat : pmax < p1 - loss + g) (hun : p2 - loss + g ≤ pmax)
    (hp : p2 < p1) :
    (planSharedLeaky [(loss, ({ setGain := g, effGain := g, pMax := pmax } : Edfa ℝ))] [p1, p2]).2 ≠
      (planCopyLeaky [(loss, ({ setGain := g, effGain := g, pMax := pmax } : Edfa ℝ))] [p1, p2]).2 := by
  have h1 : ¬ g ≤ pmax - (p1 - loss) := by intro hc; linarith
  have h2 : g ≤ pmax - (p2 - loss) := by linarith
  have h3 : pmax - (p1 - loss) ≤ pmax - (p2 - loss) := by linarith
  simp only [planSharedLeaky, planCopyLeaky, planSharedWith, planCopyWith, propagateWith, Edfa.callLeaky, h1, h2, h3,
    if_true, if_false]
  intro hc
  simp only [List.cons.injEq, and_true, true_and] at hc
  linarith

/-! ### process-wide simulation parameters -/

section sim
variable {Net : Type}

/-- **plan_leaves_simparams**: planning a batch never writes the process-wide simulation parameters — whatever the
batch (sparse combs, full combs, blocked requests), they are after the batch what they were before; and every request
of the batch is computed with those same parameters, so its result equals the result computed alone -/
theorem plan_leaves_simparams (P : Pipeline (World Net) Request Result Slots SlotOut) (w : World Net) (s0 : Slots)
    (reqs : List Request) :
    (plan P w s0 reqs).settings.sim = w.sim ∧ (plan P w s0 reqs).settings.network = w.network ∧
    (plan P w s0 reqs).results = reqs.map (P.computeOne ⟨w.network, w.sim⟩) := ⟨rfl, rfl, rfl⟩

/-- the channel selection of the GGN methods only READS the parameters: whatever comb was evaluated before, a comb of
`n` carriers gets the same indices -/
theorem cutIndices_order_free (p : NliParams) (before : List Nat) (n : Nat) :
    (before.map (cutIndices p) ++ [cutIndices p n]).getLast? = some (cutIndices p n) := by simp

/-- a comb with at least as many carriers as `computed_number_of_channels` gets strictly increasing distinct indices
starting at 0 and ending at the last channel (c ≥ 2) -/
theorem cutIndices_ends (p : NliParams) (c n : Nat) (hc : 2 ≤ c) (h1 : p.computedChannels = none)
    (h2 : p.computedNumberOfChannels = some c) (l : List Nat) (h : cutIndices p n = .ok l) :
    l.length = c ∧ l.head? = some 0 ∧ l.getLast? = some (n - 1) := by
  have hc1 : c ≠ 1 := by omega
  simp only [cutIndices, h1, h2, hc1, if_false, Except.ok.injEq] at h
  subst h
  refine ⟨by simp, ?_, ?_⟩
  · cases c with
    | zero => omega
    | succ k => simp [List.range_succ_eq_map, roundDiv]
  · have hpos : 0 < c - 1 := by omega
    have : (List.range c).getLast? = some (c - 1) := by
      cases c with
      | zero => omega
      | succ k => simp [List.range_succ]
    rw [List.getLast?_map, this]
    simp only [Option.map_some, Option.some.injEq]
    unfold roundDiv
    have hq : (c - 1) * (n - 1) / (c - 1) = n - 1 := Nat.mul_div_cancel_left _ hpos
    have hr : (c - 1) * (n - 1) % (c - 1) = 0 := Nat.mul_mod_right _ _
    simp [hq, hr, hpos]

/-- **simparams_leak_example**: with the write-back defect a sparse comb (2 carriers, 8 computed channels) computed
BEFORE a full comb (12 carriers) leaves `computed_number_of_channels = 2` behind, and the full comb is then evaluated
on channels {0, 11} instead of 8 channels; in the other order both get their correct indices -/
theorem simparams_leak_example :
    let p : NliParams := { method := "ggn_approx", computedChannels := none, computedNumberOfChannels := some 8 }
    (selectAllClamping p [2, 12]).2 = [.ok [0, 1], .ok [0, 11]] ∧
    (selectAllClamping p [2, 12]).1.computedNumberOfChannels = some 2 ∧
    cutIndices p 12 = .ok [0, 2, 3, 5, 6, 8, 9, 11] ∧
    (selectAllClamping p [12, 2]).2 = [.ok [0, 2, 3, 5, 6, 8, 9, 11], .ok [0, 1]] := by
  decide

end sim

/-! ### non-vacuity -/
example : (plan (⟨fun (s : Nat) (r : Nat) => s + r, fun (sl : Nat) x => (sl + 1, sl)⟩ : Pipeline Nat Nat Nat Nat Nat)
    5 0 [1, 2, 3]).results = [6, 7, 8] := by decide
example : (plan (⟨fun (s : Nat) (r : Nat) => s + r, fun (sl : Nat) x => (sl + 1, sl)⟩ : Pipeline Nat Nat Nat Nat Nat)
    5 0 [1, 2, 3]).slotOuts = [0, 1, 2] := by decide

end Gnpy.Plan
