import GnpyModel
import GnpyProofs.Lemmas.Redesign
import GnpyProofs.Lemmas.ChainPadLine
import GnpyProofs.Props.C08
import GnpyProofs.Props.C09
/- Property theorems for C17 — designing is repeatable: export, reload and redesign changes nothing; the simulation
   parameters are left as found.  Models: GnpyModel/Redesign.lean on top of Chain.lean / Design.lean. -/
namespace Gnpy.Chain

set_option linter.unusedSectionVars false

/-! ### the design is a function of its input -/

/-- designing the same input twice gives the same output (the model is a function; what lives in object identity —
shared equipment objects, cached attributes — is checked by the monitor only) -/
theorem design_deterministic (c c' : Cfg ℝ) (pref prefTotal src : ℝ) (d : Bool) (l l' : List (Elem ℝ))
    (s s' : List (Sel ℝ)) (hc : c = c') (hl : l = l') (hs : s = s') :
    designLine c pref prefTotal src d l s = designLine c' pref prefTotal src d l' s' := by
  subst hc; subst hl; subst hs; rfl

/-! ### completing a completed line changes nothing -/

section
variable {α : Type} [Add α] [Sub α] [Mul α] [Div α] [Neg α] [NatCast α] [LT α] [LE α]
  [DecidableLT α] [DecidableLE α] [Transc α]

/-- no new in-line amplifier where no fibre follows a fibre -/
theorem addInline_fixpoint (m : Bool) (l : List (Elem α)) (h : NoAdjFib l) : addInline m l = l := by
  induction l with
  | nil => simp [addInline]
  | cons x rest ih =>
    unfold NoAdjFib at h
    have ht : NoAdjFib rest := (List.isChain_cons.mp h).2
    simp only [addInline]
    split
    · rename_i u p v q t
      have := (List.isChain_cons_cons.mp h).1
      simp [Elem.isFiber] at this
    · rw [ih ht]

/-- fibres shorter than `max_length` are not split again -/
theorem split_fixpoint (c : SplitCfg α) (l : List (Elem α))
    (h : ∀ u p, Elem.fiber u p ∈ l → p.length < c.hi) : splitLine c l = l := by
  induction l with
  | nil => simp [splitLine]
  | cons x rest ih =>
    have hr : splitLine c rest = rest := ih (fun u p hm => h u p (List.mem_cons_of_mem _ hm))
    simp only [splitLine, List.flatMap_cons] at hr ⊢
    rw [hr]
    cases x with
    | fiber u p =>
      have hlt := h u p (by simp)
      simp [splitElem, splitFiber, calcNewLength, calcWith, hlt]
    | fused u l => simp [splitElem]
    | edfa u p => simp [splitElem]

/-- **`add_missing_elements_in_network` is idempotent on a completed line** (all spans below `max_length`, no fibre
next to a fibre or to a ROADM): a reloaded design receives no new element -/
theorem addMissing_fixpoint (c : SplitCfg α) (ch : Chain α)
    (hlen : ∀ u p, Elem.fiber u p ∈ ch.line → p.length < c.hi)
    (hadj : NoAdjFib ch.line)
    (hhead : ch.srcKind = .roadm → ∀ e t, ch.line = e :: t → e.isFiber = false)
    (hlast : ch.dstKind = .roadm → ∀ e, ch.line.getLast? = some e → e.isFiber = false) :
    addMissingLine c ch = ch.line := by
  unfold addMissingLine
  rw [split_fixpoint c ch.line hlen]
  dsimp only
  have hp : ∀ m, addPreamp ch.dst ch.dstKind m ch.line = ch.line := by
    intro m
    cases hk : ch.dstKind with
    | trx => simp [addPreamp]
    | roadm =>
      cases hl : ch.line.getLast? with
      | none => simp [addPreamp, hl]
      | some e => exact (junction_exceptions ch.src ch.dst m ch.line).2.2.2 e hl (hlast hk e hl)
  rw [hp]
  have hb : ∀ m, addBooster ch.src ch.srcKind m ch.line = ch.line := by
    intro m
    cases hk : ch.srcKind with
    | trx => simp [addBooster]
    | roadm =>
      cases hl : ch.line with
      | nil => simp [addBooster]
      | cons e t =>
        have := (junction_exceptions ch.src ch.dst m ch.line).2.2.1 e t hl (hhead hk e t hl)
        rw [hl] at this; exact this
  rw [hb]
  exact addInline_fixpoint _ _ hadj

end

/-- **with EOL = 0 `add_connector_loss` leaves defined connectors alone** -/
theorem addConn_fixpoint (dIn dOut : ℝ) (l : List (Elem ℝ)) (h : ∀ e ∈ l, ConnOK e) : addConn dIn dOut 0 l = l := by
  induction l with
  | nil => simp [addConn]
  | cons x rest ih =>
    have hr := ih (fun e he => h e (List.mem_cons_of_mem _ he))
    simp only [addConn, hr]
    cases x with
    | fiber u p =>
      have hx := h (.fiber u p) (by simp)
      simp only [ConnOK] at hx
      obtain ⟨ci, hci⟩ := Option.isSome_iff_exists.mp hx.1
      obtain ⟨co, hco⟩ := Option.isSome_iff_exists.mp hx.2
      cases rest with
      | nil => cases p; simp_all
      | cons y t => cases y <;> cases p <;> simp_all
    | fused u l => rfl
    | edfa u p => rfl

/-- padding a padded span again changes nothing (with or without a user `att_in`) -/
theorem padding_fixpoint (padding : ℝ) (r : List (Elem ℝ)) (u : String) (p : FiberP ℝ) (v : String) (q : FiberP ℝ)
    (t : List (Elem ℝ)) (hr : r = .fiber v q :: t) (hl : r.getLast? = some (.fiber u p)) (hnr : p.raman = false) :
    padRun padding (padRun padding r) = padRun padding r :=
  padRun_idempotent padding r u p v q t hr hl hnr

/-- padding any run again changes nothing — whatever its shape (Fused first or last, Raman, single fibre, amplifier) -/
theorem padRun_idempotent_all (padding : ℝ) (r : List (Elem ℝ)) :
    padRun padding (padRun padding r) = padRun padding r := by
  cases hl : r.getLast? with
  | none =>
    have : padRun padding r = r := by unfold padRun; rw [hl]
    rw [this, this]
  | some x =>
    cases x with
    | fused u l =>
      have : padRun padding r = r := by unfold padRun; rw [hl]
      rw [this, this]
    | edfa u p =>
      have : padRun padding r = r := by unfold padRun; rw [hl]
      rw [this, this]
    | fiber u p =>
      by_cases hr : p.raman = true
      · have : padRun padding r = r := by unfold padRun; rw [hl]; simp [hr]
        rw [this, this]
      · have hnr : p.raman = false := by simpa using hr
        cases r with
        | nil => simp at hl
        | cons a t =>
          cases t with
          | nil =>
            simp at hl; subst hl
            exact padRun_idempotent padding _ u p u p [] rfl (by simp) hnr
          | cons b t' =>
            cases a with
            | fiber v q => exact padRun_idempotent padding _ u p v q (b :: t') rfl hl hnr
            | fused v l => exact padRun_idem_nonfibre_first padding _ b t' u p rfl hl hnr
            | edfa v q => exact padRun_idem_nonfibre_first padding _ b t' u p rfl hl hnr

/-- **`add_fiber_padding` is idempotent on a whole line**: the padded line splits into the padded runs
(`runs_addPadding`), and padding each of them again changes nothing — so the redesign of an exported network
pads nothing and caches the same `design_span_loss` values. -/
theorem addPadding_idempotent (padding : ℝ) (l : List (Elem ℝ)) :
    addPadding padding (addPadding padding l) = addPadding padding l := by
  have h := runs_addPadding padding l
  unfold addPadding at h ⊢
  rw [h, List.map_map]
  congr 1
  apply List.map_congr_left
  intro r _
  exact padRun_idempotent_all padding r

/-! ### the amplifier recurrence re-derives the exported operating point -/

/-- one amplifier: fed with its own exported settings (selected type_variety, gain, delta_p, out_voa, in_voa) and the
same incoming net offset, `set_one_amplifier` returns the same operating point — provided the first design left
the amplifier at or below p_max (both modes) -/
theorem ampStep_fixpoint (c : Cfg ℝ) (pref prefTotal pd pv pd' pv' : ℝ) (a : AmpIn ℝ)
    (hoff : pd' - pv' = pd - pv)
    (hfitP : c.powerMode = true → prefTotal + (ampStep c pref prefTotal pd pv a).dpInt ≤ a.sel.pMax)
    (hfitG : c.powerMode = false →
      prefTotal + pd - a.nodeLoss - pv + (ampStep c pref prefTotal pd pv a).gain ≤ a.sel.pMax) :
    SamePoint (ampStep c pref prefTotal pd pv a)
      (ampStep c pref prefTotal pd' pv' (reuseAmp a (ampStep c pref prefTotal pd pv a))) ∧
    (ampStep c pref prefTotal pd' pv' (reuseAmp a (ampStep c pref prefTotal pd pv a))).retDp
      - (ampStep c pref prefTotal pd' pv' (reuseAmp a (ampStep c pref prefTotal pd pv a))).retVoa
      = (ampStep c pref prefTotal pd pv a).retDp - (ampStep c pref prefTotal pd pv a).retVoa := by
  have hb := gain_closes_budget c pref prefTotal pd pv a
  have hn := net_offset c pref prefTotal pd pv a
  obtain ⟨hdP, hdG⟩ := deltaP_spec c pref prefTotal pd pv a
  have hiv : (ampStep c pref prefTotal pd pv a).inVoa = a.user.inVoa.getD 0 := by simp [ampStep]
  generalize ampStep c pref prefTotal pd pv a = o at *
  have hvar := reuse_variety a.user.variety
  have hpd : pd' = pd - pv + pv' := by linarith
  cases hm : c.powerMode with
  | true =>
    have hd := hdP hm
    have hf := hfitP hm
    have key : SamePoint o (ampStep c pref prefTotal pd' pv' (reuseAmp a o)) ∧
        (ampStep c pref prefTotal pd' pv' (reuseAmp a o)).retDp = o.dpInt ∧
        (ampStep c pref prefTotal pd' pv' (reuseAmp a o)).retVoa = o.outVoa := by
      simp only [SamePoint, ampStep, computeTargets, powerReduction, reuseAmp, hm, hd, hvar, truthy_eq, pmin_eq,
        Option.getD_some, Option.isNone_some, Bool.false_and, Bool.false_eq_true, if_false, if_true, Nat.cast_zero]
      rw [min_eq_left (by linarith)]
      refine ⟨⟨?_, ?_, ?_, ?_, ?_⟩, ?_, ?_⟩ <;> first | (simp; done) | (simp; linarith)
    exact ⟨key.1, by rw [key.2.1, key.2.2]; linarith⟩
  | false =>
    have hd := hdG hm
    have hf := hfitG hm
    have key : SamePoint o (ampStep c pref prefTotal pd' pv' (reuseAmp a o)) ∧
        (ampStep c pref prefTotal pd' pv' (reuseAmp a o)).retDp = o.dpInt ∧
        (ampStep c pref prefTotal pd' pv' (reuseAmp a o)).retVoa = o.outVoa := by
      simp only [SamePoint, ampStep, computeTargets, powerReduction, reuseAmp, hm, hd, hvar, truthy_eq, pmin_eq,
        Option.getD_some, Option.isNone_some, Bool.false_and, Bool.false_eq_true, if_false, Nat.cast_zero]
      rw [min_eq_left (by linarith)]
      refine ⟨⟨?_, ?_, ?_, ?_, ?_⟩, ?_, ?_⟩ <;> first | (simp; done) | (simp; linarith)
    exact ⟨key.1, by rw [key.2.1, key.2.2]; linarith⟩

/-- **Redesign fixpoint (EOL = 0, export not rounded).** Along any OMS, the second design walk — every amplifier
carrying the operating point the first design exported, the spans unchanged (`addMissing_fixpoint`,
`addConn_fixpoint`, `padding_fixpoint`) — re-derives gain, `_delta_p`, `delta_p`, `out_voa` and `in_voa` of every
amplifier, whatever the mix of user settings, provided no amplifier was left above p_max (`FitsAll`). -/
theorem redesign_fixpoint (c : Cfg ℝ) (pref prefTotal : ℝ) :
    ∀ (inputs : List (AmpIn ℝ)) (pd pv pd' pv' : ℝ), pd' - pv' = pd - pv → FitsAll c pref prefTotal pd pv inputs →
      ∀ oo ∈ redesignAmps c pref prefTotal pd pv pd' pv' inputs, SamePoint oo.1 oo.2 := by
  intro inputs
  induction inputs with
  | nil => intro pd pv pd' pv' _ _ oo h; simp [redesignAmps] at h
  | cons a rest ih =>
    intro pd pv pd' pv' hoff hfit oo hmem
    simp only [FitsAll] at hfit
    obtain ⟨hP, hG, hrest⟩ := hfit
    obtain ⟨hsame, hnext⟩ := ampStep_fixpoint c pref prefTotal pd pv pd' pv' a hoff hP hG
    simp only [redesignAmps, List.mem_cons] at hmem
    rcases hmem with h | h
    · subst h; exact hsame
    · exact ih _ _ _ _ hnext hrest oo h

/-- size of the export rounding (partial: see PARTIAL in harness/props/c17.py): gains are written with an error of at
most 5e-7 dB, span lengths with at most 0.5 mm, loss coefficients with at most 5e-10 dB/m -/
theorem export_rounding_partial (x : ℝ) (p : FiberP ℝ) :
    |round6 x - x| ≤ 1 / 2000000 ∧ |(exportFiber p).length - p.length| ≤ 1 / 2000 ∧
    |(exportFiber p).lossCoef - p.lossCoef| ≤ 1 / 2000000000 := by
  refine ⟨round6_error x, ?_, ?_⟩
  · simp only [exportFiber, thousand, Nat.cast_ofNat]
    have h := round6_error (p.length / 1000)
    rw [abs_le] at h ⊢
    constructor
    · have : round6 (p.length / 1000) * 1000 - p.length = (round6 (p.length / 1000) - p.length / 1000) * 1000 := by ring
      rw [this]; linarith [h.1]
    · have : round6 (p.length / 1000) * 1000 - p.length = (round6 (p.length / 1000) - p.length / 1000) * 1000 := by ring
      rw [this]; linarith [h.2]
  · simp only [exportFiber, thousand, Nat.cast_ofNat]
    have h := round6_error (p.lossCoef * 1000)
    rw [abs_le] at h ⊢
    constructor
    · have : round6 (p.lossCoef * 1000) / 1000 - p.lossCoef = (round6 (p.lossCoef * 1000) - p.lossCoef * 1000) / 1000 := by
        ring
      rw [this]; linarith [h.1]
    · have : round6 (p.lossCoef * 1000) / 1000 - p.lossCoef = (round6 (p.lossCoef * 1000) - p.lossCoef * 1000) / 1000 := by
        ring
      rw [this]; linarith [h.2]

/-! ### K1: with EOL ≠ 0 every round adds EOL again -/

/-- each pass of `add_connector_loss` over a fibre that is not followed by a Fused adds `EOL` to its `con_out` -/
theorem redesign_eol_drift (dIn dOut eol co : ℝ) (u : String) (p : FiberP ℝ) (hco : p.conOut = some co) :
    addConn dIn dOut eol [.fiber u p]
      = [.fiber u { p with conIn := some (p.conIn.getD dIn), conOut := some (co + eol) }] := by
  simp [addConn, hco]

/-- **Current code (known finding K1):** EOL = 1 dB — the fibre leaves the first design with con_out = 1, the
redesign of the exported network with con_out = 2: `add_connector_loss` is not idempotent -/
theorem redesign_eol_counterexample :
    ∃ (l : List (Elem ℝ)), addConn 0 0 1 (addConn 0 0 1 l) ≠ addConn 0 0 1 l ∧
      (addConn 0 0 1 l).map Elem.loss = [17] ∧ (addConn 0 0 1 (addConn 0 0 1 l)).map Elem.loss = [18] := by
  refine ⟨[.fiber "f" { length := 80, lossCoef := 0.2, conIn := none, conOut := none, attIn := 0, lumps := [],
                        raman := false, ramanGain := none, dsl := none }], ?_, ?_, ?_⟩
  · simp [addConn]
  · simp [addConn, Elem.loss, FiberP.loss, FiberP.lumped, sumLeft_eq_sum]; norm_num
  · simp [addConn, Elem.loss, FiberP.loss, FiberP.lumped, sumLeft_eq_sum]; norm_num

/-! ### SimParams -/

/-- **`estimate_raman_gain` leaves the simulation parameters as it found them**: restore ∘ save = id on all ten fields,
for every state whose NLI method is in lower case (every state built by `set_params` is) -/
theorem simparams_restored (lower : String → String) (dflt : SimState) (ramanOn : RamanParams) (s : SimState)
    (hs : lower s.nli.method = s.nli.method) :
    (estimateRamanGainParams lower dflt ramanOn s).2 = s := by
  cases s with
  | mk n r =>
    cases n
    simp only [estimateRamanGainParams, setParams, saveParams, mkNLI, mkRaman] at hs ⊢
    simp_all

/-- … for ANY prior setting made through `SimParams.set_params` (complete, partial or empty) -/
theorem simparams_restored_any_prior (lower : String → String) (hl : ∀ m, lower (lower m) = lower m)
    (dflt : SimState) (hd : lower dflt.nli.method = dflt.nli.method) (ramanOn : RamanParams)
    (n : Option NLIParams) (r : Option RamanParams) :
    (estimateRamanGainParams lower dflt ramanOn (setParams lower dflt n r)).2 = setParams lower dflt n r := by
  apply simparams_restored
  cases n with
  | none => simpa [setParams] using hd
  | some x => simp [setParams, mkNLI, hl]

/-- … and for any number of RamanFibers estimated one after the other -/
theorem simparams_restored_many (lower : String → String) (dflt : SimState) (ramanOn : RamanParams) (k : Nat)
    (s : SimState) (hs : lower s.nli.method = s.nli.method) :
    estimateMany lower dflt ramanOn k s = s := by
  induction k with
  | zero => rfl
  | succ k ih =>
    simp only [estimateMany]
    rw [simparams_restored lower dflt ramanOn s hs]
    exact ih

/-- what the solver sees in between: the Raman settings of the estimate, default NLI settings -/
theorem simparams_during (lower : String → String) (dflt : SimState) (ramanOn : RamanParams) (s : SimState) :
    (estimateRamanGainParams lower dflt ramanOn s).1 = { nli := dflt.nli, raman := ramanOn } := by
  simp [estimateRamanGainParams, setParams, mkRaman]

/-- a document whose connections mention an element that is not in it is rejected on reload (malformed stream) -/
theorem reload_rejects_dangling (uids : List String) (cxs : List (String × String)) (c : String × String)
    (hc : c ∈ cxs) (hmiss : c.1 ∉ uids ∨ c.2 ∉ uids) : reloadAccepts uids cxs = false := by
  unfold reloadAccepts
  rw [List.all_eq_false]
  refine ⟨c, hc, ?_⟩
  rcases hmiss with h | h <;> simp [h]

/-! ### what the export keeps: lumped losses of fibres, design bands of ROADMs -/

/-- export + reload is the identity on the lumped losses of a fibre (positions and values), hence on their sum, and on
`att_in` and the connector losses: nothing of the span's discrete losses is lost in a saved design -/
theorem export_keeps_lumped_losses (p : FiberP ℝ) :
    (exportFiber p).lumps = p.lumps ∧ (exportFiber p).lumped = p.lumped ∧ (exportFiber p).attIn = p.attIn ∧
    (exportFiber p).conIn = p.conIn ∧ (exportFiber p).conOut = p.conOut := by
  simp [exportFiber, FiberP.lumped]

/-- the export as it was before the repair lost them: a 149 km fibre with lumped 0.5 dB + 2 dB came back 2.5 dB shorter
(the witness of the finding export-drops-lumped-losses) -/
theorem export_drops_lumped_losses_fails_old :
    ∃ p : FiberP ℝ, (exportFiberOld p).lumped = 0 ∧ p.lumped = 5 / 2 := by
  refine ⟨{ length := 149000, lossCoef := 0.0002, conIn := some 0.5, conOut := some 0, attIn := 3,
            lumps := [(1, 0.5), (12.13, 2)], raman := false, ramanGain := none, dsl := none }, ?_, ?_⟩
  · simp [exportFiberOld, FiberP.lumped, sumLeft_eq_sum]
  · simp only [FiberP.lumped, sumLeft_eq_sum]
    norm_num

/-- export + reload is the identity on the design bands a user gave to a ROADM (one or several) -/
theorem export_reload_design_bands (si : DesignBand) (bs : List DesignBand) (h : bs ≠ []) :
    reloadBands si (exportBands bs) = bs := by
  simp [reloadBands, exportBands, h]

/-- ... so the reloaded network is designed for the same load: the channel count of a single own design band, counted
with that band's own spacing, is the same before and after export/reload -/
theorem export_reload_design_load (nbRef : Option Int) (si b : DesignBand) :
    reloadedChannels nbRef si (exportBands [b]) = designChannels nbRef b.fmin b.fmax b.spacing := by
  simp [reloadedChannels, reloadBands, exportBands]

/-- the export as it was before the repair wrote design bands only when there were several: a ROADM with ONE own band on
a 100 GHz grid (38 channels) came back with the band of the SI section (76 channels) - the witness of the finding
export-drops-single-design-band -/
theorem export_single_design_band_fails_old :
    ∃ si b : DesignBand, reloadedChannels none si (exportBandsOld [b]) = 76 ∧
      designChannels none b.fmin b.fmax b.spacing = 38 := by
  refine ⟨⟨191300000000000, 195100000000000, 50000000000⟩, ⟨191300000000000, 195100000000000, 100000000000⟩, ?_, ?_⟩
  · decide
  · decide

/-- the same for a transceiver that states design bands: export + reload gives them back, whatever bands the amplifiers
chosen by the first design have -/
theorem export_reload_design_bands_transceiver (fromAmps bs : List DesignBand) (h : bs ≠ []) :
    reloadBandsTrx fromAmps (exportBands bs) = bs := by
  simp [reloadBandsTrx, exportBands, h]

/-- the transceiver export as it was before the repair dropped them: the reloaded line was designed for the (wider) bands
of its amplifiers - the witness of the finding export-drops-transceiver-design-bands (C band stated up to 195.1 THz,
amplifiers reaching 196.1 THz) -/
theorem export_transceiver_design_bands_fails_old :
    ∃ fromAmps bs : List DesignBand, bs ≠ [] ∧ reloadBandsTrx fromAmps (exportBandsTrxOld bs) ≠ bs := by
  refine ⟨[⟨191300000000000, 196100000000000, 50000000000⟩], [⟨191300000000000, 195100000000000, 50000000000⟩], ?_, ?_⟩
  · decide
  · decide

/-! ### non-vacuity -/

/-- `FitsAll` and the offset hypothesis of `redesign_fixpoint` hold for a two-amplifier OMS (auto booster, preamp) -/
example : ∃ (c : Cfg ℝ) (inputs : List (AmpIn ℝ)), inputs.length = 2 ∧ FitsAll c 0 18 (-20) 0 inputs := by
  let c : Cfg ℝ := { powerMode := true, dpLo := 0, dpHi := 0, dpStep := 0, lossRef := 20, slope := 0.3,
                     voaMargin := 1, voaStep := 0.5, extGain := 2.5 }
  let a1 : AmpIn ℝ := { user := newEdfa, sel := { pMax := 23, gainFlatmax := 26, outVoaAuto := false },
                        nodeLoss := 0, nextIsRoadm := true, nextLoss := 16 }
  refine ⟨c, [a1, a1], rfl, ?_⟩
  have hdec : ("" == "") = true := by decide
  simp only [FitsAll, ampStep, computeTargets, powerReduction, targetPower, truthy_eq, pmin_eq, pmax_eq, c, a1,
    newEdfa, newAmp, hdec]
  norm_num

/-- the hypotheses of the SimParams theorems are satisfiable (an idempotent lower-casing that fixes the default method
name) and the restored state is a non-default one -/
example : ∃ (lower : String → String) (dflt : SimState) (n : NLIParams) (r : RamanParams),
    (∀ m, lower (lower m) = lower m) ∧ lower dflt.nli.method = dflt.nli.method ∧
    setParams lower dflt (some n) (some r) ≠ dflt := by
  refine ⟨id, ⟨⟨"gn_model_analytic", 4, 1, none, none⟩, ⟨false, "perturbative", 2, 10000, 10000⟩⟩,
          ⟨"ggn_spectrally_separated", 4, 1, some [1, 5], none⟩, ⟨true, "perturbative", 1, 10000, 100⟩,
          fun _ => rfl, rfl, by decide⟩

end Gnpy.Chain
