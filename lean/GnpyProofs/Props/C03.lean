import GnpyModel
import GnpyProofs.Lemmas.Gn
/- Property theorems for C03 — fibre NLI equals the GN-model closed form and obeys its scaling laws.
   Model: GnpyModel/Gn.lean (`nli` = `NliSolver.compute_nli`, transliterated with the code's broadcasting;
   the model IS the published closed form, the correspondence check ties the code to it).
   All statements over ℝ with π = Real.pi.  `WF c`: loss coefficient > 0, baud rate > 0, power ≥ 0. -/
namespace Gnpy.Gn

/-! ### the weights -/

/-- SPM weight 16/27, XPM weight 32/27 -/
theorem weights : (spmW : ℝ) = 16 / 27 ∧ (xpmW : ℝ) = 32 / 27 := by
  simp only [spmW, xpmW, Nat.cast_ofNat]; norm_num

theorem xpm_twice_spm : (xpmW : ℝ) = 2 * spmW := by
  simp only [spmW, xpmW, Nat.cast_ofNat]

/-- in the index form the diagonal carries the SPM weight and every other entry the XPM weight;
in the frequency form the channel itself carries SPM, every other frequency XPM -/
theorem wgtF_self (c : LCh ℝ) : wgtF c c = spmW := by simp [wgtF]
theorem wgtF_other (ci cj : LCh ℝ) (h : ci.f ≠ cj.f) : wgtF ci cj = xpmW := by
  simp [wgtF, lt_or_gt_of_ne h]

/-! ### the kernel -/

/-- the asinh kernel `ψ` is non-negative -/
theorem psi_nonneg (len : ℝ) (ci cj : LCh ℝ) (hi : WF ci) (hj : WF cj) : 0 ≤ psi len ci cj :=
  psi_nonneg' len ci cj hj.alpha_pos (le_of_lt hi.b_pos) (le_of_lt hj.b_pos)

/-- **SPM term**: on the diagonal the kernel reduces to
`asinh(π²/2 · |β₂| · L_a · B²) / (2π |β₂| L_a) · L_eff²` (eq. 120 of arXiv:1209.0394 for one channel) -/
theorem spm_formula (len : ℝ) (c : LCh ℝ) :
    psi len c c = Real.arsinh (Real.pi ^ 2 / 2 * |c.beta2| * (1 / c.alpha) * c.b ^ 2)
      / (2 * Real.pi * |c.beta2| * (1 / c.alpha)) * effLength c.alpha len ^ 2 := by
  simp only [psi, transc_abs, transc_asinh, haspi_real, Nat.cast_ofNat, Nat.cast_one]
  have h1 : (c.beta2 + c.beta2) / 2 = c.beta2 := by ring
  have h2 : Real.pi * Real.pi * (1 / c.alpha) * |c.beta2| * c.b * (c.f - c.f - c.b / 2)
      = -(Real.pi ^ 2 / 2 * |c.beta2| * (1 / c.alpha) * c.b ^ 2) := by ring
  have h3 : Real.pi * Real.pi * (1 / c.alpha) * |c.beta2| * c.b * (c.f - c.f + c.b / 2)
      = Real.pi ^ 2 / 2 * |c.beta2| * (1 / c.alpha) * c.b ^ 2 := by ring
  rw [h1, h2, h3, Real.arsinh_neg]
  ring

/-- the effective length is positive, below the asymptotic length `1/α` and below the physical length -/
theorem effLength_pos (alpha len : ℝ) (ha : 0 < alpha) (hl : 0 < len) :
    0 < effLength alpha len ∧ effLength alpha len < 1 / alpha ∧ effLength alpha len ≤ len := by
  simp only [effLength, transc_exp, Nat.cast_one]
  have hx : 0 < alpha * len := mul_pos ha hl
  have he : Real.exp (-alpha * len) < 1 := by
    rw [show -alpha * len = -(alpha * len) by ring, Real.exp_lt_one_iff]; linarith
  have hp : 0 < Real.exp (-alpha * len) := Real.exp_pos _
  refine ⟨div_pos (by linarith) ha, ?_, ?_⟩
  · exact div_lt_div_of_pos_right (by linarith) ha
  · rw [div_le_iff₀ ha]
    have := Real.add_one_le_exp (-alpha * len)
    nlinarith

/-! ### non-negativity -/

theorem term_nonneg (w len : ℝ) (ci cj : LCh ℝ) (hw : 0 ≤ w) (hi : WF ci) (hj : WF cj) :
    0 ≤ term w len ci cj := term_nonneg' w len ci cj hw hi hj

/-- **NLI is non-negative on every channel** -/
theorem nli_nonneg (len : ℝ) (cs : List (LCh ℝ)) (h : ∀ c ∈ cs, WF c) : ∀ x ∈ nli len cs, 0 ≤ x :=
  nliFrom_nonneg len cs h cs 0 h

/-- one value per channel -/
theorem nli_length (len : ℝ) (cs : List (LCh ℝ)) : (nli len cs).length = cs.length :=
  nliFrom_length len cs cs 0

/-! ### index form (the code) = frequency form -/

/-- on a comb with pairwise distinct centre frequencies the code's weight matrix `spm·I + xpm·(1−I)` is
"SPM on the channel itself, XPM on every other channel": `compute_nli` is channel by channel `nliOf` -/
theorem nli_eq_nliSpec (len : ℝ) (cs : List (LCh ℝ)) (hd : cs.Pairwise (fun a b => a.f ≠ b.f)) :
    nli len cs = nliSpec len cs := by
  simp only [nli, nliSpec]
  apply nliFrom_eq_spec len cs hd cs 0
  intro k hk
  simp

/-- a comb accepted by `SpectralInformation.__init__` (no overlap, baud ≤ slot, with positive baud rates) has
strictly increasing, hence pairwise distinct, centre frequencies -/
theorem nonoverlap_distinct (l : List (ℝ × ℝ × ℝ)) (h : combAccepted l = true) (hb : ∀ c ∈ l, 0 < c.2.1) :
    l.Pairwise (fun a b => a.1 < b.1) := by
  simp only [combAccepted, Bool.and_eq_true, Bool.not_eq_true'] at h
  obtain ⟨hov, hex⟩ := h
  have hs : ∀ c ∈ l, 0 < c.2.2 := by
    intro c hc
    simp only [combExceed, List.any_eq_false, decide_eq_true_eq, not_lt] at hex
    exact lt_of_lt_of_le (hb c hc) (hex c hc)
  clear hex hb
  induction l with
  | nil => exact List.Pairwise.nil
  | cons c0 rest ih =>
    cases rest with
    | nil => simp
    | cons c1 rest' =>
      simp only [combOverlap, Bool.or_eq_false_iff, decide_eq_false_iff_not, not_lt, Nat.cast_ofNat] at hov
      have ih' := ih hov.2 (fun c hc => hs c (by simp [hc]))
      have h0 := hs c0 (by simp)
      have h1 := hs c1 (by simp)
      have h01 : c0.1 < c1.1 := by linarith [hov.1]
      rw [List.pairwise_cons]
      refine ⟨?_, ih'⟩
      intro c hc
      rw [List.mem_cons] at hc
      rcases hc with hc | hc
      · rw [hc]; exact h01
      · exact lt_trans h01 ((List.pairwise_cons.1 ih').1 c hc)

/-- loading the fibre coefficients keeps the frequencies -/
theorem loadAll_f (fib : Fibre ℝ) : ∀ (chans : List (ℝ × ℝ × ℝ)) (cs : List (LCh ℝ)),
    loadAll fib chans = some cs → cs.map (·.f) = chans.map (·.1) := by
  intro chans
  induction chans with
  | nil => intro cs h; simp [loadAll] at h; subst h; rfl
  | cons c rest ih =>
    intro cs h
    obtain ⟨f, b, p⟩ := c
    simp only [loadAll] at h
    cases h1 : load fib f b p with
    | none => simp [h1] at h
    | some lc =>
      cases h2 : loadAll fib rest with
      | none => simp [h1, h2] at h
      | some lcs =>
        simp only [h1, h2, Option.some.injEq] at h
        subst h
        have hf : lc.f = f := by
          simp only [load] at h1
          split at h1
          · simp only [Option.some.injEq] at h1; rw [← h1]
          · simp at h1
        simp [hf, ih lcs h2]

/-- **the code's `compute_nli` on an accepted comb is the frequency-form closed form** -/
theorem computeNli_eq_spec (fib : Fibre ℝ) (chans : List (ℝ × ℝ × ℝ)) (slots : List (ℝ × ℝ × ℝ))
    (hsl : slots.map (·.1) = chans.map (·.1)) (hacc : combAccepted slots = true) (hb : ∀ c ∈ slots, 0 < c.2.1)
    (cs : List (LCh ℝ)) (hl : loadAll fib chans = some cs) :
    computeNli fib chans = some (nliSpec fib.len cs) := by
  simp only [computeNli, hl, Option.map_some]
  congr 1
  apply nli_eq_nliSpec
  have h1 := nonoverlap_distinct slots hacc hb
  have h2 : (slots.map (·.1)).Pairwise (· < ·) := by rw [List.pairwise_map]; exact h1
  rw [hsl, ← loadAll_f fib chans cs hl, List.pairwise_map] at h2
  exact h2.imp (fun h => ne_of_lt h)

theorem nliSpec_nonneg (len : ℝ) (cs : List (LCh ℝ)) (h : ∀ c ∈ cs, WF c) : ∀ x ∈ nliSpec len cs, 0 ≤ x := by
  intro x hx
  simp only [nliSpec, List.mem_map] at hx
  obtain ⟨ci, hci, rfl⟩ := hx
  simp only [nliOf, sumL_eq_sum]
  apply List.sum_nonneg
  intro y hy
  simp only [List.mem_map] at hy
  obtain ⟨cj, hcj, rfl⟩ := hy
  exact term_nonneg' _ len ci cj (wgtF_nonneg ci cj) (h ci hci) (h cj hcj)

/-! ### cubic scaling -/

/-- **NLI scales with the cube of a common power factor** -/
theorem nli_cubic (len k : ℝ) (cs : List (LCh ℝ)) :
    nli len (cs.map (scale k)) = (nli len cs).map (fun x => k ^ 3 * x) :=
  nliFrom_scale len k cs cs 0

theorem nliSpec_cubic (len k : ℝ) (cs : List (LCh ℝ)) :
    nliSpec len (cs.map (scale k)) = (nliSpec len cs).map (fun x => k ^ 3 * x) := by
  simp only [nliSpec, List.map_map]
  apply List.map_congr_left
  intro ci _
  simp only [Function.comp, nliOf, sumL_eq_sum, List.map_map]
  rw [← List.sum_map_mul_left]
  congr 1
  apply List.map_congr_left
  intro cj _
  simp only [Function.comp]
  have : wgtF (scale k ci) (scale k cj) = wgtF ci cj := by simp [wgtF, scale]
  rw [this, term_scale]

/-! ### monotone in every power -/

/-- **raising the power of any channels never lowers the NLI of any channel** -/
theorem nli_mono_power (len : ℝ) (cs cs' : List (LCh ℝ)) (h : List.Forall₂ Raised cs cs')
    (hw : ∀ c ∈ cs, WF c) : List.Forall₂ (· ≤ ·) (nli len cs) (nli len cs') :=
  nliFrom_mono len h hw h hw 0

/-! ### adding a channel, order of the channels -/

/-- the NLI on `ci` from the comb `c :: cs` is the NLI from `cs` plus the term generated by `c` -/
theorem nli_add_channel_exact (len : ℝ) (c : LCh ℝ) (cs : List (LCh ℝ)) (ci : LCh ℝ) :
    nliOf len (c :: cs) ci = term (wgtF ci c) len ci c + nliOf len cs ci := by
  simp [nliOf, sumL]

/-- the NLI on a channel is a symmetric function of the comb -/
theorem nliOf_perm (len : ℝ) (cs cs' : List (LCh ℝ)) (h : cs.Perm cs') (ci : LCh ℝ) :
    nliOf len cs ci = nliOf len cs' ci := by
  simp only [nliOf, sumL_eq_sum]
  exact (h.map _).sum_eq

/-- **adding a channel (anywhere in the comb) never lowers the NLI of the channels already there**:
`cs'` is `cs` with the channel `c` inserted at any position; `x`, `y` are the values `compute_nli` returns for the
same channel `ci` before and after. -/
theorem nli_mono_add_channel (len : ℝ) (c : LCh ℝ) (cs cs' : List (LCh ℝ)) (hp : cs'.Perm (c :: cs))
    (hd : cs'.Pairwise (fun a b => a.f ≠ b.f)) (hw : ∀ x ∈ cs', WF x) (ci : LCh ℝ) (x y : ℝ)
    (hx : (ci, x) ∈ cs.zip (nli len cs)) (hy : (ci, y) ∈ cs'.zip (nli len cs')) : x ≤ y := by
  have hd1 : (c :: cs).Pairwise (fun a b => a.f ≠ b.f) :=
    (hp.pairwise_iff (fun {a b} (h : a.f ≠ b.f) => h.symm)).1 hd
  have hd2 : cs.Pairwise (fun a b => a.f ≠ b.f) := (List.pairwise_cons.1 hd1).2
  rw [nli_eq_nliSpec len cs hd2] at hx
  rw [nli_eq_nliSpec len cs' hd] at hy
  have ex := mem_zip_map (nliOf len cs) cs ci x hx
  have ey := mem_zip_map (nliOf len cs') cs' ci y hy
  have hci : ci ∈ cs := (List.of_mem_zip hx).1
  rw [ex, ey, nliOf_perm len cs' (c :: cs) hp ci, nli_add_channel_exact]
  have hwc : WF c := hw c (hp.mem_iff.2 (by simp))
  have hwi : WF ci := hw ci (hp.mem_iff.2 (by simp [hci]))
  have := term_nonneg' (wgtF ci c) len ci c (wgtF_nonneg ci c) hwi hwc
  linarith

/-- **the result does not depend on the order in which the channels are supplied**: permuting the comb permutes
the (channel, NLI) pairs accordingly -/
theorem nli_perm (len : ℝ) (cs cs' : List (LCh ℝ)) (hp : cs.Perm cs')
    (hd : cs.Pairwise (fun a b => a.f ≠ b.f)) :
    (cs.zip (nli len cs)).Perm (cs'.zip (nli len cs')) := by
  have hd' : cs'.Pairwise (fun a b => a.f ≠ b.f) :=
    (hp.pairwise_iff (fun {a b} (h : a.f ≠ b.f) => h.symm)).1 hd
  rw [nli_eq_nliSpec len cs hd, nli_eq_nliSpec len cs' hd']
  simp only [nliSpec]
  rw [zip_map_eq, zip_map_eq]
  have : (fun c => (c, nliOf len cs' c)) = (fun c => (c, nliOf len cs c)) := by
    funext c; rw [nliOf_perm len cs cs' hp c]
  rw [this]
  exact hp.map _

/-- the constructor's sort makes the supplied order irrelevant: two supplies of the same channels (pairwise distinct
frequencies) are sorted into the same list -/
theorem sortByF_eq_of_perm (l l' : List (ℝ × ℝ × ℝ)) (hp : l.Perm l')
    (hd : l.Pairwise (fun a b => a.1 ≠ b.1)) : sortByF l = sortByF l' := by
  have hd' : l'.Pairwise (fun a b => a.1 ≠ b.1) :=
    (hp.pairwise_iff (fun {a b} (h : a.1 ≠ b.1) => h.symm)).1 hd
  apply List.Perm.eq_of_pairwise (le := fun a b => a.1 < b.1)
  · intro a b _ _ h1 h2; exact absurd h1 (lt_asymm h2)
  · exact sortByF_sorted l hd
  · exact sortByF_sorted l' hd'
  · exact (sortByF_perm l).trans (hp.trans (sortByF_perm l').symm)

/-- **constructor + `compute_nli` does not depend on the order in which the channels were supplied** -/
theorem input_order_irrelevant (fib : Fibre ℝ) (l l' : List (ℝ × ℝ × ℝ)) (hp : l.Perm l')
    (hd : l.Pairwise (fun a b => a.1 ≠ b.1)) : computeNliAny fib l = computeNliAny fib l' := by
  simp only [computeNliAny, sortByF_eq_of_perm l l' hp hd]

/-- a comb supplied in ascending frequency is left as it is -/
theorem sortByF_sorted_id : ∀ (l : List (ℝ × ℝ × ℝ)), l.Pairwise (fun a b => a.1 < b.1) → sortByF l = l := by
  intro l
  induction l with
  | nil => intro _; rfl
  | cons c rest ih =>
    intro h
    rw [List.pairwise_cons] at h
    simp only [sortByF, ih h.2]
    cases rest with
    | nil => rfl
    | cons d rest' => simp [insertByF, h.1 d (by simp)]

/-! ### the fibre coefficients -/

/-- `alpha = loss[dB/m] · ln 10 / 10` -/
theorem alpha_is_db (c : ℝ) : alphaOfLoss c = c * Real.log 10 / 10 := alphaOfLoss_eq c

/-- `β₂ = −λ² D / (2π c)` with `λ = c / f`; a positive dispersion parameter gives a negative β₂ -/
theorem beta2_formula (f d : ℝ) (hf : 0 < f) :
    beta2OfDisp f d = -((cLight / f) ^ 2 * d) / (2 * Real.pi * cLight) ∧ (0 < d → beta2OfDisp f d < 0) := by
  simp only [beta2OfDisp, cLight, haspi_real, Nat.cast_ofNat]
  refine ⟨by ring, ?_⟩
  intro hd
  have hpi := Real.pi_pos
  apply div_neg_of_neg_of_pos
  · have : 0 < 299792458 / f * (299792458 / f) * d := by positivity
    linarith
  · positivity

/-- at the reference frequency the scaled nonlinear coefficient is `2π n₂ f_ref / (c · A_eff)`,
i.e. `2π n₂ / (λ_ref A_eff)`: the scaling law passes through the configured value -/
theorem gamma_at_ref (fib : Fibre ℝ) (hA : 0 < fib.effArea) (hf : 0 < fib.refF) :
    gammaAt fib fib.refF = 2 * Real.pi * n2 * fib.refF / (cLight * fib.effArea) := by
  have hpi := Real.pi_pos
  have hr : (0:ℝ) < coreRadius := by simp only [coreRadius, Nat.cast_ofNat]; norm_num
  have hn : (0:ℝ) < n1 := by simp only [n1, Nat.cast_ofNat]; norm_num
  have hc : (0:ℝ) < cLight := by simp only [cLight, Nat.cast_ofNat]; norm_num
  have hE : 0 < Real.exp (Real.pi * (coreRadius * coreRadius) / fib.effArea) := Real.exp_pos _
  have harea : effAreaScaling fib fib.refF = fib.effArea := by
    simp only [effAreaScaling, contrast, transc_sqrt, transc_log, transc_exp, haspi_real, Nat.cast_ofNat, Nat.cast_one]
    set x := cLight / (2 * Real.pi * fib.refF * coreRadius * n1) *
      Real.exp (Real.pi * (coreRadius * coreRadius) / fib.effArea) with hx
    have hxpos : 0 < x := by positivity
    have hs : Real.sqrt (2 * (1 / 2 * (x * x))) = x := by
      rw [show 2 * (1 / 2 * (x * x)) = x ^ 2 by ring, Real.sqrt_sq (le_of_lt hxpos)]
    rw [hs]
    have hv : 2 * Real.pi * fib.refF / cLight * coreRadius * n1 * x
        = Real.exp (Real.pi * (coreRadius * coreRadius) / fib.effArea) := by
      rw [hx]; field_simp
    rw [hv, Real.log_exp]
    have hq : 0 < Real.pi * (coreRadius * coreRadius) / fib.effArea := by positivity
    rw [div_mul_div_comm, Real.mul_self_sqrt (le_of_lt hq)]
    field_simp
  simp only [gammaAt, harea, haspi_real, Nat.cast_ofNat]

/-! ### non-vacuity -/

/-- a typical channel: α = 4.6e-5 1/m (0.2 dB/km), 32 GBd, 1 mW -/
noncomputable def exCh (f : ℝ) : LCh ℝ :=
  { f := f, b := 32000000000, p := 1 / 1000, alpha := 46 / 1000000, beta2 := -(2 / 10 ^ 26), gamma := 13 / 10000 }

example : WF (exCh 193000000000000) := ⟨by norm_num [exCh], by norm_num [exCh], by norm_num [exCh]⟩
example : [exCh 193000000000000, exCh 193050000000000].Pairwise (fun a b => a.f ≠ b.f) := by
  simp [exCh]
example : Raised (exCh 1) { exCh 1 with p := 2 / 1000 } := ⟨rfl, rfl, rfl, rfl, rfl, by norm_num [exCh]⟩
example : combAccepted [((193000000000000:ℝ), (32000000000:ℝ), (50000000000:ℝ)),
    (193050000000000, 32000000000, 50000000000)] = true := by
  simp [combAccepted, combOverlap, combExceed]; norm_num

end Gnpy.Gn
