import GnpyModel
import GnpyProofs.Lemmas.Route
import GnpyProofs.Lemmas.Disjoint
import GnpyProofs.Props.C11
import GnpyProofs.Lemmas.Selection
import GnpyProofs.Lemmas.SelectionSound
import GnpyProofs.Lemmas.Sync
/- Property theorems for C12 — requests declared disjoint never share a link in either direction.
   Model: GnpyModel/Route.lean (`LinkDisjoint`, `isdisjointPy`, `shortOf`, `revChain`, `disjointOracle`, steps 2-5 of
   `compute_path_dsjctn` over abstract candidates). -/
namespace Gnpy.Route

/-- the checker run on the returned paths decides the disjointness predicate of the property -/
theorem linkDisjoint_checker (isRoadm : V → Bool) (p q : List V) :
    linkDisjointB isRoadm p q = true ↔ LinkDisjoint isRoadm p q :=
  linkDisjointB_iff isRoadm p q

/-- a whole group: the Boolean is `true` exactly when the paths are pairwise link-disjoint -/
theorem allDisjoint_checker (isRoadm : V → Bool) (ps : List (List V)) :
    allDisjointB isRoadm ps = true ↔ ps.Pairwise (LinkDisjoint isRoadm) :=
  allDisjointB_iff isRoadm ps

/-- sharing a link "in either direction" is a symmetric relation (so testing each new path against the paths already
chosen, as step 2 does, is enough) -/
theorem linkDisjoint_symm (isRoadm : V → Bool) (p q : List V) (h : LinkDisjoint isRoadm p q) :
    LinkDisjoint isRoadm q p := by
  intro l hl
  constructor
  · intro hlp; exact (h l hlp).1 hl
  · intro hlp
    have := (h (l.2, l.1) hlp).2
    exact this (by simpa using hl)

/-- **`isdisjoint` is the right test (OMS level).**  For two paths crossing the OMS chains `c1`, `c2`, the sum the code
computes in step 2, `isdisjoint(short(p1), short(p2)) + isdisjoint(short(reversed p1), short(p2))`, is 0 exactly when
no OMS of `p1` and no reversed OMS of `p1` is crossed by `p2`. -/
theorem linkDisjoint_iff (rev : Oms → Oms) (c1 c2 : List Oms) (h1 : Adjacent c1) (h2 : Adjacent c2)
    (hr : RevOk rev c1) (hs : Separated c1 c2) (hs' : Separated (revChain rev c1) c2) :
    isdisjointPy (shortOf c1) (shortOf c2) + isdisjointPy (shortOf (revChain rev c1)) (shortOf c2) = 0 ↔
      ∀ o ∈ c1, o ∉ c2 ∧ rev o ∉ c2 := by
  have ha := isdisjoint_chain_iff c1 c2 h1 h2 hs
  have hb := isdisjoint_chain_iff (revChain rev c1) c2 (adjacent_revChain rev c1 h1 hr) h2 hs'
  rw [Nat.add_eq_zero_iff, ha, hb]
  constructor
  · rintro ⟨hx, hy⟩ o ho
    exact ⟨hx o ho, hy (rev o) ((mem_revChain rev c1 _).2 ⟨o, ho, rfl⟩)⟩
  · intro h
    refine ⟨fun o ho => (h o ho).1, ?_⟩
    intro x hx
    obtain ⟨o, ho, rfl⟩ := (mem_revChain rev c1 x).1 hx
    exact (h o ho).2

/-- the ROADM-to-ROADM links of a chain -/
def linksC (c : List Oms) : List (V × V) := c.map (fun o => (o.src, o.dst))

/-- in a parallel-free network (one OMS per ordered ROADM pair, `rev` the OMS of the opposite pair) "no common OMS and
no common reversed OMS" is "no common ROADM-to-ROADM link, a link and its opposite identified" -/
theorem oms_disjoint_iff_links (rev : Oms → Oms) (c1 c2 : List Oms) (hr : RevOk rev c1)
    (hpar : ∀ o ∈ c1, ∀ o' ∈ c2, (o.src = o'.src → o.dst = o'.dst → o = o') ∧
                                  (o.dst = o'.src → o.src = o'.dst → rev o = o')) :
    (∀ o ∈ c1, o ∉ c2 ∧ rev o ∉ c2) ↔ ∀ l ∈ linksC c1, l ∉ linksC c2 ∧ (l.2, l.1) ∉ linksC c2 := by
  unfold linksC
  constructor
  · intro h l hl
    obtain ⟨o, ho, rfl⟩ := List.mem_map.1 hl
    constructor
    · intro hm
      obtain ⟨o', ho', he⟩ := List.mem_map.1 hm
      simp only [Prod.mk.injEq] at he
      have := (hpar o ho o' ho').1 he.1.symm he.2.symm
      exact (h o ho).1 (this ▸ ho')
    · intro hm
      obtain ⟨o', ho', he⟩ := List.mem_map.1 hm
      simp only [Prod.mk.injEq] at he
      have := (hpar o ho o' ho').2 he.1.symm he.2.symm
      exact (h o ho).2 (this ▸ ho')
  · intro h o ho
    have hl := h (o.src, o.dst) (List.mem_map.2 ⟨o, ho, rfl⟩)
    constructor
    · intro hm; exact hl.1 (List.mem_map.2 ⟨o, hm, rfl⟩)
    · intro hm
      refine hl.2 (List.mem_map.2 ⟨rev o, hm, ?_⟩)
      simp [(hr o ho).1, (hr o ho).2]

/-- the ROADMs met along an adjacent chain pair up into exactly its links: for a path `p` whose ROADMs are
`sitesOf c`, `linksOf isRoadm p = linksC c` -/
theorem zip_sites : ∀ c : List Oms, Adjacent c → (sitesOf c).zip (sitesOf c).tail = linksC c
  | [], _ => by simp [sitesOf, linksC]
  | [o], _ => by simp [sitesOf, linksC]
  | o :: o' :: rest, h => by
    have hadj : o.dst = o'.src := (List.isChain_cons_cons.1 h).1
    have ih := zip_sites (o' :: rest) (List.isChain_cons_cons.1 h).2
    simp only [sitesOf, List.map_cons, List.tail_cons, List.zip_cons_cons, linksC] at ih ⊢
    rw [hadj]
    simp [ih]

theorem linksOf_of_sites (isRoadm : V → Bool) (p : List V) (c : List Oms) (hc : Adjacent c)
    (hp : p.filter isRoadm = sitesOf c) : linksOf isRoadm p = linksC c := by
  unfold linksOf
  simp only [hp]
  exact zip_sites c hc

/-- **C12, the implementation's test means the property's relation.**  `p1`, `p2` element paths crossing the adjacent
OMS chains `c1`, `c2` of a parallel-free network: the step-2 sum is 0 exactly when the paths have no ROADM-to-ROADM link
in common, a link and its opposite direction counted as the same. -/
theorem isdisjoint_test_iff_linkDisjoint (isRoadm : V → Bool) (rev : Oms → Oms) (p1 p2 : List V) (c1 c2 : List Oms)
    (h1 : Adjacent c1) (h2 : Adjacent c2) (hp1 : p1.filter isRoadm = sitesOf c1) (hp2 : p2.filter isRoadm = sitesOf c2)
    (hr : RevOk rev c1) (hs : Separated c1 c2) (hs' : Separated (revChain rev c1) c2)
    (hpar : ∀ o ∈ c1, ∀ o' ∈ c2, (o.src = o'.src → o.dst = o'.dst → o = o') ∧
                                  (o.dst = o'.src → o.src = o'.dst → rev o = o')) :
    isdisjointPy (shortOf c1) (shortOf c2) + isdisjointPy (shortOf (revChain rev c1)) (shortOf c2) = 0 ↔
      LinkDisjoint isRoadm p1 p2 := by
  rw [linkDisjoint_iff rev c1 c2 h1 h2 hr hs hs', oms_disjoint_iff_links rev c1 c2 hr hpar]
  unfold LinkDisjoint
  rw [linksOf_of_sites isRoadm p1 c1 h1 hp1, linksOf_of_sites isRoadm p2 c2 h2 hp2]

/-- **the pair oracle means what the property says**: `disjointOracle = true` exactly when there are two routes (of at
most 80 hops, the documented cut-off), one per request, each honouring its include list unless that list is all-LOOSE,
with no link in common in either direction -/
theorem disjointOracle_iff (g : Graph) (hg : g.WF) (isRoadm : V → Bool) (r1 r2 : Req) :
    disjointOracle g isRoadm r1 r2 = true ↔
      ∃ p q, IsRoute g r1.s r1.t [] p ∧ p.length ≤ 81 ∧ (r1.strict = true → r1.inc.Sublist p) ∧
             IsRoute g r2.s r2.t [] q ∧ q.length ≤ 81 ∧ (r2.strict = true → r2.inc.Sublist q) ∧
             LinkDisjoint isRoadm p q := by
  have hmem : ∀ s t p, p ∈ candPaths g s t ↔ IsRoute g s t [] p ∧ p.length ≤ 81 := by
    intro s t p
    unfold candPaths
    rw [List.mem_filter, ← validPaths_iff g hg s t [] p]
    unfold validPaths
    simp [List.mem_filter]
  have hacc : ∀ (r : Req) p, acceptable r p = true ↔ (r.strict = true → r.inc.Sublist p) := by
    intro r p
    unfold acceptable
    rw [Bool.or_eq_true, List.isSublist_iff_sublist]
    cases r.strict <;> simp
  unfold disjointOracle
  simp only [List.any_eq_true, Bool.and_eq_true, hmem, hacc, linkDisjointB_iff]
  constructor
  · rintro ⟨p, ⟨hp, hpl⟩, hpa, q, ⟨hq, hql⟩, hqa, hd⟩
    exact ⟨p, q, hp, hpl, hpa, hq, hql, hqa, hd⟩
  · rintro ⟨p, q, hp, hpl, hpa, hq, hql, hqa, hd⟩
    exact ⟨p, ⟨hp, hpl⟩, hpa, q, ⟨hq, hql⟩, hqa, hd⟩

/-! ### the candidate selection of `compute_path_dsjctn` (steps 2-5) -/

/-- **step 2 only builds disjoint combinations (pair)**: every combination produced for a vector of two requests is a
pair of candidates, one per request, that passed the implementation's test -/
theorem step2_combinations_disjoint (inp : SelInput) (r0 r1 : Nat) (sol : List Cand) (h : sol ∈ step2 inp [r0, r1]) :
    ∃ i j, sol = [(r0, i), (r1, j)] ∧ i < inp.ncand r0 ∧ j < inp.ncand r1 ∧ inp.dis (r1, j) (r0, i) = true := by
  obtain ⟨i, hi, j, hj, hs, hd⟩ := (mem_step2_pair inp r0 r1 sol).1 h
  exact ⟨i, j, hs, hi, hj, hd⟩

theorem step4_nil_iff (inp : SelInput) (combos : List (List Cand)) :
    step4 inp combos = [] ↔ ∀ sol ∈ combos, sol.all (accCand inp) = false := by
  unfold step4
  simp only
  constructor
  · intro h sol hsol
    by_contra hacc
    have hacc' : sol.all (accCand inp) = true := by simpa using hacc
    by_cases hok : sol.all (fun c => !(inp.hasInc c.1) || inp.okInc c) = true
    · have hmem : sol ∈ combos.filter (fun sol => sol.all (fun c => !(inp.hasInc c.1) || inp.okInc c)) :=
        List.mem_filter.2 ⟨hsol, hok⟩
      split at h
      · rw [h] at hmem; simp at hmem
      next hne =>
        have hemp : (combos.filter (fun sol => sol.all (fun c => !(inp.hasInc c.1) || inp.okInc c))).isEmpty = true := by
          simpa using hne
        have := List.isEmpty_iff.1 hemp
        rw [this] at hmem; simp at hmem
    · split at h
      next hne =>
        simp only [Bool.not_eq_true'] at hne
        have : (combos.filter (fun sol => sol.all (fun c => !(inp.hasInc c.1) || inp.okInc c))) ≠ [] := by
          intro he; rw [he] at hne; simp at hne
        exact this h
      next =>
        have hmem : sol ∈ combos.filter (fun sol =>
            !(sol.all (fun c => !(inp.hasInc c.1) || inp.okInc c)) &&
            sol.all (fun c => !(inp.hasInc c.1) || inp.okInc c || !(inp.hasStrict c.1))) := by
          refine List.mem_filter.2 ⟨hsol, ?_⟩
          simp only [Bool.and_eq_true, Bool.not_eq_true']
          refine ⟨by simpa using hok, ?_⟩
          simpa [accCand] using hacc'
        rw [h] at hmem; simp at hmem
  · intro h
    have hok : combos.filter (fun sol => sol.all (fun c => !(inp.hasInc c.1) || inp.okInc c)) = [] := by
      apply List.filter_eq_nil_iff.2
      intro sol hsol hall
      have := h sol hsol
      simp only [List.all_eq_false, accCand] at this
      obtain ⟨c, hc, hcc⟩ := this
      have := (List.all_eq_true.1 hall) c hc
      simp_all
    rw [hok]
    simp only [List.isEmpty_nil, Bool.not_true, Bool.false_eq_true, if_false]
    apply List.filter_eq_nil_iff.2
    intro sol hsol hall
    have := h sol hsol
    simp only [Bool.and_eq_true] at hall
    have h2 : sol.all (accCand inp) = true := hall.2
    rw [h2] at this
    exact absurd this (by simp)

theorem step5_single_none_iff (d : Nat) (cs : List (List Cand)) (todo : List Nat) :
    step5 [d] [(d, cs)] todo = none ↔ cs = [] := by
  unfold step5
  cases cs with
  | nil => simp [step5.go, List.lookup]
  | cons sol rest =>
    simp [step5.go, List.lookup]

/-- **C12, pair completeness (selection level).**  For one synchronisation vector of two requests, steps 2-5 end in a
`DisjunctionError` exactly when no pair of candidates passes the disjointness test with both candidates acceptable
(include list honoured, or list all-LOOSE).  Together with `isdisjoint_test_iff_linkDisjoint` (the test means
link-disjointness) and `disjointOracle_iff` this is: for a single pair a disjoint solution is found whenever one
exists among the candidates of at most 80 hops. -/
theorem pair_complete (inp : SelInput) (d r0 r1 : Nat) (reqs : List Nat) (hne : r0 ≠ r1)
    (hf : PairFacts inp r0 r1) :
    selectDisjoint inp [(d, [r0, r1])] reqs = none ↔
      ¬ ∃ i, i < inp.ncand r0 ∧ ∃ j, j < inp.ncand r1 ∧ inp.dis (r1, j) (r0, i) = true ∧
          accCand inp (r0, i) = true ∧ accCand inp (r1, j) = true := by
  unfold selectDisjoint
  simp only [List.map_cons, List.map_nil]
  rw [step3_single inp d [r0, r1] reqs _ (fun r _ hr => noOrphan_pair inp r0 r1 hne hf r hr)]
  simp only [List.map_cons, List.map_nil]
  rw [step5_single_none_iff, step4_nil_iff]
  constructor
  · rintro h ⟨i, hi, j, hj, hd, ha0, ha1⟩
    have := h [(r0, i), (r1, j)] ((mem_step2_pair inp r0 r1 _).2 ⟨i, hi, j, hj, rfl, hd⟩)
    simp [ha0, ha1] at this
  · intro h sol hsol
    obtain ⟨i, hi, j, hj, rfl, hd⟩ := (mem_step2_pair inp r0 r1 sol).1 hsol
    by_contra hcon
    have hall : [(r0, i), (r1, j)].all (accCand inp) = true := by simpa using hcon
    simp only [List.all_cons, List.all_nil, Bool.and_true, Bool.and_eq_true] at hall
    exact h ⟨i, hi, j, hj, hd, hall.1, hall.2⟩

/-- **step 2 only builds disjoint combinations (any vector size)**: every combination holds one candidate per request
of the vector, in order, and every candidate passed the implementation's test against all candidates before it -/
theorem step2_combinations_good (inp : SelInput) (dl : List Nat) (sol : List Cand) (h : sol ∈ step2 inp dl) :
    sol.map Prod.fst = dl ∧ sol.Pairwise (fun a b => inp.dis b a = true) :=
  step2_good inp dl sol h

/-- **C12, soundness of the selection (steps 2-5), any set of synchronisation vectors** — pairs, larger vectors,
overlapping vectors.  Whatever combination step 5 returns: every request receives exactly one path, and inside every
vector any two requests received paths that passed the disjointness test (which, by
`isdisjoint_test_iff_linkDisjoint`, means: no common link in either direction).  Python's remove-while-iterating in
step 3, the alternates of step 4 and `remove_candidate` are all part of the model.  Otherwise the result is `none`:
the computation stops with a DisjunctionError instead of returning overlapping paths. -/
theorem selection_sound (inp : SelInput) (groups : List (Nat × List Nat)) (reqs : List Nat) (chosen : List Cand)
    (hids : (groups.map (·.1)).Nodup) (hdl : ∀ g ∈ groups, g.2.Nodup)
    (hreqs : ∀ g ∈ groups, ∀ r ∈ g.2, r ∈ reqs) (hnd : reqs.Nodup)
    (h : selectDisjoint inp groups reqs = some chosen) :
    (∀ c ∈ chosen, ∀ c' ∈ chosen, c.1 = c'.1 → c = c') ∧
    ∀ g ∈ groups, ∀ r ∈ g.2, ∀ r' ∈ g.2, r ≠ r' →
      ∃ c ∈ chosen, ∃ c' ∈ chosen, c.1 = r ∧ c'.1 = r' ∧ (inp.dis c c' = true ∨ inp.dis c' c = true) := by
  unfold selectDisjoint step5 at h
  simp only at h
  have hgood2 : GoodTable inp groups (groups.map (fun g => (g.1, step2 inp g.2))) := by
    intro e he
    obtain ⟨g, hg, rfl⟩ := List.mem_map.1 he
    exact ⟨g, hg, rfl, step2_good inp g.2⟩
  have hgood3 := step3_good inp groups reqs _ hgood2
  have hgood4 : GoodTable inp groups
      ((step3 inp groups reqs (groups.map (fun g => (g.1, step2 inp g.2)))).map
        (fun x => (x.1, step4 inp x.2))) :=
    goodTable_map inp groups _ _ (fun e => ⟨rfl, step4_subset inp e.2⟩) hgood3
  have hinv : Inv inp groups reqs
      ((step3 inp groups reqs (groups.map (fun g => (g.1, step2 inp g.2)))).map
        (fun x => (x.1, step4 inp x.2))) reqs [] :=
    ⟨hgood4, by intro c hc; simp at hc, fun r hr => Or.inl hr, by intro c hc; simp at hc,
     by intro c hc; simp at hc, hnd⟩
  obtain ⟨_, huniq, hall⟩ := go_sound inp groups reqs hids hdl hreqs _ _ _ _ chosen hinv h
  refine ⟨huniq, ?_⟩
  intro g hg r hr r' hr' hne
  obtain ⟨sol, ⟨hmap, hpw⟩, hin⟩ := hall g.1 (List.mem_map.2 ⟨g, hg, rfl⟩) g hg rfl
  have hr1 : r ∈ sol.map Prod.fst := hmap ▸ hr
  have hr2 : r' ∈ sol.map Prod.fst := hmap ▸ hr'
  obtain ⟨c, hc, hc1⟩ := List.mem_map.1 hr1
  obtain ⟨c', hc', hc1'⟩ := List.mem_map.1 hr2
  have hcc : c ≠ c' := by
    intro e; apply hne; rw [← hc1, ← hc1', e]
  have hsym : sol.Pairwise (fun a b => inp.dis a b = true ∨ inp.dis b a = true) :=
    hpw.imp (fun h => Or.inr h)
  haveI : Std.Symm (fun a b : Cand => inp.dis a b = true ∨ inp.dis b a = true) := ⟨fun _ _ hab => Or.symm hab⟩
  have := List.Pairwise.forall hsym hc hc' hcc
  exact ⟨c, hin c hc, c', hin c' hc', hc1, hc1', this⟩

/-- larger or overlapping vectors: completeness is NOT claimed (`…_partial`).  Full statement that is false in general:
    `selectDisjoint inp groups reqs = none ↔ ¬ ∃ assignment of one acceptable candidate per request, pairwise passing
    the test inside every vector`.  Counter-example shape: vectors {A,B} and {A,C}; the first combination of {A,B}
    fixes a path of A for which {A,C} has no combination, while another path of A serves both (step 5 never
    backtracks).  What holds for any vector structure is the error direction of a single vector: -/
theorem group_complete_partial (inp : SelInput) (d : Nat) (dl reqs : List Nat)
    (hno : ∀ r ∈ reqs, r ∈ dl → ∀ c ∈ candsOf inp r, NoOrphan inp.vid c (step2 inp dl))
    (h : ∀ sol ∈ step2 inp dl, sol.all (accCand inp) = false) :
    selectDisjoint inp [(d, dl)] reqs = none := by
  unfold selectDisjoint
  simp only [List.map_cons, List.map_nil]
  rw [step3_single inp d dl reqs _ hno]
  simp only [List.map_cons, List.map_nil]
  rw [step5_single_none_iff, step4_nil_iff]
  exact h

/-- **completeness for ONE vector of any size (three requests, four, …) under an explicit hypothesis.**  If no candidate
is orphaned in step 3 (`NoOrphan`: whenever a combination holds a path equal by value to candidate `c`, some combination
uses `c` for its own request — true for pairs by `noOrphan_pair`, true whenever the requests of the vector have pairwise
different end points, since then no two candidates of different requests are equal), the selection ends in a
DisjunctionError exactly when there is NO assignment of one valid, acceptable candidate per request in which every
candidate passes the disjointness test against all candidates before it. -/
theorem single_vector_complete (inp : SelInput) (d : Nat) (dl reqs : List Nat) (hne : dl ≠ [])
    (hno : ∀ r ∈ reqs, r ∈ dl → ∀ c ∈ candsOf inp r, NoOrphan inp.vid c (step2 inp dl)) :
    selectDisjoint inp [(d, dl)] reqs = none ↔
      ¬ ∃ sol : List Cand, sol.map Prod.fst = dl ∧ (∀ c ∈ sol, c.2 < inp.ncand c.1) ∧
          sol.Pairwise (fun a b => inp.dis b a = true) ∧ sol.all (accCand inp) = true := by
  unfold selectDisjoint
  simp only [List.map_cons, List.map_nil]
  rw [step3_single inp d dl reqs _ hno]
  simp only [List.map_cons, List.map_nil]
  rw [step5_single_none_iff, step4_nil_iff]
  constructor
  · rintro h ⟨sol, hm, hv, hp, ha⟩
    have := h sol (step2_complete inp dl sol hne ⟨hm, hp⟩ hv)
    rw [ha] at this; exact absurd this (by simp)
  · intro h sol hsol
    by_contra hcon
    have ha : sol.all (accCand inp) = true := by simpa using hcon
    obtain ⟨hm, hp⟩ := step2_good inp dl sol hsol
    refine h ⟨sol, hm, ?_, hp, ha⟩
    intro c hc
    -- candidates of step 2 are valid: they come from `candsOf`
    have : ∀ s ∈ step2 inp dl, ∀ c ∈ s, c.2 < inp.ncand c.1 := step2_valid inp dl
    exact this sol hsol c hc

/-- the hypothesis of `single_vector_complete` holds for every vector whose requests have pairwise different end points
(no two candidates of different requests are the same path) -/
theorem single_vector_complete_distinct (inp : SelInput) (d : Nat) (dl reqs : List Nat) (hne : dl ≠ [])
    (hinj : ∀ c c', inp.vid c = inp.vid c' → c = c') :
    selectDisjoint inp [(d, dl)] reqs = none ↔
      ¬ ∃ sol : List Cand, sol.map Prod.fst = dl ∧ (∀ c ∈ sol, c.2 < inp.ncand c.1) ∧
          sol.Pairwise (fun a b => inp.dis b a = true) ∧ sol.all (accCand inp) = true :=
  single_vector_complete inp d dl reqs hne (fun _ _ _ c _ => noOrphan_of_injective inp.vid hinj c _)

/-- candidates of three requests A=0, B=1, C=2 (two each) and the pairs that pass the disjointness test -/
def okPairs : List (Cand × Cand) :=
  [((0, 0), (1, 0)), ((0, 1), (1, 1)), ((1, 0), (2, 0)), ((1, 1), (2, 1)), ((0, 0), (2, 1)), ((0, 1), (2, 1)),
   ((0, 1), (2, 0))]

def demoInc : SelInput where
  ncand := fun _ => 2
  dis := fun c c' => okPairs.contains (c, c') || okPairs.contains (c', c)
  okInc := fun _ => true
  hasStrict := fun _ => false
  hasInc := fun _ => false
  vid := fun c => 2 * c.1 + c.2

/-- **why completeness is only claimed for one pair** (`…_fails_current` for the general statement): with the
overlapping vectors {A,B}, {B,C}, {A,C} the selection ends in a DisjunctionError although the assignment
A↦1, B↦1, C↦1 is pairwise disjoint — step 5 commits to the first combination (A↦0, B↦0), then C↦0, and {A,C} has no
combination left.  (Stated as ONE vector {A,B,C} the same instance is solved.) -/
theorem overlapping_complete_fails_current :
    selectDisjoint demoInc [(0, [0, 1]), (1, [1, 2]), (2, [0, 2])] [0, 1, 2] = none ∧
    (demoInc.dis (1, 1) (0, 1) = true ∧ demoInc.dis (2, 1) (1, 1) = true ∧ demoInc.dis (2, 1) (0, 1) = true) ∧
    selectDisjoint demoInc [(0, [0, 1, 2])] [0, 1, 2] = some [(0, 1), (1, 1), (2, 1)] := by decide

end Gnpy.Route

/-! ### from the vectors the user declared to the vectors the path computation sees -/
namespace Gnpy.Sync
open Gnpy.Response

/-- **`deduplicate_disjunctions`, what can be relied on**: the result is a sub-list of the declared vectors (nothing
invented, nothing reordered, ids and request lists untouched) and nothing is lost — every declared vector still has a
vector over the same set of requests in the result.  Holds with the nested remove-while-iterating of the code. -/
theorem dedup_spec (l : List Disj) :
    (deduplicateDisjunctions l).Sublist l ∧
    ∀ d ∈ l, ∃ d' ∈ deduplicateDisjunctions l, sameSet d.reqs d'.reqs = true := by
  have h := dedupOuter_spec l l.length 0 l (fun d hd => ⟨d, hd, sameSet_refl _⟩)
  exact ⟨h.2, h.1⟩

/-- the third clause one would like, "no two vectors over the same set remain", is FALSE for the current code: with
three copies of {a,b} and three of {a,c} interleaved as below, the iterators skip entries and two vectors over {a,c}
survive.  Harmless for C12 (a repeated vector repeats a demand), therefore not part of `dedup_spec`. -/
theorem dedup_no_duplicates_fails_current :
    (deduplicateDisjunctions [⟨"d0", ["a", "b"]⟩, ⟨"d1", ["a", "c"]⟩, ⟨"d2", ["a", "b"]⟩, ⟨"d3", ["a", "b"]⟩,
                              ⟨"d4", ["a", "c"]⟩, ⟨"d5", ["a", "c"]⟩]).map (fun d => (d.id, d.reqs)) =
      [("d1", ["a", "c"]), ("d3", ["a", "b"]), ("d5", ["a", "c"])] := by decide

variable {κ α : Type} [DecidableEq κ] [Add α]

/-- **`requests_aggregation` keeps every declared demand** (code as repaired by F14).  `ren` = the name each request
id carries after the aggregation (the id of the request that absorbed it; computed by `requestsAggregationT`, which is
the C19 model `requestsAggregationD` plus this book-keeping).  The vectors handed to the path computation are the
declared vectors, same number, same order, same vector ids, and whenever a declared vector lists `x` and `y`, the
corresponding output vector lists `ren x` and `ren y`. -/
theorem aggregation_preserves_disjointness_demands (rs : List (AReq κ α)) (ds : List Disj) :
    (requestsAggregationT rs ds).1 = requestsAggregationD rs ds ∧
    List.Forall₂ (fun d d' => d'.id = d.id ∧ ∀ x ∈ d.reqs, (requestsAggregationT rs ds).2 x ∈ d'.reqs)
      ds (requestsAggregationD rs ds).2 := by
  have h := fold_aggStepT ds (List.range rs.length) ((rs, ds), fun x => x) (renamed_refl ds)
  unfold requestsAggregationT requestsAggregationD
  refine ⟨h.1, ?_⟩
  have h2 := h.2
  unfold Renamed at h2
  rw [h.1] at h2
  exact h2

/-- pairwise reading of the previous theorem -/
theorem aggregation_pair_demand (rs : List (AReq κ α)) (ds : List Disj) (d : Disj) (hd : d ∈ ds) (x y : String)
    (hx : x ∈ d.reqs) (hy : y ∈ d.reqs) :
    ∃ d' ∈ (requestsAggregationD rs ds).2, d'.id = d.id ∧
      (requestsAggregationT rs ds).2 x ∈ d'.reqs ∧ (requestsAggregationT rs ds).2 y ∈ d'.reqs := by
  have h := (aggregation_preserves_disjointness_demands rs ds).2
  have key : ∀ (l : List Disj) (l' : List Disj) (R : Disj → Disj → Prop), List.Forall₂ R l l' → d ∈ l →
      ∃ d' ∈ l', R d d' := by
    intro l l' R hf
    induction hf with
    | nil => intro hm; simp at hm
    | cons hab _ ih =>
      intro hm
      rcases List.mem_cons.1 hm with rfl | hm
      · exact ⟨_, by simp, hab⟩
      · obtain ⟨d', hd', hr⟩ := ih hm
        exact ⟨d', List.mem_cons_of_mem _ hd', hr⟩
  obtain ⟨d', hd', hrel⟩ := key _ _ _ h hd
  exact ⟨d', hd', hrel.1, hrel.2 x hx, hrel.2 y hy⟩

/-- **two requests of one vector are never merged**: `compare_reqs` demands equal partner sets (`same_disj`), and two
different requests listed in a common vector (vectors without repeated ids) never have equal partner sets — each is
a partner of the other but not of itself.  So `ren x = ren y` cannot come from merging `x` with `y`. -/
theorem partners_never_merged (ds : List Disj) (hnd : ∀ d ∈ ds, d.reqs.Nodup) (d : Disj) (hd : d ∈ ds)
    (x y : String) (hx : x ∈ d.reqs) (hy : y ∈ d.reqs) (hxy : x ≠ y) : sameDisj ds x y = false :=
  sameDisj_false_of_common_vector ds hnd d hd x y hx hy hxy

/-- every merge the aggregation performs joins `req` into a request `t` with `same_disj` true at that moment — hence,
by `partners_never_merged`, two requests that share no vector -/
theorem merge_requires_same_disj (ds : List Disj) (req : AReq κ α) (loc l' : List (AReq κ α)) (oldId newId : String)
    (h : absorbIntoD ds req loc = some (l', oldId, newId)) (hnd : ∀ d ∈ ds, d.reqs.Nodup) :
    ∃ t ∈ loc, oldId = t.idStr ∧ newId = (absorb t req).idStr ∧ absorb t req ∈ l' ∧
      ∀ d ∈ ds, ¬ (req.idStr ∈ d.reqs ∧ t.idStr ∈ d.reqs) := by
  obtain ⟨t, ht, h1, h2, h3, h4, h5⟩ := absorbIntoD_spec ds req loc l' oldId newId h
  refine ⟨t, ht, h1, h2, h5, ?_⟩
  rintro d hd ⟨hx, hy⟩
  have := partners_never_merged ds hnd d hd _ _ hx hy h3
  rw [this] at h4; exact absurd h4 (by simp)

/-- non-vacuity: the F14b instance. Requests 1 and 3 are twins (same compared fields, partners {2,4} each); 1 is merged
into 3; all three declared vectors survive with '1' and '3' renamed to '3 | 1', so {4,2} is still demanded -/
def demoReq (p : Nat) (i k : String) : AReq String Nat :=
  { pos := p, parts := [i], key := k, hasMode := true, bw := 1, n := [], m := [] }
def demoRs : List (AReq String Nat) := [demoReq 0 "1" "A", demoReq 1 "2" "B", demoReq 2 "3" "A", demoReq 3 "4" "C"]
def demoDs : List Disj := [⟨"s0", ["3", "4", "2"]⟩, ⟨"s1", ["1", "2"]⟩, ⟨"s2", ["1", "4"]⟩]

example : (requestsAggregationD demoRs demoDs).2.map (fun d => (d.id, d.reqs)) =
    [("s0", ["4", "2", "3 | 1"]), ("s1", ["2", "3 | 1"]), ("s2", ["4", "3 | 1"])] := by decide
example : ["1", "2", "3", "4"].map (requestsAggregationT demoRs demoDs).2 = ["3 | 1", "2", "3 | 1", "4"] := by decide
example : ∀ d ∈ demoDs, d.reqs.Nodup := by decide

end Gnpy.Sync

namespace Gnpy.Route

/-! ### non-vacuity: two ROADM triangles' worth of OMS -/

def oAB : Oms := ⟨0, 10, 1⟩
def oBA : Oms := ⟨1, 11, 0⟩
def oBC : Oms := ⟨1, 12, 2⟩
def oCB : Oms := ⟨2, 13, 1⟩
def demoRev (o : Oms) : Oms := if o = oAB then oBA else if o = oBA then oAB else if o = oBC then oCB else oBC

example : Adjacent [oAB, oBC] ∧ RevOk demoRev [oAB, oBC] ∧ Separated [oAB, oBC] [oCB, oBA] := by
  refine ⟨by unfold Adjacent; decide, by unfold RevOk; decide, by unfold Separated; decide⟩
example : isdisjointPy (shortOf [oAB, oBC]) (shortOf [oCB, oBA]) = 0 := by decide
example : isdisjointPy (shortOf (revChain demoRev [oAB, oBC])) (shortOf [oCB, oBA]) = 1 := by decide
/-- selection, non-vacuity: two requests with 2 candidates each, only (0,1)/(1,0) disjoint -/
def demoSel : SelInput where
  ncand := fun _ => 2
  dis := fun c c' => (c == (1, 0) && c' == (0, 1)) || (c == (0, 1) && c' == (1, 0))
  okInc := fun _ => true
  hasStrict := fun _ => false
  hasInc := fun _ => false
  vid := fun c => 2 * c.1 + c.2

example : selectDisjoint demoSel [(7, [0, 1])] [0, 1] = some [(0, 1), (1, 0)] := by decide
example : PairFacts demoSel 0 1 := by
  refine ⟨?_, ?_, ?_, ?_, ?_⟩
  · intro r i j h; simp only [demoSel] at h; omega
  · intro i j h; simp only [demoSel] at h ⊢; simp at h; omega
  · intro i j i' j' h1 h2
    simp only [demoSel] at h1 h2
    have hi : i = 2 + j' := by omega
    have hi' : i' = 2 + j := by omega
    subst hi; subst hi'
    have e : ∀ k : Nat, (((0:Nat), 2 + k) == ((0:Nat), (1:Nat))) = false := by
      intro k; rw [beq_eq_false_iff_ne]; intro h; injection h with h1 h2; omega
    have e' : ∀ k : Nat, (((1:Nat), k) == ((0:Nat), (1:Nat))) = false := by
      intro k; rw [beq_eq_false_iff_ne]; intro h; injection h with h1 h2; omega
    simp only [demoSel, e, e', Bool.and_false, Bool.false_and, Bool.or_false]
  · intro i j hi hj h; simp only [demoSel] at h hi hj; omega
  · intro i j hi hj h; simp only [demoSel] at h hi hj; omega
example : selectDisjoint { demoSel with dis := fun _ _ => false } [(7, [0, 1])] [0, 1] = none := by decide
/-- overlapping vectors {0,1} and {0,2}: three requests with two candidates each, candidates with different index are
disjoint; a triple {0,1,2} is impossible -/
def demoSel3 : SelInput where
  ncand := fun _ => 2
  dis := fun c c' => c.2 != c'.2
  okInc := fun _ => true
  hasStrict := fun _ => false
  hasInc := fun _ => false
  vid := fun c => 2 * c.1 + c.2

example : selectDisjoint demoSel3 [(0, [0, 1]), (1, [0, 2])] [0, 1, 2] = some [(0, 1), (1, 0), (2, 0)] := by decide
example : selectDisjoint demoSel3 [(0, [0, 1, 2])] [0, 1, 2] = none := by decide
example : sitesOf [oAB, oBC] = [0, 1, 2] ∧ linksC [oAB, oBC] = [(0, 1), (1, 2)] := by decide

end Gnpy.Route
