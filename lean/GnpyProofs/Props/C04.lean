import GnpyModel
import GnpyProofs.Lemmas.Edfa
/- Property theorems for C04 — an amplifier applies its set gain (reduced only as far as needed so that the
   amplified incoming power never exceeds p_max), adds ASE = h·f·B·NF referred to its input, follows the
   configured NF model, and does not amplify out-of-band channels.  Model: GnpyModel/Edfa.lean.  Statements over ℝ. -/
namespace Gnpy.Edfa

/-! ### saturation clamp -/

/-- the effective gain never exceeds the set gain -/
theorem effGain_le_set (s pm pin : ℝ) : effGain s pm pin ≤ s := by
  rw [effGain, smin_eq_min]; exact min_le_left _ _

/-- total input power (dBm) + effective gain never exceeds `p_max` -/
theorem effGain_clamp (s pm pin : ℝ) : pin + effGain s pm pin ≤ pm := by
  rw [effGain, smin_eq_min]; have := min_le_right s (pm - pin); linarith

/-- the set gain is applied unchanged exactly when it does not saturate the amplifier -/
theorem effGain_eq_set_iff (s pm pin : ℝ) : effGain s pm pin = s ↔ pin + s ≤ pm := by
  rw [effGain, smin_eq_min]
  constructor
  · intro h; have := min_le_right s (pm - pin); rw [h] at this; linarith
  · intro h; exact min_eq_left (by linarith)

/-- "reduced only as far as needed": a saturating set gain is cut back to exactly `p_max - pin` -/
theorem effGain_reduced_exact (s pm pin : ℝ) (h : pm < pin + s) : pin + effGain s pm pin = pm := by
  rw [effGain, smin_eq_min, min_eq_right (by linarith)]; ring

/-- the gain attribute after any sequence of calls is at most the set gain … -/
theorem callSeq_le_set (s pm : ℝ) (pins : List ℝ) : callSeq s pm pins ≤ s := by
  induction pins generalizing s with
  | nil => exact le_refl _
  | cons p ps ih => exact le_trans (ih (effGain s pm p)) (effGain_le_set s pm p)

/-- … and respects `p_max` for every call made so far (in particular the last one) -/
theorem callSeq_clamp_last (s pm : ℝ) (pins : List ℝ) : ∀ p ∈ pins, p + callSeq s pm pins ≤ pm := by
  induction pins generalizing s with
  | nil => intro p hp; simp at hp
  | cons q qs ih =>
    intro p hp
    simp only [callSeq]
    rcases List.mem_cons.1 hp with h | h
    · subst h
      have h1 := callSeq_le_set (effGain s pm p) pm qs
      have h2 := effGain_clamp s pm p
      linarith
    · exact ih (effGain s pm q) p h

/-- the first call of a freshly configured amplifier applies `min(set, p_max - pin)` -/
theorem callSeq_first_call (s pm p : ℝ) : callSeq s pm [p] = effGain s pm p := rfl

/-- **never exceeds p_max** (flat profile): the amplified incoming power `Σ pᵢ·G`, in dBm, is at most `p_max`,
where `G` is the effective gain computed from the total input power. -/
theorem total_out_le_pmax (ps : List ℝ) (s pm : ℝ) (hne : ps ≠ []) (hpos : ∀ p ∈ ps, 0 < p) :
    watt2dbm (sumL (ps.map (fun p => p * db2lin (effGain s pm (watt2dbm (sumL ps)))))) ≤ pm := by
  have hs := sumL_pos ps hne hpos
  rw [sumL_map_mul_right, watt2dbm_mul_db2lin _ _ hs]
  exact effGain_clamp s pm _

/-- **raises total power by the effective gain** (flat profile) -/
theorem flat_total_gain (ps : List ℝ) (g : ℝ) (hne : ps ≠ []) (hpos : ∀ p ∈ ps, 0 < p) :
    watt2dbm (sumL (ps.map (fun p => p * db2lin g))) = watt2dbm (sumL ps) + g := by
  rw [sumL_map_mul_right, watt2dbm_mul_db2lin _ _ (sumL_pos ps hne hpos)]

/-! ### ASE -/

/-- ASE added to a channel = `h · B · f · NF` (linear NF), at the amplifier input -/
theorem ase_formula (b f nf : ℝ) : ase b f (some nf) = planck * b * f * db2lin nf := rfl

/-- the OpenROADM booster (NF = −∞ dB) adds no noise -/
theorem ase_noiseless_booster (b f : ℝ) : ase b f none = 0 := by
  simp [ase, db2linE, zero]

/-- the ASE is referred to the input: the channel leaves with `p·G + (h·B·f·NF)·G`, `G = db2lin(g − out_voa)` -/
theorem ase_referred_to_input (p b f nf g v : ℝ) :
    chanOut p (ase b f (some nf)) g v = p * db2lin (g - v) + planck * b * f * db2lin nf * db2lin (g - v) := by
  simp only [chanOut, ase, db2linE]; ring

/-! ### NF of min/max-NF (variable gain) amplifiers -/

private theorem den_neg (gmin gmax : ℝ) (hg : gmin < gmax) :
    1 / db2lin (gmax - 5) - 1 / db2lin (gmin - (gmax - gmin) - 5) < 0 := by
  have h1 := db2lin_pos (gmax - 5)
  have h2 := db2lin_pos (gmin - (gmax - gmin) - 5)
  have hlt : db2lin (gmin - (gmax - gmin) - 5) < db2lin (gmax - 5) := (db2lin_lt_iff _ _).2 (by linarith)
  have : 1 / db2lin (gmax - 5) < 1 / db2lin (gmin - (gmax - gmin) - 5) := one_div_lt_one_div_of_lt h2 hlt
  linarith

/-- linear second-coil noise factor of the unclipped solution -/
private theorem estNf2_lin (gmin gmax a b : ℝ) (hg : gmin < gmax) (hab : a < b) :
    db2lin (estNf2 gmin gmax a b) =
      (db2lin a - db2lin b) / (1 / db2lin (gmax - 5) - 1 / db2lin (gmin - (gmax - gmin) - 5)) := by
  simp only [estNf2, Nat.cast_ofNat, Nat.cast_one]
  apply db2lin_lin2db
  have hn : db2lin a - db2lin b < 0 := by have := (db2lin_lt_iff a b).2 hab; linarith
  exact div_pos_of_neg_of_neg hn (den_neg gmin gmax hg)

/-- the first-coil hypothesis of `nf_at_gmax`/`nf_at_gmin` in datasheet terms: it holds as soon as the NF spread
is smaller than twice the gain range, `nf_max − nf_min < 2·(gain_max − gain_min)` -/
theorem coil_pos_of_spread (gmin gmax a b : ℝ) (hg : gmin < gmax) (hab : a < b) (h : b - a < 2 * (gmax - gmin)) :
    0 < db2lin a - db2lin (estNf2 gmin gmax a b) / db2lin (gmax - 5) := by
  rw [estNf2_lin gmin gmax a b hg hab]
  have hP := db2lin_pos (gmax - 5)
  have hQ := db2lin_pos (gmin - (gmax - gmin) - 5)
  have hA := db2lin_pos a
  have hQP : db2lin (gmin - (gmax - gmin) - 5) < db2lin (gmax - 5) := (db2lin_lt_iff _ _).2 (by linarith)
  -- B/A < P/Q
  have hr : db2lin (b - a) < db2lin ((gmax - 5) - (gmin - (gmax - gmin) - 5)) := (db2lin_lt_iff _ _).2 (by linarith)
  rw [db2lin_sub, db2lin_sub, div_lt_div_iff₀ hA hQ] at hr
  generalize db2lin (gmax - 5) = P at *
  generalize db2lin (gmin - (gmax - gmin) - 5) = Q at *
  generalize db2lin a = A at *
  generalize db2lin b = B at *
  have key : A - (A - B) / (1 / P - 1 / Q) / P = (A * P - B * Q) / (P - Q) := by
    have h1 : P - Q ≠ 0 := by linarith
    have h2 : Q - P ≠ 0 := by linarith
    field_simp
    ring
  rw [key]
  exact div_pos (by linarith) (by linarith)

/-- **NF = nf_min at maximum flat gain** for the unclipped `estimate_nf_model` solution
(`hcoil`: the first-coil noise factor is positive, which `estimate_nf_model` needs to take its logarithm) -/
theorem nf_at_gmax (gmin gmax a b : ℝ)
    (hcoil : 0 < db2lin a - db2lin (estNf2 gmin gmax a b) / db2lin (gmax - 5)) :
    nfVar (estNf1 gmin gmax a b) (estNf2 gmin gmax a b) 5 gmax gmax = a := by
  have h1 : db2lin (estNf1 gmin gmax a b) = db2lin a - db2lin (estNf2 gmin gmax a b) / db2lin (gmax - 5) := by
    simp only [estNf1, Nat.cast_ofNat]; exact db2lin_lin2db _ hcoil
  simp only [nfVar, dgOf, smax_eq_max, zero, Nat.cast_zero, sub_self, max_self, sub_zero]
  rw [h1]
  have : db2lin a - db2lin (estNf2 gmin gmax a b) / db2lin (gmax - 5) +
      db2lin (estNf2 gmin gmax a b) / db2lin (gmax - 5) = db2lin a := by ring
  rw [this, lin2db_db2lin]

/-- **NF = nf_max at minimum gain** for the unclipped solution -/
theorem nf_at_gmin (gmin gmax a b : ℝ) (hg : gmin < gmax) (hab : a < b)
    (hcoil : 0 < db2lin a - db2lin (estNf2 gmin gmax a b) / db2lin (gmax - 5)) :
    nfVar (estNf1 gmin gmax a b) (estNf2 gmin gmax a b) 5 gmax gmin = b := by
  have h1 : db2lin (estNf1 gmin gmax a b) = db2lin a - db2lin (estNf2 gmin gmax a b) / db2lin (gmax - 5) := by
    simp only [estNf1, Nat.cast_ofNat]; exact db2lin_lin2db _ hcoil
  have h2 := estNf2_lin gmin gmax a b hg hab
  have hd := den_neg gmin gmax hg
  have hu := db2lin_pos (gmax - 5)
  have hv := db2lin_pos (gmin - (gmax - gmin) - 5)
  simp only [nfVar, dgOf, smax_eq_max, zero, Nat.cast_zero]
  rw [max_eq_left (by linarith), show gmin - 5 - (gmax - gmin) = gmin - (gmax - gmin) - 5 by ring, h1, h2]
  have key : db2lin a - (db2lin a - db2lin b) / (1 / db2lin (gmax - 5) - 1 / db2lin (gmin - (gmax - gmin) - 5))
        / db2lin (gmax - 5)
      + (db2lin a - db2lin b) / (1 / db2lin (gmax - 5) - 1 / db2lin (gmin - (gmax - gmin) - 5))
        / db2lin (gmin - (gmax - gmin) - 5) = db2lin b := by
    generalize db2lin (gmax - 5) = u at hd hu ⊢
    generalize db2lin (gmin - (gmax - gmin) - 5) = v at hd hv ⊢
    generalize db2lin a = A
    generalize db2lin b = B
    have hd' : 1 / u - 1 / v ≠ 0 := ne_of_lt hd
    have hN : (A - B) / (1 / u - 1 / v) * (1 / u - 1 / v) = A - B := div_mul_cancel₀ _ hd'
    have : (A - B) / (1 / u - 1 / v) / u - (A - B) / (1 / u - 1 / v) / v
        = (A - B) / (1 / u - 1 / v) * (1 / u - 1 / v) := by ring
    linarith
  rw [key, lin2db_db2lin]

/-- in its un-clipped branch `estimate_nf_model` returns exactly that solution with `delta_p = 5` -/
theorem estimate_unclipped (gmin gmax a b n1 n2 dp : ℝ)
    (h : estimateNfModel gmin gmax a b = .ok (n1, n2, dp)) (hr : (estCore gmin gmax a b).inRange = true) :
    n1 = estNf1 gmin gmax a b ∧ n2 = estNf2 gmin gmax a b ∧ dp = 5 := by
  simp only [estimateNfModel] at h
  split at h; · cases h
  split at h; · cases h
  split at h; · cases h
  split at h; · cases h
  split at h; · cases h
  split at h; · cases h
  split at h; · cases h
  simp only [Except.ok.injEq, Prod.mk.injEq] at h
  obtain ⟨e1, e2, e3⟩ := h
  simp only [estCore] at hr e1 e2 e3
  simp only [hr, if_true] at e2 e3
  exact ⟨e1.symm, e2.symm, by rw [← e3]; norm_num⟩

/-- whichever branch is taken, an accepted model reproduces the datasheet values at both ends of the gain
range within the acceptance tolerance of `math.isclose(…, abs_tol=0.01)` -/
theorem estimate_accepts_close (gmin gmax a b n1 n2 dp : ℝ) (hg : gmin ≤ gmax)
    (h : estimateNfModel gmin gmax a b = .ok (n1, n2, dp)) :
    |a - nfVar n1 n2 dp gmax gmax| ≤ max (1 / 1000000000 * max |a| |nfVar n1 n2 dp gmax gmax|) (1 / 100) ∧
    |b - nfVar n1 n2 dp gmax gmin| ≤ max (1 / 1000000000 * max |b| |nfVar n1 n2 dp gmax gmin|) (1 / 100) := by
  simp only [estimateNfModel] at h
  split at h; · cases h
  split at h; · cases h
  split at h; · cases h
  split at h; · cases h
  split at h; · cases h
  split at h; · cases h
  rename_i _ _ _ _ _ hmin
  split at h; · cases h
  rename_i hmax
  simp only [Except.ok.injEq, Prod.mk.injEq] at h
  obtain ⟨e1, e2, e3⟩ := h
  subst e1 e2 e3
  -- the gain points of `nfVar` are the `g1a` values of the acceptance test
  have hA : gmax - (estCore gmin gmax a b).dp = (estCore gmin gmax a b).g1aMax := by
    simp only [estCore]; split <;> ring
  have hB : gmin - (estCore gmin gmax a b).dp - (gmax - gmin) = (estCore gmin gmax a b).g1aMin := by
    simp only [estCore]; ring
  have e1 : nfVar (estCore gmin gmax a b).nf1 (estCore gmin gmax a b).nf2 (estCore gmin gmax a b).dp gmax gmax
      = (estCore gmin gmax a b).calcMin := by
    simp only [nfVar, dgOf, smax_eq_max, zero, Nat.cast_zero, sub_self, max_self, sub_zero]
    rw [hA]; simp only [estCore]
  have e2 : nfVar (estCore gmin gmax a b).nf1 (estCore gmin gmax a b).nf2 (estCore gmin gmax a b).dp gmax gmin
      = (estCore gmin gmax a b).calcMax := by
    simp only [nfVar, dgOf, smax_eq_max, zero, Nat.cast_zero]
    rw [max_eq_left (by linarith), hB]; simp only [estCore]
  rw [e1, e2]
  simp only [Bool.not_eq_false, Bool.not_eq_eq_eq_not, Bool.not_true] at hmin hmax
  constructor
  · have := hmin
    simp only [isclose01, smax_eq_max, cNano, c001, transc_abs, Nat.cast_one, Nat.cast_ofNat, decide_eq_true_eq] at this
    exact this
  · have := hmax
    simp only [isclose01, smax_eq_max, cNano, c001, transc_abs, Nat.cast_one, Nat.cast_ofNat, decide_eq_true_eq] at this
    exact this

/-- **NF is non-increasing with gain** (any two-coil model; all of `[gmin, ∞)` since there is no padding there) -/
theorem nf_antitone_in_gain (nf1 nf2 dp gmax g g' : ℝ) (h : g ≤ g') :
    nfVar nf1 nf2 dp gmax g' ≤ nfVar nf1 nf2 dp gmax g := by
  simp only [nfVar, dgOf, smax_eq_max, zero, Nat.cast_zero]
  have hmono : g - dp - max (gmax - g) 0 ≤ g' - dp - max (gmax - g') 0 := by
    have : max (gmax - g') 0 ≤ max (gmax - g) 0 := max_le_max (by linarith) (le_refl _)
    linarith
  have h1 := db2lin_pos nf1
  have h2 := db2lin_pos nf2
  have ha := db2lin_pos (g - dp - max (gmax - g) 0)
  have hb := db2lin_pos (g' - dp - max (gmax - g') 0)
  have hle : db2lin (g - dp - max (gmax - g) 0) ≤ db2lin (g' - dp - max (gmax - g') 0) := (db2lin_le_iff _ _).2 hmono
  rw [lin2db_le_iff _ _ (by positivity) (by positivity)]
  have : db2lin nf2 / db2lin (g' - dp - max (gmax - g') 0) ≤ db2lin nf2 / db2lin (g - dp - max (gmax - g) 0) :=
    div_le_div_of_nonneg_left (le_of_lt h2) ha hle
  linarith

/-- **below minimum gain NF grows dB for dB** (every NF model: the missing gain is input padding) -/
theorem nf_pad_db_for_db (s : Stage ℝ) (ld : Load ℝ) (g : ℝ) (h : g ≤ s.gainMin) :
    stageNf s ld g = ((nfCore s ld s.gainMin).map (fun x => x + (s.gainMin - g)), s.gainMin - g) := by
  simp only [stageNf, padOf, smax_eq_max, zero, Nat.cast_zero]
  rw [max_eq_left (by linarith), show g + (s.gainMin - g) = s.gainMin by ring]

/-- at or above minimum gain nothing is padded -/
theorem nf_no_pad (s : Stage ℝ) (ld : Load ℝ) (g : ℝ) (h : s.gainMin ≤ g) :
    stageNf s ld g = (nfCore s ld g, 0) := by
  simp only [stageNf, padOf, smax_eq_max, zero, Nat.cast_zero]
  rw [max_eq_right (by linarith)]
  simp

/-- fixed-gain model: NF = nf0 (+ padding below minimum gain) -/
theorem nf_fixed_gain (nf0 gmin gmax g : ℝ) (ld : Load ℝ) :
    stageNf { model := .fixedGain nf0, gainMin := gmin, gainFlatmax := gmax } ld g
      = (some (nf0 + max (gmin - g) 0), max (gmin - g) 0) := by
  simp [stageNf, nfCore, padOf, smax_eq_max, zero]

/-- advanced (polynomial) model at or above maximum flat gain: the constant coefficient -/
theorem nf_advanced_at_gmax (coef : List ℝ) (c gmin gmax g : ℝ) (ld : Load ℝ) (hm : gmin ≤ g) (h : gmax ≤ g) :
    stageNf { model := .advanced (coef ++ [c]), gainMin := gmin, gainFlatmax := gmax } ld g = (some c, 0) := by
  rw [nf_no_pad _ _ _ hm]
  simp only [nfCore, dgOf, smax_eq_max, zero, Nat.cast_zero]
  rw [max_eq_right (by linarith)]
  simp [polyval, List.foldl_append, zero]

/-- dual stage: Friis' formula `F = F₁ + F₂ / G₁` -/
theorem dual_stage_friis (n1 n2 g1 : ℝ) :
    db2linE (dualNf (some n1) (some n2) g1) = db2lin n1 + db2lin n2 / db2lin g1 := by
  simp only [dualNf, db2linE, Option.map]
  rw [db2lin_lin2db _ (by have := db2lin_pos n1; have := db2lin_pos (n2 - g1); positivity), db2lin_sub]

/-! ### gain profile -/

/-- **flat case**: no ripple and no tilt scaling ⇒ every channel gets exactly the effective gain -/
theorem flat_profile_exact (g : List ℝ) (c eff : ℝ) (hne : g ≠ []) (h : ∀ x ∈ g, x = c) :
    ∀ y ∈ flatProfile g eff, y = eff := by
  intro y hy
  simp only [flatProfile, List.mem_map] at hy
  obtain ⟨x, hx, rfl⟩ := hy
  have hm : mean (g.map db2lin) = db2lin c := by
    apply mean_const _ _ (by simpa using hne)
    intro z hz
    simp only [List.mem_map] at hz
    obtain ⟨w, hw, rfl⟩ := hz
    rw [h w hw]
  simp only [voaOf, hm, lin2db_db2lin, h x hx]; ring

/-- a one-channel spectrum gets the effective gain -/
theorem single_channel_profile (freqs dgt ripple pin : List ℝ) (eff gfm tilt fmin fmax pinDb : ℝ)
    (h : dgt.length = 1) :
    (gainProfile freqs dgt ripple pin eff gfm tilt fmin fmax pinDb).1 = [eff] := by
  simp [gainProfile, h]

/-- the whole `_gain_profile` in the flat configuration (tilt target 0, zero ripple): exact -/
theorem gain_profile_flat (freqs dgt ripple pin : List ℝ) (eff gfm fmin fmax pinDb : ℝ)
    (hlen : dgt.length ≠ 1) (hr : ∀ r ∈ ripple, r = 0) :
    ∀ y ∈ (gainProfile freqs dgt ripple pin eff gfm 0 fmin fmax pinDb).1, y = eff := by
  have hg1 : ∀ d, ∀ x ∈ g1st ripple dgt gfm d, d = 0 → x = gfm := by
    intro d x hx hd
    simp only [g1st, List.mem_map] at hx
    obtain ⟨p, hp, rfl⟩ := hx
    have := hr p.1 (List.of_mem_zip hp).1
    rw [this, hd]; ring
  have hd0 : (if fitSlope freqs dgt < (zero : ℝ) ∨ (zero : ℝ) < fitSlope freqs dgt
      then -(0:ℝ) / (fmax - fmin) / fitSlope freqs dgt else zero) = 0 := by
    split <;> simp [zero]
  intro y hy
  simp only [gainProfile, if_neg hlen] at hy
  rw [hd0] at hy
  set g1 := g1st ripple dgt gfm 0 with hg1def
  have hc : ∀ x ∈ g1, x = gfm := fun x hx => hg1 0 x hx rfl
  by_cases hne : g1 = []
  · simp [hne, maxL, minL, zero, c005] at hy
    norm_num at hy
  · have hdx : maxL g1 - minL g1 = 0 := by rw [maxL_const g1 gfm hne hc, minL_const g1 gfm hne hc]; ring
    rw [hdx] at hy
    have h005 : |(0:ℝ)| ≤ c005 := by simp [c005]; norm_num
    simp only [transc_abs, h005, if_true] at hy
    exact flat_profile_exact g1 gfm eff hne hc y (by simpa [flatProfile] using hy)

private theorem shifted_zero (g dgt : List ℝ) (v : ℝ) (h : g.length ≤ dgt.length) :
    shifted g dgt v 0 = g.map (fun x => x - v) := by
  induction g generalizing dgt with
  | nil => simp [shifted]
  | cons x xs ih =>
    cases dgt with
    | nil => simp at h
    | cons d ds =>
      have := ih ds (by simpa using h)
      simp only [shifted] at this
      simp only [shifted, List.zip_cons_cons, List.map_cons, this]
      congr 1; ring

/-- `gain_profile_normalised_partial` — what is proved under tilt/ripple: the returned profile is the first
estimate shifted by the VOA plus ONE scalar multiple of the dynamic gain tilt (so its shape is exactly
`ripple + x'·dgt`).  Full statement (not provable: the code does one secant step, which only approximates it):
`watt2dbm (Σ pinᵢ·db2lin gᵢ) − pinDb = eff` for the returned `g`. -/
theorem gain_profile_normalised_partial (freqs dgt ripple pin : List ℝ) (eff gfm tilt fmin fmax pinDb : ℝ)
    (hlen : dgt.length ≠ 1) :
    ∃ d x : ℝ, (gainProfile freqs dgt ripple pin eff gfm tilt fmin fmax pinDb).1 =
      shifted (g1st ripple dgt gfm d) dgt (voaOf (g1st ripple dgt gfm d) eff) x := by
  simp only [gainProfile, if_neg hlen]
  generalize (if fitSlope freqs dgt < zero ∨ zero < fitSlope freqs dgt
    then -tilt / (fmax - fmin) / fitSlope freqs dgt else zero) = d
  refine ⟨d, ?_⟩
  by_cases hb : Transc.abs (maxL (g1st ripple dgt gfm d) - minL (g1st ripple dgt gfm d)) ≤ c005
  · simp only [hb, if_true]
    refine ⟨0, ?_⟩
    rw [shifted_zero]
    simp only [g1st, List.length_map, List.length_zip]
    exact Nat.min_le_right _ _
  · simp only [hb, if_false]
    exact ⟨_, rfl⟩

/-! ### average gain of the returned profile: the two cases where it is exact -/

private theorem sumL_zip_replicate (f : ℝ → ℝ) (p : ℝ) (l : List ℝ) :
    sumL (((List.replicate l.length p).zip l).map (fun q => q.1 * f q.2)) = p * sumL (l.map f) := by
  induction l with
  | nil => simp [sumL]
  | cons x xs ih =>
    simp only [List.length_cons, List.replicate_succ, List.zip_cons_cons, List.map_cons, sumL, ih]
    ring

private theorem sumL_map_db2lin_sub (l : List ℝ) (v : ℝ) :
    sumL (l.map (fun x => db2lin (x - v))) = sumL (l.map db2lin) / db2lin v := by
  have : l.map (fun x => db2lin (x - v)) = (l.map db2lin).map (fun y => y * (db2lin v)⁻¹) := by
    simp [List.map_map, Function.comp, db2lin_sub, div_eq_mul_inv]
  rw [this, sumL_map_mul_right, div_eq_mul_inv]

private theorem sumL_map_db2lin_pos (l : List ℝ) (hne : l ≠ []) : 0 < sumL (l.map db2lin) := by
  apply sumL_pos _ (by simpa using hne)
  intro x hx
  simp only [List.mem_map] at hx
  obtain ⟨y, _, rfl⟩ := hx
  exact db2lin_pos y

/-- **uniform input, flat branch** (gain excursion ≤ 0.05 dB: no tilt, ripple-free or nearly): the profile the
code returns raises the total power by EXACTLY the effective gain -/
theorem flat_branch_total_gain (g1 : List ℝ) (p eff : ℝ) (hp : 0 < p) (hne : g1 ≠ []) :
    avgGain (List.replicate g1.length p) (flatProfile g1 eff)
      (watt2dbm (sumL (List.replicate g1.length p))) = eff := by
  have hn : (0:ℝ) < g1.length := by
    have : 0 < g1.length := List.length_pos_iff.2 hne
    exact_mod_cast this
  have hS := sumL_map_db2lin_pos g1 hne
  have hlen : (flatProfile g1 eff).length = g1.length := by simp [flatProfile]
  simp only [avgGain]
  have h1 := sumL_zip_replicate db2lin p (flatProfile g1 eff)
  rw [hlen] at h1
  rw [h1]
  have h2 : sumL ((flatProfile g1 eff).map db2lin) = sumL (g1.map db2lin) / db2lin (voaOf g1 eff) := by
    simp only [flatProfile, List.map_map]
    exact sumL_map_db2lin_sub g1 (voaOf g1 eff)
  rw [h2, sumL_replicate]
  have hv := db2lin_pos (voaOf g1 eff)
  simp only [watt2dbm, Nat.cast_ofNat]
  rw [← lin2db_div _ _ (by positivity) (by positivity)]
  have : p * (sumL (g1.map db2lin) / db2lin (voaOf g1 eff)) * 1000 / (↑g1.length * p * 1000)
      = (sumL (g1.map db2lin) / ↑g1.length) / db2lin (voaOf g1 eff) := by
    field_simp
  rw [this, lin2db_div _ _ (by positivity) hv, lin2db_db2lin]
  simp only [voaOf, mean, List.length_map]
  ring

/-- the same for the whole `_gain_profile`: uniform input power and gain excursion within 0.05 dB -/
theorem gain_profile_normalised_uniform_flat (freqs dgt ripple : List ℝ) (p eff gfm tilt fmin fmax : ℝ)
    (hlen : dgt.length ≠ 1) (hp : 0 < p) (hz : ripple.zip dgt ≠ [])
    (hsmall : ∀ d, |maxL (g1st ripple dgt gfm d) - minL (g1st ripple dgt gfm d)| ≤ 5 / 100) :
    let n := (ripple.zip dgt).length
    avgGain (List.replicate n p)
      (gainProfile freqs dgt ripple (List.replicate n p) eff gfm tilt fmin fmax
        (watt2dbm (sumL (List.replicate n p)))).1
      (watt2dbm (sumL (List.replicate n p))) = eff := by
  intro n
  simp only [gainProfile, if_neg hlen]
  generalize (if fitSlope freqs dgt < zero ∨ zero < fitSlope freqs dgt
    then -tilt / (fmax - fmin) / fitSlope freqs dgt else zero) = d
  have hb : Transc.abs (maxL (g1st ripple dgt gfm d) - minL (g1st ripple dgt gfm d)) ≤ (c005 : ℝ) := by
    simpa [c005] using hsmall d
  simp only [hb, if_true]
  have hlen1 : (g1st ripple dgt gfm d).length = n := by simp [g1st, n]
  have hne : g1st ripple dgt gfm d ≠ [] := by
    intro h; rw [h] at hlen1; simp only [List.length_nil] at hlen1
    exact hz (List.length_eq_zero_iff.1 hlen1.symm)
  have := flat_branch_total_gain (g1st ripple dgt gfm d) p eff hp hne
  rw [hlen1] at this
  exact this

private theorem shifted_const (g dgt : List ℝ) (voa x d : ℝ) (hd : ∀ y ∈ dgt, y = d) :
    shifted g dgt voa x = (shifted g dgt voa 0).map (fun s => s + d * x) := by
  simp only [shifted, List.map_map]
  apply List.map_congr_left
  intro q hq
  have := hd q.2 (List.of_mem_zip hq).2
  simp only [Function.comp, this]; ring

private theorem sumL_zip_map_add (pin l : List ℝ) (c : ℝ) :
    sumL ((pin.zip (l.map (fun s => s + c))).map (fun q => q.1 * db2lin q.2))
      = sumL ((pin.zip l).map (fun q => q.1 * db2lin q.2)) * db2lin c := by
  induction l generalizing pin with
  | nil => simp [sumL]
  | cons x xs ih =>
    cases pin with
    | nil => simp [sumL]
    | cons p ps =>
      simp only [List.map_cons, List.zip_cons_cons, sumL, ih, db2lin_add]
      ring

/-- the secant step is exact on an affine average-gain function -/
theorem secantStep_affine (A : ℝ → ℝ) (a0 d eff xc δ : ℝ) (hA : ∀ x, A x = a0 + d * x) (hd : d ≠ 0) (hδ : δ ≠ 0) :
    |A (secantStep A eff xc δ) - eff| ≤ 1 / 100000000000 := by
  have hs1 : (A (xc - δ) - A xc) / (xc - δ - xc) = d := by
    rw [hA, hA, div_eq_iff (by intro h; apply hδ; linarith)]; ring
  have hs2 : (A xc - A (xc + δ)) / (xc - (xc + δ)) = d := by
    rw [hA, hA, div_eq_iff (by intro h; apply hδ; linarith)]; ring
  simp only [secantStep, hs1, hs2, transc_abs, cTol, Nat.cast_one, Nat.cast_ofNat]
  split
  · rename_i h; rw [abs_sub_comm]; exact h
  · split
    · rw [hA (xc - (A xc - eff) / d), hA xc]
      have : a0 + d * (xc - (a0 + d * xc - eff) / d) - eff = 0 := by field_simp; ring
      rw [this]; norm_num
    · rw [hA (xc + (-A xc + eff) / d), hA xc]
      have : a0 + d * (xc + (-(a0 + d * xc) + eff) / d) - eff = 0 := by field_simp; ring
      rw [this]; norm_num

/-- **constant dynamic gain tilt over the loaded channels, any input spectrum, tilt/ripple branch**: the average
gain is affine in the DGT scale, the secant step is exact, and the returned profile raises the total power by the
effective gain within the code's own tolerance `1e-11` dB.  (For a non-constant DGT the average gain is a strictly
convex log-sum-exp of the scale and one secant step is only approximate: `gain_profile_normalised_partial`.) -/
theorem gain_profile_normalised_const_dgt (freqs dgt ripple pin : List ℝ) (eff gfm tilt fmin fmax pinDb d : ℝ)
    (hlen : dgt.length ≠ 1) (hd : ∀ y ∈ dgt, y = d) (hd0 : d ≠ 0) (hpos : ∀ p ∈ pin, 0 < p)
    (hne : pin.zip (ripple.zip dgt) ≠ [])
    (hbig : ∀ k, ¬ |maxL (g1st ripple dgt gfm k) - minL (g1st ripple dgt gfm k)| ≤ 5 / 100) :
    |avgGain pin (gainProfile freqs dgt ripple pin eff gfm tilt fmin fmax pinDb).1 pinDb - eff| ≤ 1 / 100000000000 := by
  simp only [gainProfile, if_neg hlen]
  generalize (if fitSlope freqs dgt < zero ∨ zero < fitSlope freqs dgt
    then -tilt / (fmax - fmin) / fitSlope freqs dgt else zero) = k
  have hb : ¬ Transc.abs (maxL (g1st ripple dgt gfm k) - minL (g1st ripple dgt gfm k)) ≤ (c005 : ℝ) := by
    simpa [c005] using hbig k
  simp only [hb, if_false]
  set g1 := g1st ripple dgt gfm k with hg1
  set voa := voaOf g1 eff with hvoa
  -- the average gain as a function of the DGT scale is affine
  have hS : 0 < sumL ((pin.zip (shifted g1 dgt voa 0)).map (fun q => q.1 * db2lin q.2)) := by
    apply sumL_pos
    · intro h
      have hl := congrArg List.length h
      simp only [List.length_map, List.length_zip, shifted, g1, g1st, List.length_nil] at hl
      apply hne
      apply List.length_eq_zero_iff.1
      simp only [List.length_zip]
      omega
    · intro x hx
      simp only [List.mem_map] at hx
      obtain ⟨q, hq, rfl⟩ := hx
      exact mul_pos (hpos q.1 (List.of_mem_zip hq).1) (db2lin_pos q.2)
  have hA : ∀ x, avgGain pin (shifted g1 dgt voa x) pinDb = avgGain pin (shifted g1 dgt voa 0) pinDb + d * x := by
    intro x
    simp only [avgGain]
    rw [shifted_const g1 dgt voa x d hd, sumL_zip_map_add, watt2dbm_mul_db2lin _ _ hS]
    ring
  have hδ : maxL g1 - minL g1 ≠ 0 := by
    intro h0
    apply hb
    rw [h0]; simp [c005]; norm_num
  exact secantStep_affine (fun x => avgGain pin (shifted g1 dgt voa x) pinDb) _ d eff _ _ hA hd0 hδ

/-! ### band filter -/

/-- **out-of-band channels are not amplified**: every channel that is kept lies inside the amplifier band -/
theorem out_of_band_dropped (fmin fmax : Nat) (cs : List (Chan ℝ)) (c : Chan ℝ) (h : c ∈ demux fmin fmax cs) :
    2 * fmin + c.slot ≤ 2 * c.f ∧ 2 * c.f + c.slot ≤ 2 * fmax := by
  simp only [demux, List.mem_filter, inBand, Bool.and_eq_true, decide_eq_true_eq] at h
  exact h.2

/-- every in-band channel is kept -/
theorem in_band_kept (fmin fmax : Nat) (cs : List (Chan ℝ)) (c : Chan ℝ) (hc : c ∈ cs)
    (h1 : 2 * fmin + c.slot ≤ 2 * c.f) (h2 : 2 * c.f + c.slot ≤ 2 * fmax) : c ∈ demux fmin fmax cs := by
  simp only [demux, List.mem_filter, inBand, Bool.and_eq_true, decide_eq_true_eq]
  exact ⟨hc, h1, h2⟩

/-- the kept channels are a sub-list of the input (order preserved, nothing invented or duplicated) -/
theorem demux_sublist (fmin fmax : Nat) (cs : List (Chan ℝ)) : (demux fmin fmax cs).Sublist cs :=
  List.filter_sublist

/-- the amplifier rejects the spectrum (ValueError) exactly when no channel lies in its band; otherwise the
frequencies it returns are those of the in-band channels and the clamp holds for the gain it reports -/
theorem call_none_iff_no_channel_in_band (a : Amp ℝ) (o : Oper ℝ) (cs : List (Chan ℝ)) :
    call a o cs = none ↔ ∀ c ∈ cs, inBand a.fMin a.fMax c.f c.slot = false := by
  simp only [call]
  constructor
  · intro h
    split at h
    · rename_i hk
      intro c hc
      by_contra hb
      have : c ∈ demux a.fMin a.fMax cs := by
        simp only [demux, List.mem_filter]; exact ⟨hc, by simpa using hb⟩
      rw [hk] at this; simp at this
    · simp at h
  · intro h
    have : demux a.fMin a.fMax cs = [] := by
      simp only [demux, List.filter_eq_nil_iff]
      intro c hc; simp [h c hc]
    rw [this]

theorem call_spec (a : Amp ℝ) (o : Oper ℝ) (cs : List (Chan ℝ)) (r : Out ℝ) (h : call a o cs = some r) :
    r.kept = (demux a.fMin a.fMax cs).map (fun c => c.f) ∧
    r.pinDb = watt2dbm (sumL ((demux a.fMin a.fMax cs).map (fun c => attenuate o.inVoa c.p))) ∧
    r.effGain = effGain o.gain a.pMax r.pinDb ∧ r.effGain ≤ o.gain ∧ r.pinDb + r.effGain ≤ a.pMax := by
  simp only [call] at h
  split at h
  · cases h
  · rename_i c0 rest hk
    simp only [Option.some.injEq] at h
    subst h
    simp only [hk]
    exact ⟨trivial, trivial, trivial, effGain_le_set _ _ _, effGain_clamp _ _ _⟩

/-- NF of a min/max-NF amplifier is non-increasing with gain on `[gain_min, ∞)`, in the form `_nf` returns it -/
theorem nf_stage_antitone (nf1 nf2 dp gmin gmax g g' : ℝ) (ld : Load ℝ) (h0 : gmin ≤ g) (h : g ≤ g') :
    ∃ x y, stageNf { model := .variableGain nf1 nf2 dp, gainMin := gmin, gainFlatmax := gmax } ld g = (some x, 0) ∧
      stageNf { model := .variableGain nf1 nf2 dp, gainMin := gmin, gainFlatmax := gmax } ld g' = (some y, 0) ∧ y ≤ x := by
  refine ⟨nfVar nf1 nf2 dp gmax g, nfVar nf1 nf2 dp gmax g', ?_, ?_, nf_antitone_in_gain nf1 nf2 dp gmax g g' h⟩
  · rw [nf_no_pad _ _ _ h0]; simp [nfCore]
  · rw [nf_no_pad _ _ _ (le_trans h0 h)]; simp [nfCore]

private theorem interpGo_const (c x : ℝ) (p : ℝ × ℝ) (l : List (ℝ × ℝ)) (hp : p.2 = c) (hl : ∀ q ∈ l, q.2 = c) :
    interpGo x p l = c := by
  induction l generalizing p with
  | nil => obtain ⟨a, b⟩ := p; simpa [interpGo] using hp
  | cons q qs ih =>
    obtain ⟨x0, f0⟩ := p
    obtain ⟨x1, f1⟩ := q
    have h1 : f1 = c := hl (x1, f1) (by simp)
    have h0 : f0 = c := hp
    simp only [interpGo]
    split
    · rw [h0, h1]; simp
    · exact ih (x1, f1) h1 (fun q hq => hl q (by simp [hq]))

/-- a constant ripple vector interpolates to that constant at every frequency (e.g. the default `nf_ripple = [0.0]`
and `gain_ripple = [0.0]`: every channel gets exactly the average NF / the flat gain) -/
theorem interp_const (xp fp : List ℝ) (c x : ℝ) (hne : xp.zip fp ≠ []) (h : ∀ f ∈ fp, f = c) :
    interp xp fp x = c := by
  simp only [interp]
  have hz : ∀ q ∈ xp.zip fp, q.2 = c := fun q hq => h q.2 (List.of_mem_zip hq).2
  cases hzz : xp.zip fp with
  | nil => exact absurd hzz hne
  | cons p rest =>
    obtain ⟨x0, f0⟩ := p
    rw [hzz] at hz
    have h0 : f0 = c := hz (x0, f0) (by simp)
    simp only
    split
    · exact h0
    · exact interpGo_const c x (x0, f0) rest h0 (fun q hq => hz q (by simp [hq]))

/-- **a dual-stage amplifier saturates at its BOOSTER stage's p_max** (and offers the sum of both flat gains) -/
theorem dual_stage_limits (pre boost : StageLimits ℝ) (gmin : ℝ) (d : DualLimits ℝ)
    (h : updateDualStage pre boost gmin = some d) :
    d.pMax = boost.pMax ∧ d.gainFlatmax = boost.gainFlatmax + pre.gainFlatmax ∧ d.gainMin = gmin ∧
      pre.gainMin ≤ gmin := by
  simp only [updateDualStage] at h
  split at h
  · rename_i hok
    simp only [Option.some.injEq] at h
    subst h
    simp only [dualStageOk, Bool.not_eq_true', decide_eq_false_iff_not, not_lt] at hok
    exact ⟨rfl, rfl, rfl, hok⟩
  · cases h

/-- hence the amplified incoming power of a dual-stage amplifier never exceeds the booster stage's p_max, whatever
the preamp stage's p_max is, and the set gain is cut back exactly to it under saturation -/
theorem dual_stage_total_out_le_booster_pmax (pre boost : StageLimits ℝ) (gmin s : ℝ) (d : DualLimits ℝ)
    (ps : List ℝ) (h : updateDualStage pre boost gmin = some d) (hne : ps ≠ []) (hpos : ∀ p ∈ ps, 0 < p) :
    watt2dbm (sumL (ps.map (fun p => p * db2lin (effGain s d.pMax (watt2dbm (sumL ps)))))) ≤ boost.pMax ∧
    (boost.pMax < watt2dbm (sumL ps) + s → watt2dbm (sumL ps) + effGain s d.pMax (watt2dbm (sumL ps)) = boost.pMax) := by
  obtain ⟨hp, _⟩ := dual_stage_limits pre boost gmin d h
  rw [hp]
  exact ⟨total_out_le_pmax ps s boost.pMax hne hpos, effGain_reduced_exact s boost.pMax _⟩

/-- rejected exactly when the entry's minimum gain is below its preamp's -/
theorem dual_stage_rejected_iff (pre boost : StageLimits ℝ) (gmin : ℝ) :
    updateDualStage pre boost gmin = none ↔ gmin < pre.gainMin := by
  simp [updateDualStage, dualStageOk]

/-! ### persistence of the clamp, dual forms, multiband node -/

/-- an amplifier that is never saturated keeps its set gain over any number of calls -/
theorem callSeq_unsaturated (s pm : ℝ) (pins : List ℝ) (h : ∀ p ∈ pins, p + s ≤ pm) : callSeq s pm pins = s := by
  induction pins with
  | nil => rfl
  | cons p ps ih =>
    simp only [callSeq]
    rw [(effGain_eq_set_iff s pm p).2 (h p (by simp))]
    exact ih (fun q hq => h q (by simp [hq]))

/-- every call of one amplifier object applies the set gain reduced only as far as ITS spectrum needs, whatever was
propagated before or after -/
theorem callGains_history_free (s pm p : ℝ) (pre post : List ℝ) :
    (callGains s pm (pre ++ p :: post))[pre.length]? = some (effGain s pm p) := by
  simp [callGains]

/-- counter-model of the repaired defect: when the clamped value overwrites the set gain, a cold spectrum after a hot
one is amplified less than it should be (set 20, p_max 23: +10 dBm then −10 dBm gives 13 dB, not 20 dB) -/
theorem callSeq_leaks_example : callSeq (20 : ℝ) 23 [10, -10] = 13 ∧ callGains (20 : ℝ) 23 [10, -10] = [13, 20] := by
  simp only [callSeq, callGains, effGain, smin, List.map]
  norm_num

/-- counter-model: the written-back `effective_gain` only ever decreases, a reduction made by one call stays in force for
all later calls of the same object -/
theorem callSeq_persists (s pm p : ℝ) (ps : List ℝ) : callSeq s pm (p :: ps) ≤ effGain s pm p :=
  callSeq_le_set (effGain s pm p) pm ps

/-- min/max-NF amplifier built from the unclipped solution, stage form: `_nf` returns `(nf_min, 0)` at
maximum flat gain and `(nf_max, 0)` at minimum gain -/
theorem nf_stage_at_gmax_gmin (gmin gmax a b : ℝ) (ld : Load ℝ) (hg : gmin < gmax) (hab : a < b)
    (hcoil : 0 < db2lin a - db2lin (estNf2 gmin gmax a b) / db2lin (gmax - 5)) :
    let s : Stage ℝ := { model := .variableGain (estNf1 gmin gmax a b) (estNf2 gmin gmax a b) 5,
                         gainMin := gmin, gainFlatmax := gmax }
    stageNf s ld gmax = (some a, 0) ∧ stageNf s ld gmin = (some b, 0) := by
  intro s
  constructor
  · rw [nf_no_pad s ld gmax (le_of_lt hg)]
    simp only [nfCore, s]
    rw [nf_at_gmax gmin gmax a b hcoil]
  · rw [nf_no_pad s ld gmin (le_refl _)]
    simp only [nfCore, s]
    rw [nf_at_gmin gmin gmax a b hg hab hcoil]

/-- OpenROADM ILA: `NF = pin − OSNR(pin) + 58` with the polynomial OSNR mask evaluated at the input power per
50 GHz channel -/
theorem nf_openroadm (coef : List ℝ) (gmin gmax g : ℝ) (ld : Load ℝ) (h : gmin ≤ g) :
    stageNf { model := .openroadm coef, gainMin := gmin, gainFlatmax := gmax } ld g
      = (some (pinCh50 ld - polyval coef (pinCh50 ld) + 58), 0) := by
  rw [nf_no_pad _ _ _ h]; simp [nfCore]

/-- OpenROADM preamp: OSNR mask `min((4·pin + 275)/7, 33)` -/
theorem nf_openroadm_preamp (gmin gmax g : ℝ) (ld : Load ℝ) (h : gmin ≤ g) :
    stageNf { model := .openroadmPreamp, gainMin := gmin, gainFlatmax := gmax } ld g
      = (some (pinCh50 ld - min ((4 * pinCh50 ld + 275) / 7) 33 + 58), 0) := by
  rw [nf_no_pad _ _ _ h]; simp [nfCore, smin_eq_min]

/-- a `Multiband_amplifier` rejects the spectrum exactly when none of its amplifiers has a channel in its band -/
theorem multiCall_none_iff (amps : List (Amp ℝ × Oper ℝ)) (cs : List (Chan ℝ)) :
    multiCall amps cs = none ↔ ∀ ao ∈ amps, call ao.1 ao.2 cs = none := by
  simp only [multiCall]
  constructor
  · intro h
    split at h
    · rename_i he
      rw [List.isEmpty_iff, List.filterMap_eq_nil_iff] at he
      exact he
    · cases h
  · intro h
    have : (amps.filterMap (fun ao => call ao.1 ao.2 cs)).isEmpty = true := by
      rw [List.isEmpty_iff, List.filterMap_eq_nil_iff]; exact h
    rw [if_pos this]

/-- every partial output of a `Multiband_amplifier` is the output of one of its amplifiers on the whole input
(so `call_spec`, the clamp and the band filter hold per band, each amplifier seeing the power of its own band) -/
theorem multiCall_per_band (amps : List (Amp ℝ × Oper ℝ)) (cs : List (Chan ℝ)) (outs : List (Out ℝ))
    (h : multiCall amps cs = some outs) :
    ∀ r ∈ outs, ∃ ao ∈ amps, call ao.1 ao.2 cs = some r ∧ r.effGain ≤ ao.2.gain ∧ r.pinDb + r.effGain ≤ ao.1.pMax := by
  simp only [multiCall] at h
  split at h
  · cases h
  · simp only [Option.some.injEq] at h
    subst h
    intro r hr
    obtain ⟨ao, hao, hc⟩ := List.mem_filterMap.1 hr
    obtain ⟨_, _, _, h4, h5⟩ := call_spec ao.1 ao.2 cs r hc
    exact ⟨ao, hao, hc, h4, h5⟩

/-- **never exceeds p_max, per band**: in a `Multiband_amplifier` every band amplifier clamps on the power of the
channels of ITS OWN band: with a flat profile the amplified incoming power of each band is at most that band
amplifier's p_max, whatever the other bands carry, and a band that does not saturate keeps its set gain -/
theorem multiband_total_out_le_pmax_per_band (amps : List (Amp ℝ × Oper ℝ)) (cs : List (Chan ℝ)) (outs : List (Out ℝ))
    (h : multiCall amps cs = some outs) :
    ∀ r ∈ outs, ∃ ao ∈ amps, call ao.1 ao.2 cs = some r ∧
      (let ps := (demux ao.1.fMin ao.1.fMax cs).map (fun c => attenuate ao.2.inVoa c.p)
       r.pinDb = watt2dbm (sumL ps) ∧
       ((∀ p ∈ ps, 0 < p) →
          watt2dbm (sumL (ps.map (fun p => p * db2lin r.effGain))) ≤ ao.1.pMax ∧
          (r.pinDb + ao.2.gain ≤ ao.1.pMax → r.effGain = ao.2.gain))) := by
  intro r hr
  obtain ⟨ao, hao, hc, _, _⟩ := multiCall_per_band amps cs outs h r hr
  refine ⟨ao, hao, hc, ?_⟩
  obtain ⟨_, hpin, heff, _, _⟩ := call_spec ao.1 ao.2 cs r hc
  intro ps
  refine ⟨hpin, ?_⟩
  intro hpos
  have hne : ps ≠ [] := by
    intro hnil
    have hk : demux ao.1.fMin ao.1.fMax cs = [] := by
      simpa [ps] using hnil
    have : call ao.1 ao.2 cs = none := by simp [call, hk]
    rw [this] at hc; cases hc
  constructor
  · have := total_out_le_pmax ps ao.2.gain ao.1.pMax hne hpos
    rw [heff, hpin]; exact this
  · intro hns
    rw [heff]; exact (effGain_eq_set_iff _ _ _).2 hns

/-! ### non-vacuity -/
example : updateDualStage (⟨23, 26, 15⟩ : StageLimits ℝ) ⟨25, 16, 8⟩ 25 = some ⟨25, 16 + 26, 25⟩ := by
  simp [updateDualStage, dualStageOk]; norm_num
example : effGain (20:ℝ) 23 10 = 13 := by rw [effGain, smin_eq_min]; norm_num
example : effGain (20:ℝ) 23 (-10) = 20 := by rw [effGain, smin_eq_min]; norm_num
example : callSeq (20:ℝ) 23 [10, -10] = 13 := by simp only [callSeq, effGain, smin_eq_min]; norm_num
/-- the stock `std_medium_gain` datasheet (15–26 dB, NF 6–10 dB) satisfies every hypothesis of `nf_at_gmax`/`nf_at_gmin` -/
example : nfVar (estNf1 15 26 6 10) (estNf2 15 26 6 10) 5 26 26 = (6:ℝ) ∧
    nfVar (estNf1 15 26 6 10) (estNf2 15 26 6 10) 5 26 15 = (10:ℝ) := by
  have hc := coil_pos_of_spread 15 26 6 10 (by norm_num) (by norm_num) (by norm_num)
  exact ⟨nf_at_gmax 15 26 6 10 hc, nf_at_gmin 15 26 6 10 (by norm_num) (by norm_num) hc⟩
example : inBand 191275000000000 196125000000000 193000000000000 50000000000 = true := by decide
example : inBand 191275000000000 196125000000000 191290000000000 50000000000 = false := by decide

end Gnpy.Edfa
