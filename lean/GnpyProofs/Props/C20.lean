import GnpyModel
/- Property theorems for C20 (only the property theorems and their non-vacuity examples live here;
   helper lemmas go to GnpyProofs/Lemmas). -/
