import GnpyModel
import GnpyProofs.Lemmas.Xls
import GnpyProofs.Lemmas.Db
/- Property theorems for C20 — spreadsheet inputs convert to the network and services they describe.
   Model: GnpyModel/Xls.lean.  The wiring theorems are about structured names (`Name`); the rendering
   of names to uid strings is compared with the code on every run (correspondence). -/
namespace Gnpy.Xls
open Gnpy

/-! ### rejections -/

/-- the sanity rules, as one decidable predicate on the table -/
def Violates (t : Table) : Prop :=
  badDuplicateCity t = true ∨ badLinkNode t = true ∨ badDuplicateLink t = true ∨ badUnreferenced t = true
  ∨ badEqptNode t = true ∨ badEqptLink t = true ∨ badDuplicateEqpt t = true ∨ badDuplicateIla t = true

theorem sanity_error_of_violates (t : Table) (h : Violates t) :
    ∃ e, sanity t = .error e ∧ e.isTopology = true := by
  unfold sanity
  cases c1 : badDuplicateCity t
  · cases c2 : badLinkNode t
    · cases c3 : badDuplicateLink t
      · cases c4 : badUnreferenced t
        · cases c5 : badEqptNode t
          · cases c6 : badEqptLink t
            · cases c7 : badDuplicateEqpt t
              · cases c8 : badDuplicateIla t
                · simp [Violates, c1, c2, c3, c4, c5, c6, c7, c8] at h
                · exact ⟨.duplicateIla, by simp [check, bind, Except.bind], rfl⟩
              · exact ⟨.duplicateEqpt, by simp [check, bind, Except.bind], rfl⟩
            · exact ⟨.eqptUnknownLink, by simp [check, bind, Except.bind], rfl⟩
          · exact ⟨.eqptUnknownNode, by simp [check, bind, Except.bind], rfl⟩
        · exact ⟨.unreferencedNode, by simp [check, bind, Except.bind], rfl⟩
      · exact ⟨.duplicateLink, by simp [check, bind, Except.bind], rfl⟩
    · exact ⟨.linkUnknownNode, by simp [check, bind, Except.bind], rfl⟩
  · exact ⟨.duplicateCity, by simp [check, bind, Except.bind], rfl⟩

/-- a table that passes violates nothing -/
theorem sanity_ok_iff (t : Table) : sanity t = .ok () ↔ ¬ Violates t := by
  constructor
  · intro h hv
    obtain ⟨e, he, _⟩ := sanity_error_of_violates t hv
    rw [he] at h; cases h
  · intro h
    simp only [Violates, not_or, Bool.not_eq_true] at h
    obtain ⟨c1, c2, c3, c4, c5, c6, c7, c8⟩ := h
    simp [sanity, check, c1, c2, c3, c4, c5, c6, c7, c8, bind, Except.bind]

/-- **duplicate, dangling or inconsistent rows are rejected with a topology error rather than
converted**: a table that violates one of the sanity rules (duplicate city, link to an unknown
city, duplicate or reversed-duplicate link, unreferenced site, Eqpt row naming an unknown site or a
non-existing link, duplicate Eqpt row, ILA with two Eqpt rows) is never converted. -/
theorem rejects_bad_rows (t : Table) (h : Violates t) :
    ∃ e, convert t = .error e ∧ e.isTopology = true := by
  obtain ⟨e, he, ht⟩ := sanity_error_of_violates t h
  refine ⟨e, ?_, ht⟩
  unfold convert
  exact bind_error _ _ e he

/-- non-vacuity: two Links rows A-B and B-A are a violation -/
def dupTable : Table :=
  { nodes := [mkNode [("city", .str "A")], mkNode [("city", .str "B")]],
    links := [mkLink [("from_city", .str "A"), ("to_city", .str "B")],
              mkLink [("from_city", .str "B"), ("to_city", .str "A")]],
    eqpts := [], roadms := [] }
example : Violates dupTable := by
  right; right; left; decide

/-! ### shape of a successful conversion -/

/-- the node list after the degree correction -/
def fixedNodes (t : Table) : List Node := t.nodes.map (correctType t.links)
def fixedTable (t : Table) : Table := { t with nodes := fixedNodes t }

theorem convert_ok (t0 : Table) (o : Out) (h : convert t0 = .ok o) :
    ∃ roadmElems eastFibers westFibers eastEq westEq perCity,
      sanity t0 = .ok () ∧
      ((fixedNodes t0).filter (isType "roadm")).mapM (fun n => roadmElem n t0.roadms) = .ok roadmElems ∧
      t0.links.mapM (fun l => do
        fiberElem l.a l.z l.east (← nodeOf (fixedNodes t0) l.a) (← nodeOf (fixedNodes t0) l.z)) = .ok eastFibers ∧
      t0.links.mapM (fun l => do
        fiberElem l.z l.a l.west (← nodeOf (fixedNodes t0) l.a) (← nodeOf (fixedNodes t0) l.z)) = .ok westFibers ∧
      t0.eqpts.mapM (fun e => do return eastEqptElem e (← nodeOf (fixedNodes t0) e.a)) = .ok eastEq ∧
      t0.eqpts.mapM (fun e => do return westEqptElem e (← nodeOf (fixedNodes t0) e.a)) = .ok westEq ∧
      (fixedNodes t0).mapM (connectionsAt (fixedTable t0)) = .ok perCity ∧
      o.elements =
        ((fixedNodes t0).filter (isType "roadm")).map (fun n => simpleElem (.trx n.city) n "Transceiver")
        ++ roadmElems
        ++ ((fixedNodes t0).filter (isType "fused")).map (fun n => simpleElem (.fusedW n.city) n "Fused")
        ++ ((fixedNodes t0).filter (isType "fused")).map (fun n => simpleElem (.fusedE n.city) n "Fused")
        ++ eastFibers ++ westFibers
        ++ ((fixedNodes t0).filter (fun n => isType "ila" n && (eqptsAt t0.eqpts n.city).isEmpty)).map
            (fun n => simpleElem (.ilaW n.city) n "Edfa" ilaOperational)
        ++ ((fixedNodes t0).filter (fun n => isType "ila" n && (eqptsAt t0.eqpts n.city).isEmpty)).map
            (fun n => simpleElem (.ilaE n.city) n "Edfa" ilaOperational)
        ++ eastEq ++ westEq ∧
      o.connections = perCity.flatten ++
        (((fixedNodes t0).filter (isType "roadm")).map
          (fun n => [(Name.trx n.city, Name.roadm n.city), (Name.roadm n.city, Name.trx n.city)])).flatten := by
  unfold convert at h
  simp only [bind_ok, pure_ok] at h
  obtain ⟨u, hs, re, hre, ef, hef, wf, hwf, ee, hee, we, hwe, pc, hpc, rfl⟩ := h
  cases u
  exact ⟨re, ef, wf, ee, we, pc, hs, hre, hef, hwf, hee, hwe, hpc, rfl, rfl⟩

/-- what a fibre element says: type, type_variety and params of one side of a Links row -/
def IsFiberOf (e : Elem) (src dst : String) (s : LinkSide) : Prop :=
  e.name = .fiber src dst s.cable ∧ e.body.get? "type" = some (.str "Fiber") ∧
  e.body.get? "type_variety" = some s.fiber ∧ ∃ p, fiberParams s = .ok p ∧ e.body.get? "params" = some (.obj p)

theorem fiberElem_isFiberOf (src dst : String) (s : LinkSide) (na nb : Node) (e : Elem)
    (h : fiberElem src dst s na nb = .ok e) : IsFiberOf e src dst s := by
  simp only [fiberElem, bind_ok, pure_ok] at h
  obtain ⟨p, hp, rfl⟩ := h
  exact ⟨rfl, by simp [Dict.get?], by simp [Dict.get?], p, hp, by simp [Dict.get?]⟩

/-- **for every link one fibre per direction with the sheet's values**: each Links row `l` yields a
fibre `l.a → l.z` built from the east cells and a fibre `l.z → l.a` built from the west cells (which
`mkLink` has already defaulted to the east ones, see `link_west_defaults_to_east`). -/
theorem both_directions (t0 : Table) (o : Out) (h : convert t0 = .ok o) (l : Link) (hl : l ∈ t0.links) :
    (∃ e ∈ o.elements, IsFiberOf e l.a l.z l.east) ∧ (∃ e ∈ o.elements, IsFiberOf e l.z l.a l.west) := by
  obtain ⟨re, ef, wf, ee, we, pc, _, _, hef, hwf, _, _, _, hel, _⟩ := convert_ok t0 o h
  constructor
  · obtain ⟨y, hy, hf⟩ := mapM_ok_mem _ _ _ hef l hl
    simp only [bind_ok] at hf
    obtain ⟨na, _, nb, _, hf⟩ := hf
    exact ⟨y, by rw [hel]; simp [List.mem_append, hy], fiberElem_isFiberOf _ _ _ _ _ _ hf⟩
  · obtain ⟨y, hy, hf⟩ := mapM_ok_mem _ _ _ hwf l hl
    simp only [bind_ok] at hf
    obtain ⟨na, _, nb, _, hf⟩ := hf
    exact ⟨y, by rw [hel]; simp [List.mem_append, hy], fiberElem_isFiberOf _ _ _ _ _ _ hf⟩

/-- **west defaults to east**: a Links row whose west cells are all empty describes the same fibre
in both directions (and each single empty west cell takes the east value). -/
theorem link_west_defaults_to_east (kw : Dict)
    (h : ∀ k ∈ ["west_distance", "west_fiber", "west_lineic", "west_con_in", "west_con_out", "west_pmd", "west_cable"],
      kw.get? k = none ∨ kw.get? k = some .null ∨ kw.get? k = some (.str "")) :
    (mkLink kw).west = (mkLink kw).east := by
  have hc : ∀ k d, (kw.get? k = none ∨ kw.get? k = some .null ∨ kw.get? k = some (.str "")) → cleanGet kw k d = d := by
    intro k d hk
    rcases hk with hk | hk | hk <;> simp [cleanGet, hk]
  simp only [mkLink]
  rw [hc "west_distance" _ (h _ (by simp)), hc "west_fiber" _ (h _ (by simp)), hc "west_lineic" _ (h _ (by simp)),
    hc "west_con_in" _ (h _ (by simp)), hc "west_con_out" _ (h _ (by simp)), hc "west_pmd" _ (h _ (by simp)),
    hc "west_cable" _ (h _ (by simp))]
  simp [asStr, pyStr]

/-- a west cell that is filled is used -/
theorem link_west_cell_used (kw : Dict) (v : J) (h : kw.get? "west_distance" = some v) (h1 : v ≠ .null) (h2 : v ≠ .str "") :
    (mkLink kw).west.distance = v := by
  cases v <;> simp_all [mkLink, cleanGet]

/-! ### site shapes and end points -/

theorem mem_elements_of (t0 : Table) (o : Out) (h : convert t0 = .ok o) :
    (∀ n ∈ fixedNodes t0, isType "roadm" n = true →
        (∃ e ∈ o.elements, e.name = .trx n.city ∧ e.body.get? "type" = some (.str "Transceiver")) ∧
        (∃ e ∈ o.elements, e.name = .roadm n.city)) ∧
    (∀ n ∈ fixedNodes t0, isType "fused" n = true →
        (∃ e ∈ o.elements, e.name = .fusedW n.city ∧ e.body.get? "type" = some (.str "Fused")) ∧
        (∃ e ∈ o.elements, e.name = .fusedE n.city ∧ e.body.get? "type" = some (.str "Fused"))) ∧
    (∀ n ∈ fixedNodes t0, isType "ila" n = true → (eqptsAt t0.eqpts n.city).isEmpty = true →
        (∃ e ∈ o.elements, e.name = .ilaW n.city ∧ e.body.get? "type" = some (.str "Edfa")) ∧
        (∃ e ∈ o.elements, e.name = .ilaE n.city ∧ e.body.get? "type" = some (.str "Edfa"))) ∧
    (∀ q ∈ t0.eqpts, (∃ e ∈ o.elements, e.name = .eqE q.a q.z) ∧ (∃ e ∈ o.elements, e.name = .eqW q.a q.z)) := by
  obtain ⟨re, ef, wf, ee, we, pc, _, hre, _, _, hee, hwe, _, hel, _⟩ := convert_ok t0 o h
  refine ⟨?_, ?_, ?_, ?_⟩
  · intro n hn ht
    have hmem : n ∈ (fixedNodes t0).filter (isType "roadm") := List.mem_filter.2 ⟨hn, ht⟩
    constructor
    · refine ⟨simpleElem (.trx n.city) n "Transceiver", ?_, rfl, by simp [simpleElem, Dict.get?]⟩
      rw [hel]
      simp only [List.mem_append, List.mem_map]
      exact Or.inl (Or.inl (Or.inl (Or.inl (Or.inl (Or.inl (Or.inl (Or.inl (Or.inl ⟨n, hmem, rfl⟩))))))))
    · obtain ⟨y, hy, hf⟩ := mapM_ok_mem _ _ _ hre n hmem
      refine ⟨y, ?_, roadmElem_name _ _ _ hf⟩
      rw [hel]
      simp only [List.mem_append]
      exact Or.inl (Or.inl (Or.inl (Or.inl (Or.inl (Or.inl (Or.inl (Or.inl (Or.inr hy))))))))
  · intro n hn ht
    have hmem : n ∈ (fixedNodes t0).filter (isType "fused") := List.mem_filter.2 ⟨hn, ht⟩
    constructor
    · refine ⟨simpleElem (.fusedW n.city) n "Fused", ?_, rfl, by simp [simpleElem, Dict.get?]⟩
      rw [hel]
      simp only [List.mem_append, List.mem_map]
      exact Or.inl (Or.inl (Or.inl (Or.inl (Or.inl (Or.inl (Or.inl (Or.inr ⟨n, hmem, rfl⟩)))))))
    · refine ⟨simpleElem (.fusedE n.city) n "Fused", ?_, rfl, by simp [simpleElem, Dict.get?]⟩
      rw [hel]
      simp only [List.mem_append, List.mem_map]
      exact Or.inl (Or.inl (Or.inl (Or.inl (Or.inl (Or.inl (Or.inr ⟨n, hmem, rfl⟩))))))
  · intro n hn ht he
    have hmem : n ∈ (fixedNodes t0).filter (fun n => isType "ila" n && (eqptsAt t0.eqpts n.city).isEmpty) :=
      List.mem_filter.2 ⟨hn, by simp [ht, he]⟩
    constructor
    · refine ⟨simpleElem (.ilaW n.city) n "Edfa" ilaOperational, ?_, rfl, by simp [simpleElem, Dict.get?]⟩
      rw [hel]
      simp only [List.mem_append, List.mem_map]
      exact Or.inl (Or.inl (Or.inl (Or.inr ⟨n, hmem, rfl⟩)))
    · refine ⟨simpleElem (.ilaE n.city) n "Edfa" ilaOperational, ?_, rfl, by simp [simpleElem, Dict.get?]⟩
      rw [hel]
      simp only [List.mem_append, List.mem_map]
      exact Or.inl (Or.inl (Or.inr ⟨n, hmem, rfl⟩))
  · intro q hq
    constructor
    · obtain ⟨y, hy, hf⟩ := mapM_ok_mem _ _ _ hee q hq
      simp only [bind_ok, pure_ok] at hf
      obtain ⟨nd, _, rfl⟩ := hf
      refine ⟨eastEqptElem q nd, ?_, by unfold eastEqptElem; rfl⟩
      rw [hel]
      simp only [List.mem_append]
      exact Or.inl (Or.inr hy)
    · obtain ⟨y, hy, hf⟩ := mapM_ok_mem _ _ _ hwe q hq
      simp only [bind_ok, pure_ok] at hf
      obtain ⟨nd, _, rfl⟩ := hf
      refine ⟨westEqptElem q nd, ?_, by unfold westEqptElem; rfl⟩
      rw [hel]
      simp only [List.mem_append]
      exact Or.inr hy

/-- where the element between a fibre and the next hop can come from -/
def MidOK (t : Table) (n : Node) (nm : Name) : Prop :=
  (∃ e ∈ t.eqpts, nm = .eqE e.a e.z ∨ nm = .eqW e.a e.z) ∨
  (isType "ila" n = true ∧ (eqptsAt t.eqpts n.city).isEmpty = true ∧ (nm = .ilaE n.city ∨ nm = .ilaW n.city)) ∨
  (isType "fused" n = true ∧ (nm = .fusedE n.city ∨ nm = .fusedW n.city))

theorem ilaLoop_ok (dest : String) : ∀ (es : List Eqpt) (east : Bool) (acc : Option Name) (nm : Name),
    ilaLoop dest es east acc = some nm → acc = some nm ∨ ∃ e ∈ es, nm = .eqE e.a e.z ∨ nm = .eqW e.a e.z
  | [], east, acc, nm, h => by simp only [ilaLoop] at h; exact Or.inl h
  | e :: es, east, acc, nm, h => by
    simp only [ilaLoop] at h
    rcases ilaLoop_ok dest es _ _ nm h with h1 | ⟨e', he', h2⟩
    · right
      refine ⟨e, List.mem_cons_self, ?_⟩
      simp only [Option.some.injEq] at h1
      rw [← h1]
      split <;> split <;> simp
    · exact Or.inr ⟨e', List.mem_cons_of_mem _ he', h2⟩

theorem eqptsAt_subset (eqpts : List Eqpt) (c : String) (e : Eqpt) (h : e ∈ eqptsAt eqpts c) : e ∈ eqpts :=
  (List.mem_filter.1 h).1

theorem eqptIn_ok (t : Table) (n : Node) (dest : String) (east : Bool) (nm : Name)
    (h : eqptIn t n dest east = some nm) : MidOK t n nm := by
  unfold eqptIn at h
  simp only at h
  by_cases hf : (lower n.ntype == "fused") = true
  · simp only [hf, if_true, Option.some.injEq] at h
    right; right
    refine ⟨hf, ?_⟩
    cases east <;> simp_all
  · simp only [hf, Bool.false_eq_true, if_false] at h
    by_cases he : (eqptsAt t.eqpts n.city).isEmpty = true
    · simp only [he, Bool.not_true, Bool.false_eq_true, if_false] at h
      split at h
      · rename_i hi
        right; left
        refine ⟨hi, he, ?_⟩
        simp only [Option.some.injEq] at h
        cases east <;> simp_all
      · cases h
    · simp only [he, Bool.not_false, if_true] at h
      left
      split at h
      · -- roadm: last matching row
        cases hl : ((eqptsAt t.eqpts n.city).filter (fun e => e.z == dest)).getLast? with
        | none => simp [hl] at h
        | some e =>
          simp only [hl, Option.map_some, Option.some.injEq] at h
          have hm : e ∈ (eqptsAt t.eqpts n.city).filter (fun e => e.z == dest) := List.mem_of_getLast? hl
          refine ⟨e, eqptsAt_subset _ _ _ (List.mem_filter.1 hm).1, ?_⟩
          cases east <;> simp_all
      · split at h
        · rcases ilaLoop_ok dest _ _ _ nm h with h1 | ⟨e, he', h2⟩
          · cases h1
          · exact ⟨e, eqptsAt_subset _ _ _ he', h2⟩
        · cases h

/-- the names a connection built at site `n` can mention -/
def EndOK (t : Table) (n : Node) (nm : Name) : Prop :=
  (nm = .roadm n.city ∧ isType "roadm" n = true) ∨
  (∃ l ∈ t.links, nm = .fiber l.a l.z l.east.cable ∨ nm = .fiber l.z l.a l.west.cable) ∨
  MidOK t n nm

theorem connectEqpt_ends (t : Table) (n : Node) (src dst : Name) (mid : Option Name)
    (hs : EndOK t n src) (hd : EndOK t n dst) (hm : ∀ m, mid = some m → EndOK t n m) :
    ∀ c ∈ connectEqpt src mid dst, EndOK t n c.1 ∧ EndOK t n c.2 := by
  intro c hc
  cases mid with
  | none =>
    simp only [connectEqpt, List.mem_singleton] at hc
    subst hc; exact ⟨hs, hd⟩
  | some m =>
    simp only [connectEqpt, List.mem_cons, List.not_mem_nil, or_false] at hc
    rcases hc with rfl | rfl
    · exact ⟨hs, hm m rfl⟩
    · exact ⟨hm m rfl, hd⟩

theorem fiberLink_end (t : Table) (n : Node) (src dst : String) (nm : Name)
    (h : fiberLink t.links src dst = .ok nm) : EndOK t n nm := by
  obtain ⟨l, hl, h⟩ := fiberLink_mem _ _ _ _ h
  exact Or.inr (Or.inl ⟨l, hl, h⟩)

theorem connectionsAt_ends (t : Table) (n : Node) (l : List (Name × Name))
    (h : connectionsAt t n = .ok l) : ∀ c ∈ l, EndOK t n c.1 ∧ EndOK t n c.2 := by
  unfold connectionsAt at h
  simp only at h
  split at h
  · simp only [bind_ok, pure_ok] at h
    obtain ⟨o0, _, o1, _, f0, hf0, t0, ht0, f1, hf1, t1, ht1, rfl⟩ := h
    intro c hc
    rcases List.mem_append.1 hc with hc | hc
    · exact connectEqpt_ends t n _ _ _ (fiberLink_end t n _ _ _ hf0) (fiberLink_end t n _ _ _ ht0)
        (fun m hm => Or.inr (Or.inr (eqptIn_ok t n _ _ m hm))) c hc
    · exact connectEqpt_ends t n _ _ _ (fiberLink_end t n _ _ _ hf1) (fiberLink_end t n _ _ _ ht1)
        (fun m hm => Or.inr (Or.inr (eqptIn_ok t n _ _ m hm))) c hc
  · split at h
    · rename_i hr
      simp only [bind_ok, pure_ok] at h
      obtain ⟨parts, hp, rfl⟩ := h
      intro c hc
      obtain ⟨part, hpart, hcp⟩ := List.mem_flatten.1 hc
      obtain ⟨o, _, ho⟩ := mapM_ok_mem_rev _ _ _ hp part hpart
      simp only [bind_ok, pure_ok] at ho
      obtain ⟨fo, hfo, fi, hfi, rfl⟩ := ho
      have hro : EndOK t n (.roadm n.city) := Or.inl ⟨rfl, hr⟩
      rcases List.mem_append.1 hcp with hc' | hc'
      · exact connectEqpt_ends t n _ _ _ hro (fiberLink_end t n _ _ _ hfo)
          (fun m hm => Or.inr (Or.inr (eqptIn_ok t n _ _ m hm))) c hc'
      · exact connectEqpt_ends t n _ _ _ (fiberLink_end t n _ _ _ hfi) hro
          (fun m hm => Or.inr (Or.inr (eqptIn_ok t n _ _ m hm))) c hc'
    · simp only [pure_ok] at h
      subst h
      intro c hc; cases hc

/-- **all connection endpoints exist**: in every converted workbook both ends of every connection
are elements of the document. -/
theorem endpoints_exist (t0 : Table) (o : Out) (h : convert t0 = .ok o) :
    ∀ c ∈ o.connections, (∃ e ∈ o.elements, e.name = c.1) ∧ (∃ e ∈ o.elements, e.name = c.2) := by
  obtain ⟨hroadm, hfused, hila, heq⟩ := mem_elements_of t0 o h
  have hfib := both_directions t0 o h
  obtain ⟨re, ef, wf, ee, we, pc, _, _, _, _, _, _, hpc, _, hcx⟩ := convert_ok t0 o h
  have endok : ∀ n ∈ fixedNodes t0, ∀ nm, EndOK (fixedTable t0) n nm → ∃ e ∈ o.elements, e.name = nm := by
    intro n hn nm hnm
    rcases hnm with ⟨rfl, hr⟩ | ⟨l, hl, h1 | h1⟩ | ⟨q, hq, h1 | h1⟩ | ⟨hi, he, h1 | h1⟩ | ⟨hf, h1 | h1⟩
    · exact (hroadm n hn hr).2
    · obtain ⟨e, he, hfo⟩ := (hfib l hl).1
      exact ⟨e, he, by rw [h1]; exact hfo.1⟩
    · obtain ⟨e, he, hfo⟩ := (hfib l hl).2
      exact ⟨e, he, by rw [h1]; exact hfo.1⟩
    · obtain ⟨e, he, hn'⟩ := (heq q hq).1
      exact ⟨e, he, by rw [h1]; exact hn'⟩
    · obtain ⟨e, he, hn'⟩ := (heq q hq).2
      exact ⟨e, he, by rw [h1]; exact hn'⟩
    · obtain ⟨e, he', hn', _⟩ := (hila n hn hi he).2
      exact ⟨e, he', by rw [h1]; exact hn'⟩
    · obtain ⟨e, he', hn', _⟩ := (hila n hn hi he).1
      exact ⟨e, he', by rw [h1]; exact hn'⟩
    · obtain ⟨e, he', hn', _⟩ := (hfused n hn hf).2
      exact ⟨e, he', by rw [h1]; exact hn'⟩
    · obtain ⟨e, he', hn', _⟩ := (hfused n hn hf).1
      exact ⟨e, he', by rw [h1]; exact hn'⟩
  intro c hc
  rw [hcx] at hc
  rcases List.mem_append.1 hc with hc | hc
  · obtain ⟨part, hpart, hcp⟩ := List.mem_flatten.1 hc
    obtain ⟨n, hn, hcn⟩ := mapM_ok_mem_rev _ _ _ hpc part hpart
    obtain ⟨h1, h2⟩ := connectionsAt_ends _ n part hcn c hcp
    exact ⟨endok n hn _ h1, endok n hn _ h2⟩
  · obtain ⟨part, hpart, hcp⟩ := List.mem_flatten.1 hc
    obtain ⟨n, hn, rfl⟩ := List.mem_map.1 hpart
    obtain ⟨hn1, hn2⟩ := List.mem_filter.1 hn
    obtain ⟨⟨e1, he1, hn1', _⟩, ⟨e2, he2, hn2'⟩⟩ := hroadm n hn1 hn2
    simp only [List.mem_cons, List.not_mem_nil, or_false] at hcp
    rcases hcp with rfl | rfl
    · exact ⟨⟨e1, he1, hn1'⟩, ⟨e2, he2, hn2'⟩⟩
    · exact ⟨⟨e2, he2, hn2'⟩, ⟨e1, he1, hn1'⟩⟩

/-- **one ROADM plus transceiver per ROADM site**, connected in both directions -/
theorem roadm_site_shape (t0 : Table) (o : Out) (h : convert t0 = .ok o) (n : Node)
    (hn : n ∈ fixedNodes t0) (ht : isType "roadm" n = true) :
    (∃ e ∈ o.elements, e.name = .trx n.city ∧ e.body.get? "type" = some (.str "Transceiver")) ∧
    (∃ e ∈ o.elements, e.name = .roadm n.city) ∧
    (Name.trx n.city, Name.roadm n.city) ∈ o.connections ∧ (Name.roadm n.city, Name.trx n.city) ∈ o.connections := by
  obtain ⟨hroadm, _, _, _⟩ := mem_elements_of t0 o h
  obtain ⟨_, _, _, _, _, _, _, _, _, _, _, _, _, _, hcx⟩ := convert_ok t0 o h
  refine ⟨(hroadm n hn ht).1, (hroadm n hn ht).2, ?_, ?_⟩ <;>
  · rw [hcx]
    apply List.mem_append_right
    apply List.mem_flatten.2
    exact ⟨_, List.mem_map.2 ⟨n, List.mem_filter.2 ⟨hn, ht⟩, rfl⟩, by simp⟩

/-- **a site declared ILA whose degree is not 2 is converted as a ROADM** -/
theorem degree_ne_2_becomes_roadm (links : List Link) (n : Node) (h1 : lower n.ntype = "ila")
    (h2 : degree links n.city ≠ 2) : isType "roadm" (correctType links n) = true := by
  simp only [correctType, h1, beq_self_eq_true, Bool.true_and, bne_iff_ne, ne_eq, h2, not_false_eq_true, if_true, isType]
  decide +kernel

/-- fused sites give two Fused elements, ILA sites without Eqpt row two untyped amplifiers -/
theorem ila_fused_site_shape (t0 : Table) (o : Out) (h : convert t0 = .ok o) (n : Node) (hn : n ∈ fixedNodes t0) :
    (isType "fused" n = true →
      (∃ e ∈ o.elements, e.name = .fusedW n.city ∧ e.body.get? "type" = some (.str "Fused")) ∧
      (∃ e ∈ o.elements, e.name = .fusedE n.city ∧ e.body.get? "type" = some (.str "Fused"))) ∧
    (isType "ila" n = true → (eqptsAt t0.eqpts n.city).isEmpty = true →
      (∃ e ∈ o.elements, e.name = .ilaW n.city ∧ e.body.get? "type" = some (.str "Edfa")) ∧
      (∃ e ∈ o.elements, e.name = .ilaE n.city ∧ e.body.get? "type" = some (.str "Edfa"))) := by
  obtain ⟨_, hfused, hila, _⟩ := mem_elements_of t0 o h
  exact ⟨hfused n hn, hila n hn⟩

/-! ### amplifier settings face the named neighbour -/

/-- the in-line element chosen at an ILA site with exactly one Eqpt row `q`, for the direction flag
relative to the first neighbour `o0`: the row's EAST element serves the direction that leaves
towards `q.z`, its WEST element the direction that arrives from `q.z` -/
theorem ila_direction_rule (t : Table) (n : Node) (q : Eqpt) (o0 : String)
    (hty : isType "ila" n = true) (hq : eqptsAt t.eqpts n.city = [q]) :
    eqptIn t n o0 true = some (if q.z = o0 then Name.eqE q.a q.z else Name.eqW q.a q.z) ∧
    eqptIn t n o0 false = some (if q.z = o0 then Name.eqW q.a q.z else Name.eqE q.a q.z) := by
  have hty' : (lower n.ntype == "ila") = true := hty
  have h1 : (lower n.ntype == "roadm") = false := by
    rw [beq_iff_eq] at hty'; rw [hty']; decide
  have h2 : (lower n.ntype == "fused") = false := by
    rw [beq_iff_eq] at hty'; rw [hty']; decide
  constructor <;>
  · unfold eqptIn
    simp only [hq, h1, h2, hty', List.isEmpty_cons, Bool.not_false, if_true, Bool.false_eq_true, if_false, ilaLoop]
    by_cases hz : q.z = o0 <;> simp [hz]

/-- **ILA site: each Eqpt side lands on the amplifier facing the named neighbour.**  At an ILA site
`c` with neighbours `o0, o1` (Links order) and the single Eqpt row `q = (c, Z)`, `Z ∈ {o0, o1}`:
the row's east element is followed by the fibre towards `Z`, and the fibre coming from `Z` is
followed by the row's west element. -/
theorem eqpt_faces_neighbour_ila (t : Table) (n : Node) (q : Eqpt) (o0 o1 : String) (l : List (Name × Name))
    (a0 b1 a1 b0 : Name)
    (hty : isType "ila" n = true) (hq : eqptsAt t.eqpts n.city = [q])
    (hnb : neighbours t.links n.city = [o0, o1]) (hne : o0 ≠ o1) (hz : q.z = o0 ∨ q.z = o1)
    (h00 : fiberLink t.links o0 n.city = .ok a0) (h01 : fiberLink t.links n.city o1 = .ok b1)
    (h10 : fiberLink t.links o1 n.city = .ok a1) (h11 : fiberLink t.links n.city o0 = .ok b0)
    (h : connectionsAt t n = .ok l) :
    let toZ := if q.z = o0 then b0 else b1
    let fromZ := if q.z = o0 then a0 else a1
    (Name.eqE q.a q.z, toZ) ∈ l ∧ (fromZ, Name.eqW q.a q.z) ∈ l := by
  obtain ⟨he, hw⟩ := ila_direction_rule t n q o0 hty hq
  have hty' : (lower n.ntype == "ila") = true := hty
  unfold connectionsAt at h
  simp only [hnb, hty', Bool.true_or, if_true, nth, List.getElem?_cons_zero, List.getElem?_cons_succ,
    h00, h01, h10, h11, he, hw, bind, Except.bind, pure, Except.pure] at h
  injection h with h
  subst h
  rcases hz with hz | hz
  · simp [hz, connectEqpt]
  · have : ¬ q.z = o0 := by rw [hz]; exact fun e => hne e.symm
    simp [this, connectEqpt]

/-- **ROADM site: the Eqpt row (c, Z) puts its east element between the ROADM and the fibre to Z
and its west element between the fibre from Z and the ROADM.** -/
theorem eqpt_faces_neighbour_roadm (t : Table) (n : Node) (q : Eqpt) (l : List (Name × Name)) (fo fi : Name)
    (hty : isType "roadm" n = true) (hq : q ∈ eqptsAt t.eqpts n.city)
    (huniq : (eqptsAt t.eqpts n.city).filter (fun e => e.z == q.z) = [q])
    (hnb : q.z ∈ neighbours t.links n.city)
    (hfo : fiberLink t.links n.city q.z = .ok fo) (hfi : fiberLink t.links q.z n.city = .ok fi)
    (h : connectionsAt t n = .ok l) :
    (Name.roadm n.city, Name.eqE q.a q.z) ∈ l ∧ (Name.eqE q.a q.z, fo) ∈ l ∧
    (fi, Name.eqW q.a q.z) ∈ l ∧ (Name.eqW q.a q.z, Name.roadm n.city) ∈ l := by
  have hty' : (lower n.ntype == "roadm") = true := hty
  have h1 : (lower n.ntype == "ila") = false := by
    rw [beq_iff_eq] at hty'; rw [hty']; decide
  have h2 : (lower n.ntype == "fused") = false := by
    rw [beq_iff_eq] at hty'; rw [hty']; decide
  have hne : (eqptsAt t.eqpts n.city).isEmpty = false := by
    cases hh : eqptsAt t.eqpts n.city with
    | nil => rw [hh] at hq; cases hq
    | cons _ _ => rfl
  have hin : ∀ east, eqptIn t n q.z east = some (if east then Name.eqE q.a q.z else Name.eqW q.a q.z) := by
    intro east
    unfold eqptIn
    simp only [hne, h2, hty', huniq, Bool.not_false, if_true, Bool.false_eq_true, if_false,
      List.getLast?_singleton, Option.map_some]
  unfold connectionsAt at h
  simp only [h1, h2, hty', Bool.or_self, Bool.false_eq_true, if_false, if_true, bind_ok, pure_ok] at h
  obtain ⟨parts, hp, rfl⟩ := h
  obtain ⟨part, hpart, hf⟩ := mapM_ok_mem _ _ _ hp q.z hnb
  simp only [hfo, hfi, hin, bind, Except.bind, pure, Except.pure, if_true, Bool.false_eq_true, if_false,
    Except.ok.injEq] at hf
  subst hf
  have hsub : ∀ c, c ∈ connectEqpt (Name.roadm n.city) (some (Name.eqE q.a q.z)) fo ++
      connectEqpt fi (some (Name.eqW q.a q.z)) (Name.roadm n.city) → c ∈ parts.flatten :=
    fun c hc => List.mem_flatten.2 ⟨_, hpart, hc⟩
  refine ⟨hsub _ ?_, hsub _ ?_, hsub _ ?_, hsub _ ?_⟩ <;> simp [connectEqpt]

/-! ### unique names -/

theorem city_fixed (links : List Link) (n : Node) : (correctType links n).city = n.city := by
  unfold correctType; split <;> rfl

theorem fixedNodes_cities (t : Table) : (fixedNodes t).map (·.city) = cities t.nodes := by
  simp [fixedNodes, cities, List.map_map, Function.comp_def, city_fixed]

/-- **names are unique** (structured names): in a converted workbook without self-loop rows no two
elements carry the same name.  The rendering of names to uid strings is injective as long as city
names and cable ids do not contain the separators (checked by the monitor on every run); that part is
not proved, hence `_partial` in the evidence. -/
theorem names_unique (t0 : Table) (o : Out) (h : convert t0 = .ok o) (hself : ∀ l ∈ t0.links, l.a ≠ l.z) :
    (o.elements.map (·.name)).Nodup := by
  obtain ⟨re, ef, wf, ee, we, pc, hs, hre, hef, hwf, hee, hwe, _, hel, _⟩ := convert_ok t0 o h
  have hv := (sanity_ok_iff t0).1 hs
  simp only [Violates, not_or, Bool.not_eq_true] at hv
  obtain ⟨v1, _, v3, _, _, _, v7, _⟩ := hv
  have hcity : ((fixedNodes t0).map (·.city)).Nodup := by
    rw [fixedNodes_cities]
    simpa [badDuplicateCity] using v1
  have hlinks : t0.links.Pairwise (fun l1 l2 => sameLink l1 l2 = false) := by
    simpa [badDuplicateLink, hasDuplicateLink] using v3
  have heq : t0.eqpts.Pairwise (fun e1 e2 => (e1.a == e2.a && e1.z == e2.z) = false) := by
    simpa [badDuplicateEqpt, hasDuplicateEqpt] using v7
  -- the names of the blocks built with mapM
  have nre : re.map (·.name) = ((fixedNodes t0).filter (isType "roadm")).map (fun n => Name.roadm n.city) :=
    mapM_ok_map _ _ _ (fun n y hy => roadmElem_name _ _ _ hy) _ _ hre
  have nef : ef.map (·.name) = t0.links.map (fun l => Name.fiber l.a l.z l.east.cable) :=
    mapM_ok_map _ _ _ (fun l y hy => by
      simp only [bind_ok] at hy
      obtain ⟨_, _, _, _, hy⟩ := hy
      exact fiberElem_name _ _ _ _ _ _ hy) _ _ hef
  have nwf : wf.map (·.name) = t0.links.map (fun l => Name.fiber l.z l.a l.west.cable) :=
    mapM_ok_map _ _ _ (fun l y hy => by
      simp only [bind_ok] at hy
      obtain ⟨_, _, _, _, hy⟩ := hy
      exact fiberElem_name _ _ _ _ _ _ hy) _ _ hwf
  have nee : ee.map (·.name) = t0.eqpts.map (fun q => Name.eqE q.a q.z) :=
    mapM_ok_map _ _ _ (fun q y hy => by
      simp only [bind_ok, pure_ok] at hy
      obtain ⟨_, _, rfl⟩ := hy
      unfold eastEqptElem; rfl) _ _ hee
  have nwe : we.map (·.name) = t0.eqpts.map (fun q => Name.eqW q.a q.z) :=
    mapM_ok_map _ _ _ (fun q y hy => by
      simp only [bind_ok, pure_ok] at hy
      obtain ⟨_, _, rfl⟩ := hy
      unfold westEqptElem; rfl) _ _ hwe
  -- nodup of a block that names the cities of a sublist of the nodes
  have hsub : ∀ (P : Node → Bool) (c : String → Name), (∀ a b, c a = c b → a = b) →
      (((fixedNodes t0).filter P).map (fun n => c n.city)).Nodup := by
    intro P c hc
    have h1 : (((fixedNodes t0).filter P).map (·.city)).Nodup :=
      List.Nodup.sublist (List.Sublist.map _ List.filter_sublist) hcity
    have := List.Nodup.map (f := c) (fun a b hab => hc a b hab) h1
    simpa [List.map_map, Function.comp_def] using this
  have hfE : (t0.links.map (fun l => Name.fiber l.a l.z l.east.cable)).Nodup := by
    rw [List.Nodup, List.pairwise_map]
    refine hlinks.imp ?_
    intro a b hab heq'
    simp only [Name.fiber.injEq] at heq'
    simp [sameLink, heq'.1, heq'.2.1] at hab
  have hfW : (t0.links.map (fun l => Name.fiber l.z l.a l.west.cable)).Nodup := by
    rw [List.Nodup, List.pairwise_map]
    refine hlinks.imp ?_
    intro a b hab heq'
    simp only [Name.fiber.injEq] at heq'
    simp [sameLink, heq'.1, heq'.2.1] at hab
  have hEW : ∀ a ∈ t0.links.map (fun l => Name.fiber l.a l.z l.east.cable),
      ∀ b ∈ t0.links.map (fun l => Name.fiber l.z l.a l.west.cable), a ≠ b := by
    intro a ha b hb hab
    obtain ⟨l1, hl1, rfl⟩ := List.mem_map.1 ha
    obtain ⟨l2, hl2, rfl⟩ := List.mem_map.1 hb
    simp only [Name.fiber.injEq] at hab
    obtain ⟨e1, e2, _⟩ := hab
    -- l1 and l2 join the same two cities in opposite orientation
    by_cases h12 : l1 = l2
    · subst h12; exact hself l1 hl1 e1
    · have hsym : sameLink l1 l2 = true := by simp [sameLink, e1, e2]
      have hsym' : sameLink l2 l1 = true := by simp [sameLink, e1, e2]
      have hsymm : Std.Symm (fun l1 l2 : Link => sameLink l1 l2 = false) := by
        constructor
        intro x y hxy
        simp only [sameLink, Bool.or_eq_false_iff, Bool.and_eq_false_iff, beq_eq_false_iff_ne] at hxy ⊢
        constructor
        · rcases hxy.1 with h | h
          · left; exact fun e => h e.symm
          · right; exact fun e => h e.symm
        · rcases hxy.2 with h | h
          · right; exact fun e => h e.symm
          · left; exact fun e => h e.symm
      have := List.Pairwise.forall (R := fun l1 l2 : Link => sameLink l1 l2 = false) hlinks hl1 hl2 h12
      rw [hsym] at this; cases this
  have hqE : (t0.eqpts.map (fun q => Name.eqE q.a q.z)).Nodup := by
    rw [List.Nodup, List.pairwise_map]
    refine heq.imp ?_
    intro a b hab heq'
    simp only [Name.eqE.injEq] at heq'
    simp [heq'.1, heq'.2] at hab
  have hqW : (t0.eqpts.map (fun q => Name.eqW q.a q.z)).Nodup := by
    rw [List.Nodup, List.pairwise_map]
    refine heq.imp ?_
    intro a b hab heq'
    simp only [Name.eqW.injEq] at heq'
    simp [heq'.1, heq'.2] at hab
  rw [hel]
  simp only [List.map_append, List.map_map, nre, nef, nwf, nee, nwe]
  simp only [List.nodup_append, List.mem_append, List.mem_map, Function.comp_def, simpleElem]
  refine ⟨⟨⟨⟨⟨⟨⟨⟨⟨?_, ?_, ?_⟩, ?_, ?_⟩, ?_, ?_⟩, ?_, ?_⟩, ?_, ?_⟩, ?_, ?_⟩, ?_, ?_⟩, ?_, ?_⟩, ?_, ?_⟩
  all_goals first
    | exact hsub _ _ (fun a b hab => by injection hab)
    | exact hfE
    | exact hfW
    | exact hqE
    | exact hqW
    | (intro a ha b hb hab
       rw [← hab] at hb
       obtain ⟨y, hy, rfl⟩ := hb
       first
         | (simp at ha; done)
         | (simp at ha
            obtain ⟨x, hx, e1, e2, e3⟩ := ha
            exact hEW _ (List.mem_map.2 ⟨x, hx, rfl⟩) _ (List.mem_map.2 ⟨y, hy, rfl⟩) (by simp [e1, e2, e3])))

/-! ### services -/

/-- **units**: GHz → Hz and Gbit/s → bit/s multiply by 10⁹; dBm → W is `10^(p/10)·10⁻³`, i.e.
`dbm2watt`, strictly increasing and positive -/
theorem request_units (x : ℝ) :
    ghz2hz x = x * 1000000000 ∧ gbps2bps x = x * 1000000000 ∧ dbm2w x = dbm2watt x ∧ 0 < dbm2w x := by
  refine ⟨by simp [ghz2hz], by simp [gbps2bps], ?_, ?_⟩
  · simp only [dbm2w, dbm2watt, Nat.cast_one, Nat.cast_ofNat]; ring
  · simp only [dbm2w, Nat.cast_one, Nat.cast_ofNat]
    have := db2lin_pos x
    positivity

theorem request_power_monotone (x y : ℝ) (h : x < y) : dbm2w x < dbm2w y := by
  simp only [dbm2w, Nat.cast_one, Nat.cast_ofNat]
  have := (db2lin_lt_iff x y).2 h
  have h3 : (0 : ℝ) < 1 / 1000 := by norm_num
  exact mul_lt_mul_of_pos_right this h3

/-- **one disjunction group per 'disjoint from' entry**: a request element produces a
synchronisation vector exactly when its disjointness list is not empty, and the vector names the
request itself followed by every listed request, in order. -/
theorem sync_vector_per_disjoint_entry (e : ReqElem) :
    (pathSync e = none ↔ e.disjointFrom = []) ∧
    (e.disjointFrom ≠ [] → pathSync e = some (.obj [("synchronization-id", e.requestId),
      ("svec", .obj [("relaxable", .bool false), ("disjointness", .str "node link"),
        ("request-id-number", .arr (e.requestId :: e.disjointFrom.map J.str))])])) := by
  constructor
  · cases hd : e.disjointFrom <;> simp [pathSync, hd]
  · intro h
    cases hd : e.disjointFrom with
    | nil => exact absurd hd h
    | cons x xs => simp [pathSync, hd]

/-- the request is between the named sites' transceivers, whatever the other cells say -/
theorem request_endpoints (r : Request) (modes : Option (List String)) (bidir : Bool) (e : ReqElem)
    (h : mkReqElem r modes bidir = .ok e) :
    e.source = s!"trx {asStr r.source}" ∧ e.destination = s!"trx {asStr r.destination}" ∧ e.bidir = bidir ∧
    e.loose = (if r.isLoose then "LOOSE" else "STRICT") := by
  unfold mkReqElem at h
  simp only [bind_ok, pure_ok] at h
  obtain ⟨_, _, _, _, _, _, _, _, _, _, _, _, _, _, rfl⟩ := h
  exact ⟨rfl, rfl, rfl, rfl⟩

end Gnpy.Xls
