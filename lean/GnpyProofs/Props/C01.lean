import GnpyModel
import GnpyProofs.Lemmas.Db
import GnpyProofs.Lemmas.Spectrum
/- Property theorems for C01 — per-channel power always splits exactly into signal + ASE + NLI.
   Model: GnpyModel/Spectrum.lean; vocabulary (`Inv`, `OpOk`, `RunOk`, `PathOk`): Lemmas/Spectrum.lean.
   All statements over ℝ. -/
namespace Gnpy.Spectrum
open Chan

/-! ### one mutating call preserves the invariant -/

theorem attLin_inv (c : Chan ℝ) (g : ℝ) (h : Inv c) (hg : 0 < g) : Inv (c.attLin g) := by
  obtain ⟨hp, hs, ha, hn, hsum⟩ := h
  exact ⟨mul_pos hp hg, hs, ha, hn, hsum⟩

theorem gainLin_inv (c : Chan ℝ) (g : ℝ) (h : Inv c) (hg : 0 < g) : Inv (c.gainLin g) := by
  obtain ⟨hp, hs, ha, hn, hsum⟩ := h
  exact ⟨mul_pos hp hg, hs, ha, hn, hsum⟩

/-- any attenuation given in dB (also a negative one) keeps the invariant -/
theorem attDb_inv (c : Chan ℝ) (d : ℝ) (h : Inv c) : Inv (c.attDb d) := by
  have := db2lin_pos d
  exact attLin_inv c _ h (by simp only [Nat.cast_one]; positivity)

theorem gainDb_inv (c : Chan ℝ) (d : ℝ) (h : Inv c) : Inv (c.gainDb d) :=
  gainLin_inv c _ h (db2lin_pos d)

theorem addAse_inv (c : Chan ℝ) (e : ℝ) (h : Inv c) (he : 0 ≤ e) : Inv (c.addAse e) := by
  obtain ⟨hp, hs, ha, hn, hsum⟩ := h
  have hp' : 0 < c.p + e := by linarith
  refine ⟨?_, ?_, ?_, ?_, ?_⟩ <;> simp only [addAse]
  · exact hp'
  · positivity
  · positivity
  · positivity
  · field_simp
    nlinarith [hsum]

/-- NLI is a transfer from the channel power to the NLI share: fine as long as it does not exceed the
channel power -/
theorem addNli_inv (c : Chan ℝ) (x : ℝ) (h : Inv c) (hx0 : 0 ≤ x) (hx : x ≤ c.p) : Inv (c.addNli x) := by
  obtain ⟨hp, hs, ha, hn, hsum⟩ := h
  have hr0 : 0 ≤ x / c.p := by positivity
  have hr1 : x / c.p ≤ 1 := by rw [div_le_one hp]; exact hx
  refine ⟨?_, ?_, ?_, ?_, ?_⟩ <;> simp only [addNli, Nat.cast_one]
  · exact hp
  · exact mul_nonneg hs (by linarith)
  · exact mul_nonneg ha (by linarith)
  · have := mul_nonneg hn (show (0:ℝ) ≤ 1 - x / c.p by linarith); linarith
  · nlinarith [hsum]

/-- with the NLI strictly below the channel power some signal is left -/
theorem addNli_live (c : Chan ℝ) (x : ℝ) (h : Live c) (hx0 : 0 ≤ x) (hx : x < c.p) : Live (c.addNli x) := by
  refine ⟨addNli_inv c x h.1 hx0 (le_of_lt hx), ?_⟩
  have hp := h.1.1
  have hr1 : x / c.p < 1 := by rw [div_lt_one hp]; exact hx
  simp only [addNli, Nat.cast_one]
  exact mul_pos h.2 (by linarith)

theorem addAse_live (c : Chan ℝ) (e : ℝ) (h : Live c) (he : 0 ≤ e) : Live (c.addAse e) := by
  refine ⟨addAse_inv c e h.1 he, ?_⟩
  have hp := h.1.1
  have hp' : 0 < c.p + e := by linarith
  simp only [addAse]
  exact mul_pos h.2 (by positivity)

theorem step_inv (c : Chan ℝ) (o : Op ℝ) (h : Inv c) (ho : OpOk c o) : Inv (step c o) := by
  cases o with
  | attLin g => exact attLin_inv c g h ho
  | attDb d => exact attDb_inv c d h
  | gainLin g => exact gainLin_inv c g h ho
  | gainDb d => exact gainDb_inv c d h
  | addAse e => exact addAse_inv c e h ho
  | addNli x => exact addNli_inv c x h ho.1 (le_of_lt ho.2)

theorem step_live (c : Chan ℝ) (o : Op ℝ) (h : Live c) (ho : OpOk c o) : Live (step c o) := by
  cases o with
  | attLin g => exact ⟨attLin_inv c g h.1 ho, h.2⟩
  | attDb d => exact ⟨attDb_inv c d h.1, h.2⟩
  | gainLin g => exact ⟨gainLin_inv c g h.1 ho, h.2⟩
  | gainDb d => exact ⟨gainDb_inv c d h.1, h.2⟩
  | addAse e => exact addAse_live c e h ho
  | addNli x => exact addNli_live c x h ho.1 ho.2

/-- **C01, invariant along every operation sequence**: whatever sequence of attenuations, gains,
ASE and NLI additions an element (or a whole path) applies, the shares stay non-negative and sum to 1. -/
theorem run_inv (ops : List (Op ℝ)) (c : Chan ℝ) (h : Inv c) (hok : RunOk ops c) : Inv (run ops c) := by
  induction ops generalizing c with
  | nil => exact h
  | cons o r ih => exact ih (step c o) (step_inv c o h hok.1) hok.2

theorem run_live (ops : List (Op ℝ)) (c : Chan ℝ) (h : Live c) (hok : RunOk ops c) : Live (run ops c) := by
  induction ops generalizing c with
  | nil => exact h
  | cons o r ih => exact ih (step c o) (step_live c o h hok.1) hok.2

/-- every share lies in [0,1] -/
theorem shares_le_one (c : Chan ℝ) (h : Inv c) :
    (0 ≤ c.s ∧ c.s ≤ 1) ∧ (0 ≤ c.a ∧ c.a ≤ 1) ∧ (0 ≤ c.n ∧ c.n ≤ 1) := by
  obtain ⟨_, hs, ha, hn, hsum⟩ := h
  refine ⟨⟨hs, ?_⟩, ⟨ha, ?_⟩, ⟨hn, ?_⟩⟩ <;> linarith

/-- **signal power + ASE power + NLI power = channel power** -/
theorem power_split (c : Chan ℝ) (h : Inv c) : c.signal + c.ase + c.nli = c.p := by
  obtain ⟨_, _, _, _, hsum⟩ := h
  simp only [signal, ase, nli]
  calc c.s * c.p + c.a * c.p + c.n * c.p = (c.s + c.a + c.n) * c.p := by ring
    _ = c.p := by rw [hsum, one_mul]

/-- the split holds, and the shares are in [0,1], at every point of every guarded run -/
theorem run_power_split (ops : List (Op ℝ)) (c : Chan ℝ) (h : Inv c) (hok : RunOk ops c) :
    (run ops c).signal + (run ops c).ase + (run ops c).nli = (run ops c).p ∧
    (0 ≤ (run ops c).s ∧ (run ops c).s ≤ 1) ∧ (0 ≤ (run ops c).a ∧ (run ops c).a ≤ 1) ∧
    (0 ≤ (run ops c).n ∧ (run ops c).n ≤ 1) :=
  ⟨power_split _ (run_inv ops c h hok), shares_le_one _ (run_inv ops c h hok)⟩

/-- … and at every point of every path through any list of elements -/
theorem path_inv (es : List (Elem ℝ)) (c : Chan ℝ) (h : Inv c) (hok : PathOk es c) : Inv (path es c) := by
  rw [path_eq_run]; exact run_inv _ c h ((pathOk_iff es c).1 hok)

theorem path_power_split (es : List (Elem ℝ)) (c : Chan ℝ) (h : Inv c) (hok : PathOk es c) :
    (path es c).signal + (path es c).ase + (path es c).nli = (path es c).p :=
  power_split _ (path_inv es c h hok)

/-! ### power bookkeeping: nothing is created or lost -/

/-- adding ASE: signal and NLI powers are untouched, ASE power and total power grow by exactly `e` -/
theorem addAse_powers (c : Chan ℝ) (e : ℝ) (hp : 0 < c.p) (he : 0 ≤ e) :
    (c.addAse e).signal = c.signal ∧ (c.addAse e).nli = c.nli ∧
    (c.addAse e).ase = c.ase + e ∧ (c.addAse e).p = c.p + e := by
  have hp' : c.p + e ≠ 0 := by linarith
  refine ⟨?_, ?_, ?_, rfl⟩ <;> simp only [addAse, signal, ase, nli] <;> field_simp

/-- adding NLI: total power is untouched; the power `x` is taken from the three components in
proportion to their shares and booked as NLI: signal loses `x·s`, ASE loses `x·a`, NLI gains `x·(1−n)` -/
theorem addNli_powers (c : Chan ℝ) (x : ℝ) (hp : 0 < c.p) :
    (c.addNli x).p = c.p ∧ (c.addNli x).signal = c.signal - x * c.s ∧
    (c.addNli x).ase = c.ase - x * c.a ∧ (c.addNli x).nli = c.nli + x * (1 - c.n) := by
  have hp' : c.p ≠ 0 := ne_of_gt hp
  refine ⟨rfl, ?_, ?_, ?_⟩ <;> simp only [addNli, signal, ase, nli, Nat.cast_one] <;> field_simp <;> ring

/-- hence under the invariant the NLI power grows by exactly what signal and ASE lose -/
theorem addNli_transfer (c : Chan ℝ) (x : ℝ) (h : Inv c) :
    (c.addNli x).nli - c.nli = (c.signal - (c.addNli x).signal) + (c.ase - (c.addNli x).ase) := by
  obtain ⟨hp, _, _, _, hsum⟩ := h
  obtain ⟨_, h1, h2, h3⟩ := addNli_powers c x hp
  rw [h1, h2, h3]
  have : 1 - c.n = c.s + c.a := by linarith
  rw [this]; ring

/-- attenuation / gain scale the three powers by the same factor -/
theorem attLin_powers (c : Chan ℝ) (g : ℝ) :
    (c.attLin g).signal = g * c.signal ∧ (c.attLin g).ase = g * c.ase ∧ (c.attLin g).nli = g * c.nli ∧
    (c.attLin g).p = g * c.p := by
  simp only [attLin, signal, ase, nli]
  refine ⟨?_, ?_, ?_, ?_⟩ <;> ring

theorem gainLin_powers (c : Chan ℝ) (g : ℝ) :
    (c.gainLin g).signal = g * c.signal ∧ (c.gainLin g).ase = g * c.ase ∧ (c.gainLin g).nli = g * c.nli ∧
    (c.gainLin g).p = g * c.p := attLin_powers c g

/-- an attenuation of `d` dB lowers the channel power by exactly `d` dB -/
theorem attDb_dbm (c : Chan ℝ) (d : ℝ) (hp : 0 < c.p) : watt2dbm (c.attDb d).p = watt2dbm c.p - d := by
  have := db2lin_pos d
  simp only [attDb, attLin, watt2dbm, Nat.cast_one, Nat.cast_ofNat]
  rw [show c.p * (1 / db2lin d) * 1000 = (c.p * 1000) / db2lin d by ring,
      lin2db_div _ _ (by positivity) this, lin2db_db2lin]

theorem gainDb_dbm (c : Chan ℝ) (d : ℝ) (hp : 0 < c.p) : watt2dbm (c.gainDb d).p = watt2dbm c.p + d := by
  have := db2lin_pos d
  simp only [gainDb, gainLin, watt2dbm, Nat.cast_ofNat]
  rw [show c.p * db2lin d * 1000 = (c.p * 1000) * db2lin d by ring,
      lin2db_mul _ _ (by positivity) this, lin2db_db2lin]

/-! ### the reported figures -/

/-- **1/GSNR = 1/OSNR_ASE + 1/SNR_NLI** (linear units) -/
theorem gsnr_harmonic (c : Chan ℝ) (hs : 0 < c.s) (ha : 0 < c.a) (hn : 0 < c.n) :
    1 / c.gsnr = 1 / c.snrLin + 1 / c.snrNli := by
  simp only [gsnr, snrLin, snrNli]
  field_simp

/-- total form (valid also while a noise share is still zero) -/
theorem nsr_split (c : Chan ℝ) : c.nsr = c.nsrAse + c.nsrNli := by
  simp only [nsr, nsrAse, nsrNli]; ring

theorem nsr_eq_inv_gsnr (c : Chan ℝ) : c.nsr = 1 / c.gsnr ∧ c.nsrAse = 1 / c.snrLin ∧ c.nsrNli = 1 / c.snrNli := by
  simp only [nsr, nsrAse, nsrNli, gsnr, snrLin, snrNli, one_div, inv_div, and_self]

/-- before any ASE is added GSNR is the SNR_NLI; before any NLI it is the OSNR -/
theorem gsnr_no_ase (c : Chan ℝ) (ha : c.a = 0) : c.gsnr = c.snrNli := by
  simp only [gsnr, snrNli, ha, zero_add]

theorem gsnr_no_nli (c : Chan ℝ) (hn : c.n = 0) : c.gsnr = c.snrLin := by
  simp only [gsnr, snrLin, hn, add_zero]

/-- the dB figures recorded by `Transceiver._calc_snr` obey the same identity -/
theorem gsnr_harmonic_db (c : Chan ℝ) (hs : 0 < c.s) (ha : 0 < c.a) (hn : 0 < c.n) :
    db2lin (-(c.gsnrDb)) = db2lin (-(c.snrLinDb)) + db2lin (-(c.snrNliDb)) := by
  have h1 : 0 < c.gsnr := by simp only [gsnr]; positivity
  have h2 : 0 < c.snrLin := by simp only [snrLin]; positivity
  have h3 : 0 < c.snrNli := by simp only [snrNli]; positivity
  simp only [gsnrDb, snrLinDb, snrNliDb]
  rw [db2lin_neg, db2lin_neg, db2lin_neg, db2lin_lin2db _ h1, db2lin_lin2db _ h2, db2lin_lin2db _ h3]
  have := gsnr_harmonic c hs ha hn
  simp only [one_div] at this
  exact this

/-- `snr_sum`: in linear units the inverse SNR grows by the inverse added SNR scaled to the
channel bandwidth, `1/snr' = 1/snr + (bw/12.5e9)/snr_added` -/
theorem snrSum_lin (snr bw added : ℝ) (hbw : 0 < bw) :
    db2lin (-(snrSum snr bw added)) = db2lin (-snr) + db2lin (-added) * (bw / 12500000000) := by
  have h1 := db2lin_pos (-snr)
  have h2 := db2lin_pos (-(added - lin2db (bw / 12500000000)))
  simp only [snrSum, refBw, Nat.cast_ofNat, neg_neg]
  rw [db2lin_lin2db _ (by positivity)]
  congr 1
  rw [neg_sub, sub_eq_add_neg, db2lin_add, db2lin_lin2db _ (by positivity)]
  ring

/-- **the figures reported after `update_snr` still obey 1/GSNR = 1/OSNR_ASE + 1/SNR_NLI**: the same
lumped penalty is added to 1/OSNR and to 1/GSNR, SNR_NLI is left as recorded -/
theorem updateSnr_harmonic (c : Chan ℝ) (baud : ℝ) (args : List ℝ) (hb : 0 < baud)
    (hs : 0 < c.s) (ha : 0 < c.a) (hn : 0 < c.n) :
    db2lin (-(updateSnr c baud args).2.2) =
      db2lin (-(updateSnr c baud args).1) + db2lin (-(updateSnr c baud args).2.1) := by
  simp only [updateSnr]
  rw [snrSum_lin _ _ _ hb, snrSum_lin _ _ _ hb, gsnr_harmonic_db c hs ha hn]
  ring

/-- `update_snr`: the lumped penalties add up in inverse linear units, `1/snr_added = Σ 1/sᵢ` -/
theorem snrAdded_lin (args : List ℝ) (hne : args ≠ []) :
    db2lin (-(snrAdded args)) = (args.map (fun s => db2lin (-s))).sum := by
  have hpos : 0 < (args.map (fun s => db2lin (-s))).sum := by
    cases args with
    | nil => exact absurd rfl hne
    | cons a r =>
      simp only [List.map_cons, List.sum_cons]
      have h1 := db2lin_pos (-a)
      have h2 : 0 ≤ (r.map (fun s => db2lin (-s))).sum :=
        List.sum_nonneg (fun x hx => by
          obtain ⟨s, _, rfl⟩ := List.mem_map.1 hx
          exact le_of_lt (db2lin_pos _))
      linarith
  simp only [snrAdded, snrAddedLin, Nat.cast_zero, neg_neg]
  rw [snrAddedLin_eq, zero_add, db2lin_lin2db _ hpos]

/-- the reported OSNR and GSNR after `update_snr`, in inverse linear units:
`1/x' = 1/x + (baud/12.5e9) · Σ 1/sᵢ` for both figures -/
theorem updateSnr_lin (c : Chan ℝ) (baud : ℝ) (args : List ℝ) (hb : 0 < baud) (hne : args ≠ []) :
    db2lin (-(updateSnr c baud args).1) =
      db2lin (-(c.snrLinDb)) + (args.map (fun s => db2lin (-s))).sum * (baud / 12500000000) ∧
    db2lin (-(updateSnr c baud args).2.2) =
      db2lin (-(c.gsnrDb)) + (args.map (fun s => db2lin (-s))).sum * (baud / 12500000000) ∧
    (updateSnr c baud args).2.1 = c.snrNliDb := by
  refine ⟨?_, ?_, rfl⟩ <;> simp only [updateSnr] <;> rw [snrSum_lin _ _ _ hb, snrAdded_lin args hne]

/-- `update_snr` can only lower the reported OSNR and GSNR (dB) -/
theorem updateSnr_le (c : Chan ℝ) (baud : ℝ) (args : List ℝ) (hb : 0 < baud) :
    (updateSnr c baud args).1 ≤ c.snrLinDb ∧ (updateSnr c baud args).2.2 ≤ c.gsnrDb := by
  have key : ∀ x : ℝ, snrSum x baud (snrAdded args) ≤ x := by
    intro x
    have h := snrSum_lin x baud (snrAdded args) hb
    have hp : 0 < db2lin (-(snrAdded args)) * (baud / 12500000000) := by
      have := db2lin_pos (-(snrAdded args)); positivity
    have : db2lin (-x) ≤ db2lin (-(snrSum x baud (snrAdded args))) := by rw [h]; linarith
    have := (db2lin_le_iff _ _).1 this
    linarith
  simp only [updateSnr]
  exact ⟨key _, key _⟩

/-- a spectrum through one element: every channel keeps the invariant -/
theorem applyElems_inv (es : List (Elem ℝ)) (sp : List (Chan ℝ))
    (h : List.Forall₂ (fun e c => Inv c ∧ RunOk e.ops c) es sp) : ∀ c ∈ applyElems es sp, Inv c := by
  induction h with
  | nil => simp [applyElems]
  | cons hd _ ih =>
    intro c hc
    simp only [applyElems, List.zipWith_cons_cons, List.mem_cons] at hc
    rcases hc with rfl | hc
    · exact run_inv _ _ hd.1 hd.2
    · exact ih c hc


/-! ### several `update_snr` calls on the same receiver (automatic mode selection) -/

theorem update_raw (t : TrxFig ℝ) (baud : ℝ) (args : List ℝ) :
    (t.update baud args).rawOsnr = t.rawOsnr ∧ (t.update baud args).rawNli = t.rawNli ∧
    (t.update baud args).rawSnr = t.rawSnr ∧ (t.update baud args).rawOsnr01 = t.rawOsnr01 ∧
    (t.update baud args).rawSnr01 = t.rawSnr01 ∧ (t.update baud args).nli = t.nli := ⟨rfl, rfl, rfl, rfl, rfl, rfl⟩

/-- **history-free**: a further `update_snr` call gives exactly what the same call gives on the freshly recorded
figures – penalties are never cumulated, whatever calls came before -/
theorem update_history_free (t : TrxFig ℝ) (baud : ℝ) (a1 a2 : List ℝ) :
    (t.update baud a1).update baud a2 = t.update baud a2 := rfl

theorem updates_snoc (t : TrxFig ℝ) (baud : ℝ) (calls : List (List ℝ)) (a : List ℝ) :
    t.updates baud (calls ++ [a]) = (t.updates baud calls).update baud a := by
  simp [TrxFig.updates, List.foldl_append]

theorem updates_raw (t : TrxFig ℝ) (baud : ℝ) (calls : List (List ℝ)) :
    (t.updates baud calls).rawOsnr = t.rawOsnr ∧ (t.updates baud calls).rawSnr = t.rawSnr ∧
    (t.updates baud calls).rawOsnr01 = t.rawOsnr01 ∧ (t.updates baud calls).rawSnr01 = t.rawSnr01 ∧
    (t.updates baud calls).nli = t.nli := by
  induction calls generalizing t with
  | nil => exact ⟨rfl, rfl, rfl, rfl, rfl⟩
  | cons a r ih =>
    have := ih (t.update baud a)
    exact this

/-- after any number of `update_snr` calls the reported figures are those of the LAST call applied to the raw ones -/
theorem updates_last (c : Chan ℝ) (baud : ℝ) (calls : List (List ℝ)) (a : List ℝ) :
    ((TrxFig.calc c baud).updates baud (calls ++ [a])).osnr = (updateSnr c baud a).1 ∧
    ((TrxFig.calc c baud).updates baud (calls ++ [a])).nli = (updateSnr c baud a).2.1 ∧
    ((TrxFig.calc c baud).updates baud (calls ++ [a])).snr = (updateSnr c baud a).2.2 := by
  rw [updates_snoc]
  obtain ⟨h1, h2, _, _, h5⟩ := updates_raw (TrxFig.calc c baud) baud calls
  simp only [TrxFig.update, h1, h2, h5]
  exact ⟨rfl, rfl, rfl⟩

/-- **1/GSNR = 1/OSNR_ASE + 1/SNR_NLI holds for the reported figures after every call of every call sequence** -/
theorem updates_harmonic (c : Chan ℝ) (baud : ℝ) (calls : List (List ℝ)) (hb : 0 < baud)
    (hs : 0 < c.s) (ha : 0 < c.a) (hn : 0 < c.n) :
    db2lin (-((TrxFig.calc c baud).updates baud calls).snr) =
      db2lin (-((TrxFig.calc c baud).updates baud calls).osnr) +
      db2lin (-((TrxFig.calc c baud).updates baud calls).nli) := by
  rcases List.eq_nil_or_concat calls with rfl | ⟨init, a, rfl⟩
  · exact gsnr_harmonic_db c hs ha hn
  · rw [List.concat_eq_append]
    obtain ⟨h1, h2, h3⟩ := updates_last c baud init a
    rw [h1, h2, h3]
    exact updateSnr_harmonic c baud a hb hs ha hn

/-- the 0.1 nm figures stay the signal-bandwidth ones shifted by `lin2db(12.5e9/baud)` in inverse linear units: the same
lumped penalty, referred to 0.1 nm, is added to both -/
theorem update_01nm (t : TrxFig ℝ) (baud : ℝ) (args : List ℝ) :
    db2lin (-(t.update baud args).snr01) = db2lin (-t.rawSnr01) + db2lin (-(snrAdded args)) ∧
    db2lin (-(t.update baud args).osnr01) = db2lin (-t.rawOsnr01) + db2lin (-(snrAdded args)) := by
  have h := fun x => snrSum_lin x (12500000000:ℝ) (snrAdded args) (by norm_num)
  simp only [TrxFig.update, refBw, Nat.cast_ofNat]
  constructor <;> rw [h] <;> simp

/-! ### band split and merge -/

/-- a selection keeps every kept channel as it is (nothing else appears) -/
theorem demux_mem (keep : Int → Bool) (sp : List (Int × Chan ℝ)) (kc : Int × Chan ℝ) :
    kc ∈ demux keep sp ↔ kc ∈ sp ∧ keep kc.1 = true := by
  simp [demux]

theorem demux_sublist (keep : Int → Bool) (sp : List (Int × Chan ℝ)) : (demux keep sp).Sublist sp := by
  simp only [demux]; exact List.filter_sublist

/-- a merge returns exactly the channels it was given (as a multiset), each unchanged, sorted by frequency -/
theorem mux_spec (parts : List (List (Int × Chan ℝ))) (m : List (Int × Chan ℝ)) (h : mux parts = some m) :
    m.Perm parts.flatten := mux_perm parts m h

theorem mux_sorted (x y : List (Int × Chan ℝ)) : (add2 x y).Pairwise (fun u v => u.1 ≤ v.1) :=
  sortK_sorted _

/-- split into a band and its complement, then merge: the same channels, none lost, none duplicated -/
theorem split_merge_perm (keep : Int → Bool) (sp : List (Int × Chan ℝ)) :
    (add2 (demux keep sp) (demux (fun f => !keep f) sp)).Perm sp := by
  simp only [add2, demux]
  exact (sortK_perm _).trans (List.filter_append_perm _ sp)

/-- total power is neither created nor lost by split + merge -/
theorem split_merge_power (keep : Int → Bool) (sp : List (Int × Chan ℝ)) :
    sumL ((add2 (demux keep sp) (demux (fun f => !keep f) sp)).map (fun kc => kc.2.p)) =
      sumL (sp.map (fun kc => kc.2.p)) := by
  rw [sumL_eq_sum, sumL_eq_sum]
  exact ((split_merge_perm keep sp).map _).sum_eq

/-- merging any number of sub-spectra conserves the total power -/
theorem mux_power (parts : List (List (Int × Chan ℝ))) (m : List (Int × Chan ℝ)) (h : mux parts = some m) :
    sumL (m.map (fun kc => kc.2.p)) = sumL (parts.flatten.map (fun kc => kc.2.p)) := by
  rw [sumL_eq_sum, sumL_eq_sum]
  exact ((mux_perm parts m h).map _).sum_eq

/-- split and merge keep the invariant channel-wise -/
theorem demux_mux_inv (parts : List (List (Int × Chan ℝ))) (m : List (Int × Chan ℝ)) (h : mux parts = some m)
    (hinv : ∀ part ∈ parts, ∀ kc ∈ part, Inv kc.2) : ∀ kc ∈ m, Inv kc.2 := by
  intro kc hkc
  have := (mux_perm parts m h).subset hkc
  obtain ⟨part, hp, hk⟩ := List.mem_flatten.1 this
  exact hinv part hp kc hk

/-- every channel that leaves a multiband amplifier is one input channel, in the band of one of its
amplifiers, taken through that amplifier -/
theorem multiband_mem (amps : List ((Int → Bool) × (Int → Elem ℝ))) (sp out : List (Int × Chan ℝ))
    (h : multiband amps sp = some out) (kc : Int × Chan ℝ) (hkc : kc ∈ out) :
    ∃ bf ∈ amps, ∃ c, (kc.1, c) ∈ sp ∧ bf.1 kc.1 = true ∧ kc.2 = (bf.2 kc.1).apply c := by
  simp only [multiband] at h
  have hm := (mux_perm _ out h).subset hkc
  obtain ⟨part, hp, hk⟩ := List.mem_flatten.1 hm
  obtain ⟨bf, hbf, hpart⟩ := List.mem_filterMap.1 hp
  split at hpart
  · exact absurd hpart (by simp)
  · simp only [Option.some.injEq] at hpart
    subst hpart
    obtain ⟨kc0, hk0, rfl⟩ := List.mem_map.1 hk
    exact ⟨bf, hbf, kc0.2, ((demux_mem bf.1 sp kc0).1 hk0).1, ((demux_mem bf.1 sp kc0).1 hk0).2, rfl⟩

/-- hence the invariant survives a multiband amplifier -/
theorem multiband_inv (amps : List ((Int → Bool) × (Int → Elem ℝ))) (sp out : List (Int × Chan ℝ))
    (h : multiband amps sp = some out) (hinv : ∀ kc ∈ sp, Inv kc.2)
    (hok : ∀ bf ∈ amps, ∀ kc ∈ sp, RunOk (bf.2 kc.1).ops kc.2) : ∀ kc ∈ out, Inv kc.2 := by
  intro kc hkc
  obtain ⟨bf, hbf, c, hc, _, heq⟩ := multiband_mem amps sp out h kc hkc
  rw [heq]
  exact run_inv _ c (hinv _ hc) (hok bf hbf _ hc)

/-! ### non-vacuity -/

/-- a channel right after the transmitter: 1 mW, all signal -/
example : Inv ({ p := 1/1000, s := 1, a := 0, n := 0 } : Chan ℝ) := by
  refine ⟨by norm_num, by norm_num, by norm_num, by norm_num, by norm_num⟩

/-- a guarded run through a fibre-and-amplifier-like op list exists (hypotheses of `run_inv` are satisfiable) -/
example : RunOk [Op.addNli (1/1000000), Op.attDb 1, Op.attLin (1/100), Op.addAse (1/1000000), Op.gainDb 20]
    ({ p := 1/1000, s := 1, a := 0, n := 0 } : Chan ℝ) := by
  refine ⟨⟨?_, ?_⟩, trivial, ?_, ?_, trivial, trivial⟩
  · norm_num
  · show (1:ℝ)/1000000 < 1/1000; norm_num
  · show (0:ℝ) < 1/100; norm_num
  · show (0:ℝ) ≤ 1/1000000; norm_num

/-- a channel with all three shares positive (hypotheses of `gsnr_harmonic`) -/
example : Live ({ p := 1/1000, s := 98/100, a := 1/100, n := 1/100 } : Chan ℝ) := by
  refine ⟨⟨by norm_num, by norm_num, by norm_num, by norm_num, by norm_num⟩, by norm_num⟩

end Gnpy.Spectrum
