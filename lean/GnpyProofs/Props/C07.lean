import GnpyModel
import GnpyProofs.Lemmas.Bands
/- Property theorems for C07 — the launched channel set survives the path intact; channel order is irrelevant.
   Model: GnpyModel/Bands.lean.  Vocabulary and the proofs proper: Lemmas/Bands.lean
   (`Before`/`Disj` on channels, `SortedF`, `Valid s := mkSpectrum s = ok s`, `Pos s` = all slot widths > 0,
   `inAny bands c`, `BandDisj`, `parts`, `Elem.WF`).
   Discrete model (Int/Nat/List): what is proved is what the driver executes. -/
namespace Gnpy.Bands

/-! ### construction: sorted, rejected iff overlap or baud > slot, input order irrelevant -/

/-- **an accepted spectrum is the frequency-sorted permutation of what was supplied**: every channel exactly
once, each with its own slot width, baud rate and payload (label, transmitter data, powers) -/
theorem mk_sorted_perm (l s : List Ch) (h : mkSpectrum l = .ok s) : s.Perm l ∧ SortedF s :=
  mk_sorted_perm' l s h

/-- … strictly sorted when the slot widths are positive: no frequency twice -/
theorem mk_strictly_sorted (l s : List Ch) (h : mkSpectrum l = .ok s) (hp : Pos l) :
    s.Pairwise (fun a b => a.f < b.f) :=
  valid_strict s (valid_of_mk' l s h) (fun c hc => hp c ((mk_sorted_perm' l s h).1.subset hc))

/-- the only error the constructor raises is a spectrum error -/
theorem mk_error_kind (l : List Ch) (e : Err) (h : mkSpectrum l = .error e) : e = .spectrum :=
  mk_error_kind' l e h

/-- **accepted iff no two channels overlap and no baud rate exceeds its slot** -/
theorem mk_accepts_iff (l : List Ch) (hs : ∀ c ∈ l, 0 ≤ c.slot) :
    (∃ s, mkSpectrum l = .ok s) ↔ l.Pairwise Disj ∧ ∀ c ∈ l, c.baud ≤ c.slot :=
  mk_accepts_iff' l hs

/-- **rejected with a spectrum error iff two channels overlap or a baud rate is wider than its slot** -/
theorem mk_rejects_iff (l : List Ch) (hs : ∀ c ∈ l, 0 ≤ c.slot) :
    mkSpectrum l = .error .spectrum ↔ ¬ (l.Pairwise Disj ∧ ∀ c ∈ l, c.baud ≤ c.slot) :=
  mk_rejects_iff' l hs

theorem mk_rejects_overlap (l : List Ch) (hs : ∀ c ∈ l, 0 ≤ c.slot) (h : ¬ l.Pairwise Disj) :
    mkSpectrum l = .error .spectrum := mk_rejects_overlap' l hs h

theorem mk_rejects_baud (l : List Ch) (hs : ∀ c ∈ l, 0 ≤ c.slot) (c : Ch) (hc : c ∈ l) (h : c.slot < c.baud) :
    mkSpectrum l = .error .spectrum := mk_rejects_baud' l hs c hc h

/-- **supplying the same channels in a different order gives the identical result** – the same sorted spectrum
(hence identical per-channel records downstream) or the same rejection -/
theorem mk_order_irrelevant (l₁ l₂ : List Ch) (hp : l₁.Perm l₂) (hs : Pos l₁) : mkSpectrum l₁ = mkSpectrum l₂ :=
  mk_order_irrelevant' l₁ l₂ hp hs

/-- … and so does the whole propagation -/
theorem propagate_order_irrelevant (path : List Elem) (lo hi : Option Int) (d : Int) (l₁ l₂ : List Ch)
    (hp : l₁.Perm l₂) (hs : Pos l₁) : propagate path lo hi d l₁ = propagate path lo hi d l₂ := by
  simp only [propagate, mk_order_irrelevant' l₁ l₂ hp hs]

/-- **a uniform grid is always a valid spectrum** (spacing > 0, baud rate ≤ spacing): `automatic_nch` channels, sorted,
non-overlapping, returned as generated -/
theorem grid_valid (fmin fmax spacing baud : Int) (hs : 0 < spacing) (hb : baud ≤ spacing) :
    mkSpectrum (gridChans fmin fmax spacing baud) = .ok (gridChans fmin fmax spacing baud) ∧
    (gridChans fmin fmax spacing baud).length = automaticNch fmin fmax spacing :=
  grid_valid' fmin fmax spacing baud hs hb

/-- hence `create_input_spectral_information` succeeds on every sensible request (`f_min ≤ f_max`) -/
theorem gridSpectrum_ok (fmin fmax spacing baud : Int) (hs : 0 < spacing) (hb : baud ≤ spacing) (hf : fmin ≤ fmax) :
    gridSpectrum fmin fmax spacing baud = .ok (gridChans fmin fmax spacing baud) := by
  have : ¬ (fmax - fmin) / spacing < 0 := by
    have := Int.ediv_nonneg (show 0 ≤ fmax - fmin by omega) (le_of_lt hs)
    omega
  simp only [gridSpectrum, this, if_false]
  exact (grid_valid' fmin fmax spacing baud hs hb).1

/-- its centre frequencies lie in `(f_min, f_max]` -/
theorem grid_inside (fmin fmax spacing baud : Int) (hs : 0 < spacing) (c : Ch)
    (hc : c ∈ gridChans fmin fmax spacing baud) : fmin < c.f ∧ c.f ≤ fmax :=
  grid_inside' fmin fmax spacing baud hs c hc

/-! ### band selection and merge -/

/-- **demux = sub-list**: exactly the in-band channels, order and records preserved (`none` when there is none) -/
theorem demux_sublist (b : Band) (sp : List Ch) (hv : Valid sp) (hp : Pos sp) :
    demux b sp = if sp.filter (inBand b) = [] then none else some (.ok (sp.filter (inBand b))) :=
  demux_valid b sp hv (fun c hc => le_of_lt (hp c hc))

/-- a merge returns a valid spectrum made of exactly the channels it was given -/
theorem mux_spec (ps : List (List Ch)) (m : List Ch) (hv : ∀ p ∈ ps, Valid p) (h : mux ps = .ok m) :
    Valid m ∧ m.Perm ps.flatten := mux_ok ps m hv h

/-- split over disjoint bands, merge: the channels that lie in one of the bands, each once, in frequency order -/
theorem mux_demux (bs : List Band) (sp : List Ch) (hv : Valid sp) (hp : Pos sp) (hd : bs.Pairwise BandDisj)
    (hne : parts bs sp ≠ []) : mux (parts bs sp) = .ok (sp.filter (inAny bs)) := mux_parts bs sp hv hp hd hne

/-! ### the common range and the one-time filter -/

/-- **`find_common_range`**: a channel lies in a band of the common range iff it lies in a band of *every*
amplifier of the path -/
theorem commonRange_spec (amps : List (List Band)) (lo hi : Option Int) (d : Int) (hne : amps ≠ []) (c : Ch)
    (hc : 0 < c.slot) : inAny (commonRange amps lo hi d) c = true ↔ ∀ a ∈ amps, inAny a c = true :=
  commonRange_spec' amps lo hi d hne c hc

/-- the bands of the common range are pairwise disjoint when those of each amplifier are -/
theorem commonRange_disjoint (amps : List (List Band)) (lo hi : Option Int) (d : Int)
    (h : ∀ a ∈ amps, a.Pairwise BandDisj) : (commonRange amps lo hi d).Pairwise BandDisj :=
  commonRange_disj' amps lo hi d h

/-- **`filter_si`**: exactly the channels inside the common range remain (order and records preserved); no channel
left is a ValueError -/
theorem filterSi_spec (cr : List Band) (sp : List Ch) (hv : Valid sp) (hp : Pos sp) (hd : cr.Pairwise BandDisj) :
    filterSi cr sp = if sp.filter (inAny cr) = [] then .error .value else .ok (sp.filter (inAny cr)) :=
  filterSi_spec' cr sp hv hp hd

/-- **removed once**: filtering again removes nothing more -/
theorem filter_idempotent (cr : List Band) (sp s' : List Ch) (hv : Valid sp) (hp : Pos sp)
    (hd : cr.Pairwise BandDisj) (h : filterSi cr sp = .ok s') : filterSi cr s' = .ok s' :=
  filter_idempotent' cr sp s' hv hp hd h

/-! ### amplifiers and paths -/

/-- a single-band amplifier whose band holds every channel returns the spectrum as it is -/
theorem edfaCall_id (b : Band) (r : List Band) (sp : List Ch) (hv : Valid sp) (hp : Pos sp) (hne : sp ≠ [])
    (hin : ∀ c ∈ sp, inBand b c = true) : edfaCall (b :: r) sp = .ok sp := edfaCall_id' b r sp hv hp hne hin

/-- a multiband amplifier whose disjoint bands together hold every channel returns the spectrum as it is:
no channel lost at a band edge, none duplicated, order and records intact after the re-merge -/
theorem multibandCall_id (bs : List Band) (sp : List Ch) (hv : Valid sp) (hp : Pos sp) (hne : sp ≠ [])
    (hd : bs.Pairwise BandDisj) (hin : ∀ c ∈ sp, inAny bs c = true) : multibandCall bs sp = .ok sp :=
  multibandCall_id' bs sp hv hp hne hd hin

/-- **no silent duplicate**: whatever the bands, an answer of a multiband amplifier is strictly frequency-sorted
(each channel at most once) and consists of exactly the selected channels -/
theorem multiband_no_dup (bs : List Band) (sp out : List Ch) (hv : Valid sp) (hp : Pos sp)
    (h : multibandCall bs sp = .ok out) :
    out.Pairwise (fun a b => a.f < b.f) ∧ out.Perm (parts bs sp).flatten := multiband_no_dup' bs sp out hv hp h

/-- **overlapping amplifier bands ⇒ spectrum error**, never the channel twice -/
theorem multiband_overlap_rejects (l1 l2 l3 : List Band) (b1 b2 : Band) (sp : List Ch) (hv : Valid sp) (hp : Pos sp)
    (c : Ch) (hc : c ∈ sp) (h1 : inBand b1 c = true) (h2 : inBand b2 c = true) :
    multibandCall (l1 ++ b1 :: l2 ++ b2 :: l3) sp = .error .spectrum :=
  multiband_overlap_rejects' l1 l2 l3 b1 b2 sp hv hp c hc h1 h2

/-- **every element of a path returns exactly the channel list it was given** (count, order, baud rate, slot width,
label, transmitter data) once every channel lies in a band of every amplifier – induction over the path -/
theorem path_preserves_channels (path : List Elem) (sp : List Ch) (hv : Valid sp) (hp : Pos sp) (hne : sp ≠ [])
    (hwf : ∀ e ∈ path, e.WF) (hin : ∀ c ∈ sp, ∀ a ∈ ampBands path, inAny a c = true) : callAll path sp = .ok sp :=
  callAll_id' path sp hv hp hne hwf hin

/-- **C07, end to end** (`request.propagate`): the supplied channels are sorted (or rejected by `mk_rejects_iff`); the
channels outside the common range of the path's amplifiers are removed once, before propagation; every remaining
channel reaches the receiver exactly once, in frequency order, with its own record, through any mix of single- and
multi-band amplifiers -/
theorem propagate_spec (path : List Elem) (lo hi : Option Int) (d : Int) (l si : List Ch)
    (hmk : mkSpectrum l = .ok si) (hp : Pos l) (hwf : ∀ e ∈ path, e.WF) :
    propagate path lo hi d l =
      if si.filter (inAny (commonRange (ampBands path) lo hi d)) = [] then .error .value
      else .ok (si.filter (inAny (commonRange (ampBands path) lo hi d))) :=
  propagate_spec' path lo hi d l si hmk hp hwf

def exC : Band := { fmin := 191300000000000, fmax := 196100000000000 }
def exL : Band := { fmin := 186000000000000, fmax := 190000000000000 }

/-! ### how the elements of a path are built: `Elem.WF` is a consequence, not a hypothesis -/

/-- **loader** (`network_from_json` + `Multiband_amplifier.__init__`): when the bands of the library entry all belong to
listed amplifiers (untyped element; typed element without an `amplifiers` list; typed element listing every member)
and the amplifier bands are pairwise disjoint, the element is well-formed and its `__call__` bands are exactly the
listed amplifiers' bands in list order -/
theorem loaded_multiband_wf (libBands : Option (List Band)) (ampBands : List Band) (e : Elem)
    (h : loadMultiband libBands ampBands = .ok e)
    (hlib : ∀ l, libBands = some l → l.Nodup ∧ (ampBands ≠ [] → ∀ b ∈ l, b ∈ ampBands) ∧
      (ampBands = [] → l.Pairwise BandDisj))
    (hd : ampBands.Pairwise BandDisj) : e.WF := by
  simp only [loadMultiband] at h
  cases hf : mbFold { bands := loadBands0 libBands, amps := [] } (loadAmps libBands ampBands) with
  | error e' => rw [hf] at h; exact absurd h (by simp)
  | ok s =>
    rw [hf] at h; simp only [Except.ok.injEq] at h; subst h
    cases libBands with
    | none => exact (mbFold_wf [] ampBands s hf List.nodup_nil (by simp) hd).1
    | some l =>
      obtain ⟨hn, hsub, hdl⟩ := hlib l rfl
      cases ampBands with
      | nil => exact (mbFold_wf l l s hf hn (fun b hb => hb) (hdl rfl)).1
      | cons a r => exact (mbFold_wf l (a :: r) s hf hn (hsub (by simp)) hd).1

/-- a typed element created WITHOUT an `amplifiers` list (one amplifier per band of the library entry) is well-formed
as soon as the library entry's member bands are pairwise disjoint -/
theorem loaded_typed_default_wf (members : List Band) (e : Elem) (hd : (dedupBands members).Pairwise BandDisj)
    (h : loadMultiband (some (dedupBands members)) [] = .ok e) : e.WF :=
  loaded_multiband_wf _ [] e h
    (fun l hl => by
      simp only [Option.some.injEq] at hl; subst hl
      exact ⟨dedupBands_nodup members, fun h => absurd rfl h, fun _ => hd⟩)
    List.Pairwise.nil

/-- before the design a typed element that lists only SOME of the member amplifiers is not well-formed: the library
band without amplifier is still in `params.bands` (the design step overwrites `params.bands`, see below) -/
theorem loaded_partial_not_wf :
    ∃ e, loadMultiband (some [exC, exL]) [exC] = .ok e ∧ ¬ e.WF := by
  refine ⟨.multiband [exC, exL] [exC], by decide, ?_⟩
  intro h
  have := h.2.2 { f := 188000000000000, slot := 50000000000, baud := 32000000000, pay := 0 }
  revert this; decide

/-- **auto-design** (`set_egress_amplifier`): `node.params.bands = [a.params.bands[0] for a in amplifiers]`, so the
designed element is well-formed whenever the bands of the selected amplifier varieties are pairwise disjoint – also for
an element that was loaded with a partial amplifier list -/
theorem designed_multiband_wf (existing : List String) (designBands : List Band) (sel : String → Band)
    (hd : ((if existing.isEmpty then (designDict designBands).map (fun kv => kv.1) else existing).map sel).Pairwise
      BandDisj) : (designMultiband existing designBands sel).WF :=
  ⟨hd, hd, fun _ => rfl⟩

/-- what a designed path consists of: single-band amplifiers (`EdfaParams`: exactly one band), multiband amplifiers as
left by `set_egress_amplifier` (with disjoint selected bands), and elements that do not touch the channel set -/
def Elem.Designed (e : Elem) : Prop :=
  (∃ b, e = .edfa [b]) ∨
  (∃ existing designBands sel, e = designMultiband existing designBands sel ∧
    ((if existing.isEmpty then (designDict designBands).map (fun kv => kv.1) else existing).map sel).Pairwise BandDisj) ∨
  e = .other

theorem designed_wf (e : Elem) (h : e.Designed) : e.WF := by
  rcases h with ⟨b, rfl⟩ | ⟨ex, dbs, sel, rfl, hd⟩ | rfl
  · exact ⟨b, rfl⟩
  · exact designed_multiband_wf ex dbs sel hd
  · trivial

/-- **C07 end to end on every designed path, without a well-formedness hypothesis** -/
theorem propagate_spec_designed (path : List Elem) (lo hi : Option Int) (d : Int) (l si : List Ch)
    (hmk : mkSpectrum l = .ok si) (hp : Pos l) (hdes : ∀ e ∈ path, e.Designed) :
    propagate path lo hi d l =
      if si.filter (inAny (commonRange (ampBands path) lo hi d)) = [] then .error .value
      else .ok (si.filter (inAny (commonRange (ampBands path) lo hi d))) :=
  propagate_spec' path lo hi d l si hmk hp (fun e he => designed_wf e (hdes e he))

/-- a rejected spectrum is rejected by the propagation with the same error -/
theorem propagate_rejects (path : List Elem) (lo hi : Option Int) (d : Int) (l : List Ch) (e : Err)
    (h : mkSpectrum l = .error e) : propagate path lo hi d l = .error .spectrum := by
  have := mk_error_kind' l e h
  subst this
  simp only [propagate, h]

/-! ### non-vacuity: concrete C+L spectra and a mixed single-band and multi-band path (all hypotheses decidable) -/

/-- unsorted input: two C-band channels (one edge-aligned), one L-band channel, one in the gap between the bands -/
def exChans : List Ch :=
  [{ f := 193100000000000, slot := 50000000000, baud := 32000000000, pay := 0 },
   { f := 186025000000000, slot := 50000000000, baud := 32000000000, pay := 1 },
   { f := 191325000000000, slot := 50000000000, baud := 42000000000, pay := 2 },
   { f := 190500000000000, slot := 75000000000, baud := 64000000000, pay := 3 }]
def exPath : List Elem := [.other, .multiband [exC, exL] [exC, exL], .other, .edfa [exC], .other]

example : mkSpectrum exChans = .ok (sortF exChans) := by decide
example : Pos exChans := by
  intro c hc
  simp only [exChans, List.mem_cons, List.mem_nil_iff, or_false] at hc
  rcases hc with rfl | rfl | rfl | rfl <;> decide
example : ∀ e ∈ exPath, e.WF := by
  intro e he
  simp only [exPath, List.mem_cons, List.mem_nil_iff, or_false] at he
  rcases he with rfl | rfl | rfl | rfl | rfl
  · trivial
  · refine ⟨?_, ?_, fun _ => rfl⟩ <;> simp [BandDisj, exC, exL]
  · trivial
  · exact ⟨exC, rfl⟩
  · trivial
/-- the path keeps exactly the two C-band channels (common range = C), sorted -/
example : propagate exPath none none 50000000000 exChans =
    .ok [{ f := 191325000000000, slot := 50000000000, baud := 42000000000, pay := 2 },
         { f := 193100000000000, slot := 50000000000, baud := 32000000000, pay := 0 }] := by decide
/-- overlapping channels are rejected -/
example : mkSpectrum [{ f := 193100000000000, slot := 50000000000, baud := 32000000000, pay := 0 },
                      { f := 193125000000000, slot := 50000000000, baud := 32000000000, pay := 1 }] = .error .spectrum := by
  decide
/-- overlapping amplifier bands are rejected -/
example : multibandCall [exC, { fmin := 193000000000000, fmax := 197000000000000 }]
    [{ f := 193100000000000, slot := 50000000000, baud := 32000000000, pay := 0 }] = .error .spectrum := by decide

end Gnpy.Bands
