import GnpyModel
import GnpyProofs.Lemmas.DesignNum
import GnpyProofs.Lemmas.ChainPad
import GnpyProofs.Props.C08
/- Property theorems for C09 — designed gains close the power budget and follow the documented power rule.
   Model: GnpyModel/Design.lean (`ampStep` = set_one_amplifier + set_amplifier_voa, `designAmps` = the walk of
   set_egress_amplifier, `targetPower`, `round2float`).  All statements over ℝ, for every configuration. -/
namespace Gnpy.Chain

/-! ### the documented rule: rounding and clamping -/

/-- Python's `round(x, 0)` is never further than 1/2 from `x` -/
theorem rint_error (x : ℝ) : |(Rint.rint x : ℝ) - x| ≤ 1 / 2 := realRint_error x

/-- `round2float(x, step)` is within `s/2 + 0.05` of `x` for the effective step `s = round(step, 1) ≥ 0.01`,
and within `0.005` when the step is (rounded to) zero -/
theorem round2float_error (x step : ℝ) (hs : 0 ≤ round1 step) :
    (1 / 100 ≤ round1 step → |round2float x step - x| ≤ round1 step / 2 + 1 / 20) ∧
    (round1 step < 1 / 100 → |round2float x step - x| ≤ 1 / 200) := by
  constructor
  · intro h
    have hpos : 0 < round1 step := by linarith
    simp only [round2float, hundredth, Nat.cast_one, Nat.cast_ofNat]
    rw [if_pos h]
    set s := round1 step with hsdef
    have e1 := round1_error (Rint.rint (x / s) * s)
    have e2 := realRint_error (x / s)
    rw [rint_real]
    rw [rint_real] at e1
    have e3 : |realRint (x / s) * s - x| ≤ s / 2 := by
      have : realRint (x / s) * s - x = (realRint (x / s) - x / s) * s := by field_simp
      rw [this, abs_mul, abs_of_pos hpos]
      nlinarith [abs_nonneg (realRint (x / s) - x / s)]
    calc |round1 (realRint (x / s) * s) - x|
        = |(round1 (realRint (x / s) * s) - realRint (x / s) * s) + (realRint (x / s) * s - x)| := by ring_nf
      _ ≤ |round1 (realRint (x / s) * s) - realRint (x / s) * s| + |realRint (x / s) * s - x| := abs_add_le _ _
      _ ≤ s / 2 + 1 / 20 := by linarith
  · intro h
    simp only [round2float, hundredth, Nat.cast_one, Nat.cast_ofNat]
    rw [if_neg (not_le.mpr h)]
    exact round2_error x

/-- **0 before a ROADM** -/
theorem targetPower_roadm (c : Cfg ℝ) (l : ℝ) : targetPower c true l = 0 := by
  simp [targetPower]

/-- **clamped to the configured range** -/
theorem targetPower_range (c : Cfg ℝ) (l : ℝ) (h : c.dpLo ≤ c.dpHi) :
    c.dpLo ≤ targetPower c false l ∧ targetPower c false l ≤ c.dpHi := by
  simp only [targetPower, Bool.false_eq_true, if_false, pmin_eq, pmax_eq]
  exact ⟨le_min h (le_max_left _ _), min_le_left _ _⟩

/-- **slope × (next span loss − reference), rounded to the step**: when the rounded value lies inside the range the
target is that value, and it is within `s/2 + 0.05` of `slope·(loss − ref)` -/
theorem dp_rule_rounding (c : Cfg ℝ) (l : ℝ) (hs : 1 / 100 ≤ round1 c.dpStep)
    (hlo : c.dpLo ≤ round2float ((l - c.lossRef) * c.slope) c.dpStep)
    (hhi : round2float ((l - c.lossRef) * c.slope) c.dpStep ≤ c.dpHi) :
    targetPower c false l = round2float ((l - c.lossRef) * c.slope) c.dpStep ∧
    |targetPower c false l - c.slope * (l - c.lossRef)| ≤ round1 c.dpStep / 2 + 1 / 20 := by
  have e : targetPower c false l = round2float ((l - c.lossRef) * c.slope) c.dpStep := by
    simp only [targetPower, Bool.false_eq_true, if_false, pmin_eq, pmax_eq]
    rw [max_eq_right hlo, min_eq_right hhi]
  refine ⟨e, ?_⟩
  rw [e, mul_comm c.slope]
  exact (round2float_error _ _ (by linarith)).1 hs

/-! ### one amplifier -/

/-- **Where the operator set no offset it is the documented rule** (plus the operator's VOA, so that the power entering
the next span is the rule's value): `dp = target_power(next) + out_voa`. -/
theorem dp_rule (c : Cfg ℝ) (pref prefTotal prevDp prevVoa : ℝ) (a : AmpIn ℝ) (hu : a.user.deltaP = none)
    (hm : c.powerMode = true) :
    (ampStep c pref prefTotal prevDp prevVoa a).dp0 = targetPower c a.nextIsRoadm a.nextLoss + a.user.outVoa.getD 0 ∧
    (ampStep c pref prefTotal prevDp prevVoa a).retDp - (ampStep c pref prefTotal prevDp prevVoa a).retVoa
      = targetPower c a.nextIsRoadm a.nextLoss + (ampStep c pref prefTotal prevDp prevVoa a).reduction := by
  simp only [ampStep, computeTargets, hu, hm, truthy_eq]
  cases a.user.gain <;> simp <;> ring

/-- **Each amplifier's gain equals the loss since the previous amplifier plus the change of target** (and its input
VOA): `gain = node_loss + _delta_p − (prev_dp − prev_voa) + in_voa`, in power mode and in gain mode, whatever the
user settings, reduction or VOA optimisation. -/
theorem gain_closes_budget (c : Cfg ℝ) (pref prefTotal prevDp prevVoa : ℝ) (a : AmpIn ℝ) :
    (ampStep c pref prefTotal prevDp prevVoa a).gain
      = a.nodeLoss + (ampStep c pref prefTotal prevDp prevVoa a).dpInt - (prevDp - prevVoa)
        + (ampStep c pref prefTotal prevDp prevVoa a).inVoa := by
  simp only [ampStep, computeTargets, truthy_eq]
  cases hg : a.user.gain <;> cases hm : c.powerMode <;> cases hv : a.user.outVoa <;> cases ha : a.sel.outVoaAuto <;>
    cases hd : a.user.deltaP <;> simp <;> ring

/-- what the next amplifier sees (`prev_dp − prev_voa`) is what leaves this one after its VOA (`_delta_p − out_voa`) -/
theorem net_offset (c : Cfg ℝ) (pref prefTotal prevDp prevVoa : ℝ) (a : AmpIn ℝ) :
    (ampStep c pref prefTotal prevDp prevVoa a).dpInt - (ampStep c pref prefTotal prevDp prevVoa a).outVoa
      = (ampStep c pref prefTotal prevDp prevVoa a).retDp - (ampStep c pref prefTotal prevDp prevVoa a).retVoa := by
  simp only [ampStep, computeTargets, truthy_eq]
  cases hg : a.user.gain <;> cases hm : c.powerMode <;> cases hv : a.user.outVoa <;> cases ha : a.sel.outVoaAuto <;>
    cases hd : a.user.deltaP <;> simp

/-- **The reference channel leaves every amplifier at reference power + its power offset** (and the fibre after the VOA
sees `p_ref + _delta_p − out_voa`): by induction along any OMS, for every mix of user settings, provided the loss
the design used for each span (`node_loss`) is the loss the channel really sees. -/
theorem ref_power_invariant (c : Cfg ℝ) (pref prefTotal : ℝ) :
    ∀ (steps : List (Step ℝ)) (p pd pv : ℝ), p = pref + pd - pv →
      (∀ s ∈ steps, s.trueLoss = s.inp.nodeLoss) →
      refPowers c pref prefTotal p pd pv steps = refTargets c pref prefTotal pd pv steps := by
  intro steps
  induction steps with
  | nil => intro p pd pv _ _; simp [refPowers, refTargets]
  | cons s rest ih =>
    intro p pd pv hp hl
    simp only [refPowers, refTargets]
    have hs : s.trueLoss = s.inp.nodeLoss := hl s (by simp)
    have hb := gain_closes_budget c pref prefTotal pd pv s.inp
    have hn := net_offset c pref prefTotal pd pv s.inp
    have e1 : p - s.trueLoss - (ampStep c pref prefTotal pd pv s.inp).inVoa + (ampStep c pref prefTotal pd pv s.inp).gain
        = pref + (ampStep c pref prefTotal pd pv s.inp).dpInt := by
      rw [hb, hs, hp]; ring
    rw [e1]
    congr 1
    apply ih
    · linarith
    · intro s' hs'
      exact hl s' (by simp [hs'])

/-! ### saturation -/

/-- the reduction is never positive: design only ever lowers a target -/
theorem saturation_only_reduces (c : Cfg ℝ) (prefTotal prevDp prevVoa : ℝ) (a : AmpIn ℝ) (g pt dp : ℝ) :
    powerReduction c prefTotal prevDp prevVoa a g pt dp ≤ 0 := by
  unfold powerReduction
  split_ifs <;> simp only [pmin_eq, Nat.cast_zero] <;> first | exact min_le_right _ _ | exact min_le_left _ _

/-- **power mode, imposed amplifier model: total design power never exceeds p_max, and the offset is reduced only as
needed** — no reduction when it fits, and exactly to `p_max` when it does not -/
theorem saturation_minimal (c : Cfg ℝ) (prefTotal prevDp prevVoa : ℝ) (a : AmpIn ℝ) (g pt dp : ℝ)
    (hv : (a.user.variety == "") = false) (hm : c.powerMode = true) :
    prefTotal + (dp + powerReduction c prefTotal prevDp prevVoa a g pt dp) ≤ a.sel.pMax ∧
    (prefTotal + dp ≤ a.sel.pMax → powerReduction c prefTotal prevDp prevVoa a g pt dp = 0) ∧
    (a.sel.pMax < prefTotal + dp →
      prefTotal + (dp + powerReduction c prefTotal prevDp prevVoa a g pt dp) = a.sel.pMax) := by
  simp only [powerReduction, hv, hm, pmin_eq, Nat.cast_zero, Bool.false_eq_true, if_false, if_true]
  refine ⟨?_, ?_, ?_⟩
  · rcases le_total 0 (a.sel.pMax - (prefTotal + dp)) with h | h
    · rw [min_eq_left h]; linarith
    · rw [min_eq_right h]; linarith
  · intro h; exact min_eq_left (by linarith)
  · intro h; rw [min_eq_right (by linarith)]; ring

/-- gain mode, imposed model: the operator's gain is reduced only when the output estimated by the code exceeds p_max,
and then exactly to p_max.  The code's estimate `pout` leaves the input VOA out; with `in_voa = 0` it is the real
output, hence the full statement holds there (`saturation_minimal_gain_mode_no_in_voa`); with `in_voa ≠ 0` the
reduction is `in_voa` dB too large (`gain_mode_in_voa_over_reduction_fails_current`). -/
theorem saturation_minimal_gain_mode (c : Cfg ℝ) (prefTotal prevDp prevVoa : ℝ) (a : AmpIn ℝ) (g pt dp : ℝ)
    (hv : (a.user.variety == "") = false) (hm : c.powerMode = false) :
    let pout := prefTotal + prevDp - a.nodeLoss - prevVoa + g
    pout + powerReduction c prefTotal prevDp prevVoa a g pt dp ≤ a.sel.pMax ∧
    (pout ≤ a.sel.pMax → powerReduction c prefTotal prevDp prevVoa a g pt dp = 0) ∧
    (a.sel.pMax < pout → pout + powerReduction c prefTotal prevDp prevVoa a g pt dp = a.sel.pMax) := by
  simp only [powerReduction, hv, hm, pmin_eq, Nat.cast_zero, Bool.false_eq_true, if_false]
  refine ⟨?_, ?_, ?_⟩
  · rcases le_total 0 (a.sel.pMax - (prefTotal + prevDp - a.nodeLoss - prevVoa + g)) with h | h
    · rw [min_eq_left h]; linarith
    · rw [min_eq_right h]; linarith
  · intro h; exact min_eq_left (by linarith)
  · intro h; rw [min_eq_right (by linarith)]; ring

/-- gain mode, operator gain `g`, no input VOA: the design output `pref_total + _delta_p` never exceeds p_max and the
operator's gain is kept whenever the output it gives fits -/
theorem saturation_minimal_gain_mode_no_in_voa (c : Cfg ℝ) (pref prefTotal prevDp prevVoa : ℝ) (a : AmpIn ℝ) (g : ℝ)
    (hv : (a.user.variety == "") = false) (hm : c.powerMode = false) (hg : a.user.gain = some g)
    (hiv : a.user.inVoa.getD 0 = 0) :
    prefTotal + (ampStep c pref prefTotal prevDp prevVoa a).dpInt ≤ a.sel.pMax ∧
    (prefTotal + prevDp - prevVoa - a.nodeLoss + g ≤ a.sel.pMax →
      (ampStep c pref prefTotal prevDp prevVoa a).gain = g) := by
  have h := saturation_minimal_gain_mode c prefTotal prevDp prevVoa a g
    (prefTotal + (prevDp - a.nodeLoss - prevVoa + g - a.user.inVoa.getD 0))
    (prevDp - a.nodeLoss - prevVoa + g - a.user.inVoa.getD 0) hv hm
  simp only at h
  obtain ⟨h1, h2, _⟩ := h
  constructor
  · simp only [ampStep, computeTargets, hm, hg, truthy_eq, hiv] at h1 ⊢
    simp at h1 ⊢
    linarith
  · intro hfit
    have hz := h2 (by linarith)
    simp only [ampStep, computeTargets, hm, hg, truthy_eq] at hz ⊢
    simp at hz ⊢
    rw [hz]

/-- **Current code, open finding gain-mode-in-voa-saturation:** gain mode, operator model with p_max 23, operator gain
30 dB, `in_voa = 1`: input −1 dBm total → the gain is cut to 24 dB and the amplifier delivers 22 dBm, 1 dB (= in_voa)
below what p_max allows -/
theorem gain_mode_in_voa_over_reduction_fails_current :
    ∃ (c : Cfg ℝ) (pref prefTotal prevDp prevVoa : ℝ) (a : AmpIn ℝ),
      c.powerMode = false ∧ (a.user.variety == "") = false ∧ a.user.gain = some 30 ∧
      (ampStep c pref prefTotal prevDp prevVoa a).gain = 24 ∧
      prefTotal + (ampStep c pref prefTotal prevDp prevVoa a).dpInt = 22 ∧ (22:ℝ) < a.sel.pMax := by
  refine ⟨{ powerMode := false, dpLo := -2, dpHi := 3, dpStep := 0.5, lossRef := 20, slope := 0.3, voaMargin := 1,
            voaStep := 0.5, extGain := 2.5 }, 0, 19, -20, 0,
          { user := { variety := "std_low_gain", gain := some 30, deltaP := none, outVoa := none, inVoa := some 1,
                      tilt := none },
            sel := { pMax := 23, gainFlatmax := 16, outVoaAuto := false }, nodeLoss := 0, nextIsRoadm := true,
            nextLoss := 0 }, rfl, by decide, rfl, ?_, ?_, by norm_num⟩
  all_goals
    have hdec : ("std_low_gain" == "") = false := by decide
    simp only [ampStep, computeTargets, powerReduction, truthy_eq, pmin_eq, pmax_eq, hdec]
    norm_num

/-- auto-selected model (its p_max / gain_flatmax are inputs, selection is C10): after the reduction the target fits
the model's power AND its extended gain range, and nothing is reduced when both already fit -/
theorem saturation_auto_selected (c : Cfg ℝ) (prefTotal prevDp prevVoa : ℝ) (a : AmpIn ℝ) (g pt dp : ℝ)
    (hv : (a.user.variety == "") = true) :
    pt + powerReduction c prefTotal prevDp prevVoa a g pt dp ≤ a.sel.pMax ∧
    g + powerReduction c prefTotal prevDp prevVoa a g pt dp ≤ a.sel.gainFlatmax + c.extGain ∧
    (pt ≤ a.sel.pMax → g ≤ a.sel.gainFlatmax + c.extGain → powerReduction c prefTotal prevDp prevVoa a g pt dp = 0) := by
  simp only [powerReduction, hv, if_true, pmin_eq, Nat.cast_zero]
  set m := min (pt - g + a.sel.gainFlatmax + c.extGain) a.sel.pMax with hmdef
  have hm1 : m ≤ pt - g + a.sel.gainFlatmax + c.extGain := min_le_left _ _
  have hm2 : m ≤ a.sel.pMax := min_le_right _ _
  refine ⟨?_, ?_, ?_⟩
  · have := min_le_left (m - pt) 0; linarith
  · have := min_le_left (m - pt) 0; linarith
  · intro h1 h2
    apply min_eq_right
    have : pt ≤ m := le_min (by linarith) h1
    linarith

/-- **operator-set gains (gain mode) and offsets (power mode) are kept unless the reduction is non-zero** -/
theorem user_values_kept (c : Cfg ℝ) (pref prefTotal prevDp prevVoa : ℝ) (a : AmpIn ℝ)
    (hr : (ampStep c pref prefTotal prevDp prevVoa a).reduction = 0) :
    (∀ g, c.powerMode = false → a.user.gain = some g → (ampStep c pref prefTotal prevDp prevVoa a).gain = g) ∧
    (∀ d, c.powerMode = true → a.user.deltaP = some d →
      (ampStep c pref prefTotal prevDp prevVoa a).retDp = d ∧
      (ampStep c pref prefTotal prevDp prevVoa a).dpInt - (ampStep c pref prefTotal prevDp prevVoa a).outVoa
        = d - a.user.outVoa.getD 0) := by
  constructor
  · intro g hm hg
    simp only [ampStep, computeTargets, hm, hg] at hr ⊢
    simp at hr ⊢
    rw [hr]
  · intro d hm hd
    have hn := net_offset c pref prefTotal prevDp prevVoa a
    have hret : (ampStep c pref prefTotal prevDp prevVoa a).retDp = d := by
      simp only [ampStep, computeTargets, hm, hd] at hr ⊢
      cases hg : a.user.gain <;> simp [hg] at hr ⊢ <;> linarith
    refine ⟨hret, ?_⟩
    rw [hn, hret]
    simp only [ampStep, computeTargets, truthy_eq, hm]
    cases a.user.gain <;> simp

/-- **the operator's output VOA is kept; without VOA optimisation the VOA is 0** -/
theorem voa_rule (c : Cfg ℝ) (pref prefTotal prevDp prevVoa : ℝ) (a : AmpIn ℝ) :
    (∀ x, a.user.outVoa = some x → (ampStep c pref prefTotal prevDp prevVoa a).outVoa = x) ∧
    (a.user.outVoa = none → ¬ (c.powerMode = true ∧ a.sel.outVoaAuto = true) →
      (ampStep c pref prefTotal prevDp prevVoa a).outVoa = 0) := by
  constructor
  · intro x hx; simp [ampStep, hx]
  · intro hn hna; simp [ampStep, hn, hna]

/-- an automatically set VOA is never negative -/
theorem voa_nonneg (c : Cfg ℝ) (pref prefTotal prevDp prevVoa : ℝ) (a : AmpIn ℝ) (hn : a.user.outVoa = none) :
    0 ≤ (ampStep c pref prefTotal prevDp prevVoa a).outVoa := by
  simp only [ampStep, hn]
  split_ifs
  · rw [pmax_eq]; simp
  · simp

/-- **Current code, defect:** the VOA optimisation rounds to the NEAREST step, so with `voa_margin < voa_step/2` the
added gain can push the amplifier above p_max although the target fitted before: p_max − target = 0.6 dB,
step 1, margin 0 → VOA 1 dB, output 0.4 dB above p_max. (Not reachable with the default margin 1 / step 0.5.) -/
theorem voa_auto_can_exceed_pmax_fails_current :
    ∃ (c : Cfg ℝ) (pref prefTotal prevDp prevVoa : ℝ) (a : AmpIn ℝ),
      c.powerMode = true ∧ (a.user.variety == "") = false ∧
      prefTotal + (ampStep c pref prefTotal prevDp prevVoa a).retDp ≤ a.sel.pMax ∧
      a.sel.pMax < prefTotal + (ampStep c pref prefTotal prevDp prevVoa a).dpInt := by
  refine ⟨{ powerMode := true, dpLo := 0, dpHi := 0, dpStep := 0, lossRef := 20, slope := 0.3, voaMargin := 0,
            voaStep := 1, extGain := 0 }, 0, 0, 0, 0,
          { user := { variety := "x", gain := none, deltaP := some 0, outVoa := none, inVoa := none, tilt := none },
            sel := { pMax := 0.6, gainFlatmax := 100, outVoaAuto := true }, nodeLoss := 10, nextIsRoadm := false,
            nextLoss := 0 }, rfl, by decide, ?_, ?_⟩
  all_goals
    have r10 : realRint 10 = 10 := by
      have := realRint_int_cast 10; simpa using this
    have r06 : realRint ((3:ℝ) / 5) = 1 := by
      have := realRint_of_gt_half 0 ((3:ℝ) / 5) (by norm_num) (by norm_num); simpa using this
    have r1 : realRint 1 = 1 := by
      have := realRint_int_cast 1; simpa using this
    have hdec : ("x" == "") = false := by decide
    simp only [ampStep, computeTargets, powerReduction, truthy_eq, pmin_eq, pmax_eq, round2float, round1, hundredth,
      rint_real, hdec]
    norm_num [r10, r06, r1]
    try norm_num [r10, r06, r1]

/-- the loss the gain computation uses for a padded span (`span_loss(prev_node)` with its cached
`design_span_loss`) is the loss of the span — so `ref_power_invariant` applies to padded spans as well -/
theorem nodeLoss_is_true_loss (padding : ℝ) (r : List (Elem ℝ)) (u : String) (p : FiberP ℝ) (v : String)
    (q : FiberP ℝ) (t : List (Elem ℝ)) (hr : r = .fiber v q :: t) (hl : r.getLast? = some (.fiber u p))
    (hnr : p.raman = false) :
    lastSpanLoss (padRun padding r) = runLoss (padRun padding r) := by
  obtain ⟨p', hl', _, hd⟩ := padRun_dsl padding r u p v q t hr hl hnr
  unfold lastSpanLoss
  rw [hl']
  simp only [Elem.dsl, hd]

/-! ### the recorded reference input powers are what the designed line delivers -/

/-- every amplifier of the line closes the budget for the power that reaches it: `p − in_voa + gain = p_ref + _delta_p`
(this is `gain_closes_budget` with `node_loss` = the loss walked since the previous amplifier, cf.
`ref_power_invariant`, `nodeLoss_is_true_loss`) -/
def BudgetOK (pref : ℝ) : ℝ → List (Elem ℝ) → List (AmpOut ℝ) → Prop
  | _, [], _ => True
  | p, .edfa _ _ :: rest, o :: outs =>
    p - o.inVoa + o.gain = pref + o.dpInt ∧ BudgetOK pref (pref + o.dpInt - o.outVoa) rest outs
  | _, .edfa _ _ :: _, [] => True
  | p, .fiber _ q :: rest, outs => BudgetOK pref (p - q.loss) rest outs
  | p, .fused _ l :: rest, outs => BudgetOK pref (p - l) rest outs

/-- **`ref_pch_in_dbm` of fibres and ROADMs** (`set_fiber_input_power`, `set_roadm_input_powers`: amplifier target minus
the losses walked) is the power the reference channel really has there when it is sent through the designed line
without noise — along any line, for any mix of elements. -/
theorem ref_pch_in_consistent (pref : ℝ) :
    ∀ (line : List (Elem ℝ)) (p : ℝ) (outs : List (AmpOut ℝ)), BudgetOK pref p line outs →
      refIns pref p line outs = propIns p line outs := by
  intro line
  induction line with
  | nil => intro p outs _; simp [refIns, propIns]
  | cons e rest ih =>
    intro p outs h
    cases e with
    | fiber u q => simp only [refIns, propIns, BudgetOK] at h ⊢; rw [ih _ _ h]
    | fused u l => simp only [refIns, propIns, BudgetOK] at h ⊢; rw [ih _ _ h]
    | edfa u a =>
      cases outs with
      | nil => simp [refIns, propIns]
      | cons o os =>
        simp only [refIns, propIns, BudgetOK] at h ⊢
        rw [ih _ _ h.2]
        have : p - o.inVoa + o.gain - o.outVoa = pref + o.dpInt - o.outVoa := by rw [h.1]
        rw [this]

/-! ### the design load -/

/-- `automatic_nch` is the number of whole spacings that fit in the band -/
theorem automaticNch_spec (fmin fmax spacing : Int) (hs : 0 < spacing) :
    automaticNch fmin fmax spacing * spacing ≤ fmax - fmin ∧
    fmax - fmin < (automaticNch fmin fmax spacing + 1) * spacing := by
  unfold automaticNch
  exact ⟨Int.ediv_mul_le _ (ne_of_gt hs), Int.lt_ediv_add_one_mul_self _ hs⟩

/-- **the design load of a band is counted with the band's own spacing** unless the reference channel imposes a count:
two bands of the same width and different spacings carry different loads, the same band under two different
reference spacings carries the same load -/
theorem design_load_uses_band_spacing (fmin fmax spacing : Int) :
    designChannels none fmin fmax spacing = automaticNch fmin fmax spacing ∧
    (∀ n, n ≠ 0 → designChannels (some n) fmin fmax spacing = n) ∧
    designChannels none 191300000000000 195100000000000 100000000000 = 38 ∧
    designChannels none 191300000000000 195100000000000 50000000000 = 76 := by
  refine ⟨rfl, ?_, by decide, by decide⟩
  intro n hn
  simp [designChannels, hn]

/-! ### non-vacuity -/

/-- `ref_power_invariant` applied to a two-amplifier OMS with mixed settings (auto booster, user in-line amplifier
with delta_p and VOA): hypotheses are satisfiable and the list is not empty -/
example : ∃ (_c : Cfg ℝ) (steps : List (Step ℝ)) (pref p pd pv : ℝ), steps.length = 2 ∧ p = pref + pd - pv ∧
    (∀ s ∈ steps, s.trueLoss = s.inp.nodeLoss) := by
  let c : Cfg ℝ := { powerMode := true, dpLo := -2, dpHi := 3, dpStep := 0.5, lossRef := 20, slope := 0.3,
                     voaMargin := 1, voaStep := 0.5, extGain := 2.5 }
  let a1 : AmpIn ℝ := { user := newEdfa, sel := { pMax := 23, gainFlatmax := 26, outVoaAuto := false },
                        nodeLoss := 0, nextIsRoadm := false, nextLoss := 16 }
  let a2 : AmpIn ℝ := { user := { variety := "std_low_gain", gain := some 15, deltaP := some 1, outVoa := some 1,
                                  inVoa := none, tilt := none },
                        sel := { pMax := 23, gainFlatmax := 16, outVoaAuto := false },
                        nodeLoss := 16, nextIsRoadm := true, nextLoss := 0 }
  exact ⟨c, [⟨0, a1⟩, ⟨16, a2⟩], 0, -20, -20, 0, rfl, by norm_num, by simp [a1, a2]⟩

/-- the range hypothesis of `targetPower_range` and the step hypothesis of `dp_rule_rounding` hold for the shipped
configuration `[-2, 3, 0.5]` -/
example : (-2:ℝ) ≤ 3 ∧ (1:ℝ) / 100 ≤ round1 (1 / 2) := by
  constructor
  · norm_num
  · have : realRint ((1:ℝ) / 2 * 10) = 5 := by
      have := realRint_int_cast 5; norm_num at this ⊢; exact this
    simp only [round1, rint_real, Nat.cast_ofNat, this]; norm_num


/-- `BudgetOK` (hypothesis of `ref_pch_in_consistent`) on booster – 80 km – preamp -/
example : BudgetOK 0 (-20)
    [.edfa "b" newEdfa,
     .fiber "f" { length := 80000, lossCoef := 0.0002, conIn := some 0, conOut := some 0, attIn := 0, lumps := [],
                  raman := false, ramanGain := none, dsl := none },
     .edfa "p" newEdfa]
    [{ gain := 19, deltaP := some (-1), dpInt := -1, outVoa := 0, inVoa := 0, targetPch := none, retDp := -1, retVoa := 0,
       reduction := 0, dp0 := -1, gain0 := 19, powerTarget := 18 },
     { gain := 17, deltaP := some 0, dpInt := 0, outVoa := 0, inVoa := 0, targetPch := none, retDp := 0, retVoa := 0,
       reduction := 0, dp0 := 0, gain0 := 17, powerTarget := 19 }] := by
  simp only [BudgetOK, FiberP.loss, FiberP.lumped, sumLeft_eq_sum]
  norm_num

end Gnpy.Chain
