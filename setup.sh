#!/bin/sh
# MANIFEST.setup_cmd: offline build of the Lean model, the driver executable and the proofs, then the axiom audit.
cd "$(dirname "$0")" || exit 2
set -e
mkdir -p lean/.lake
if command -v flock >/dev/null 2>&1; then
  flock lean/.lake/verif.lock sh -c 'cd lean && lake build'
else
  (cd lean && lake build)
fi
PYTHONDONTWRITEBYTECODE=1 /venv/bin/python harness/vcheck.py --audit-all
