#!/bin/sh
# MANIFEST.setup_cmd: offline build of the Lean model, the driver executable and the proofs, then the axiom audit.
cd "$(dirname "$0")" || exit 2
set -e
(cd lean && lake build)
PYTHONDONTWRITEBYTECODE=1 /venv/bin/python harness/vcheck.py --audit-all
