"""Amplifier-library builders shared by C04 and C10: generated equipment documents (loaded through
json_io._equipment_from_json), conversion of loaded amplifier parameters to the Lean model's JSON, spectra."""
import copy
import math

from common.util import f2b, fl
from common import nets

C_FMIN, C_FMAX = 191_275_000_000_000, 196_125_000_000_000
L_FMIN, L_FMAX = 186_500_000_000_000, 190_100_000_000_000
SHIPPED = ['eqpt_config.json', 'eqpt_config_multiband.json', 'eqpt_config_openroadm_ver4.json',
           'eqpt_config_openroadm_ver5.json']
OPENROADM_COEFS = [[-0.0008104, -0.06221, -0.5889, 37.62], [-0.0005952, -0.0625, -1.071, 28.99],
                   [-0.0005952, -0.0625, -1.071, 27.99]]


# ---------------------------------------------------------------------------------------------------------------------
# generated library entries
# ---------------------------------------------------------------------------------------------------------------------

def _db2lin(x):
    return 10 ** (x / 10)


def _lin2db(x):
    return 10 * math.log10(x)


def vg_entry(rng, name, wild=False):
    """variable_gain entry.  nf_min/nf_max are derived from a random two-coil solution (nf1, nf2, delta_p=5) and
    rounded to 2 decimals, so that estimate_nf_model mostly accepts them (both its branches are reached);
    wild=True draws nf_min/nf_max freely (often rejected)."""
    gmin = rng.choice([5, 8, 10, 12, 15, 18, 20, 25, round(rng.uniform(3, 28), 1)])
    gmax = gmin + rng.choice([5, 8, 10, 11, 12, round(rng.uniform(3, 14), 1)])
    if wild:
        nf_min = round(rng.uniform(-12, 9), 2)
        nf_max = round(nf_min + rng.uniform(-1, 9), 2)
    else:
        nf1 = rng.uniform(4.05, 8.0)
        if rng.random() < 0.4:
            # coils within the accepted range but another inter-stage loss: reaches the clipped branch with a
            # recomputed delta_p far from 5
            nf2 = nf1 + rng.uniform(0.3, 2.0)
            dp = rng.uniform(1.2, 10.5)
        else:
            nf2 = nf1 + rng.uniform(0.1, 2.3)       # partly outside (0.3, 2): the clipped branch, delta_p near 5
            dp = 5
        g1a_max = gmax - dp
        g1a_min = gmin - (gmax - gmin) - dp
        nf_min = round(_lin2db(_db2lin(nf1) + _db2lin(nf2) / _db2lin(g1a_max)), 2)
        nf_max = round(_lin2db(_db2lin(nf1) + _db2lin(nf2) / _db2lin(g1a_min)), 2)
    return {'type_variety': name, 'type_def': 'variable_gain', 'gain_flatmax': gmax, 'gain_min': gmin,
            'p_max': rng.choice([16, 20, 21, 23, 25, round(rng.uniform(14, 27), 1)]),
            'nf_min': nf_min, 'nf_max': nf_max, 'out_voa_auto': False, 'allowed_for_design': True}


def fg_entry(rng, name):
    gmax = rng.choice([12, 16, 21, 25, round(rng.uniform(8, 30), 1)])
    return {'type_variety': name, 'type_def': 'fixed_gain', 'gain_flatmax': gmax,
            'gain_min': gmax - rng.choice([0, 1, 1, 3]), 'p_max': rng.choice([18, 21, 23]),
            'nf0': rng.choice([5.5, 6.0, -1, round(rng.uniform(4, 9), 2)]), 'allowed_for_design': True}


def or_entry(rng, name, kind=None):
    kind = kind or rng.choice(['openroadm', 'openroadm', 'openroadm_preamp', 'openroadm_booster'])
    e = {'type_variety': name, 'type_def': kind, 'gain_flatmax': rng.choice([27, 32, 25]), 'gain_min': 0,
         'p_max': rng.choice([22, 20, 25]), 'allowed_for_design': True}
    if kind == 'openroadm':
        e['nf_coef'] = list(rng.choice(OPENROADM_COEFS))
    return e


def adv_config(rng, fmin=C_FMIN, fmax=C_FMAX, ripple=True):
    """an advanced / default configuration document (nf polynomial, ripples, dgt) with few knots"""
    n = rng.choice([2, 3, 5, 8, 13])
    nd = rng.choice([2, 4, 9, 17])
    base = 1.0
    dgt = []
    for _ in range(nd):
        dgt.append(round(base, 6))
        base += rng.uniform(0.02, 0.25)
    amp = rng.choice([0.0, 0.03, 0.2, 0.5]) if ripple else 0.0
    return {'nf_fit_coeff': [round(rng.uniform(-3e-4, 3e-4), 7), round(rng.uniform(0, 0.06), 5),
                             round(rng.uniform(-0.3, 0.3), 4), round(rng.uniform(5, 7), 3)],
            'f_min': float(fmin), 'f_max': float(fmax),
            'nf_ripple': [round(rng.uniform(-amp, amp), 4) for _ in range(n)],
            'gain_ripple': [round(rng.uniform(-amp, amp), 4) for _ in range(n)],
            'dgt': dgt}


def adv_entry(rng, name, cfg_name):
    gmin = rng.choice([10, 15, 18])
    return {'type_variety': name, 'type_def': 'advanced_model', 'gain_flatmax': gmin + rng.choice([8, 10, 12]),
            'gain_min': gmin, 'p_max': rng.choice([21, 23]), 'advanced_config_from_json': cfg_name,
            'out_voa_auto': False, 'allowed_for_design': False}


def split_pmax(rng, entries, pre, boost):
    """give the two stage entries of a dual-stage type clearly different p_max (either order)"""
    pe = next(e for e in entries if e['type_variety'] == pre)
    be = next(e for e in entries if e['type_variety'] == boost)
    if pe is be:
        return
    d = rng.choice([2, 3, 4, 5])
    if rng.random() < 0.5:
        pe['p_max'] = be['p_max'] + d
    else:
        pe['p_max'] = be['p_max'] - d


def dual_entry(rng, name, pre, boost, gain_min=None):
    return {'type_variety': name, 'type_def': 'dual_stage', 'gain_min': gain_min if gain_min is not None else 25,
            'preamp_variety': pre, 'booster_variety': boost, 'allowed_for_design': True}


def eqpt_doc(edfa_entries, span=None, roadm=None):
    """the shipped eqpt_config.json document with its Edfa list replaced"""
    doc = nets.eqpt_json()
    doc['Edfa'] = copy.deepcopy(edfa_entries)
    if span:
        doc['Span'][0].update(span)
    if roadm:
        doc['Roadm'][0].update(roadm)
    return doc


def load_doc(doc, extra=None):
    from gnpy.tools.json_io import _equipment_from_json, DEFAULT_EXTRA_CONFIG
    cfgs = dict(DEFAULT_EXTRA_CONFIG)
    if extra:
        cfgs.update(copy.deepcopy(extra))
    return _equipment_from_json(copy.deepcopy(doc), cfgs)


# ---------------------------------------------------------------------------------------------------------------------
# loaded parameters -> model JSON
# ---------------------------------------------------------------------------------------------------------------------

def model_json(type_def, nf_model, nf_fit_coeff):
    if type_def == 'variable_gain':
        return {'kind': type_def, 'nf1': f2b(nf_model.nf1), 'nf2': f2b(nf_model.nf2), 'delta_p': f2b(nf_model.delta_p)}
    if type_def == 'fixed_gain':
        return {'kind': type_def, 'nf0': f2b(nf_model.nf0)}
    if type_def == 'openroadm':
        return {'kind': type_def, 'coef': fl(nf_model.nf_coef)}
    if type_def in ('openroadm_preamp', 'openroadm_booster'):
        return {'kind': type_def}
    if type_def == 'advanced_model':
        return {'kind': type_def, 'coef': fl(nf_fit_coeff)}
    raise ValueError(type_def)


def stage_json(type_def, nf_model, fit, gmin, gmax):
    return {'model': model_json(type_def, nf_model, fit), 'gain_min': f2b(gmin), 'gain_flatmax': f2b(gmax)}


def nf_json(p):
    """p: EdfaParams or json_io.Amp (same attribute names)"""
    if p.type_def == 'dual_stage':
        return {'kind': 'dual',
                'pre': stage_json(p.preamp_type_def, p.preamp_nf_model, p.preamp_nf_fit_coeff, p.preamp_gain_min,
                                  p.preamp_gain_flatmax),
                'boost': stage_json(p.booster_type_def, p.booster_nf_model, p.booster_nf_fit_coeff,
                                    p.booster_gain_min, p.booster_gain_flatmax)}
    return {'kind': 'single', 'stage': stage_json(p.type_def, p.nf_model, p.nf_fit_coeff, p.gain_min, p.gain_flatmax)}


def stage_of(a):
    """NF stage of a stand-alone (non dual) loaded library entry"""
    return stage_json(a.type_def, a.nf_model, a.nf_fit_coeff, a.gain_min, a.gain_flatmax)


def dual_names(p):
    return p.dual_stage_model.preamp_variety, p.dual_stage_model.booster_variety


def nf_json_from_library(p, eq):
    """like nf_json, but the two stages of a dual-stage amplifier are taken from the stand-alone library entries
    the dual-stage entry names (what _update_dual_stage must copy), not from the copied preamp_*/booster_* attributes"""
    if p.type_def == 'dual_stage' and eq is not None:
        pre, boost = dual_names(p)
        return {'kind': 'dual', 'pre': stage_of(eq['Edfa'][pre]), 'boost': stage_of(eq['Edfa'][boost])}
    return nf_json(p)


def amp_json(p, eq=None, limits=None):
    """limits = (p_max, gain_flatmax) derived by the model (dual stage); default: the loaded values"""
    p_max, gfm = limits if limits is not None else (p.p_max, p.gain_flatmax)
    return {'fmin': int(p.f_min), 'fmax': int(p.f_max), 'gain_flatmax': f2b(gfm), 'p_max': f2b(p_max),
            'nf': nf_json_from_library(p, eq), 'dgt': fl(p.dgt), 'gain_ripple': fl(p.gain_ripple),
            'nf_ripple': fl(p.nf_ripple)}


def raw_entries(lib):
    """type_variety -> the JSON entry of the library document (shipped or generated), aliases included"""
    doc = nets.eqpt_json(lib['shipped'])['Edfa'] if 'shipped' in lib else lib['edfa']
    out = {}
    for e in doc:
        out[e['type_variety']] = e
        for alias in e.get('other_name', []):
            out[alias] = e
    return out


def limits_json(e):
    return {'p_max': f2b(e['p_max']), 'gain_flatmax': f2b(e['gain_flatmax']), 'gain_min': f2b(e['gain_min'])}


# ---------------------------------------------------------------------------------------------------------------------
# independent NF evaluation for the monitors (own arithmetic; math module only)
# ---------------------------------------------------------------------------------------------------------------------

def mon_polyval(c, x):
    y = 0.0
    for k in c:
        y = y * x + k
    return y


def mon_stage_nf(type_def, nf_model, fit, gmin, gmax, g, pin_db, nch, slot_width):
    pad = max(gmin - g, 0)
    g = g + pad
    dg = max(gmax - g, 0)
    if type_def == 'variable_gain':
        g1a = g - nf_model.delta_p - dg
        nf = 10 * math.log10(10 ** (nf_model.nf1 / 10) + 10 ** (nf_model.nf2 / 10) / 10 ** (g1a / 10))
    elif type_def == 'fixed_gain':
        nf = nf_model.nf0
    elif type_def == 'openroadm':
        x = pin_db - 10 * math.log10(nch) + 10 * math.log10(50e9 / slot_width)
        nf = x - mon_polyval(nf_model.nf_coef, x) + 58
    elif type_def == 'openroadm_preamp':
        x = pin_db - 10 * math.log10(nch) + 10 * math.log10(50e9 / slot_width)
        nf = x - min((4 * x + 275) / 7, 33) + 58
    elif type_def == 'openroadm_booster':
        nf = -math.inf
    elif type_def == 'advanced_model':
        nf = mon_polyval(fit, -dg)
    else:
        raise ValueError(type_def)
    return nf + pad, pad


def mon_nf(p, g, pin_db=0.0, nch=88, slot_width=50e9, eq=None):
    """average NF (dB) of a loaded amplifier at effective gain g, and the input padding. For a dual-stage type the two
    stages are read from the stand-alone LIBRARY entries it names when `eq` is given (cascade F = F1 + F2/G1, each stage
    with ITS OWN gain_min / gain_flatmax / NF model), not from the attributes copied onto the element"""
    if p.type_def == 'dual_stage':
        if eq is not None:
            pre, boost = (eq['Edfa'][n] for n in dual_names(p))
            s1 = (pre.type_def, pre.nf_model, pre.nf_fit_coeff, pre.gain_min, pre.gain_flatmax)
            s2 = (boost.type_def, boost.nf_model, boost.nf_fit_coeff, boost.gain_min, boost.gain_flatmax)
        else:
            s1 = (p.preamp_type_def, p.preamp_nf_model, p.preamp_nf_fit_coeff, p.preamp_gain_min, p.preamp_gain_flatmax)
            s2 = (p.booster_type_def, p.booster_nf_model, p.booster_nf_fit_coeff, p.booster_gain_min,
                  p.booster_gain_flatmax)
        g1 = s1[4]
        n1, _ = mon_stage_nf(*s1, g1, pin_db, nch, slot_width)
        n2, _ = mon_stage_nf(*s2, g - g1, pin_db, nch, slot_width)
        lin = (0.0 if n1 == -math.inf else 10 ** (n1 / 10)) + (0.0 if n2 == -math.inf else 10 ** ((n2 - g1) / 10))
        return (10 * math.log10(lin) if lin > 0 else -math.inf), 0
    return mon_stage_nf(p.type_def, p.nf_model, p.nf_fit_coeff, p.gain_min, p.gain_flatmax, g, pin_db, nch, slot_width)


# ---------------------------------------------------------------------------------------------------------------------
# spectra (integer Hz)
# ---------------------------------------------------------------------------------------------------------------------

SLOTS = [50_000_000_000, 75_000_000_000, 37_500_000_000, 100_000_000_000, 62_500_000_000]


def comb(rng, fmin, fmax, n, slot=None, lead=0):
    """n equally spaced channels [f, slot, baud] starting `lead` Hz above the lowest admissible centre"""
    slot = slot or rng.choice(SLOTS)
    baud = rng.choice([b for b in (32e9, 42e9, 56e9, 64e9, 90e9, 28e9) if b <= slot] or [28e9])
    f = fmin + slot // 2 + lead
    out = []
    for _ in range(n):
        if f + slot // 2 > fmax:
            break
        out.append([f, slot, baud])
        f += slot
    return out
