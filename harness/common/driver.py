"""Pipe to the compiled Lean model driver (lean/.lake/build/bin/gnpydriver), JSON lines."""
import json
import os
import subprocess

VERIF = os.path.dirname(os.path.dirname(os.path.dirname(os.path.abspath(__file__))))
DRIVER = os.path.join(VERIF, 'lean', '.lake', 'build', 'bin', 'gnpydriver')


class ModelError(Exception):
    """The model driver answered {"err": ...} (malformed request or model-side rejection)."""


class Driver:
    def __init__(self):
        self.p = subprocess.Popen([DRIVER], stdin=subprocess.PIPE, stdout=subprocess.PIPE, text=True, bufsize=1)
        self.calls = 0

    def ask(self, op, **args):
        """one request, one answer; raises ModelError on {"err":...}"""
        args['op'] = op
        self.p.stdin.write(json.dumps(args) + '\n')
        self.p.stdin.flush()
        line = self.p.stdout.readline()
        if not line:
            raise RuntimeError('model driver died')
        self.calls += 1
        ans = json.loads(line)
        if 'err' in ans:
            raise ModelError(ans['err'])
        return ans['ok']

    def close(self):
        try:
            self.p.stdin.close()
            self.p.wait(timeout=5)
        except Exception:
            self.p.kill()
