"""Shared helpers of the correspondence harness (DESIGN.md §2.1/2.2)."""
import hashlib
import json
import math
import struct
from collections import Counter


def f2b(x):
    """float -> IEEE-754 bit pattern (what crosses the pipe to the Lean driver)."""
    return struct.unpack('<Q', struct.pack('<d', float(x)))[0]


def b2f(n):
    """bit pattern -> float."""
    return struct.unpack('<d', struct.pack('<Q', int(n)))[0]


def fl(xs):
    return [f2b(x) for x in xs]


def bl(ns):
    return [b2f(n) for n in ns]


def canon_hash(obj):
    return hashlib.sha256(json.dumps(obj, sort_keys=True, default=str).encode()).hexdigest()[:16]


def close(a, b, rel=1e-9, abs_=1e-12):
    """class-F comparison: same real formula evaluated twice in binary64."""
    if a is None or b is None:
        return a is None and b is None
    a = float(a)
    b = float(b)
    if math.isnan(a) or math.isnan(b):
        return math.isnan(a) and math.isnan(b)
    if math.isinf(a) or math.isinf(b):
        return a == b
    return abs(a - b) <= max(abs_, rel * max(abs(a), abs(b)))


def close_list(xs, ys, rel=1e-9, abs_=1e-12):
    return len(xs) == len(ys) and all(close(a, b, rel, abs_) for a, b in zip(xs, ys))


def first_diff(xs, ys, rel=1e-9, abs_=1e-12):
    if len(xs) != len(ys):
        return ('len', len(xs), len(ys))
    for i, (a, b) in enumerate(zip(xs, ys)):
        if not close(a, b, rel, abs_):
            return (i, a, b)
    return None


ERR_KINDS = ['SpectrumError', 'NetworkTopologyError', 'ConfigurationError', 'ServiceError',
             'DisjunctionError', 'EquipmentConfigError', 'ParametersError', 'ValueError', 'IndexError',
             'KeyError', 'TypeError', 'ZeroDivisionError', 'AttributeError']


def err_kind(exc):
    """map an exception of the implementation to the small enum used on both sides."""
    for cls in type(exc).__mro__:
        if cls.__name__ in ERR_KINDS:
            return cls.__name__
    return 'other:' + type(exc).__name__


class Result:
    """What one case produced.

    mismatches : correspondence differences  [{'fn':..., 'impl':..., 'model':..., ...}]
    failures   : property-monitor failures on the implementation  [{'what':..., 'cls':..., ...}]
                 'cls' is the finding class matched against known_findings.txt
    nontrivial : the case is non-trivial by the property's rule
    key        : canonical hash of the case (distinctness)
    stats      : Counter of distribution facts (branches hit, sizes, outcomes...)
    compared   : number of model-vs-implementation values compared
    ill        : number of comparisons skipped as ill-conditioned (class D, margin too small)
    """

    def __init__(self):
        self.mismatches = []
        self.failures = []
        self.nontrivial = False
        self.key = None
        self.stats = Counter()
        self.compared = 0
        self.ill = 0

    def mismatch(self, fn, impl, model, **kw):
        d = {'fn': fn, 'impl': impl, 'model': model}
        d.update(kw)
        self.mismatches.append(d)

    def fail(self, what, cls='unlisted', **kw):
        d = {'what': what, 'cls': cls}
        d.update(kw)
        self.failures.append(d)

    def cmp_exact(self, fn, impl, model, **kw):
        self.compared += 1
        if impl != model:
            self.mismatch(fn, impl, model, **kw)
            return False
        return True

    def cmp_float(self, fn, impl, model, rel=1e-9, abs_=1e-12, **kw):
        self.compared += 1
        if not close(impl, model, rel, abs_):
            self.mismatch(fn, impl, model, **kw)
            return False
        return True

    def cmp_floats(self, fn, impl, model, rel=1e-9, abs_=1e-12, **kw):
        impl = [float(x) for x in impl]
        model = [float(x) for x in model]
        self.compared += max(1, len(impl))
        d = first_diff(impl, model, rel, abs_)
        if d is not None:
            self.mismatch(fn, impl if len(impl) <= 8 else f'{len(impl)} values', model if len(model) <= 8 else
                          f'{len(model)} values', first_diff=list(d), **kw)
            return False
        return True

    def to_json(self):
        return {'mismatches': self.mismatches, 'failures': self.failures, 'nontrivial': self.nontrivial,
                'key': self.key, 'stats': dict(self.stats), 'compared': self.compared, 'ill': self.ill}

    @staticmethod
    def from_json(d):
        r = Result()
        r.mismatches = d['mismatches']
        r.failures = d['failures']
        r.nontrivial = d['nontrivial']
        r.key = d['key']
        r.stats = Counter(d['stats'])
        r.compared = d['compared']
        r.ill = d['ill']
        return r
