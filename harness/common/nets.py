"""Builders of equipment libraries and topologies through GNPy's own loaders (DESIGN.md §2.4)."""
import copy
import logging
from pathlib import Path

import gnpy
from gnpy.tools.json_io import load_equipment, load_json, network_from_json, _equipment_from_json, \
    DEFAULT_EXTRA_CONFIG  # noqa: F401

logging.getLogger('gnpy').setLevel(logging.CRITICAL)
logging.disable(logging.CRITICAL)

EX = Path(gnpy.__file__).parent / 'example-data'
_cache = {}


def eqpt(name='eqpt_config.json'):
    """fresh deep copy of a shipped equipment library (loaded once per process)"""
    if name not in _cache:
        _cache[name] = load_equipment(EX / name)
    return copy.deepcopy(_cache[name])


def eqpt_json(name='eqpt_config.json'):
    """the legacy JSON document of a shipped library (as load_gnpy_json returns it)"""
    from gnpy.tools.json_io import load_gnpy_json
    key = 'json:' + name
    if key not in _cache:
        _cache[key] = load_gnpy_json(EX / name)
    return copy.deepcopy(_cache[key])


def loc(city='c'):
    return {"location": {"latitude": 0, "longitude": 0, "city": city, "region": "r"}}


def trx(uid):
    return {"uid": uid, "type": "Transceiver", "metadata": loc()}


def roadm(uid, params=None, type_variety=None):
    d = {"uid": uid, "type": "Roadm", "metadata": loc()}
    if params:
        d["params"] = params
    if type_variety:
        d["type_variety"] = type_variety
    return d


def fiber(uid, length_km=80.0, type_variety='SSMF', **params):
    p = {"length": length_km, "length_units": "km", "loss_coef": 0.2, "con_in": None, "con_out": None}
    p.update(params)
    return {"uid": uid, "type": "Fiber", "type_variety": type_variety, "params": p, "metadata": loc()}


def fused(uid, loss=None):
    d = {"uid": uid, "type": "Fused", "metadata": loc()}
    if loss is not None:
        d["params"] = {"loss": loss}
    return d


def edfa(uid, type_variety=None, operational=None):
    d = {"uid": uid, "type": "Edfa", "metadata": loc()}
    if type_variety:
        d["type_variety"] = type_variety
    if operational is not None:
        d["operational"] = operational
    return d


def cx(a, b):
    return {"from_node": a, "to_node": b}


def chain(els, cxs, src, dst, line):
    """append line elements (dicts) between src and dst uids"""
    prev = src
    for e in line:
        els.append(e)
        cxs.append(cx(prev, e['uid']))
        prev = e['uid']
    cxs.append(cx(prev, dst))


def star(k, roadm_params=None, span_km=80.0):
    """ROADM 'R0' of degree k: each degree i is a bidirectional fibre pair to ROADM 'Ri'; every ROADM has a
    transceiver. Egress line elements of R0 are named 'f R0-Ri'."""
    els = [trx('T0'), roadm('R0', roadm_params)]
    cxs = [cx('T0', 'R0'), cx('R0', 'T0')]
    for i in range(1, k + 1):
        els += [trx(f'T{i}'), roadm(f'R{i}')]
        cxs += [cx(f'T{i}', f'R{i}'), cx(f'R{i}', f'T{i}')]
        chain(els, cxs, 'R0', f'R{i}', [fiber(f'f R0-R{i}', span_km)])
        chain(els, cxs, f'R{i}', 'R0', [fiber(f'f R{i}-R0', span_km)])
    return {"elements": els, "connections": cxs}


def linear(spans=(80.0,), roadm_params=None, fiber_extra=None, names=('A', 'B')):
    a, b = names
    els = [trx(f'trx {a}'), trx(f'trx {b}'), roadm(f'roadm {a}', roadm_params), roadm(f'roadm {b}', roadm_params)]
    cxs = [cx(f'trx {a}', f'roadm {a}'), cx(f'roadm {a}', f'trx {a}'),
           cx(f'trx {b}', f'roadm {b}'), cx(f'roadm {b}', f'trx {b}')]
    for d, (s, t) in (('ab', (f'roadm {a}', f'roadm {b}')), ('ba', (f'roadm {b}', f'roadm {a}'))):
        line = [fiber(f'fiber {d} {i}', L, **(fiber_extra or {})) for i, L in enumerate(spans)]
        chain(els, cxs, s, t, line)
    return {"elements": els, "connections": cxs}


def by_uid(network):
    return {n.uid: n for n in network.nodes()}
