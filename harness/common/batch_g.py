"""Group-G batch builder shared by C16 and C19: a small mesh (plus an unreachable island), a generated library with
feasible / infeasible / wide-band transceivers, and request batches containing every outcome kind (served fixed/auto,
NO_PATH, NO_PATH_WITH_CONSTRAINT, MODE_NOT_FEASIBLE, NO_FEASIBLE_MODE, NO_FEASIBLE_BAUDRATE_WITH_SPACING, NO_SPECTRUM,
NOT_ENOUGH_RESERVED_SPECTRUM, bidirectional, identical requests that get aggregated, multi-slot, dense-comb, saturating)."""
import copy
import json
import math

import numpy as np

from common import nets, nets_g
from common.util import f2b, b2f

LENS = [20.0, 40.0, 50.0, 60.0, 80.0, 80.0, 100.0, 120.0]
KINDS = ['fixed', 'fixed', 'fixed', 'dup', 'dup', 'auto', 'auto', 'hard', 'autohard', 'narrow', 'nopath', 'constraint', 'huge',
         'reserved', 'multislot', 'dup', 'dense', 'saturating', 'loose']


def gen_batch(rng, tier, nreq=None, kinds=None, twins_ok=True):
    n = rng.choice([3, 3, 4, 5])
    order = list(range(n))
    rng.shuffle(order)
    edges = set()
    for i in range(1, n):
        edges.add(tuple(sorted((order[i], order[rng.randrange(i)]))))
    extra = rng.choice([0, 1, 1, 2])
    cand = [(a, b) for a in range(n) for b in range(a + 1, n) if (a, b) not in edges]
    rng.shuffle(cand)
    edges |= set(cand[:extra])
    def spans():
        return [rng.choice(LENS) for _ in range(rng.choice([1, 1, 2]))]
    elist = [[a, b, spans(), spans()] for a, b in sorted(edges)]
    elist.append([n, n + 1, [30.0], [40.0]])     # the island N{n} <-> N{n+1}: unreachable from the mesh
    width = rng.choice([0.45e12, 0.6e12, 0.8e12])
    lib = {'band': [191.35e12, 191.35e12 + width], 'margin': rng.choice([0, 1, 2, 2]),
           'osnr': {'m100': rng.choice([9, 11, 13, 20]), 'm200': rng.choice([14, 18, 21, 23, 24.5, 26]),
                    'm400': rng.choice([18, 20, 23, 24, 25.5, 27]), 'mhard': 45, 'h1': 45, 'h2': 50},
           'penalties': rng.random() < 0.5, 'offset200': rng.choice([0, 0, 1, -1]),
           'roadm': {'add_drop_osnr': rng.choice([33, 38, 38, 45]), 'pdl': rng.choice([0, 0.5]), 'pmd': rng.choice([0, 3e-12])},
           'p_design': rng.choice([None, 2, 2, 3]), 'sat_offset': rng.choice([3, 5, 5]),
           # SI WITHOUT the optional tx_power_dbm: a request without tx_power then launches its own output-power
           'no_tx_default': rng.random() < 0.35,
           # ROADMs of a library type whose impairment profiles have TWO frequency ranges with different values
           'multi_roadm': rng.random() < 0.35}
    if lib['no_tx_default']:
        lib['p_design'] = None
    k = nreq or rng.choice([2, 3, 4, 5, 6, 8] if tier == 'quick' else [2, 3, 4, 5, 6, 8, 10])
    reqs = []
    for i in range(k):
        kind = rng.choice(kinds or KINDS)
        reqs.append(gen_request(rng, f'r{i}', kind, n, reqs))
    # at least two BIDIRECTIONAL requests leaving the same source transceiver (different destination / mode / power): the z-a
    # direction of each must be reported from its own propagation
    ok = [i for i, r in enumerate(reqs) if r['kind'] in ('fixed', 'auto', 'hard', 'dense', 'saturating', 'multislot', 'sparse')]
    if len(ok) >= 2 and rng.random() < 0.4:
        i, j = rng.sample(ok, 2)
        a, b = reqs[i], reqs[j]
        a['bidir'] = b['bidir'] = True
        b['src'] = a['src']
        if b['dst'] == b['src'] or (n >= 3 and rng.random() < 0.6):
            b['dst'] = rng.choice([x for x in range(n) if x != b['src'] and (x != a['dst'] or n < 3)])
        if all(a[k_] == b[k_] for k_ in ('dst', 'type', 'mode', 'spacing', 'power')):
            b['power'] = 5e-4 if a['power'] != 5e-4 else 2e-3
    twins = {'bidir': [], 'hop': []}
    # uni/bidirectional TWINS of one request in the same batch (bidir is part of the aggregation key: they are not merged):
    # blocked by the forward selection (NO_FEASIBLE_MODE / MODE_NOT_FEASIBLE) with a reverse direction that fails too, or served
    if twins_ok and rng.random() < 0.4:
        cand = [r for r in reqs if r['kind'] in ('autohard', 'hard', 'auto', 'fixed')]
        if not cand or rng.random() < 0.5:
            base = gen_request(rng, f'r{len(reqs)}', rng.choice(['autohard', 'autohard', 'hard', 'auto']), n, reqs)
            reqs.insert(rng.randrange(len(reqs) + 1), base)
        else:
            base = rng.choice(cand)
        tw = copy.deepcopy(base)
        tw['id'] = f'r{len(reqs)}'
        tw['bidir'] = not base['bidir']
        reqs.insert(rng.randrange(len(reqs) + 1), tw)
        twins['bidir'].append([base['id'], tw['id']])
    # LOOSE/STRICT TWINS: same source, destination and include list, an include list no simple path can honour (a ROADM of the
    # unreachable island, or an order that would need the destination ROADM twice): LOOSE -> unconstrained shortest path,
    # STRICT -> NO_PATH_WITH_CONSTRAINT, whatever the order in the batch
    if twins_ok and rng.random() < 0.3:
        a = gen_request(rng, f'r{len(reqs)}', 'fixed', n, reqs)
        others = [x for x in range(n) if x not in (a['src'], a['dst'])]
        a['include'] = [f'roadm N{n}'] if (not others or rng.random() < 0.5) else [f'roadm N{a["dst"]}', f'roadm N{rng.choice(others)}']
        a['strict'] = False
        b = copy.deepcopy(a)
        b['id'], b['strict'] = f'r{len(reqs) + 1}', True
        first, second = (a, b) if rng.random() < 0.7 else (b, a)
        i = rng.randrange(len(reqs) + 1)
        reqs.insert(i, first)
        reqs.insert(rng.randrange(i + 1, len(reqs) + 1), second)
        twins['hop'].append([a['id'], b['id']])
    # POWER TWINS: 2-3 non-aggregated fixed-mode requests on the same route, mode, spacing and spectrum that differ only in the
    # optional per-request tx_power (by several dB, one of them so low that the add ROADM cannot reach its target) and/or in the
    # reference power: each must get the figures of its own launch power, whatever was computed before
    twins['power'] = []
    if twins_ok and rng.random() < 0.3:
        a = gen_request(rng, f'r{len(reqs)}', 'fixed', n, reqs)
        a['mode'], a['spacing'], a['nm'] = rng.choice(['m100', 'm200']), 50e9, None
        group = [a]
        txs = [None, 3.16e-6, 1e-5, 1e-4, 2e-3]
        pws = [None, 5e-4, 2e-3, 1e-2]
        rng.shuffle(txs)
        rng.shuffle(pws)
        flavour = rng.choice(['tx', 'tx', 'power', 'both'])
        a['tx_power'], a['power'] = (txs[0] if flavour != 'power' else None), (pws[0] if flavour != 'tx' else a['power'])
        for j in range(1, rng.choice([2, 2, 3])):
            b = copy.deepcopy(a)
            b['id'] = f'r{len(reqs) + j}'
            if flavour != 'power':
                b['tx_power'] = txs[j]
            if flavour != 'tx':
                b['power'] = pws[j]
            group.append(b)
        rng.shuffle(group)
        i = rng.randrange(len(reqs) + 1)
        for g in group:
            reqs.insert(i, g)
            i = rng.randrange(i + 1, len(reqs) + 1)
        twins['power'].append([g['id'] for g in group])
    fresh_pick = None
    # LOW-POWER-FIRST: with an SI without tx_power_dbm, a request with a very low output-power (-30 dBm: below the add ROADM's
    # target after the add loss) computed BEFORE requests that state no power at all
    if twins_ok and lib['no_tx_default'] and rng.random() < 0.7:
        a = gen_request(rng, f'r{len(reqs)}', 'fixed', n, reqs)
        a['mode'], a['spacing'], a['nm'], a['power'] = 'm100', 50e9, None, rng.choice([1e-6, 1e-6, 3.16e-6])
        b = copy.deepcopy(a)
        b['id'], b['power'] = f'r{len(reqs) + 1}', rng.choice([None, None, 1e-3])
        if rng.random() < 0.5:
            b['src'], b['dst'] = rng.sample(range(n), 2)
        i = rng.randrange(len(reqs) + 1)
        reqs.insert(i, a)
        reqs.insert(i + 1, b)
        twins['lowpower'] = [[a['id'], b['id']]]
        fresh_pick = b['id']
    # EQUAL-COUNT GRID TWINS: two consecutive requests with the SAME number of carriers on different grids (50 / 100 GHz), so that
    # their carriers fall into different frequency ranges of the ROADM profiles
    if twins_ok and lib['multi_roadm'] and rng.random() < 0.7:
        a = gen_request(rng, f'r{len(reqs)}', 'fixed', n, reqs)
        a['mode'], a['nm'], a['bidir'] = 'm100', None, rng.random() < 0.3
        a['nch'] = rng.choice([3, 4])
        b = copy.deepcopy(a)
        b['id'] = f'r{len(reqs) + 1}'
        a['spacing'], b['spacing'] = (50e9, 100e9) if rng.random() < 0.6 else (100e9, 50e9)
        i = rng.randrange(len(reqs) + 1)
        reqs.insert(i, a)
        reqs.insert(i + 1, b)
        twins['grid'] = [[a['id'], b['id']]]
        fresh_pick = b['id']
    return {'n': n, 'edges': elist, 'lib': lib, 'requests': reqs, 'twins': twins, 'fresh_pick': fresh_pick}


def gen_request(rng, rid, kind, n, earlier):
    s, d = rng.sample(range(n), 2)
    r = {'id': rid, 'kind': kind, 'src': s, 'dst': d, 'type': 'T', 'mode': rng.choice(['m100', 'm100', 'm200', 'm400']),
         'spacing': 50e9, 'bidir': rng.random() < 0.35, 'bw': rng.choice([100e9, 100e9, 200e9, 300e9, 400e9]),
         'power': rng.choice([None, None, 1e-3, 2e-3, 5e-4]), 'include': None, 'strict': True, 'nm': None}
    if r['mode'] == 'm400':
        r['spacing'] = rng.choice([75e9, 87.5e9, 100e9])
    elif r['mode'] == 'm200':
        r['spacing'] = rng.choice([50e9, 62.5e9, 75e9])
    else:
        r['spacing'] = rng.choice([37.5e9, 50e9, 50e9, 75e9])
    if kind == 'auto':
        r['mode'] = None
        r['spacing'] = rng.choice([50e9, 75e9, 100e9])
    elif kind == 'hard':
        r['mode'] = 'mhard'
        r['spacing'] = 50e9
    elif kind == 'autohard':
        r['type'], r['mode'] = 'Thard', None
    elif kind == 'narrow':
        r['mode'], r['spacing'] = None, 25e9
    elif kind == 'nopath':
        r['dst'] = n + rng.choice([0, 1])
    elif kind == 'constraint':
        r['include'], r['strict'] = [f'roadm N{n}'], True
    elif kind == 'loose':
        mid = rng.choice([x for x in range(n + 1) if x not in (s, d)])
        r['include'], r['strict'] = [f'roadm N{mid}'], rng.random() < 0.4
    elif kind == 'huge':
        r['bw'] = r['bw'] * rng.choice([100, 400])
    elif kind == 'reserved':
        r['mode'], r['spacing'] = None, 50e9
        r['nm'] = [[rng.choice([-40, 0, 40]), rng.choice([2, 4])]]
        r['bw'] = rng.choice([300e9, 500e9])
    elif kind == 'multislot':
        m = 4 * math.ceil(r['spacing'] / 50e9)
        r['nm'] = [[-100 + 40 * len(earlier), m], [100 - 40 * len(earlier), m]]
        r['bw'] = 200e9
        u = rng.random()
        if u < 0.35:      # user list with N NOT ascending and different M per slot (the (N, M) pairing must survive)
            r['nm'] = [[100 - 40 * len(earlier), 2 * m], [-100 + 40 * len(earlier), m]]
            r['bw'] = 300e9
        elif u < 0.55:    # a slot centred exactly on 193.1 THz: N = 0
            r['nm'] = [[0, m]]
            r['bw'] = 100e9
        elif u < 0.75:    # slots straddling 0, one of them N = 0, not ascending
            r['nm'] = [[32, m], [0, m]] if rng.random() < 0.6 else [[0, m], [-32, 2 * m]]
            r['bw'] = 200e9
    elif kind == 'dup':
        base = [e for e in earlier if e['kind'] in ('fixed', 'dup', 'dense') and e['mode'] is not None]
        if base:
            b = rng.choice(base)
            r.update({k: b[k] for k in ('src', 'dst', 'type', 'mode', 'spacing', 'power', 'include', 'strict')})
            r['bidir'] = b['bidir'] if rng.random() < 0.7 else not b['bidir']
    elif kind == 'sparse':     # fewer carriers than nli_params.computed_number_of_channels
        r['mode'], r['spacing'], r['nch'] = 'm100', 50e9, rng.choice([2, 2, 3, 4])
    elif kind == 'dense':
        r['type'], r['mode'], r['spacing'] = 'Twide', 'w100', 50e9
    elif kind == 'saturating':
        r['type'], r['mode'], r['spacing'] = 'Twide', 'wsat', 50e9
    return r


def library(lib):
    o = lib['osnr']
    pens = [{'chromatic_dispersion': 4e3, 'penalty_value': 0}, {'chromatic_dispersion': 4e4, 'penalty_value': 0.5},
            {'pmd': 30, 'penalty_value': 0.5}, {'pdl': 1, 'penalty_value': 0.5}, {'pdl': 4, 'penalty_value': 2.5}]

    def mode(fmt, baud, bit, minsp, osnr, cost, off=0, tx=40, pen=False):
        d = {'format': fmt, 'baud_rate': baud, 'OSNR': osnr, 'bit_rate': bit, 'roll_off': 0.15, 'tx_osnr': tx,
             'min_spacing': minsp, 'cost': cost}
        if off:
            d['equalization_offset_db'] = off
        if pen:
            d['penalties'] = copy.deepcopy(pens)
        return d
    fr = {'min': lib['band'][0], 'max': lib['band'][1]}
    return [
        {'type_variety': 'T', 'frequency': fr, 'mode': [
            mode('m100', 32e9, 100e9, 37.5e9, o['m100'], 1, pen=lib['penalties']),
            mode('m200', 32e9, 200e9, 50e9, o['m200'], 2, off=lib['offset200'], tx=38),
            mode('m400', 64e9, 400e9, 75e9, o['m400'], 3.5, tx=36, pen=lib['penalties']),
            mode('mhard', 32e9, 200e9, 50e9, o['mhard'], 2)]},
        {'type_variety': 'Thard', 'frequency': fr, 'mode': [
            mode('h1', 32e9, 100e9, 37.5e9, o['h1'], 1), mode('h2', 32e9, 200e9, 50e9, o['h2'], 2)]},
        {'type_variety': 'Twide', 'frequency': {'min': 191.35e12, 'max': 195.1e12}, 'mode': [
            mode('w100', 32e9, 100e9, 37.5e9, o['m100'], 1),
            mode('wsat', 32e9, 100e9, 37.5e9, o['m100'], 1, off=lib.get('sat_offset', 5))]}]


def build(case):
    lib = case['lib']
    si = {'power_dbm': lib['p_design'], 'tx_power_dbm': lib['p_design']} if lib.get('p_design') is not None else None
    doc = nets_g.library_doc(library(lib), margin=lib['margin'], roadm=lib['roadm'], si=si)
    if lib.get('no_tx_default'):
        doc['SI'][0].pop('tx_power_dbm', None)
    topo = nets_g.mesh_topo(case['n'] + 2, case['edges'])
    if lib.get('multi_roadm'):
        doc['Roadm'].append(multi_roadm(lib))
        for e in topo['elements']:
            if e['type'] == 'Roadm':
                e['type_variety'] = 'gmulti'
    eq = nets_g.build_equipment(doc)
    net = nets_g.build_network(topo, eq)
    return {'eq': eq, 'net': net, 'doc': doc}


def multi_roadm(lib):
    """library ROADM type whose add / drop / express profiles have two frequency ranges (split 225 GHz above the lower edge of
    the transceiver band) with different roadm-osnr, PDL and max loss"""
    split = lib['band'][0] + 225e9

    def ranges(osnr, ml):
        out = []
        for i, (lo, hi) in enumerate(((186e12, split), (split, 198e12))):
            d = {'frequency-range': {'lower-frequency': lo, 'upper-frequency': hi}, 'roadm-pmd': 0, 'roadm-cd': 0,
                 'roadm-pdl': [0.0, 1.5][i], 'roadm-inband-crosstalk': 0, 'roadm-maxloss': ml[i]}
            if osnr is not None:
                d['roadm-osnr'] = osnr[i]
            out.append(d)
        return out
    return {'type_variety': 'gmulti', 'target_pch_out_db': -20, 'add_drop_osnr': 38, 'pmd': 0, 'pdl': 0,
            'restrictions': {'preamp_variety_list': [], 'booster_variety_list': []},
            'roadm-path-impairments': [
                {'roadm-path-impairments-id': 0, 'roadm-express-path': ranges(None, [0.0, 3.0])},
                {'roadm-path-impairments-id': 1, 'roadm-add-path': ranges([45.0, 31.0], [0.0, 2.0])},
                {'roadm-path-impairments-id': 2, 'roadm-drop-path': ranges([44.0, 30.0], [0.0, 0.0])}]}


def req_doc(r):
    src = r.get('src_uid') or f'trx N{r["src"]}'
    dst = r.get('dst_uid') or f'trx N{r["dst"]}'
    return nets_g.request_doc(r['id'], src, dst, r['type'], r['mode'], r['spacing'],
                              bidir=r['bidir'], path_bandwidth=r['bw'], power=r['power'], include=r['include'],
                              strict=r['strict'], nm=r['nm'], nch=r.get('nch'), tx_power=r.get('tx_power'))


def run_planning(ctx, reqs):
    """planning() on a deep copy of the request documents; returns the tuple planning returns"""
    from gnpy.tools.worker_utils import planning
    with np.errstate(divide='ignore'):
        return planning(ctx['net'], ctx['eq'], {'path-request': [req_doc(r) for r in reqs]})


def twin_pairs(case, which):
    """the recorded twin pairs that still ARE twins in this (possibly shrunk / edited) case"""
    by_id = {r['id']: r for r in case['requests']}
    skip = {'id', 'bidir'} if which == 'bidir' else {'id', 'strict'}
    out = []
    for a, b in (case.get('twins') or {}).get(which, []):
        if a in by_id and b in by_id and {k: v for k, v in by_id[a].items() if k not in skip} == \
                {k: v for k, v in by_id[b].items() if k not in skip}:
            flag = 'bidir' if which == 'bidir' else 'strict'
            if by_id[a][flag] != by_id[b][flag]:
                out.append((a, b))
    return out


def norm(x):
    """implementation JSON tree with numpy scalars turned into Python scalars"""
    if isinstance(x, dict):
        return {str(k): norm(v) for k, v in x.items()}
    if isinstance(x, (list, tuple)):
        return [norm(v) for v in x]
    if isinstance(x, (bool, np.bool_)):
        return bool(x)
    if isinstance(x, np.integer):
        return int(x)
    if isinstance(x, np.floating):
        return float(x)
    if isinstance(x, np.str_):
        return str(x)
    return x


def enc(x):
    """Python tree -> wire form of the Lean model's J: floats as {"$f": bits}, dicts as [[k, v], ..., "$obj"]"""
    if isinstance(x, dict):
        return [[k, enc(v)] for k, v in x.items()] + ['$obj']
    if isinstance(x, (list, tuple)):
        return [enc(v) for v in x]
    if isinstance(x, bool) or x is None or isinstance(x, (int, str)):
        return x
    if isinstance(x, float):
        return {'$f': f2b(x)}
    raise TypeError(f'cannot encode {type(x)}')


def dec(x):
    if isinstance(x, dict):
        return b2f(x['$f'])
    if isinstance(x, list):
        if x and x[-1] == '$obj':
            return {k: dec(v) for k, v in x[:-1]}
        return [dec(v) for v in x]
    return x


def strip_labels(x):
    """response tree with every label-hop replaced by '*' (the spectrum slots may depend on the batch)"""
    if isinstance(x, dict):
        return {k: ('*' if k == 'label-hop' else strip_labels(v)) for k, v in x.items()}
    if isinstance(x, list):
        return [strip_labels(v) for v in x]
    return x


def canon(x):
    return json.dumps(x, sort_keys=True, default=float)
