"""Group-G builders (C13/C16/C19): small line/mesh topologies with direction-asymmetric spans, generated transceiver
libraries, request documents, and a harness-side line propagation (the element loop of request.propagate, re-done
here so that the receiver's raw figures can be handed to the Lean model as inputs)."""
import copy
import math

import numpy as np

from common import nets

GHZ = 10 ** 9


def line_topo(spans_fwd, spans_rev, roadm_params=None, fiber_extra=None):
    """nodes N0..Nk in a line; spans_fwd[i] / spans_rev[i] = span lengths (km) of link Ni->Ni+1 / Ni+1->Ni.
    roadm_params: optional {node index: params dict}"""
    k = len(spans_fwd) + 1
    els, cxs = [], []
    for i in range(k):
        els += [nets.trx(f'trx N{i}'), nets.roadm(f'roadm N{i}', (roadm_params or {}).get(i))]
        cxs += [nets.cx(f'trx N{i}', f'roadm N{i}'), nets.cx(f'roadm N{i}', f'trx N{i}')]
    for i in range(k - 1):
        nets.chain(els, cxs, f'roadm N{i}', f'roadm N{i + 1}',
                   [nets.fiber(f'fiber (N{i} -> N{i + 1}) {j}', L, **(fiber_extra or {})) for j, L in enumerate(spans_fwd[i])])
        nets.chain(els, cxs, f'roadm N{i + 1}', f'roadm N{i}',
                   [nets.fiber(f'fiber (N{i + 1} -> N{i}) {j}', L, **(fiber_extra or {})) for j, L in enumerate(spans_rev[i])])
    return {"elements": els, "connections": cxs}


def mesh_topo(n, edges, roadm_params=None):
    """edges: list of [a, b, spans_ab, spans_ba] with node indices a<b"""
    els, cxs = [], []
    for i in range(n):
        els += [nets.trx(f'trx N{i}'), nets.roadm(f'roadm N{i}', (roadm_params or {}).get(i))]
        cxs += [nets.cx(f'trx N{i}', f'roadm N{i}'), nets.cx(f'roadm N{i}', f'trx N{i}')]
    for a, b, sab, sba in edges:
        nets.chain(els, cxs, f'roadm N{a}', f'roadm N{b}',
                   [nets.fiber(f'fiber (N{a} -> N{b}) {j}', L) for j, L in enumerate(sab)])
        nets.chain(els, cxs, f'roadm N{b}', f'roadm N{a}',
                   [nets.fiber(f'fiber (N{b} -> N{a}) {j}', L) for j, L in enumerate(sba)])
    return {"elements": els, "connections": cxs}


def library_doc(trx_list, margin=None, roadm=None, si=None, span=None):
    """legacy equipment document = shipped eqpt_config.json with the Transceiver list replaced and a few scalars set"""
    doc = nets.eqpt_json()
    doc['Transceiver'] = copy.deepcopy(trx_list)
    if margin is not None:
        doc['SI'][0]['sys_margins'] = margin
    if si:
        doc['SI'][0].update(si)
    if span:
        doc['Span'][0].update(span)
    if roadm:
        doc['Roadm'][0].update(roadm)
    return doc


def build_equipment(doc):
    from gnpy.tools.json_io import _equipment_from_json, DEFAULT_EXTRA_CONFIG
    return _equipment_from_json(copy.deepcopy(doc), DEFAULT_EXTRA_CONFIG)


def build_network(topo, eq):
    """network_from_json + design with the SI reference channel + OMS list (as path_requests_run does)"""
    from gnpy.tools.json_io import network_from_json
    from gnpy.tools.worker_utils import designed_network
    net = network_from_json(copy.deepcopy(topo), eq)
    net, _, _ = designed_network(eq, net)
    return net


def request_doc(rid, src, dst, trx_type, trx_mode, spacing, bidir=False, path_bandwidth=100e9, power=None,
                include=None, strict=True, nm=None, nch=None, tx_power=None):
    te = {"technology": "flexi-grid", "trx_type": trx_type, "trx_mode": trx_mode, "spacing": spacing,
          "path_bandwidth": path_bandwidth}
    if power is not None:
        te["output-power"] = power
    if tx_power is not None:
        te["tx_power"] = tx_power
    if nm is not None:
        te["effective-freq-slot"] = [{"N": n, "M": m} for n, m in nm]
    if nch is not None:
        te["max-nb-of-channel"] = nch
    r = {"request-id": rid, "source": src, "destination": dst, "src-tp-id": src, "dst-tp-id": dst,
         "bidirectional": bidir, "path-constraints": {"te-bandwidth": te}}
    if include:
        r["explicit-route-objects"] = {"route-object-include-exclude": [
            {"explicit-route-usage": "route-include-ero", "index": i,
             "num-unnum-hop": {"node-id": n, "link-tp-id": "link-tp-id is not used",
                               "hop-type": "STRICT" if strict else "LOOSE"}} for i, n in enumerate(include)]}
    return r


def line_prop(path0, eq, f_min, f_max, spacing, baud, offset_db, tx_power, tx_osnr, roll_off):
    """the element loop of request.propagate on a private deep copy of `path0`; returns what the receiver saw"""
    from gnpy.core.elements import Roadm
    from gnpy.core.info import create_input_spectral_information
    from gnpy.topology.request import filter_si
    path = copy.deepcopy(path0)
    si = create_input_spectral_information(f_min=f_min, f_max=f_max, roll_off=roll_off, baud_rate=baud,
                                           spacing=spacing, tx_osnr=tx_osnr, tx_power=tx_power, delta_pdb=offset_db)
    si = filter_si(path, eq, si)
    roadm = []
    for i, el in enumerate(path):
        if isinstance(el, Roadm):
            si = el(si, degree=path[i + 1].uid, from_degree=path[i - 1].uid)
            roadm.append(el.get_impairment('roadm-osnr', si.frequency, from_degree=path[i - 1].uid,
                                           degree=path[i + 1].uid))
        else:
            si = el(si)
    rx = path[-1]
    n = len(si.frequency)
    return {'n': n, 'rx': rx, 'si': si,
            'roadm': [None if r is None else [float(x) for x in np.broadcast_to(r, (n,))] for r in roadm],
            'kinds': [type(e).__name__ for e in path]}


def rx_raw(rx):
    return {'raw_osnr_ase': [float(x) for x in rx.raw_osnr_ase],
            'raw_osnr_ase_01nm': [float(x) for x in rx.raw_osnr_ase_01nm],
            'raw_snr': [float(x) for x in rx.raw_snr], 'raw_snr_01nm': [float(x) for x in rx.raw_snr_01nm],
            'baud': [float(x) for x in rx.baud_rate]}


# ---- independent arithmetic for the monitors (plain math, linear domain; not the code's helpers, not the model) ----

def indep_interp(x, xs, ys):
    """piecewise linear through (xs, ys) (ascending); outside the table -> +inf"""
    if not xs or x < xs[0] or x > xs[-1]:
        return math.inf
    j = 0
    while j + 1 < len(xs) and xs[j + 1] <= x:
        j += 1
    if xs[j] == x or j + 1 == len(xs):
        return ys[j]
    return ys[j] + (ys[j + 1] - ys[j]) * (x - xs[j]) / (xs[j + 1] - xs[j])


def indep_gsnr(raw_db, bw, added_db):
    """receiver figure in bandwidth bw: 1/snr = 1/raw + (bw/12.5e9) * sum_i 1/added_i (each contribution once)"""
    inv = 10 ** (-raw_db / 10)
    for a in added_db:
        inv += (bw / 12.5e9) * 10 ** (-a / 10)
    return -10 * math.log10(inv)


def round2(x):
    """numpy's round(x, 2): rint(x*100)/100 with ties to even"""
    if math.isinf(x) or math.isnan(x):
        return x
    return round(x * 100) / 100
