"""Random chain topologies and Span/SI configurations for the auto-design properties (C08, C09, C17).

A case describes a star of ROADMs: hub `R0` with spokes `R1..Rk`, a transceiver on every ROADM, and one chain of
line elements per direction of every spoke; optionally a line that starts at a transceiver (`TX -> ... -> R0`).
Everything is built through gnpy's own loaders (`network_from_json` on a deep copy of a shipped equipment library
whose Span/SI/Edfa entries are modified in place).
"""
import copy
import math
import re

from common import nets

STD_AMPS = ['std_low_gain', 'std_medium_gain', 'std_high_gain', 'high_power']
LENGTHS_KM = [0.0005, 0.003, 1.0, 3.0, 10.0, 20.0, 45.0, 50.0, 80.0, 100.0, 120.0, 149.0, 149.999, 150.0, 150.001,
              151.0, 180.0, 200.0, 300.0, 420.0, 1000.0, 3000.0]
RAMAN_OP = {"temperature": 283,
            "raman_pumps": [{"power": 0.2, "frequency": 205e12, "propagation_direction": "counterprop"},
                            {"power": 0.206, "frequency": 201e12, "propagation_direction": "counterprop"}]}
BANDS_CL = [{'f_min': 191.3e12, 'f_max': 196.0e12, 'spacing': 50e9}, {'f_min': 187.0e12, 'f_max': 190.0e12, 'spacing': 50e9}]
SPLIT_RE = re.compile(r'_\((\d+)/(\d+)\)$')


# ---------------------------------------------------------------------------------------------------------------------
# generator
# ---------------------------------------------------------------------------------------------------------------------

def gen_fiber(rng, uid, widen=False, max_km=None, lumped=False):
    if rng.random() < (0.75 if not widen else 0.9):
        L = rng.choice(LENGTHS_KM if not widen else [149.0, 149.999, 150.0, 150.001, 151.0, 100.0, 120.0, 180.0, 90.0,
                                                     299.999, 300.0, 450.0])
    else:
        L = round(rng.uniform(0.5, 400.0), rng.choice([0, 1, 3]))
    if max_km is not None:
        L = min(L, max_km)
    p = {"length": L, "length_units": "km", "loss_coef": rng.choice([0.2, 0.2, 0.22, 0.25, 0.3]),
         "con_in": rng.choice([None, None, 0.5, 0.2, 0]), "con_out": rng.choice([None, None, 0.5, 0.3, 0])}
    r = rng.random()
    if r < 0.12:
        p["att_in"] = rng.choice([0, 1.5, 3.0, 0.7])
    if lumped and L >= 100.0 and rng.random() < 0.5:
        # a long fibre (it will be split when L >= max_length) with a user att_in and 0-3 lumped losses anywhere strictly
        # inside: several in one sub-span, in the last one, next to a sub-span boundary
        p["att_in"] = rng.choice([2.0, 1.0, 0.5, 3.0])
        k = rng.choice([0, 1, 2, 3])
        pos = []
        for _ in range(k):
            c = rng.random()
            if c < 0.5:
                x = round(rng.uniform(0.001, L - 0.001), rng.choice([0, 1, 3]))
            elif c < 0.75:
                x = round(L - rng.choice([0.5, 3.0, 20.0, 40.0]), 3)           # in the last sub-span
            else:
                x = round(rng.choice([1, 2, 3]) * L / rng.choice([2, 3, 4]) + rng.choice([-0.25, 0.25, 1.0]), 3)
            if 0 < x < L and all(abs(x - y) > 1e-6 for y in pos):
                pos.append(x)
        if pos:
            p["lumped_losses"] = [{"position": x, "loss": rng.choice([0.5, 1.0, 0.3, 2.0])} for x in sorted(pos)]
    return {"uid": uid, "type": "Fiber", "type_variety": rng.choice(['SSMF', 'SSMF', 'NZDF']), "params": p}


def gen_raman(rng, uid):
    p = {"length": rng.choice([60.0, 80.0, 100.0, 120.0]), "length_units": "km", "loss_coef": rng.choice([0.2, 0.22]),
         "con_in": rng.choice([0.5, 0.3]), "con_out": rng.choice([0.5, 0.2]), "att_in": 0}
    return {"uid": uid, "type": "RamanFiber", "type_variety": "SSMF", "params": p,
            "operational": copy.deepcopy(RAMAN_OP)}


def gen_fused(rng, uid):
    d = {"uid": uid, "type": "Fused"}
    if rng.random() < 0.8:
        d["params"] = {"loss": rng.choice([0, 0.5, 1, 2, 0.3])}
    return d


def gen_edfa(rng, uid, force_dp=False):
    """user-placed amplifier with full / partial / no settings"""
    d = {"uid": uid, "type": "Edfa"}
    k = rng.random()
    if k < 0.55:
        d["type_variety"] = rng.choice(STD_AMPS)
    style = rng.random()
    if style < 0.25 and not force_dp:
        return d                                    # no settings at all
    op = {}
    if style < 0.6:                                 # partial
        if rng.random() < 0.5:
            op["gain_target"] = rng.choice([12.0, 15.0, 18.5, 20.0, 25.5, 30.0])
        if rng.random() < 0.4:
            op["delta_p"] = rng.choice([-2.0, 0.0, 1.0, 3.5, -0.5])
        if rng.random() < 0.4:
            op["out_voa"] = rng.choice([0, 1.0, 2.5, 0.5])
        if rng.random() < 0.5:
            op["tilt_target"] = 0
    else:                                           # full
        op = {"gain_target": rng.choice([10.0, 15.0, 17.0, 20.0, 22.5, 28.0, 34.0]),
              "delta_p": rng.choice([-2.0, 0.0, 1.0, 3.5, 6.0, None]),
              "tilt_target": 0, "out_voa": rng.choice([0, 1.0, 2.0, None])}
    if rng.random() < 0.12:
        op["in_voa"] = rng.choice([0, 1.0, 0.5])
    if force_dp:
        op["delta_p"] = rng.choice([-2.0, 0.0, 1.0, 2.0])
    d["operational"] = op
    return d


def gen_line(rng, tag, tier, widen=False, raman=False, src_is_trx=False, allow_raman_crash=False, lumped=False):
    """1-8 line elements; `raman` puts one RamanFiber in a position the design supports (after a transceiver, after
    ROADM+Fused, or after an amplifier with user delta_p); `allow_raman_crash` puts it after an auto amplifier."""
    n = rng.choice([1, 1, 2, 2, 3, 3, 4, 5, 6, 8])
    line = []
    if raman:
        if src_is_trx:
            pass
        elif rng.random() < 0.5:
            line.append(gen_edfa(rng, f'{tag} a0', force_dp=True))
        else:
            line.append(gen_fused(rng, f'{tag} u0'))
        line.append(gen_raman(rng, f'{tag} r'))
        if rng.random() < 0.4:
            line.append(gen_fused(rng, f'{tag} u1'))
            if rng.random() < 0.5:
                line.append(gen_edfa(rng, f'{tag} a1'))
        elif rng.random() < 0.5:
            line.append(gen_edfa(rng, f'{tag} a1'))
        n = rng.choice([0, 0, 1, 2])
    if allow_raman_crash:
        line.append(gen_fiber(rng, f'{tag} f0', widen, max_km=120.0))
        line.append(gen_raman(rng, f'{tag} r'))
        n = rng.choice([0, 1])
    if not raman and not allow_raman_crash and rng.random() < 0.15:
        # a short amplifier-to-amplifier span made of 2-3 fibres spliced by Fused, total loss below the usual paddings,
        # with a user att_in on the first fibre that differs from the last fibre's (first > 0 / last 0 and the reverse)
        a_first, a_last = rng.choice([(1.5, 0), (0.5, 0), (1.0, 2.0), (2.0, 0.5), (0, 1.0), (0.7, 0)])
        nf = rng.choice([2, 2, 3])
        for j in range(nf):
            f = {"uid": f'{tag} s{j}', "type": "Fiber", "type_variety": "SSMF",
                 "params": {"length": rng.choice([1.0, 2.0, 3.0, 5.0]), "length_units": "km", "loss_coef": 0.2,
                            "con_in": rng.choice([None, 0, 0.2]), "con_out": rng.choice([None, 0, 0.2])}}
            att = a_first if j == 0 else (a_last if j == nf - 1 else rng.choice([0, 0.3]))
            if att:
                f["params"]["att_in"] = att
            line.append(f)
            if j < nf - 1:
                line.append({"uid": f'{tag} su{j}', "type": "Fused", "params": {"loss": rng.choice([0, 0.3, 0.5])}})
        n = rng.choice([0, 1, 2, 3])
    prev = line[-1]['type'] if line else None
    # a Fiber spliced (through Fused) to a RamanFiber makes add_fiber_padding ask for the Raman gain before it is
    # estimated (TypeError, finding raman-gain-before-estimate): only the dedicated crash cases produce that
    raman_run = any(e['type'] == 'RamanFiber' for e in line) and prev in ('RamanFiber', 'Fused') and not allow_raman_crash
    for i in range(n):
        w = {'Fiber': 6, 'Fused': 2, 'Edfa': 2}
        if prev == 'Edfa':
            w['Edfa'] = 0.3
        if prev in ('RamanFiber',):
            w['Fiber'] = 1          # Raman -> Fiber gets an inline amplifier: fine, but keep it rare
        if raman_run and prev == 'Fused':
            w['Fiber'] = 0
        if i == 0 and line and line[-1]['uid'].startswith(f'{tag} s'):
            w['Fused'] = 0          # keep the spliced span closed by an amplifier
        kinds = list(w)
        typ = rng.choices(kinds, [w[k] for k in kinds])[0]
        uid = f'{tag} {i}'
        if typ == 'Fiber':
            el = gen_fiber(rng, uid, widen, lumped=lumped)
        elif typ == 'Fused':
            el = gen_fused(rng, uid)
        else:
            el = gen_edfa(rng, uid)
        line.append(el)
        prev = typ
        if typ in ('Edfa', 'Fiber'):
            raman_run = False
    if not line:
        line.append(gen_fiber(rng, f'{tag} 0', widen))
    return line


def gen_span(rng, widen=False):
    """Span overrides (always a complete set so that the case is self-contained)"""
    pad = rng.choice([10, 10, 6, 12, 0, 15, 8.5])
    return {
        'power_mode': rng.random() < 0.65,
        'delta_power_range_db': rng.choice([[-2, 3, 0.5], [-2, 3, 0.5], [0, 0, 0], [-6, 0, 0.5], [-3, 3, 1],
                                            [-2, 2, 0.1], [-1.5, 2.5, 0.25], [-4, 4, 0.3], [0, 3, 3]]),
        'power_slope': rng.choice([0.3, 0.3, 0.25, 0.33, 0.5]),
        'span_loss_ref': rng.choice([20.0, 20.0, 18.0, 22.5]),
        'padding': pad,
        'EOL': rng.choice([0, 0, 0, 0, 0.5, 1, 2]),
        'con_in': rng.choice([0, 0, 0.25, 0.5]),
        'con_out': rng.choice([0, 0, 0.25, 0.5]),
        'max_length': rng.choice([150, 150, 150, 120, 100, 180]),
        'length_units': 'km',
        'voa_margin': rng.choice([1, 1, 1, 0.5, 2, 0]),
        'voa_step': rng.choice([0.5, 0.5, 1, 0.1]),
        'target_extended_gain': rng.choice([2.5, 2.5, 0, 5]),
        'max_fiber_lineic_loss_for_raman': rng.choice([0.25, 0.25, 0.21, 0.35]),
    }


def gen_si(rng):
    return {'power_dbm': rng.choice([0, 0, 1, -2, 3, 0.5, 2, 4]), 'tx_power_dbm': rng.choice([None, 0, 0, -5]),
            'use_si_channel_count_for_design': rng.random() < 0.7}


def gen_roadm_params(rng):
    r = rng.random()
    if r < 0.3:
        return {}
    if r < 0.42:
        # the other two equalisation policies of a ROADM: constant power spectral density (mW/GHz, against the reference
        # baud rate) and constant power per slot width (mW/GHz, against the reference slot width)
        if r < 0.37:
            return {'target_psd_out_mWperGHz': rng.choice([3.125e-4, 5e-4, 2e-4, 4.3e-4])}
        return {'target_out_mWperSlotWidth': rng.choice([2e-4, 3e-4, 1.6e-4])}
    p = {'target_pch_out_db': rng.choice([-20, -18, -25, -17.3, -22.5])}
    return p


def roadm_ref_power(params, eq):
    """reference-channel power (dBm) a ROADM with the case parameters `params` sends out (own reading of the three
    equalisation policies against the reference carrier of the library: SI baud rate / SI spacing)"""
    si = eq['SI']['default']
    if 'target_pch_out_db' in params:
        return float(params['target_pch_out_db'])
    if 'target_psd_out_mWperGHz' in params:
        return 10 * math.log10(params['target_psd_out_mWperGHz'] * si.baud_rate * 1e-9)
    if 'target_out_mWperSlotWidth' in params:
        return 10 * math.log10(params['target_out_mWperSlotWidth'] * si.spacing * 1e-9)
    return float(eq['Roadm']['default'].target_pch_out_db)


def raman_before_estimate_topology(case):
    """the documented topology class of the open finding raman-gain-before-estimate: a RamanFiber whose span is opened by
    an amplifier that gets its power target from the design (the booster behind a ROADM, an inline amplifier inserted behind
    a fibre, a user amplifier without operator delta_p), or a RamanFiber spliced through Fused to a following fibre"""
    for ch in all_chains(case):
        line = ch['line']
        for j, e in enumerate(line):
            if e['type'] != 'RamanFiber':
                continue
            # forwards over Fused: a fibre in the same run
            k = j + 1
            while k < len(line) and line[k]['type'] == 'Fused':
                k += 1
            if k < len(line) and k > j + 1 and line[k]['type'] in ('Fiber', 'RamanFiber'):
                return True
            # backwards to the start of the run (fibres spliced by Fused), then the element that opens the span
            k = j
            while k > 0 and (line[k - 1]['type'] == 'Fused'
                             or (line[k - 1]['type'] in ('Fiber', 'RamanFiber') and line[k]['type'] == 'Fused')):
                k -= 1
            first = line[k]['type']
            if k == 0:
                if ch['src'].startswith('R') and first in ('Fiber', 'RamanFiber'):
                    return True                 # automatic booster
                continue
            opener = line[k - 1]
            if opener['type'] in ('Fiber', 'RamanFiber'):
                return True                     # automatic inline amplifier
            if opener['type'] == 'Edfa' and (opener.get('operational') or {}).get('delta_p') is None:
                return True
    return False


def gen_case(rng, tier, widen=False, raman_rate=0.08, raman_crash_rate=0.01, trx_src_rate=0.12, eol_zero=False,
             lumped=False, multiband=False, band_spacing=False):
    k = rng.choice([1, 1, 1, 2, 2, 3, 4, 5]) if tier == 'thorough' else rng.choice([1, 1, 1, 1, 2, 2, 3, 5])
    span = gen_span(rng, widen)
    if eol_zero:
        span['EOL'] = 0
    raman = rng.random() < raman_rate
    crash = (not raman) and rng.random() < raman_crash_rate
    chains = []
    for i in range(1, k + 1):
        for (s, d) in ((0, i), (i, 0)):
            use_raman = raman and i == 1 and s == 0
            use_crash = crash and i == 1 and s == 0
            chains.append({'src': f'R{s}', 'dst': f'R{d}',
                           'line': gen_line(rng, f'e{s}{d}', tier, widen, raman=use_raman, allow_raman_crash=use_crash,
                                            lumped=lumped)})
    trx_src = None
    if rng.random() < trx_src_rate:
        use_raman = rng.random() < 0.5
        trx_src = {'src': 'TX', 'dst': 'R0',
                   'line': gen_line(rng, 'ex0', tier, widen, raman=use_raman, src_is_trx=True)}
        raman = raman or use_raman
    roadms = {f'R{i}': gen_roadm_params(rng) for i in range(k + 1)}
    roadm_design = {}
    if band_spacing and rng.random() < 0.55:
        # single design bands with their OWN spacing on some ROADMs (node level) or on the first degree of the hub
        # (per_degree_design_bands), different from the 50 GHz of the SI: the design load is counted per band
        for i in range(k + 1):
            if rng.random() < 0.6:
                roadm_design[f'R{i}'] = {'f_min': rng.choice([191.3e12, 191.3e12, 192.0e12]),
                                         'f_max': rng.choice([195.1e12, 195.1e12, 195.0e12]),
                                         'spacing': rng.choice([100e9, 100e9, 37.5e9, 75e9, 62.5e9, 200e9]),
                                         'per_degree': i == 0 and rng.random() < 0.4}
    roadm_bands = {}
    eqpt = None
    if multiband:
        for i in range(k + 1):
            if rng.random() < 0.15:
                roadm_bands[f'R{i}'] = 1            # an explicit single design band
    if multiband and not raman and not crash and trx_src is None and rng.random() < 0.3:
        # C+L design bands on the hub and on some spokes (multiband equipment library); lines leaving a C+L ROADM carry
        # no single-band user amplifier but sometimes a user Multiband_amplifier
        eqpt = 'eqpt_config_multiband.json'
        roadm_bands['R0'] = 2
        for i in range(1, k + 1):
            x = rng.random()
            if x < 0.12:
                roadm_bands[f'R{i}'] = 2
            elif x < 0.45:
                roadm_bands[f'R{i}'] = 1
        for ch in chains:
            if roadm_bands.get(ch['src'], 1) > 1:
                line = []
                for e in ch['line']:
                    if e['type'] == 'Edfa':
                        if rng.random() < 0.5:
                            continue
                        e = {'uid': e['uid'], 'type': 'Multiband_amplifier', 'amplifiers': []}
                        if rng.random() < 0.4:
                            e['type_variety'] = 'std_low_gain_multiband_bis'
                    line.append(e)
                ch['line'] = line or [gen_fiber(rng, f"{ch['src']}{ch['dst']} mb", max_km=120.0)]
                if rng.random() < 0.7:
                    # a line the current code can design: it starts and ends with a fibre (booster and preamp are inserted)
                    if ch['line'][0]['type'] != 'Fiber':
                        ch['line'].insert(0, gen_fiber(rng, f"{ch['src']}{ch['dst']} mb0", max_km=120.0))
                    if ch['line'][-1]['type'] != 'Fiber':
                        ch['line'].append(gen_fiber(rng, f"{ch['src']}{ch['dst']} mb9", max_km=120.0))
        span['delta_power_range_db'] = span['delta_power_range_db']
    # per-degree targets on the hub for some egress lines (named after the element the degree will have AFTER design
    # is not known here: the key is resolved in build())
    per_degree = {}
    if rng.random() < 0.25:
        per_degree[rng.randrange(1, k + 1)] = rng.choice([-19, -22.5, -16.5])
    edfa_mod = {}
    if rng.random() < 0.35:
        for name in STD_AMPS:
            if rng.random() < 0.7:
                edfa_mod[name] = {'out_voa_auto': True}
    return {'k': k, 'chains': chains, 'trx_src': trx_src, 'roadms': roadms, 'per_degree': {str(a): b for a, b in
                                                                                          per_degree.items()},
            'span': span, 'si': gen_si(rng), 'edfa_mod': edfa_mod if not eqpt else {}, 'has_raman': raman or crash,
            'roadm_bands': roadm_bands, 'eqpt': eqpt, 'roadm_design': roadm_design}


# ---------------------------------------------------------------------------------------------------------------------
# build through gnpy's loaders
# ---------------------------------------------------------------------------------------------------------------------

def equipment_for(case):
    eq = nets.eqpt(case.get('eqpt') or 'eqpt_config.json')
    if case.get('eqpt'):
        # one default band: ROADMs without design_bands are single-band (the second SI entry of the multiband library would
        # make every ROADM C+L by default)
        eq['SI'].pop('lband', None)
    return apply_overrides(eq, case)


def apply_overrides(eq, case):
    """the Span / SI / Edfa modifications of the case on a loaded library"""
    sp = eq['Span']['default']
    for k, v in case['span'].items():
        setattr(sp, k, copy.deepcopy(v))
    si = eq['SI']['default']
    for k, v in case['si'].items():
        setattr(si, k, v)
    for name, kv in case.get('edfa_mod', {}).items():
        for k, v in kv.items():
            setattr(eq['Edfa'][name], k, v)
    return eq


def all_chains(case):
    return list(case['chains']) + ([case['trx_src']] if case.get('trx_src') else [])


def design_degree_key(case, roadm):
    """uid of the element that follows `roadm` on its first line after design, when it is known beforehand (first element
    not a fibre, or a fibre that is never split: its booster name)"""
    ch = next((c for c in case['chains'] if c['src'] == roadm), None)
    if ch is None:
        return None
    first = ch['line'][0]
    if first['type'] in ('Fiber', 'RamanFiber'):
        return f"Edfa_booster_{roadm}_to_{first['uid']}" if first['params']['length'] < 100.0 else None
    return first['uid']


def design_band_of(case, ch, eq):
    """(f_min, f_max, spacing) of the design band of the OMS `ch` (own reading of the configuration): the band of that
    degree if the user defined one, else the ROADM's band, else the SI band"""
    si = eq['SI']['default']
    d = (case.get('roadm_design') or {}).get(ch['src'])
    if d:
        if not d.get('per_degree'):
            return d['f_min'], d['f_max'], d['spacing']
        first = next((c for c in case['chains'] if c['src'] == ch['src']), None)
        if first is ch and design_degree_key(case, ch['src']):
            return d['f_min'], d['f_max'], d['spacing']
    if (case.get('roadm_bands') or {}).get(ch['src']) == 1:
        b = BANDS_CL[0]                 # an explicit single design band on the ROADM
        return b['f_min'], b['f_max'], b['spacing']
    return si.f_min, si.f_max, si.spacing


def topology_json(case):
    k = case['k']
    els, cxs = [], []
    for i in range(k + 1):
        els += [nets.trx(f'T{i}'), nets.roadm(f'R{i}', dict(case['roadms'].get(f'R{i}', {})) or None)]
        cxs += [nets.cx(f'T{i}', f'R{i}'), nets.cx(f'R{i}', f'T{i}')]
    for e in els:
        nb = (case.get('roadm_bands') or {}).get(e['uid'])
        if e['type'] == 'Roadm' and nb:
            # 2 = C+L, 1 = an explicit single C band (same as no design_bands at all)
            e.setdefault('params', {})['design_bands'] = copy.deepcopy(BANDS_CL[:nb])
    for e in els:
        d = (case.get('roadm_design') or {}).get(e['uid']) if e['type'] == 'Roadm' else None
        if d:
            band = {'f_min': d['f_min'], 'f_max': d['f_max'], 'spacing': d['spacing']}
            key = design_degree_key(case, e['uid']) if d.get('per_degree') else None
            if key:
                e.setdefault('params', {})['per_degree_design_bands'] = {key: [band]}
            elif not d.get('per_degree'):
                e.setdefault('params', {})['design_bands'] = [band]
    if case.get('trx_src'):
        els.append(nets.trx('TX'))
        cxs.append(nets.cx('R0', 'TX'))
    # per-degree targets of the hub: the key is the uid of the element that follows R0 after design
    pd = {}
    for spoke, val in case.get('per_degree', {}).items():
        ch = next((c for c in case['chains'] if c['src'] == 'R0' and c['dst'] == f'R{spoke}'), None)
        if ch is None:
            continue
        first = ch['line'][0]
        if first['type'] in ('Fiber', 'RamanFiber'):
            if first['params']['length'] < 100.0:       # never split (max_length >= 100 km): booster name is known
                pd[f"Edfa_booster_R0_to_{first['uid']}"] = val
        else:
            pd[first['uid']] = val
    if pd:
        for e in els:
            if e['uid'] == 'R0':
                e.setdefault('params', {})['per_degree_pch_out_db'] = pd
    for ch in all_chains(case):
        line = []
        for e in ch['line']:
            e = copy.deepcopy(e)
            e['metadata'] = nets.loc()
            line.append(e)
        nets.chain(els, cxs, ch['src'], ch['dst'], line)
    return {"elements": els, "connections": cxs}


def kind_of(node):
    from gnpy.core import elements as E
    if isinstance(node, E.RamanFiber):
        return 'raman'
    if isinstance(node, E.Fiber):
        return 'fiber'
    if isinstance(node, E.Fused):
        return 'fused'
    if isinstance(node, E.Edfa):
        return 'edfa'
    if isinstance(node, E.Multiband_amplifier):
        return 'multiband'
    if isinstance(node, E.Roadm):
        return 'roadm'
    if isinstance(node, E.Transceiver):
        return 'trx'
    return type(node).__name__


def fnum(x):
    return None if x is None else float(x)


def record(node):
    """plain-data view of one line element (what the model takes as input / is compared with)"""
    from gnpy.core.utils import lin2db
    k = kind_of(node)
    if k in ('fiber', 'raman'):
        p = node.params
        lumps = [[float(x['position']), float(x['loss'])] for x in p.lumped_losses]
        lumped = float(sum(x[1] for x in lumps))
        return {'kind': k, 'uid': node.uid, 'length': float(p.length),
                'loss_coef': float(node.loss_coef_func(p.ref_frequency)),
                'con_in': fnum(p.con_in), 'con_out': fnum(p.con_out), 'att_in': float(p.att_in), 'lumped': lumped, 'lumps': lumps,
                'raman_gain': fnum(getattr(node, 'estimated_gain', None)),
                'dsl': fnum(getattr(node, 'design_span_loss', None)), 'type_variety': node.type_variety}
    if k == 'fused':
        return {'kind': k, 'uid': node.uid, 'loss': float(node.loss)}
    if k == 'edfa':
        op = node.operational
        return {'kind': k, 'uid': node.uid, 'variety': node.params.type_variety or '',
                'gain_target': fnum(op.gain_target), 'delta_p_user': fnum(op.delta_p), 'out_voa_user': fnum(op.out_voa),
                'in_voa_user': fnum(op.in_voa), 'tilt_user': fnum(op.tilt_target),
                'effective_gain': fnum(node.effective_gain), 'delta_p': fnum(node.delta_p),
                '_delta_p': fnum(node._delta_p), 'out_voa': fnum(node.out_voa), 'in_voa': fnum(node.in_voa),
                'tilt_target': fnum(node.tilt_target), 'target_pch_out_dbm': fnum(node.target_pch_out_dbm)}
    if k == 'multiband':
        return {'kind': k, 'uid': node.uid, 'variety': getattr(node, 'type_variety', None) or '',
                'amps': {b: {'variety': a.params.type_variety or '', 'effective_gain': fnum(a.effective_gain),
                             'out_voa': fnum(a.out_voa), 'delta_p': fnum(a.delta_p)} for b, a in node.amplifiers.items()}}
    return {'kind': k, 'uid': node.uid}


def base_uid(uid):
    return SPLIT_RE.sub('', uid)


def walk_from(net, node):
    """follow successors from `node` (a line element) to the next ROADM/transceiver; returns (elements, endpoint)"""
    from gnpy.core import elements as E
    out = []
    seen = set()
    while not isinstance(node, (E.Roadm, E.Transceiver)):
        if node.uid in seen:
            return out, None
        seen.add(node.uid)
        out.append(node)
        succ = list(net.successors(node))
        if len(succ) != 1:
            return out, None
        node = succ[0]
    return out, node


def chains_of(net, case):
    """the chains of the (loaded or designed) network, in the order of all_chains(case): lists of element objects.
    A chain is recognised by the base uids of its original elements."""
    from gnpy.core import elements as E
    by = nets.by_uid(net)
    owner = {}
    for i, ch in enumerate(all_chains(case)):
        for e in ch['line']:
            owner[e['uid']] = i
    res = [None] * len(all_chains(case))
    ends = [None] * len(all_chains(case))
    for i, ch in enumerate(all_chains(case)):
        src = by[ch['src']]
        for first in net.successors(src):
            if isinstance(first, (E.Roadm, E.Transceiver)):
                continue
            elems, end = walk_from(net, first)
            own = {owner.get(base_uid(e.uid)) for e in elems} - {None}
            if i in own:
                res[i] = elems
                ends[i] = end
                break
    # a chain none of whose elements kept a recognisable name: the only line from its source to its destination
    for i, ch in enumerate(all_chains(case)):
        if res[i] is not None:
            continue
        taken = {id(r[0]) for r in res if r}
        for first in net.successors(by[ch['src']]):
            if isinstance(first, (E.Roadm, E.Transceiver)) or id(first) in taken:
                continue
            elems, end = walk_from(net, first)
            if end is not None and end.uid == ch['dst']:
                res[i] = elems
                ends[i] = end
                break
    return res, ends


def split_bounds(span):
    """(min_length, max_length, target_length) exactly as add_missing_elements_in_network derives them"""
    unit = {'m': 1, 'km': 1e3}[span['length_units']]
    max_length = int(span['max_length'] * unit)
    min_length = max(int(span['padding'] / 0.2 * 1e3), 50_000)
    target = max(min_length, min(max_length, 90_000))
    return min_length, max_length, target


def elem_model(rec):
    """record -> JSON argument of the model driver (floats as bit patterns)"""
    from common.util import f2b

    def ob(x):
        return None if x is None else f2b(x)
    k = rec['kind']
    if k in ('fiber', 'raman'):
        return {'kind': 'fiber', 'uid': rec['uid'], 'length': f2b(rec['length']), 'loss_coef': f2b(rec['loss_coef']),
                'con_in': ob(rec['con_in']), 'con_out': ob(rec['con_out']), 'att_in': f2b(rec['att_in']),
                'lumps': [[f2b(a), f2b(b)] for a, b in rec.get('lumps', [])], 'raman': k == 'raman', 'raman_gain': ob(rec.get('raman_gain')),
                'dsl': ob(rec.get('dsl'))}
    if k == 'fused':
        return {'kind': 'fused', 'uid': rec['uid'], 'loss': f2b(rec['loss'])}
    if k == 'edfa':
        return {'kind': 'edfa', 'uid': rec['uid'], 'variety': rec['variety'], 'gain': ob(rec['gain_target']),
                'delta_p': ob(rec['delta_p_user']), 'out_voa': ob(rec['out_voa_user']), 'in_voa': ob(rec['in_voa_user']),
                'tilt': ob(rec['tilt_user'])}
    if k == 'multiband':
        return {'kind': 'edfa', 'uid': rec['uid'], 'variety': rec['variety'], 'gain': None, 'delta_p': None,
                'out_voa': None, 'in_voa': None, 'tilt': None, 'multi': True}
    raise ValueError(k)


def fiber_true_loss(rec):
    """loss of a fibre record from its parameters (own arithmetic, not Fiber.loss)"""
    return rec['loss_coef'] * rec['length'] + (rec['con_in'] or 0.0) + (rec['con_out'] or 0.0) + rec['att_in'] \
        + rec['lumped']


def rec_loss(rec):
    if rec['kind'] in ('fiber', 'raman'):
        return fiber_true_loss(rec)
    if rec['kind'] == 'fused':
        return rec['loss']
    return 0.0


def shrink_candidates(case):
    """smaller cases: drop a spoke, drop the transceiver line, drop one element, reset configuration items"""
    k = case['k']
    if k > 1:
        for i in range(k, 0, -1):
            c = copy.deepcopy(case)
            c['chains'] = [ch for ch in c['chains'] if f'R{i}' not in (ch['src'], ch['dst'])]
            # renumber spokes
            ren = {}
            j = 1
            for a in range(1, k + 1):
                if a != i:
                    ren[f'R{a}'] = f'R{j}'
                    j += 1
            ren['R0'] = 'R0'
            for ch in c['chains']:
                ch['src'], ch['dst'] = ren[ch['src']], ren[ch['dst']]
            c['roadms'] = {ren[r]: v for r, v in c['roadms'].items() if r in ren}
            c['roadm_bands'] = {ren[r]: v for r, v in (c.get('roadm_bands') or {}).items() if r in ren}
            c['roadm_design'] = {ren[r]: v for r, v in (c.get('roadm_design') or {}).items() if r in ren}
            c['per_degree'] = {}
            c['k'] = k - 1
            yield c
    if case.get('trx_src'):
        c = copy.deepcopy(case)
        c['trx_src'] = None
        yield c
    for ci, ch in enumerate(all_chains(case)):
        if len(ch['line']) > 1:
            for ei in range(len(ch['line'])):
                c = copy.deepcopy(case)
                target = all_chains(c)[ci]
                del target['line'][ei]
                yield c
    for ci, ch in enumerate(all_chains(case)):
        for ei, e in enumerate(ch['line']):
            if e['type'] == 'Multiband_amplifier':
                continue
            if e['type'] == 'Edfa' and (e.get('operational') or e.get('type_variety')):
                c = copy.deepcopy(case)
                all_chains(c)[ci]['line'][ei] = {'uid': e['uid'], 'type': 'Edfa'}
                yield c
            if e['type'] == 'Fiber' and e['params'].get('lumped_losses'):
                c = copy.deepcopy(case)
                all_chains(c)[ci]['line'][ei]['params'].pop('lumped_losses')
                yield c
            if e['type'] == 'Fiber' and e['params']['length'] not in (80.0,):
                for L in (80.0, 10.0, 200.0):
                    if L != e['params']['length']:
                        c = copy.deepcopy(case)
                        all_chains(c)[ci]['line'][ei]['params']['length'] = L
                        all_chains(c)[ci]['line'][ei]['params'].pop('lumped_losses', None)
                        yield c
    if case.get('edfa_mod'):
        c = copy.deepcopy(case)
        c['edfa_mod'] = {}
        yield c
    for r in list(case.get('roadm_design') or {}):
        c = copy.deepcopy(case)
        del c['roadm_design'][r]
        yield c
    for r, nb in list((case.get('roadm_bands') or {}).items()):
        if nb > 1 and any(e['type'] == 'Multiband_amplifier' for ch in all_chains(case) if ch['src'] == r for e in ch['line']):
            continue        # a Multiband_amplifier behind a single-band ROADM is not a well-formed input
        c = copy.deepcopy(case)
        del c['roadm_bands'][r]
        yield c
    if case.get('per_degree'):
        c = copy.deepcopy(case)
        c['per_degree'] = {}
        yield c
    for r, v in case['roadms'].items():
        if v:
            c = copy.deepcopy(case)
            c['roadms'][r] = {}
            yield c
    default = {'power_mode': True, 'delta_power_range_db': [-2, 3, 0.5], 'power_slope': 0.3, 'span_loss_ref': 20.0,
               'padding': 10, 'EOL': 0, 'con_in': 0, 'con_out': 0, 'max_length': 150, 'voa_margin': 1, 'voa_step': 0.5,
               'target_extended_gain': 2.5, 'max_fiber_lineic_loss_for_raman': 0.25}
    for key, v in default.items():
        if case['span'].get(key) != v:
            c = copy.deepcopy(case)
            c['span'][key] = v
            yield c
    dsi = {'power_dbm': 0, 'tx_power_dbm': 0, 'use_si_channel_count_for_design': True}
    for key, v in dsi.items():
        if case['si'].get(key) != v:
            c = copy.deepcopy(case)
            c['si'][key] = v
            yield c
