"""Run-time recording of SpectralInformation bookkeeping (used by C01, C02, C07).

Nothing in /repo is changed: while a `Recorder` is active the six mutating methods of
`gnpy.core.info.SpectralInformation` and the `__call__` of every element class are wrapped *in this process* so
that for every element call we know the state before, the op list (with the argument each channel saw) and the state
after.  Sub-calls (`apply_attenuation_db` -> `apply_attenuation_lin`, `Multiband_amplifier` -> `Edfa`) are folded
into the outermost one; ops executed on demultiplexed sub-spectra are attributed to channels by frequency.

Also: builders of designed networks (shipped examples and generated topologies) and of mixed-rate spectra with
integer-Hz frequencies.
"""
import copy
import math

import numpy as np

from common import nets

OPS = {'apply_attenuation_lin': 'attLin', 'apply_attenuation_db': 'attDb', 'apply_gain_lin': 'gainLin',
       'apply_gain_db': 'gainDb', 'add_ase': 'addAse', 'add_nli': 'addNli'}


TRX_FIGS = ('raw_osnr_ase', 'raw_osnr_nli', 'raw_snr', 'raw_osnr_ase_01nm', 'raw_snr_01nm',
            'osnr_ase', 'osnr_nli', 'snr', 'osnr_ase_01nm', 'snr_01nm')


def snapshot(si):
    """copy of everything observable about a SpectralInformation (arrays in channel order)"""
    return {'freq': np.array(si._frequency, dtype=float), 'p': np.array(si._pch, dtype=float),
            's': np.array(si._signal_ratio, dtype=float), 'a': np.array(si._ase_ratio, dtype=float),
            'n': np.array(si._nli_ratio, dtype=float), 'baud': np.array(si._baud_rate, dtype=float),
            'slot': np.array(si._slot_width, dtype=float), 'label': [str(x) for x in si._label],
            'tx_power': np.array(si._tx_power, dtype=float), 'tx_osnr': np.array(si._tx_osnr, dtype=float),
            'delta_pdb': np.array(si._delta_pdb_per_channel, dtype=float),
            'roll_off': np.array(si._roll_off, dtype=float)}


class Call:
    """one outermost element call"""
    __slots__ = ('uid', 'kind', 'before', 'after', 'ops', 'error', 'el')

    def __init__(self, el):
        self.el = el
        self.uid = el.uid
        self.kind = type(el).__name__
        self.before = None
        self.after = None
        self.ops = []      # [(kind, freq array, arg array)] in execution order
        self.error = None

    def per_channel_ops(self):
        """{frequency: [(kind, arg)]} for the channels present before the call"""
        res = {float(f): [] for f in self.before['freq']}
        for kind, freq, arg in self.ops:
            for f, x in zip(freq, arg):
                res.setdefault(float(f), []).append((kind, float(x)))
        return res

    def op_kinds(self):
        return [k for k, _, _ in self.ops]


class Recorder:
    """context manager; `calls` = outermost element calls in order; `op_events` = (kind, before, arg, after) of every
    outermost mutating call (for the op-level monitor); `update_snr_args` = {uid: [args]}"""

    def __init__(self, keep_op_events=True):
        self.calls = []
        self.op_events = []
        self.loose_ops = []     # ops executed outside any element call
        self.update_snr_args = {}
        self.update_snr_calls = []   # every Transceiver.update_snr call, in order (see `update_snr` below)
        self.last_state = {}         # uid -> (index of its last outermost call, snapshot after it)
        self.keep_op_events = keep_op_events
        self._el_depth = 0
        self._op_depth = 0
        self._cur = None
        self._saved = []

    # -- patching ---------------------------------------------------------------------------------------------------
    def __enter__(self):
        from gnpy.core.info import SpectralInformation
        from gnpy.core import elements as E
        rec = self

        def wrap_op(name, orig):
            kind = OPS[name]

            def wrapped(si, arg):
                if rec._op_depth > 0:
                    return orig(si, arg)
                rec._op_depth += 1
                try:
                    n = len(si._frequency)
                    before = (np.array(si._pch, dtype=float), np.array(si._signal_ratio, dtype=float),
                              np.array(si._ase_ratio, dtype=float), np.array(si._nli_ratio, dtype=float))
                    try:
                        a = np.array(np.broadcast_to(np.asarray(arg, dtype=float), (n,)), dtype=float)
                    except Exception:
                        return orig(si, arg)    # let the implementation raise its own error
                    res = orig(si, arg)
                    entry = (kind, np.array(si._frequency, dtype=float), a)
                    if rec._cur is not None:
                        rec._cur.ops.append(entry)
                    else:
                        rec.loose_ops.append(entry)
                    if rec.keep_op_events:
                        after = (np.array(si._pch, dtype=float), np.array(si._signal_ratio, dtype=float),
                                 np.array(si._ase_ratio, dtype=float), np.array(si._nli_ratio, dtype=float))
                        rec.op_events.append((kind, before, a, after, rec._cur.uid if rec._cur else None))
                    return res
                finally:
                    rec._op_depth -= 1
            return wrapped

        for name in OPS:
            orig = getattr(SpectralInformation, name)
            self._saved.append((SpectralInformation, name, orig))
            setattr(SpectralInformation, name, wrap_op(name, orig))

        def wrap_call(orig):
            def wrapped(el, spectral_info, *args, **kw):
                if rec._el_depth > 0:
                    return orig(el, spectral_info, *args, **kw)
                rec._el_depth += 1
                call = Call(el)
                call.before = snapshot(spectral_info)
                rec._cur = call
                rec.calls.append(call)
                try:
                    out = orig(el, spectral_info, *args, **kw)
                    call.after = snapshot(out)
                    rec.last_state[el.uid] = (len(rec.calls) - 1, call.after)
                    return out
                except Exception as e:
                    call.error = e
                    raise
                finally:
                    rec._cur = None
                    rec._el_depth -= 1
            return wrapped

        for cls in (E.Transceiver, E.Roadm, E.Fused, E.Fiber, E.Edfa, E.Multiband_amplifier):
            orig = cls.__dict__['__call__']
            self._saved.append((cls, '__call__', orig))
            setattr(cls, '__call__', wrap_call(orig))

        orig_us = E.Transceiver.update_snr

        def update_snr(trx, *args):
            rec.update_snr_args[trx.uid] = [None if a is None else np.array(a, dtype=float) for a in args]
            res = orig_us(trx, *args)
            idx, state = rec.last_state.get(trx.uid, (None, None))
            with np.errstate(divide='ignore', invalid='ignore'):
                figs = {nm: np.array(getattr(trx, nm), dtype=float) for nm in TRX_FIGS}
            rec.update_snr_calls.append({'uid': trx.uid, 'args': rec.update_snr_args[trx.uid], 'call_index': idx,
                                         'state': state, 'figs': figs})
            return res
        self._saved.append((E.Transceiver, 'update_snr', orig_us))
        E.Transceiver.update_snr = update_snr
        return self

    def __exit__(self, *exc):
        for cls, name, orig in reversed(self._saved):
            setattr(cls, name, orig)
        self._saved = []
        return False


# ---------------------------------------------------------------------------------------------------------------------
# networks
# ---------------------------------------------------------------------------------------------------------------------

EXAMPLES = {
    'edfa': ('eqpt_config.json', 'edfa_example_network.json', None),
    'mesh': ('eqpt_config.json', 'meshTopologyExampleV2.json', None),
    'fused': ('eqpt_config.json', 'fused_roadm_example_network.json', None),
    'raman': ('eqpt_config.json', 'raman_edfa_example_network.json', 'raman'),
    'multiband': ('eqpt_config_multiband.json', 'multiband_example_network.json', None),
    'openroadm5': ('eqpt_config_openroadm_ver5.json', 'Sweden_OpenROADMv5_example_network.json', None),
    'openroadm4': ('eqpt_config_openroadm_ver4.json', 'Sweden_OpenROADMv4_example_network.json', None),
}
_designed = {}

RAMAN_SIM = {'raman_params': {'flag': True, 'result_spatial_resolution': 10e3, 'solver_spatial_resolution': 50},
             'nli_params': {'method': 'gn_model_analytic', 'dispersion_tolerance': 1, 'phase_shift_tolerance': 0.1,
                            'computed_channels': None}}
GGN_APPROX_SIM = {'raman_params': {'flag': False},
                  'nli_params': {'method': 'ggn_approx', 'dispersion_tolerance': 1, 'phase_shift_tolerance': 0.1,
                                 'computed_channels': None}}
RAMAN_SIM_GGN = {'raman_params': {'flag': True, 'result_spatial_resolution': 10e3, 'solver_spatial_resolution': 50},
                 'nli_params': {'method': 'ggn_spectrally_separated', 'dispersion_tolerance': 1,
                                'phase_shift_tolerance': 0.1, 'computed_channels': [1, 3]}}


class sim_params:
    """set SimParams for the duration of a block, restore the defaults afterwards"""

    def __init__(self, params):
        self.params = params

    def __enter__(self):
        from gnpy.core.parameters import SimParams
        if self.params is not None:
            SimParams.set_params(copy.deepcopy(self.params))

    def __exit__(self, *exc):
        from gnpy.core.parameters import SimParams
        SimParams.set_params({})
        return False


def example(name):
    """(equipment, designed network, [transceiver uids]) of a shipped example, designed once per process"""
    if name not in _designed:
        from gnpy.tools.json_io import load_network
        from gnpy.tools.worker_utils import designed_network
        from gnpy.core.elements import Transceiver
        eqn, netn, _ = EXAMPLES[name]
        eq = nets.eqpt(eqn)
        try:
            net = load_network(nets.EX / netn, eq)
        except Exception:   # fused_roadm_example_network.json does not pass the YANG validation of load_network
            from gnpy.tools.json_io import load_json, network_from_json
            net = network_from_json(load_json(nets.EX / netn), eq)
        trx = sorted(n.uid for n in net.nodes() if isinstance(n, Transceiver))
        net, _, _ = designed_network(eq, net, source=trx[0], destination=trx[-1])
        _designed[name] = (eq, net, trx)
    return _designed[name]


EDFA_VARIETIES = ['std_medium_gain', 'std_low_gain', 'std_high_gain', 'high_detail_model_example', 'operator_model_example',
                  'openroadm_ila_low_noise', 'openroadm_ila_standard', 'std_fixed_gain', 'high_power',
                  'medium+low_gain', 'Juniper_BoosterHG', 'openroadm_mw_mw_preamp', 'openroadm_mw_mw_booster']


def gen_topology(rng, max_roadms=3, raman=False):
    """JSON description (not the topology itself) of a small line system: ROADM chain with 1-3 spans per hop, optional
    fused splices, explicit amplifier varieties (all NF models of the stock library), connector/padding losses"""
    n_roadm = 2 if raman else rng.randint(2, max_roadms)
    hops = []
    for _ in range(n_roadm - 1):
        spans = []
        for _ in range(rng.choice([1, 1, 2, 3])):
            spans.append({'len': rng.choice([20.0, 40.0, 65.0, 80.0, 100.0, 120.0, round(rng.uniform(15, 130), 1)]),
                          'fiber': rng.choice(['SSMF', 'SSMF', 'NZDF', 'LOF']),
                          'con_in': rng.choice([None, 0.0, 0.5, 1.2]), 'con_out': rng.choice([None, 0.0, 0.5, 1.0]),
                          'att_in': rng.choice([0.0, 0.0, 1.5]),
                          'fused_after': rng.random() < 0.2, 'fused_loss': rng.choice([None, 0.0, 1.0, 2.5]),
                          'amp': rng.choice([None, None] + EDFA_VARIETIES),
                          'out_voa': rng.choice([None, None, 0.0, 1.0, 3.0]),
                          'in_voa': rng.choice([None, None, None, 0.0, 1.0, 2.5]),
                          'tilt': rng.choice([0.0, 0.0, 0.0, -1.0, 1.5]),
                          'disp': rng.choice([None, None, None, -8.0e-6, -1.67e-5, -2.5e-6, 'pf_neg', 'slope_neg']),
                          'raman': False})
        hops.append(spans)
    if raman:
        # the auto-design of /repo cannot size an amplifier that *precedes* a RamanFiber (span_loss is called without
        # input power -> TypeError in estimate_raman_gain); like the shipped raman example the Raman span therefore
        # directly follows the transmitter, no ROADMs, one direction
        hops[0][0]['raman'] = True
        hops[0][0]['fiber'] = 'SSMF'
        hops[0][0]['len'] = rng.choice([80.0, 100.0, 60.0])
        hops[0][0]['con_in'] = rng.choice([0.0, 0.5])    # RamanFiber.__init__ needs explicit connector losses
        hops[0][0]['con_out'] = rng.choice([0.5, 1.0])
        hops[0][0]['fused_after'] = False
        hops[0][0]['disp'] = None
        hops[0][0]['pumps'] = rng.choice(['above', 'above+below', 'below_strong', 'below_co', 'below_co_first', 'below_only'])
        return {'hops': hops, 'roadms': [None, None]}
    roadms = []
    for _ in range(n_roadm):
        kind = rng.choice(['pch', 'pch', 'psd', 'psw'])
        val = {'pch': rng.choice([-20.0, -18.0, -23.5, -16.0]), 'psd': rng.choice([3.125e-4, 2.0e-4, 5e-4]),
               'psw': rng.choice([2.0e-4, 1.5e-4, 4e-4])}[kind]
        roadms.append({'kind': kind, 'val': val, 'variety': rng.choice([None, None, 'detailed_impairments'])})
    return {'hops': hops, 'roadms': roadms}


# Raman pump sets: the usual pumps above the band, and sets with a pump at a LOWER frequency than the C-band channels
# (190 / 190.9 THz: below every carrier of a C-band comb, never on a carrier)
PUMP_SETS = {
    'above': [{'power': 224.403e-3, 'frequency': 205e12, 'propagation_direction': 'counterprop'},
              {'power': 231.135e-3, 'frequency': 201e12, 'propagation_direction': 'counterprop'}],
    'above+below': [{'power': 200e-3, 'frequency': 205e12, 'propagation_direction': 'counterprop'},
                    {'power': 150e-3, 'frequency': 201e12, 'propagation_direction': 'counterprop'},
                    {'power': 250e-3, 'frequency': 190e12, 'propagation_direction': 'counterprop'}],
    'below_strong': [{'power': 60e-3, 'frequency': 203e12, 'propagation_direction': 'counterprop'},
                     {'power': 350e-3, 'frequency': 190.9e12, 'propagation_direction': 'counterprop'}],
    'below_co': [{'power': 120e-3, 'frequency': 204e12, 'propagation_direction': 'counterprop'},
                 {'power': 200e-3, 'frequency': 190e12, 'propagation_direction': 'coprop'}],
    'below_co_first': [{'power': 200e-3, 'frequency': 190e12, 'propagation_direction': 'coprop'},
                       {'power': 120e-3, 'frequency': 204e12, 'propagation_direction': 'counterprop'}],
    'below_only': [{'power': 300e-3, 'frequency': 190.5e12, 'propagation_direction': 'counterprop'}],
}


RKEY = {'pch': 'target_pch_out_db', 'psd': 'target_psd_out_mWperGHz', 'psw': 'target_out_mWperSlotWidth'}


def build_topology(desc):
    """topology JSON (both directions) from a `gen_topology` description"""
    els, cxs = [], []
    if desc['roadms'][0] is None:
        els += [nets.trx('trx 0'), nets.trx('trx 1')]
        nets.chain(els, cxs, 'trx 0', 'trx 1', _line(desc['hops'][0], 'e', 0))
        return {'elements': els, 'connections': cxs}
    for i, r in enumerate(desc['roadms']):
        els.append(nets.trx(f'trx {i}'))
        rd = nets.roadm(f'roadm {i}', {RKEY[r['kind']]: r['val']}, r['variety'])
        els.append(rd)
        cxs += [nets.cx(f'trx {i}', f'roadm {i}'), nets.cx(f'roadm {i}', f'trx {i}')]
    for h, spans in enumerate(desc['hops']):
        for d, (a, b) in (('e', (h, h + 1)), ('w', (h + 1, h))):
            nets.chain(els, cxs, f'roadm {a}', f'roadm {b}', _line(spans, d, h))
    return {'elements': els, 'connections': cxs}


def _line(spans, d, h):
    """line elements of one direction of a hop"""
    line = []
    seq = spans if d == 'e' else list(reversed(spans))
    for k, sp in enumerate(seq):
        params = {'con_in': sp['con_in'], 'con_out': sp['con_out'], 'att_in': sp['att_in']}
        params.update(dispersion_params(sp.get('disp')))
        if sp.get('raman'):
            f = nets.fiber(f'fiber {d}{h}.{k}', sp['len'], 'SSMF', **params)
            f['type'] = 'RamanFiber'
            f['operational'] = {'temperature': 283, 'raman_pumps': copy.deepcopy(PUMP_SETS[sp.get('pumps', 'above')])}
        else:
            f = nets.fiber(f'fiber {d}{h}.{k}', sp['len'], sp['fiber'], **params)
        line.append(f)
        if sp['fused_after'] and k < len(seq) - 1:
            line.append(nets.fused(f'fused {d}{h}.{k}', sp['fused_loss']))
        elif sp['amp'] or sp['out_voa'] is not None or sp['in_voa'] is not None or sp['tilt']:
            op = {'gain_target': None, 'delta_p': None, 'tilt_target': sp['tilt'], 'out_voa': sp['out_voa']}
            if sp['in_voa'] is not None:
                op['in_voa'] = sp['in_voa']
            line.append(nets.edfa(f'edfa {d}{h}.{k}', sp['amp'], op))
    return line


def dispersion_params(disp):
    """Fiber params of a normal-dispersion (D < 0) span: single value, per-frequency table, or value + slope that is
    negative over the whole C+L range"""
    if disp is None:
        return {}
    if disp == 'pf_neg':
        return {'dispersion_per_frequency': {'value': [-1.2e-5, -0.9e-5, -0.6e-5], 'frequency': [185e12, 191e12, 197e12]}}
    if disp == 'slope_neg':
        return {'dispersion': -6.0e-6, 'dispersion_slope': 40.0}
    return {'dispersion': disp}


MB = {'std_medium_gain_multiband': ['std_medium_gain_C', 'std_medium_gain_L'],
      'std_low_gain_multiband': ['std_low_gain', 'std_low_gain_L'],
      'std_low_gain_multiband_reduced': ['std_low_gain_reduced', 'std_low_gain_L'],
      'std_low_gain_multiband_reduced_bis': ['std_low_gain_bis', 'std_low_gain_L_reduced_band'],
      'std_low_gain_multiband_ter': ['std_low_gain', 'std_low_gain_L_ter']}
SINGLE = ['std_low_gain', 'std_low_gain_reduced_band', 'std_medium_gain_C', 'std_low_gain_bis', 'std_low_gain_L',
          'std_low_gain_L_reduced_band', 'std_medium_gain_L']
LBAND_JSON = {'f_min': 186.55e12, 'f_max': 190.05e12, 'spacing': 50e9}
CBAND_JSON = {'f_min': 191.25e12, 'f_max': 196.15e12, 'spacing': 50e9}
_mbnets = {}


def mb_amp_json(uid, hop):
    """amplifier element of a hop: ['mb', variety] explicit multiband amplifier (its `amplifiers` listed C,L – or L,C
    when hop['l_first']), ['auto'] multiband amplifier left to the auto-design (one amplifier per design band, listed
    L first by the design), ['ed', variety] single-band Edfa"""
    kind = hop['amp']
    if kind[0] == 'mb':
        amps = [{'type_variety': v, 'operational': {'gain_target': 20.0, 'delta_p': 0, 'out_voa': 1.0, 'tilt_target': 0.0}}
                for v in MB[kind[1]]]
        if hop.get('l_first'):
            amps.reverse()
        return {'uid': uid, 'type': 'Multiband_amplifier', 'type_variety': kind[1], 'metadata': nets.loc(),
                'amplifiers': amps}
    if kind[0] == 'auto':
        return {'uid': uid, 'type': 'Multiband_amplifier', 'metadata': nets.loc()}
    return {'uid': uid, 'type': 'Edfa', 'type_variety': kind[1], 'metadata': nets.loc(),
            'operational': {'gain_target': 18.0, 'delta_p': 0, 'tilt_target': 0, 'out_voa': 0}}


def mb_chain_net(hops):
    """designed ROADM chain on eqpt_config_multiband.json: hop h = amp (fibre amp)* between roadm h and roadm h+1, both
    directions; cached per description"""
    key = repr(hops)
    if key not in _mbnets:
        from gnpy.tools.json_io import network_from_json
        from gnpy.tools.worker_utils import designed_network
        n = len(hops) + 1
        auto = any(h['amp'][0] == 'auto' for h in hops)
        els, cxs = [], []
        for i in range(n):
            els += [nets.trx(f'trx {i}'), nets.roadm(f'roadm {i}', {'design_bands': [CBAND_JSON, LBAND_JSON]} if auto else None)]
            cxs += [nets.cx(f'trx {i}', f'roadm {i}'), nets.cx(f'roadm {i}', f'trx {i}')]
        for h, hop in enumerate(hops):
            for d, (a, b) in (('e', (h, h + 1)), ('w', (h + 1, h))):
                ln = []
                # 'amp_w': another amplifier kind in the west direction (the two directions of a hop are separate OMSes)
                hop_d = dict(hop, amp=hop['amp_w']) if d == 'w' and hop.get('amp_w') else hop
                for i in range(hop['namp']):
                    ln.append(mb_amp_json(f'amp {d}{h}.{i}', hop_d))
                    if i < hop['namp'] - 1:
                        params = {'con_in': 0.5, 'con_out': 0.5}
                        params.update(dispersion_params(hop.get('disp')))
                        ln.append(nets.fiber(f'fiber {d}{h}.{i}', hop.get('len', 80.0), 'SSMF', **params))
                nets.chain(els, cxs, f'roadm {a}', f'roadm {b}', ln)
        eq = nets.eqpt('eqpt_config_multiband.json')
        net = network_from_json({'elements': els, 'connections': cxs}, eq)
        net, _, _ = designed_network(eq, net, source='trx 0', destination=f'trx {n - 1}')
        if len(_mbnets) > 40:
            _mbnets.clear()
        _mbnets[key] = (eq, net)
    return _mbnets[key]


AUTO_WIDE = [{'f_min': 186.6e12, 'f_max': 190.0e12, 'spacing': 50e9}, {'f_min': 191.3e12, 'f_max': 196.0e12, 'spacing': 50e9}]
AUTO_REDUCED = [{'f_min': 187.4e12, 'f_max': 190.0e12, 'spacing': 50e9}, {'f_min': 191.3e12, 'f_max': 196.0e12, 'spacing': 50e9}]
AUTO_KINDS = {'wide': (AUTO_WIDE, 'std_low_gain_multiband_bis'), 'reduced': (AUTO_REDUCED, 'std_low_gain_multiband_reduced_bis')}
_autonets = {}


def auto_mb_net(kinds, span_km=60.0):
    """designed C+L ROADM chain WITHOUT any amplifier in the topology: every booster / preamp is a Multiband_amplifier inserted
    and sized by the auto-design; ROADM i launches on the design bands and with the booster restriction of kinds[i] ('wide' =
    full L band, 'reduced' = reduced-L multiband variety), so amplifiers of different band sets coexist in one network"""
    key = repr((kinds, span_km))
    if key not in _autonets:
        from gnpy.tools.json_io import network_from_json
        from gnpy.tools.worker_utils import designed_network
        els, cxs = [], []
        n = len(kinds)
        for i, k in enumerate(kinds):
            bands, booster = AUTO_KINDS[k]
            els += [nets.trx(f'trx {i}'),
                    nets.roadm(f'roadm {i}', {'design_bands': copy.deepcopy(bands),
                                              'restrictions': {'preamp_variety_list': [], 'booster_variety_list': [booster]}})]
            cxs += [nets.cx(f'trx {i}', f'roadm {i}'), nets.cx(f'roadm {i}', f'trx {i}')]
        for i in range(n - 1):
            nets.chain(els, cxs, f'roadm {i}', f'roadm {i + 1}', [nets.fiber(f'fiber ({i} -> {i + 1})', span_km)])
            nets.chain(els, cxs, f'roadm {i + 1}', f'roadm {i}', [nets.fiber(f'fiber ({i + 1} -> {i})', span_km)])
        eq = nets.eqpt('eqpt_config_multiband.json')
        net = network_from_json({'elements': els, 'connections': cxs}, eq)
        net, _, _ = designed_network(eq, net, source='trx 0', destination=f'trx {n - 1}')
        if len(_autonets) > 20:
            _autonets.clear()
        _autonets[key] = (eq, net)
    return _autonets[key]


def gen_mb_hops(rng, l_first_share=0.6):
    """1-2 multiband hops of 3-5 amplifiers (so that ASE has accumulated before the amplifier under test), the
    amplifier lists in C,L or L,C order or left to the auto-design"""
    hops = []
    auto = rng.random() < 0.25
    for _ in range(rng.choice([1, 1, 2])):
        amp = ['auto'] if auto else ['mb', rng.choice(list(MB))]
        hops.append({'amp': amp, 'namp': rng.choice([3, 4, 5]), 'l_first': rng.random() < l_first_share,
                     'len': rng.choice([80.0, 60.0, 100.0]), 'disp': rng.choice([None, None, None, -8.0e-6, 'pf_neg'])})
    return hops


def designed_from_desc(desc, eq=None):
    """(equipment, designed network) of a generated description"""
    from gnpy.tools.json_io import network_from_json
    from gnpy.tools.worker_utils import designed_network
    eq = eq or nets.eqpt()
    net = network_from_json(build_topology(desc), eq)
    n = len(desc['roadms'])
    net, _, _ = designed_network(eq, net, source='trx 0', destination=f'trx {n - 1}')
    return eq, net


def path_request(eq, net, src, dst, carriers=None, **over):
    """(path, request) for src -> dst on a designed network; `carriers` = list of carrier dicts or None (uniform grid)"""
    from gnpy.topology.request import PathRequest, compute_constrained_path
    from gnpy.core.info import Carrier
    from gnpy.core.utils import automatic_nch, dbm2watt
    si = eq['SI']['default']
    params = {'request_id': 'r', 'trx_type': '', 'trx_mode': '', 'source': src, 'destination': dst, 'bidir': False,
              'nodes_list': [dst], 'loose_list': ['STRICT'], 'format': '', 'path_bandwidth': 0,
              'effective_freq_slot': None, 'nb_channel': automatic_nch(si.f_min, si.f_max, si.spacing),
              'power': dbm2watt(si.power_dbm), 'tx_power': dbm2watt(si.power_dbm) if getattr(si, 'tx_power_dbm', None)
              is None else dbm2watt(si.tx_power_dbm), 'f_min': si.f_min, 'f_max': si.f_max, 'spacing': si.spacing,
              'baud_rate': si.baud_rate, 'roll_off': si.roll_off, 'tx_osnr': si.tx_osnr, 'sys_margins': si.sys_margins,
              'min_spacing': None, 'cost': None, 'bit_rate': None, 'OSNR': None, 'penalties': {}, 'equalization_offset_db': 0}
    params.update(over)
    req = PathRequest(**params)
    if carriers is not None:
        req.initial_spectrum = {float(c['f']): Carrier(delta_pdb=c['delta_pdb'], baud_rate=float(c['baud']),
                                                       slot_width=float(c['slot']), roll_off=c['roll_off'],
                                                       tx_osnr=c['tx_osnr'], tx_power=c['tx_power'], label=c['label'])
                                for c in carriers}
    path = compute_constrained_path(net, req)
    return path, req


# ---------------------------------------------------------------------------------------------------------------------
# spectra (integer Hz, multiples of 6.25 GHz -> every band/edge comparison is exact in binary64)
# ---------------------------------------------------------------------------------------------------------------------
G = 6_250_000_000
BAUDS = [28_000_000_000, 32_000_000_000, 42_000_000_000, 56_000_000_000, 64_000_000_000, 90_000_000_000]


def gen_carriers(rng, bands, n, pmin_dbm=-30.0, pmax_dbm=10.0, uniform=False):
    """about n non-overlapping carriers spread over the bands [(lo, hi)] (integer Hz)"""
    out = []
    per = max(1, math.ceil(n / len(bands)))
    for bi, (lo, hi) in enumerate(bands):
        f = lo + rng.choice([0, 0, G, 4 * G])
        k = 0
        kind = (rng.choice(BAUDS), rng.choice([0, 0, 2, 4]))
        while k < per:
            if not uniform and rng.random() < 0.5:
                kind = (rng.choice(BAUDS), rng.choice([0, 0, 2, 4]))
            baud, extra = kind
            slot = (math.ceil(baud * 1.0 / (2 * G)) + extra) * 2 * G
            if f + slot > hi:
                break
            p_dbm = rng.choice([0.0, 0.0, -3.0, 3.0, pmax_dbm, pmin_dbm, round(rng.uniform(pmin_dbm, pmax_dbm), 2)])
            out.append({'f': f + slot // 2, 'baud': baud, 'slot': slot, 'roll_off': rng.choice([0.0, 0.15]),
                        'tx_osnr': rng.choice([40.0, 35.0, 45.0, 100.0]), 'tx_power': 10 ** (p_dbm / 10) * 1e-3,
                        'delta_pdb': rng.choice([0.0, 0.0, 0.0, 1.0, -2.0, 2.5]),
                        'label': f'b{bi}-{baud // 1_000_000_000}G'})
            f += slot + rng.choice([0, 0, 0, 2 * G, 8 * G, 40 * G])
            k += 1
    return out


# ---------------------------------------------------------------------------------------------------------------------
# path cases shared by C01 / C02 / C07
# ---------------------------------------------------------------------------------------------------------------------
EX_QUICK = ['edfa', 'mesh', 'fused', 'multiband', 'raman']
EX_THOROUGH = EX_QUICK + ['openroadm5', 'openroadm4']


def gen_path_case(rng, tier, shuffle=False):
    exs = EX_QUICK if tier == 'quick' else EX_THOROUGH
    k = rng.random()
    sim = None
    mb = None
    if k < 0.18:
        # multiband chain, amplifier lists in either order, several dB between the L and C partitions of the launch
        net = {'mbhops': gen_mb_hops(rng)}
        n = len(net['mbhops']) + 1
        a, b = rng.sample(range(n), 2)
        src, dst = f'trx {a}', f'trx {b}'
        mb = {'l_offset': rng.choice([-4.0, -6.0, -3.0, 3.0, 5.0]), 'c_offset': rng.choice([0.0, 0.0, 1.0])}
    elif k < 0.55:
        net = {'desc': gen_topology(rng, max_roadms=3 if tier == 'quick' else 4, raman=rng.random() < 0.12)}
        if any(sp.get('raman') for h in net['desc']['hops'] for sp in h):
            sim = 'raman'
        n = len(net['desc']['roadms'])
        a, b = (0, 1) if sim else rng.sample(range(n), 2)
        src, dst = f'trx {a}', f'trx {b}'
    else:
        name = rng.choice(exs)
        if name == 'raman' and rng.random() < 0.6:
            name = 'mesh'
        net = name
        src = dst = None   # chosen from the example's transceivers by index
        if name == 'raman':
            sim = 'raman_ggn' if (tier == 'thorough' and rng.random() < 0.3) else 'raman'
    nch = rng.choice([2, 4, 8, 12, 20]) if sim else rng.choice([1, 2, 5, 12, 24, 40 if tier == 'quick' else 96])
    ggn = None
    if sim is None and mb is None and not shuffle and rng.random() < 0.22:
        # ggn_approx with an explicit computed_channels list that leaves out the first and/or last channels of a
        # mixed-rate comb (a 32 GBaud / 50 GHz block next to a 64 GBaud / 75 GHz block, as in initial_spectrum2.json,
        # with a power offset per block): the outer channels take their NLI from beyond the computed range
        sim = 'ggn_approx'
        na, nb = rng.choice([6, 10, 16, 24]), rng.choice([6, 10, 14, 20])
        lo_out, hi_out = rng.choice([0, 1, 3, 5]), rng.choice([2, 4, 6, 8])
        if rng.random() < 0.3:
            lo_out, hi_out = hi_out, 0
        lo_out = min(lo_out, (na + nb) // 3)
        hi_out = min(hi_out, (na + nb) // 3)              # at least a third of the comb lies inside the computed range
        swap = rng.random() < 0.35                      # wide block first
        n1 = nb if swap else na
        first, last = 1 + lo_out, na + nb - hi_out
        comp = {first, last}
        # the two outermost computed channels on either side of the block boundary where possible: steep gradient
        if hi_out and last > n1 + 1:
            comp.add(rng.choice([n1, n1 - 1, n1 + 1]))
        if lo_out and first < n1:
            comp.add(rng.choice([n1, n1 + 1, n1 + 2]))
        for _ in range(rng.choice([0, 1, 2])):
            comp.add(rng.randint(first, last))
        ggn = {'na': na, 'nb': nb, 'swap': swap, 'comp': sorted(c for c in comp if first <= c <= last),
               'off_a': rng.choice([0.0, 0.0, 2.0, -3.0, 3.0]), 'off_b': rng.choice([0.0, 0.0, 3.0, -2.0]),
               'gap': rng.choice([0, 0, 2, 8])}
    return {'kind': 'shuffle' if shuffle else 'path', 'net': net, 'src': src, 'dst': dst, 'pick': [rng.random(), rng.random()],
            'sim': sim, 'uniform_grid': (not shuffle) and mb is None and ggn is None and rng.random() < 0.2, 'nch': nch,
            'mb': mb, 'ggn': ggn,
            'cseed': rng.getrandbits(32), 'pmax_dbm': 10.0 if rng.random() < 0.3 else 3.0,
            'order': [rng.random() for _ in range(64)] if shuffle else None}



def mixed_rate_comb(g, bands):
    """two adjacent blocks (32 GBaud in 50 GHz slots, 64 GBaud in 75 GHz slots) inside the widest common band, equal launch
    power, a power offset per block (applied on top of the ROADM target); truncated where the band ends"""
    lo, hi = max(bands, key=lambda b: b[1] - b[0])
    blocks = [(32_000_000_000, 50_000_000_000, g['na'], g['off_a'], 'A-32G'),
              (64_000_000_000, 75_000_000_000, g['nb'], g['off_b'], 'B-64G')]
    if g['swap']:
        blocks.reverse()
    car = []
    f = lo + 2 * G
    for bi, (baud, slot, n, off, label) in enumerate(blocks):
        for _ in range(n):
            if f + slot > hi:
                break
            car.append({'f': f + slot // 2, 'baud': baud, 'slot': slot, 'roll_off': 0.15, 'tx_osnr': 40.0, 'tx_power': 1e-3,
                        'delta_pdb': off, 'label': label})
            f += slot
        f += g['gap'] * G * 2
    return car


def setup_path(case):
    """(equipment, path, request, sim-params dict) of a path/shuffle case"""
    import random
    from gnpy.topology.request import find_elements_common_range
    if isinstance(case['net'], str):
        eq, net, trx = example(case['net'])
        a = int(case['pick'][0] * len(trx))
        b = int(case['pick'][1] * (len(trx) - 1))
        if b >= a:
            b += 1
        src, dst = trx[a], trx[b]
    elif 'mbhops' in case['net']:
        eq, net = mb_chain_net(case['net']['mbhops'])
        src, dst = case['src'], case['dst']
    else:
        eq, net = designed_from_desc(case['net']['desc'])
        src, dst = case['src'], case['dst']
    path, req = path_request(eq, net, src, dst)
    if not path:     # one-directional example (edfa): take the other direction
        src, dst = dst, src
        path, req = path_request(eq, net, src, dst)
    cr = find_elements_common_range(path, eq)
    bands = [(int(b['f_min']), int(b['f_max'])) for b in cr]
    car = []
    if not case['uniform_grid']:
        if not isinstance(case['net'], str) and 'desc' in case['net'] and \
                any(r and r['variety'] for r in case['net']['desc']['roadms']):
            # the 'detailed_impairments' ROADM of the stock library defines its impairments for 191.3-196.1 THz only
            bands = [(max(lo, 191_300_000_000_000), min(hi, 196_100_000_000_000)) for lo, hi in bands]
        if case['sim'] == 'ggn_approx':
            car = mixed_rate_comb(case['ggn'], bands)
        elif case['sim'] == 'raman_ggn':
            # sparse `computed_channels`: the NLI density of the other channels is interpolated in frequency from the
            # computed ones, which is only meaningful for combs of comparable powers (a -30 dBm channel next to a +3 dBm
            # one would be given more NLI than it has power: outside what the property claims) -> +-3 dB spread only
            car = gen_carriers(random.Random(case['cseed']), bands, case['nch'], pmin_dbm=-3.0, pmax_dbm=3.0)
        else:
            car = gen_carriers(random.Random(case['cseed']), bands, case['nch'], pmax_dbm=case['pmax_dbm'])
        if car and case.get('high_power'):
            hp = random.Random(case['cseed'] + 1)
            for c in car:
                c['tx_power'] = 10 ** (hp.uniform(*case['high_power']) / 10) * 1e-3
        if car and case.get('mb'):
            # a power offset of several dB between the L-band and the C-band partition (offsets are applied on top of the
            # ROADM target, so they survive the equalisation)
            for c in car:
                c['delta_pdb'] = case['mb']['l_offset'] if c['f'] < 190_500_000_000_000 else case['mb']['c_offset']
                c['tx_power'] = 1e-3
        if car:
            path, req = path_request(eq, net, src, dst, car)
    if not car:
        # a uniform grid of about nch channels inside the first common band
        si = eq['SI']['default']
        lo, hi = bands[-1]
        req.f_min = max(si.f_min, float(lo))
        req.f_max = min(si.f_max, float(hi), req.f_min + (case['nch'] + 0.5) * si.spacing)
    sim = copy.deepcopy({None: None, 'raman': RAMAN_SIM, 'raman_ggn': RAMAN_SIM_GGN,
                         'ggn_approx': GGN_APPROX_SIM}[case['sim']])
    if case['sim'] == 'ggn_approx':
        comp = [c for c in case['ggn']['comp'] if c <= len(car)]
        if len(car) >= 3 and len(comp) >= 2:
            sim['nli_params']['computed_channels'] = comp
        else:
            sim = None          # the band of this path is too narrow for the comb: default NLI method
    if case['sim'] == 'raman_ggn':
        if len(car) < 3:
            # ggn_spectrally_separated fits a parabola through the channel frequencies (numpy polyfit): it cannot
            # run on fewer than three channels -> analytic GN model for such combs
            sim = copy.deepcopy(RAMAN_SIM)
        else:
            # `computed_channels` are 1-based indices into the propagated comb: they must exist
            sim['nli_params']['computed_channels'] = sorted({1, len(car) // 2 + 1})
    return eq, path, req, sim


