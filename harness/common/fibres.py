"""Fibre / comb generators shared by C03 and C05, the JSON form sent to the Lean driver, a SimParams guard and an
independent (plain Python floats, no gnpy helper) evaluation of the fibre coefficients and of the GN closed form."""
import contextlib
import math

from common.util import f2b, fl
from common import nets

C = 299792458.0
N2 = 2.6e-20
N1 = 1.468
CORE_RADIUS = 4.2e-6
GRID = 6.25e9


# ---------------------------------------------------------------------------------------------------------------------
# SimParams: set through the official entry point, restore whatever was there
# ---------------------------------------------------------------------------------------------------------------------

@contextlib.contextmanager
def sim_params(d):
    from gnpy.core.parameters import SimParams
    saved = dict(SimParams._shared_dict)
    try:
        SimParams.set_params(d)
        yield
    finally:
        SimParams._shared_dict.update(saved)


# ---------------------------------------------------------------------------------------------------------------------
# generators
# ---------------------------------------------------------------------------------------------------------------------

def gen_comb(rng, nmax, widen=False, start=None):
    """non-overlapping comb on the 6.25 GHz grid: uniform or deliberately non-uniform baud / slot / power"""
    style = rng.choice(['uniform', 'mixed', 'mixed', 'mixed_power'])
    n = rng.choice([1, 2, 3, rng.randint(2, 12), rng.randint(2, nmax), rng.randint(2, nmax)])
    if widen:
        n = rng.choice([1, 2, 3, n])
    slots_all = [37.5e9, 50e9, 62.5e9, 75e9, 87.5e9, 100e9, 112.5e9, 150e9]
    bauds_all = [25e9, 28e9, 32e9, 35e9, 42.5e9, 45e9, 56e9, 64e9, 69e9, 90e9, 95e9, 130e9]
    f = start if start is not None else rng.choice([186.0e12, 191.3e12, 191.35e12, 192.0e12, 193.1e12])
    fs, bs, ss, ps = [], [], [], []
    s0 = rng.choice(slots_all)
    b0 = rng.choice([x for x in bauds_all if x <= s0])
    p0 = round(rng.uniform(-6, 6), 2)
    for _ in range(n):
        if style == 'mixed':
            s = rng.choice(slots_all)
            b = rng.choice([x for x in bauds_all if x <= s] + [s])
            p = round(rng.uniform(-8, 8), 2)
            gap = rng.choice([0, 0, 0, 6.25e9, 12.5e9, 50e9, 300e9])
        elif style == 'mixed_power':
            s, b, gap = s0, b0, 0
            p = round(rng.uniform(-8, 8), 2)
        else:
            s, b, p, gap = s0, b0, p0, 0
        if widen:
            gap = 0
        f += s / 2
        fs.append(f)
        f += s / 2 + gap
        bs.append(b)
        ss.append(s)
        ps.append(p)
    return {'style': style, 'f': fs, 'b': bs, 'slot': ss, 'p_dbm': ps}


def _table(rng, freqs, values):
    """a per-frequency table listed in ascending, descending (= increasing wavelength) or shuffled frequency order"""
    order = rng.choice(['ascending', 'descending', 'descending', 'shuffled', 'shuffled'])
    idx = list(range(len(freqs)))
    if order == 'descending':
        idx.reverse()
    elif order == 'shuffled':
        rng.shuffle(idx)
    return {'value': [values[i] for i in idx], 'frequency': [freqs[i] for i in idx]}


def table_order(t):
    f = t['frequency']
    if all(a < b for a, b in zip(f, f[1:])):
        return 'ascending'
    if all(a > b for a, b in zip(f, f[1:])):
        return 'descending'
    return 'shuffled'


def gen_fibre(rng, f_lo, f_hi, widen=False, lumped=True):
    """FiberParams keyword arguments (JSON-serialisable). [f_lo, f_hi] = band the tables must cover."""
    p = {}
    if rng.random() < 0.15:
        p['length'] = round(rng.uniform(1e3, 200e3), 1)
        p['length_units'] = 'm'
    else:
        p['length'] = round(rng.choice([rng.uniform(1, 200), rng.uniform(1, 200), rng.uniform(1, 10), 80.0]), 3)
        p['length_units'] = 'km'
    if widen:
        p['length'], p['length_units'] = rng.choice([1.0, 0.1, 200.0, 300.0]), 'km'
    k = rng.random()
    if k < 0.3:
        nk = rng.randint(2, 6)
        lo, hi = f_lo - rng.choice([0, 1e9, 1e12]), f_hi + rng.choice([0, 1e9, 2e12])
        freqs = [lo + (hi - lo) * i / (nk - 1) for i in range(nk)]
        p['loss_coef'] = _table(rng, freqs, [round(rng.uniform(0.15, 0.35), 4) for _ in range(nk)])
    else:
        p['loss_coef'] = round(rng.uniform(0.15, 0.35), 4)
    # reference
    k = rng.random()
    if k < 0.2:
        p['ref_wavelength'] = rng.choice([1550e-9, 1545e-9, 1565e-9])
    elif k < 0.4:
        p['ref_frequency'] = rng.choice([193.5e12, 193.41e12, 190.0e12])
    f_ref = p.get('ref_frequency', C / p.get('ref_wavelength', 1550e-9))
    # dispersion: +/-, with or without slope, or a per-frequency table; |D| is kept away from 0 on the band
    sign = rng.choice([1, 1, 1, -1])
    k = rng.random()
    if k < 0.2:
        nk = rng.randint(2, 5)
        lo, hi = f_lo - 1e12, f_hi + 1e12
        freqs = [lo + (hi - lo) * i / (nk - 1) for i in range(nk)]
        p['dispersion_per_frequency'] = _table(rng, freqs, [sign * round(rng.uniform(3e-6, 2.3e-5), 9) for _ in range(nk)])
    else:
        p['dispersion'] = sign * rng.choice([1.67e-5, 4e-6, 2.1e-5, round(rng.uniform(2e-6, 2.3e-5), 9)])
        if k < 0.55:
            # 0.0 is a GIVEN slope (constant D(lambda) law), not an absent one ((f/f_ref)^2 law)
            slope = rng.choice([58.0, 70.0, 90.0, -58.0, 0.0, 0.0, 0.0, 1e-3, -1e-3, 2.0])
            d_lo = p['dispersion'] + slope * (C / f_lo - C / f_ref)
            d_hi = p['dispersion'] + slope * (C / f_hi - C / f_ref)
            if d_lo * d_hi > 0 and min(abs(d_lo), abs(d_hi)) > 1e-6:
                p['dispersion_slope'] = slope
    k = rng.random()
    if k < 0.35:
        p['effective_area'] = rng.choice([83e-12, 72e-12, 125e-12, round(rng.uniform(50, 150), 2) * 1e-12])
        if rng.random() < 0.3:
            p['gamma'] = 0.0013
    elif k < 0.7:
        p['gamma'] = rng.choice([0.00127, 0.0015, 0.0009, round(rng.uniform(0.0007, 0.002), 6)])
    p['con_in'] = rng.choice([0, 0.5, 0.25, 1.2, round(rng.uniform(0, 2), 2)])
    p['con_out'] = rng.choice([0, 0.5, 0.3, 0.7, round(rng.uniform(0, 2), 2)])
    if rng.random() < 0.35:
        p['att_in'] = rng.choice([0, 1.0, 2.5, round(rng.uniform(0, 6), 2)])
    p['pmd_coef'] = rng.choice([1.265e-15, 0.4e-15, 2.0e-15, 0.0, round(rng.uniform(0.1, 3), 3) * 1e-15])
    if lumped and rng.random() < 0.4:
        lkm = p['length'] * (1e-3 if p['length_units'] == 'm' else 1)
        k = rng.randint(1, 3)
        pos = [round(rng.uniform(0.05, 0.95) * lkm, 4) for _ in range(k)]
        p['lumped_losses'] = [{'position': z, 'loss': rng.choice([0.5, 1, 2, round(rng.uniform(0.1, 3), 2)])}
                              for z in pos]
    return p


def length_m(p):
    return p['length'] * (1e3 if p['length_units'] == 'km' else 1e0)


def mk_fiber(p, uid='f', cls=None, **kw):
    from gnpy.core.elements import Fiber
    import copy
    f = (cls or Fiber)(uid=uid, params=copy.deepcopy(p), metadata=nets.loc(), **kw)
    f.ref_pch_in_dbm = 0.0
    return f


def fibre_json(p):
    """the description as the Lean driver reads it (floats as bit patterns)"""
    lc = p['loss_coef']
    dpf = p.get('dispersion_per_frequency')
    if 'ref_wavelength' in p:
        kind, val = 'wavelength', f2b(p['ref_wavelength'])
    elif 'ref_frequency' in p:
        kind, val = 'frequency', f2b(p['ref_frequency'])
    else:
        kind, val = 'default', None
    return {'length': f2b(p['length']), 'km': p['length_units'] == 'km', 'ref_kind': kind, 'ref_value': val,
            'disp_table': [[f2b(x), f2b(v)] for x, v in zip(dpf['frequency'], dpf['value'])] if dpf else [],
            'disp0': f2b(p['dispersion'] if 'dispersion' in p else 1.67e-05) if not dpf else f2b(0.0),
            'slope': None if (dpf or p.get('dispersion_slope') is None) else f2b(p['dispersion_slope']),
            'eff_area': None if p.get('effective_area') is None else f2b(p['effective_area']),
            'gamma': None if 'gamma' not in p else f2b(p['gamma']),
            'loss_table': [[f2b(x), f2b(v)] for x, v in zip(lc['frequency'], lc['value'])] if isinstance(lc, dict) else [],
            'loss0': f2b(lc if not isinstance(lc, dict) else 0.0)}


# ---------------------------------------------------------------------------------------------------------------------
# independent evaluation (plain floats)
# ---------------------------------------------------------------------------------------------------------------------

def _lin_interp(x, xs, ys):
    xs, ys = zip(*sorted(zip(xs, ys)))        # tables may be listed in any frequency order
    if x < xs[0] or x > xs[-1]:
        raise ValueError('outside table')
    for k in range(len(xs) - 1):
        if xs[k] <= x <= xs[k + 1]:
            t = (x - xs[k]) / (xs[k + 1] - xs[k])
            return ys[k] + t * (ys[k + 1] - ys[k])
    return ys[-1]


def ref_frequency(p):
    if 'ref_wavelength' in p:
        return C / p['ref_wavelength']
    return p.get('ref_frequency', C / 1550e-9)


def loss_db_per_km(p, f):
    lc = p['loss_coef']
    if isinstance(lc, dict):
        if len(lc['value']) > 1:
            return _lin_interp(f, lc['frequency'], lc['value'])
        return lc['value'][0]
    return lc


def alpha_ref(p, f):
    """power attenuation coefficient [1/m]: dB/km -> Neper/m"""
    return loss_db_per_km(p, f) * 1e-3 * math.log(10) / 10


def dispersion_ref(p, f):
    dpf = p.get('dispersion_per_frequency')
    if dpf:
        return _lin_interp(f, dpf['frequency'], dpf['value'])
    d0 = p.get('dispersion', 1.67e-05)
    fr = ref_frequency(p)
    if p.get('dispersion_slope') is None:
        return d0 * (f / fr) ** 2
    return d0 + p['dispersion_slope'] * (C / f - C / fr)


def beta2_ref(p, f):
    """beta2 = - lambda^2 D / (2 pi c)"""
    lam = C / f
    return -lam * lam * dispersion_ref(p, f) / (2 * math.pi * C)


def cd_ref(p, f, length):
    """chromatic dispersion a span of `length` m adds at frequency f: -(beta2 + 2 pi beta3 (f - f_ref)) 2 pi f_ref^2 / c L
    (scalar dispersion; beta3 from the slope when one is given)"""
    fr = ref_frequency(p)
    b2 = beta2_ref(p, f)
    b3 = 0.0
    if p.get('dispersion_slope') is not None and not p.get('dispersion_per_frequency'):
        b3 = (p['dispersion_slope'] - 4 * math.pi * f ** 3 / C ** 2 * b2) / (2 * math.pi * f ** 2 / C) ** 2
    return -(b2 + 2 * math.pi * b3 * (f - fr)) * 2 * math.pi * fr ** 2 / C * length


def eff_area0(p):
    lam = C / ref_frequency(p) if 'ref_wavelength' not in p else p['ref_wavelength']
    if p.get('effective_area') is not None:
        return p['effective_area']
    if 'gamma' in p:
        return 2 * math.pi * N2 / (lam * p['gamma'])
    return 83e-12


def gamma_ref(p, f):
    """gamma(f) = 2 pi f n2 / (c A_eff(f)); A_eff(f) = pi w(f)^2 with the Gaussian-mode radius w = a / sqrt(ln V(f)),
    V(f) = V(f_ref) f / f_ref and V(f_ref) fixed by A_eff(f_ref) (GNPy's documented scaling)"""
    a0 = eff_area0(p)
    fr = ref_frequency(p)
    ln_v = math.pi * CORE_RADIUS ** 2 / a0 + math.log(f / fr)
    area = math.pi * CORE_RADIUS ** 2 / ln_v
    return 2 * math.pi * f * N2 / (C * area)


def gn_closed_form(length, f, b, pw, alpha, beta2, gamma):
    """eq. 120/123 of arXiv:1209.0394, channel by channel (cut i, pump j), plain floats"""
    n = len(f)
    out = []
    for i in range(n):
        acc = 0.0
        for j in range(n):
            la = 1.0 / alpha[j]
            le = (1.0 - math.exp(-alpha[j] * length)) / alpha[j]
            b2 = abs(0.5 * (beta2[i] + beta2[j]))
            k = math.pi ** 2 * la * b2 * b[i]
            df = f[j] - f[i]
            psi = (math.asinh(k * (df + b[j] / 2)) - math.asinh(k * (df - b[j] / 2))) / (4 * math.pi * b2 * la) * le * le
            w = 16.0 / 27.0 if i == j else 32.0 / 27.0
            acc += gamma[i] ** 2 * w * psi * pw[i] * pw[j] ** 2 / b[j] ** 2
        out.append(acc)
    return out
