"""Random meshed topologies + service files for the routing properties (C11, C12).

A *mesh description* is a JSON-serialisable dict
    {'n': <#ROADMs>, 'links': [[a, b, [km of the spans a->b], [km of the spans b->a], style], ...]}
ROADM i is 'roadm N<i>' with transceiver 'trx N<i>'.  A link is a pair of opposite directed lines (each a chain of
1-3 fibre spans).  style: 'plain' (fibre -> fibre: auto-design inserts the in-line amplifiers), 'fused' (a Fused
between two spans), 'edfa' (explicit in-line Edfa elements in the topology file).
The network is built through GNPy's own loader and auto-design (network_from_json + designed_network), so the graph
the path computation sees (edges, weights, boosters/preamps, OMS objects) is the real one.
"""
import copy
import itertools

from common import nets


def R(i):
    return f'roadm N{i}'


def T(i):
    return f'trx N{i}'


def topo_json(mesh):
    els, cxs = [], []
    for i in range(mesh['n']):
        els += [nets.trx(T(i)), nets.roadm(R(i))]
        cxs += [nets.cx(T(i), R(i)), nets.cx(R(i), T(i))]
    for lk in mesh['links']:
        a, b, ab, ba, style = lk[:5]
        tag = lk[5] if len(lk) > 5 else ''        # a second (parallel) link between the same ROADMs carries a tag
        for (x, y, spans) in ((a, b, ab), (b, a, ba)):
            if not spans:        # unidirectional link (only one line)
                continue
            line = []
            for k, km in enumerate(spans):
                if k > 0 and style == 'fused':
                    line.append(nets.fused(f'fused (N{x} -> N{y}){tag}-{k}'))
                if k > 0 and style == 'edfa':
                    line.append(nets.edfa(f'ila (N{x} -> N{y}){tag}-{k}', type_variety='std_medium_gain',
                                          operational={'gain_target': None, 'tilt_target': 0}))
                line.append(nets.fiber(f'fiber (N{x} -> N{y}){tag}-{k}', float(km)))
            if style == 'fusedend':       # two Fused (patch panels) in front of the far ROADM instead of a pre-amplifier:
                line.append(nets.fused(f'fused (N{x} -> N{y}){tag}-end1'))       # one element more than a plain line
                line.append(nets.fused(f'fused (N{x} -> N{y}){tag}-end2'))
            nets.chain(els, cxs, R(x), R(y), line)
    return {'elements': els, 'connections': cxs}


def build(mesh, design=True):
    """-> (network, equipment): the designed network (real loader + auto-design) and its library"""
    from gnpy.tools.worker_utils import designed_network
    from gnpy.core.network import add_missing_elements_in_network
    eq = nets.eqpt()
    net = nets.network_from_json(topo_json(mesh), eq)
    if design:
        net, _, _ = designed_network(eq, net)
    else:
        add_missing_elements_in_network(net, eq)
    return net, eq


# --------------------------------------------------------------------------------------------------------------------
# random mesh descriptions
# --------------------------------------------------------------------------------------------------------------------

# 150 km and more are split by auto-design (split_fiber) into equal spans: the values below all split into whole-km spans
KM = [1, 5, 20, 30, 40, 40, 50, 60, 70, 80, 80, 80, 90, 100, 110, 120, 150, 150, 160, 180, 200, 240, 300]


def _spans(rng):
    k = rng.choice([1, 1, 1, 2, 2, 3])
    return [rng.choice(KM) for _ in range(k)]


def _link(rng, a, b, equal_bias):
    ab = _spans(rng)
    r = rng.random()
    if r < equal_bias:
        ba = list(reversed(ab))
    elif r < equal_bias + 0.15:
        ba = _spans(rng)
    else:                        # same total length, other segmentation where possible
        ba = list(reversed(ab))
    style = rng.choice(['plain', 'plain', 'fused', 'edfa']) if max(len(ab), len(ba)) > 1 else 'plain'
    return [a, b, ab, ba, style]


def rand_mesh(rng, n, shape=None, max_extra=None, parallel=0.0):
    """ring / grid / random connected graph on n ROADMs, no parallel links"""
    shape = shape or rng.choice(['ring', 'grid', 'random', 'random', 'tree+'])
    pairs = set()
    if shape == 'ring' and n >= 3:
        for i in range(n):
            pairs.add(tuple(sorted((i, (i + 1) % n))))
        for _ in range(rng.choice([0, 0, 1, 2])):      # chords
            a, b = rng.sample(range(n), 2)
            pairs.add(tuple(sorted((a, b))))
    elif shape == 'grid' and n >= 4:
        w = 2 if n < 9 else 3
        for i in range(n):
            if (i % w) + 1 < w and i + 1 < n:
                pairs.add((i, i + 1))
            if i + w < n:
                pairs.add((i, i + w))
    else:
        order = list(range(n))
        rng.shuffle(order)
        for i in range(1, n):
            pairs.add(tuple(sorted((order[i], order[rng.randrange(i)]))))
        allp = list(itertools.combinations(range(n), 2))
        rng.shuffle(allp)
        extra = rng.randint(0, n if max_extra is None else max_extra)
        if shape == 'tree+':
            extra = rng.choice([0, 1])
        for p in allp:
            if extra <= 0:
                break
            if p not in pairs:
                pairs.add(p)
                extra -= 1
    equal_bias = rng.choice([0.85, 1.0, 0.5])
    links = [_link(rng, a, b, equal_bias) for (a, b) in sorted(pairs)]
    if parallel and links and rng.random() < parallel:
        # a PARALLEL link: a second pair of lines between two ROADMs that are already linked
        a, b = rng.choice(links)[:2]
        links.append(_link(rng, a, b, equal_bias) + ['#2'])
    if rng.random() < 0.25:     # many ties: all spans the same length
        km = rng.choice([40, 80])
        for lk in links:
            lk[2] = [km] * len(lk[2])
            lk[3] = [km] * len(lk[3])
    return {'n': n, 'links': links}


# --------------------------------------------------------------------------------------------------------------------
# service file
# --------------------------------------------------------------------------------------------------------------------

def req_json(rid, src, dst, inc=(), bidir=False, mode='mode 1', bandwidth=100e9, doc=None):
    """doc = {'shuffle': seed, 'stride': k, 'offset': o}: the route objects carry the indices o, o+k, o+2k, ... (hop order
    = numeric index order) and are WRITTEN in a shuffled order in the document"""
    r = {'request-id': str(rid), 'source': src, 'destination': dst, 'src-tp-id': src, 'dst-tp-id': dst,
         'bidirectional': bool(bidir),
         'path-constraints': {'te-bandwidth': {'technology': 'flexi-grid', 'trx_type': 'Voyager', 'trx_mode': mode,
                                               'effective-freq-slot': [{'N': None, 'M': None}],
                                               'spacing': 75e9 if mode == 'mode 2' else 50e9,
                                               'path_bandwidth': bandwidth}}}
    if inc:
        r['explicit-route-objects'] = {'route-object-include-exclude': [
            {'explicit-route-usage': 'route-include-ero', 'index': i,
             'num-unnum-hop': {'node-id': uid, 'link-tp-id': 'link-tp-id is not used', 'hop-type': hop}}
            for i, (uid, hop) in enumerate(inc)]}
        if doc:
            import random
            objs = r['explicit-route-objects']['route-object-include-exclude']
            for i, o in enumerate(objs):
                o['index'] = doc.get('offset', 0) + doc.get('stride', 1) * i
            random.Random(doc.get('shuffle', 0)).shuffle(objs)
    return r


def service_json(reqs, sync=(), disjointness='node link'):
    """reqs: list of dicts {'id','src','dst','inc':[[uid,hop],...],'bidir'}; sync: list of lists of request ids"""
    d = {'path-request': [req_json(r['id'], r['src'], r['dst'], r.get('inc') or (), r.get('bidir', False),
                                   r.get('mode', 'mode 1'), doc=r.get('doc')) for r in reqs]}
    if sync:
        d['synchronization'] = [{'synchronization-id': f's{k}',
                                 'svec': {'relaxable': False, 'disjointness': disjointness,
                                          'request-id-number': [str(x) for x in grp]}}
                                for k, grp in enumerate(sync)]
    return copy.deepcopy(d)


# --------------------------------------------------------------------------------------------------------------------
# the graph as the path computation sees it, as plain data (what is sent to the Lean oracle)
# --------------------------------------------------------------------------------------------------------------------

def graph_data(net):
    """-> (uids, idx, edges, kinds): nodes in networkx order; edges [u, v, metres, pseudo].  The integer data follow the
    RULE the property rests on (an edge leaving a Fiber carries that fibre's length, any other edge one 0.01 unit) and
    are read from the elements (Fiber.params.length), NOT from the edge attributes: whether the DiGraph's `weight`s obey
    the rule is checked separately (props/c11.py check_edge_weights)."""
    from gnpy.core import elements as E
    nodes = list(net.nodes())
    uids = [n.uid for n in nodes]
    idx = {u: i for i, u in enumerate(uids)}
    edges = []
    for u, v in net.edges():
        if isinstance(u, E.Fiber):
            edges.append([idx[u.uid], idx[v.uid], int(round(u.params.length)), 0])
        else:
            edges.append([idx[u.uid], idx[v.uid], 0, 1])
    kinds = []
    for n in nodes:
        kinds.append('T' if isinstance(n, E.Transceiver) else 'R' if isinstance(n, E.Roadm) else
                     'F' if isinstance(n, E.Fiber) else 'L')
    return uids, idx, edges, kinds


# --------------------------------------------------------------------------------------------------------------------
# exhaustive small scope: every connected topology on 2..5 ROADMs up to isomorphism
# --------------------------------------------------------------------------------------------------------------------

def small_topologies(max_n=5):
    """-> list of (n, [(a, b), ...]) : one representative per isomorphism class of connected simple graphs"""
    out = []
    for n in range(2, max_n + 1):
        pairs = list(itertools.combinations(range(n), 2))
        seen = set()
        perms = list(itertools.permutations(range(n)))
        for mask in range(1, 1 << len(pairs)):
            edges = [pairs[i] for i in range(len(pairs)) if mask >> i & 1]
            # connected?
            adj = {i: set() for i in range(n)}
            for a, b in edges:
                adj[a].add(b)
                adj[b].add(a)
            comp, todo = {0}, [0]
            while todo:
                u = todo.pop()
                for v in adj[u]:
                    if v not in comp:
                        comp.add(v)
                        todo.append(v)
            if len(comp) != n:
                continue
            canon = min(tuple(sorted(tuple(sorted((p[a], p[b]))) for a, b in edges)) for p in perms)
            if canon in seen:
                continue
            seen.add(canon)
            out.append((n, list(canon)))
    return out


def small_mesh(n, edges, lengths=(40, 50, 60, 70, 80, 90, 100, 110, 120, 30)):
    return {'n': n, 'links': [[a, b, [lengths[i % len(lengths)]], [lengths[i % len(lengths)]], 'plain']
                              for i, (a, b) in enumerate(edges)]}
