"""Shared machinery of the routing properties C11 / C12: the real network, an INDEPENDENT brute force in Python over the
edges of the networkx DiGraph (own DFS, no networkx path function), the data sent to the Lean oracle.
"""
import itertools

from common import meshes

_NETS = {}


class Net:
    """a designed mesh + everything derived from the *edges* of the DiGraph by own traversal"""

    def __init__(self, mesh):
        from gnpy.core import elements as E
        from gnpy.topology.spectrum_assignment import build_oms_list
        self.E = E
        self.mesh = mesh
        self.net, self.eq = meshes.build(mesh)
        self.oms_list = build_oms_list(self.net, self.eq)
        self.uids, self.idx, self.edges, self.kinds = meshes.graph_data(self.net)
        self.node = {n.uid: n for n in self.net.nodes()}
        self.n = len(self.uids)
        self.succ = {u: [] for u in self.uids}
        self.pred = {u: [] for u in self.uids}
        for a, b in self.net.edges():
            self.succ[a.uid].append(b.uid)
            self.pred[b.uid].append(a.uid)
        self.roadms = [u for u, k in zip(self.uids, self.kinds) if k == 'R']
        self.trx = [u for u, k in zip(self.uids, self.kinds) if k == 'T']
        self.fibre_m = {}
        for u, k in zip(self.uids, self.kinds):
            if k == 'F':
                m = int(round(self.node[u].params.length))
                self.fibre_m[u] = m
        # own OMS computation: from every ROADM follow each non-transceiver successor until the next ROADM
        self.lines = []                 # (roadm a, roadm b, [a, e1, ..., ek, b])
        self.line_of = {}               # line element uid -> index in self.lines
        for a in self.roadms:
            for x in self.succ[a]:
                if self.kinds[self.idx[x]] == 'T':
                    continue
                chain = [a]
                cur = x
                guard = 0
                while self.kinds[self.idx[cur]] not in ('R', 'T') and guard < 10000:
                    chain.append(cur)
                    nxt = self.succ[cur]
                    if len(nxt) != 1:
                        raise AssertionError(f'line element {cur} has {len(nxt)} successors')
                    cur = nxt[0]
                    guard += 1
                chain.append(cur)
                if self.kinds[self.idx[cur]] == 'R':
                    k = len(self.lines)
                    self.lines.append((a, cur, chain))
                    for e in chain[1:-1]:
                        self.line_of[e] = k
        self.out_lines = {a: [k for k, ln in enumerate(self.lines) if ln[0] == a] for a in self.roadms}
        # OMS objects of the implementation (inputs of the explicit_path / find_reversed_path models)
        self.oms_of = [getattr(self.node[u], 'oms_id', None) if self.kinds[i] not in ('R', 'T') else None
                       for i, u in enumerate(self.uids)]
        self.els = [[self.idx[e.uid] for e in o.el_list] for o in self.oms_list]
        self.rev = [(o.reversed_oms.oms_id if o.reversed_oms is not None else None) for o in self.oms_list]

    # ---- ids ----------------------------------------------------------------------------------------------------
    def ids(self, path_uids):
        return [self.idx[u] for u in path_uids]

    def graph_args(self):
        return {'n': self.n, 'edges': self.edges}

    def oms_args(self):
        return {'oms_of': self.oms_of, 'els': self.els, 'rev': self.rev}

    # ---- independent brute force ---------------------------------------------------------------------------------
    def roadm_of_trx(self, t):
        """(first successor, first predecessor) of a transceiver, as explicit_path reads them"""
        s = self.succ[t][0] if self.succ[t] else None
        p = self.pred[t][0] if self.pred[t] else None
        return s, p

    def simple_paths(self, src, dst, max_nodes=None):
        """every loop-free element path src ~> dst, by own DFS over the DiGraph's edges (generic, element level)"""
        out = []
        path = [src]
        on = {src}

        def rec(u):
            if u == dst:
                out.append(list(path))
                return
            if max_nodes is not None and len(path) >= max_nodes:
                return
            for v in self.succ[u]:
                if v in on:
                    continue
                # prune dead ends cheaply: a transceiver other than dst leads nowhere new
                path.append(v)
                on.add(v)
                rec(v)
                on.discard(v)
                path.pop()
        rec(src)
        return out

    def fibre_len(self, path_uids):
        return sum(self.fibre_m.get(u, 0) for u in path_uids)

    def is_walk(self, path_uids):
        return len(path_uids) >= 1 and all(b in self.succ[a] for a, b in zip(path_uids, path_uids[1:]))

    def links(self, path_uids):
        """ROADM-to-ROADM links crossed by a path as ROADM pairs (a, b) (what the Lean checker keys links by)"""
        r = [u for u in path_uids if u in self.idx and self.kinds[self.idx[u]] == 'R']
        return list(zip(r, r[1:]))

    def oms_seq(self, path_uids):
        """the lines (own OMS computation: index into self.lines) crossed by a path, in order"""
        out = []
        for u in path_uids:
            k = self.line_of.get(u)
            if k is not None and (not out or out[-1] != k):
                out.append(k)
        return out

    def has_parallel(self):
        pairs = [(a, b) for a, b, _ in self.lines]
        return len(set(pairs)) < len(pairs)

    def opposite(self, k):
        """the line that is the opposite direction of line k: the only line b -> a, or None when there is none or the two
        ROADMs are joined by parallel links (then the pairing is not determined by the topology)"""
        a, b, _ = self.lines[k]
        back = [j for j, ln in enumerate(self.lines) if ln[0] == b and ln[1] == a]
        fwd = [j for j, ln in enumerate(self.lines) if ln[0] == a and ln[1] == b]
        return back[0] if len(back) == 1 and len(fwd) == 1 else None

    def impl_reverse(self, k):
        """the line the IMPLEMENTATION takes for the reverse of line k (oms.reversed_oms), an input of the selection model"""
        el = self.node[self.lines[k][2][1]]
        ro = getattr(getattr(el, 'oms', None), 'reversed_oms', None)
        if ro is None:
            return None
        return self.line_of.get(ro.el_list[1].uid)


def crosses_in_order(inc, path):
    """inc is a subsequence of path"""
    it = iter(path)
    return all(any(x == y for y in it) for x in inc)


def get_net(mesh):
    import json
    key = json.dumps(mesh, sort_keys=True)
    if key not in _NETS:
        if len(_NETS) > 3:
            _NETS.clear()
        _NETS[key] = Net(mesh)
    return _NETS[key]


def link_disjoint(net, p, q, mode='lenient'):
    """no common ROADM-to-ROADM link, a link and its opposite direction identified.  Links are identified by OMS (own
    computation).  Without parallel links every mode gives the same answer.  With parallel links between two ROADMs the
    topology does not say which backward line is 'the' opposite of a forward line:
      'lenient' : definite sharing only (same line; opposite line only where the pairing is unambiguous)
      'strict'  : ROADM pairs, any line between the same two ROADMs in either direction counts (= the Lean checker)
      'impl'    : same line, or q crosses the line the implementation registered as the reverse (oms.reversed_oms) of a
                  line of p - exactly the test of step 2 for the new path p against an earlier path q"""
    if mode == 'strict':
        lq = set(net.links(q))
        return not any((a, b) in lq or (b, a) in lq for (a, b) in net.links(p))
    sq = set(net.oms_seq(q))
    for k in net.oms_seq(p):
        if k in sq:
            return False
        o = net.opposite(k) if mode == 'lenient' else net.impl_reverse(k)
        if o is not None and o in sq:
            return False
    return True


# --------------------------------------------------------------------------------------------------------------------
# include items of a case are symbolic (the uids only exist once the network is designed)
#   ['R', i]           ROADM i
#   ['T', i]           transceiver i
#   ['L', a, b, f]     line element of the directed line a -> b at relative position f in [0,1)
#   ['U', name]        a name that is not in the topology
# --------------------------------------------------------------------------------------------------------------------

def resolve_all(net, item):
    """['LA', a, b] = every line element of the directed line a -> b, in order; other items -> one name"""
    if item[0] == 'LA':
        a, b = meshes.R(item[1]), meshes.R(item[2])
        for (x, y, chain) in net.lines:
            if x == a and y == b:
                return list(chain[1:-1])
        return [f'no line N{item[1]} -> N{item[2]}']
    return [resolve(net, item)]


def resolve(net, item):
    k = item[0]
    if k == 'R':
        return meshes.R(item[1])
    if k == 'T':
        return meshes.T(item[1])
    if k == 'U':
        return item[1]
    if k == 'L':
        a, b, f = meshes.R(item[1]), meshes.R(item[2]), item[3]
        for (x, y, chain) in net.lines:
            if x == a and y == b:
                inner = chain[1:-1]
                return inner[min(len(inner) - 1, int(f * len(inner)))]
        return f'no line N{item[1]} -> N{item[2]}'
    raise ValueError(item)


def mesh_adj(mesh):
    """ROADM-level directed adjacency of a mesh description"""
    adj = {i: [] for i in range(mesh['n'])}
    for lk in mesh['links']:
        a, b, ab, ba = lk[:4]
        if ab:
            adj[a].append(b)
        if ba:
            adj[b].append(a)
    return adj


def mesh_simple_paths(mesh, s, t, limit=2000):
    adj = mesh_adj(mesh)
    out = []
    path = [s]

    def rec(u):
        if len(out) >= limit:
            return
        if u == t:
            out.append(list(path))
            return
        for v in adj[u]:
            if v not in path:
                path.append(v)
                rec(v)
                path.pop()
    rec(s)
    return out
