"""C09 — designed gains close the power budget and follow the documented power rule.

Correspondence: set_egress_amplifier / set_one_amplifier / set_amplifier_voa / target_power / round2float / span_loss on
the real network vs Gnpy.Chain.designLine (ampStep, targetPower, round2float, lastSpanLoss/firstSpanLoss) per OMS.
Also ref_pch_in_dbm of fibres and of the ROADM ending each line vs Gnpy.Chain.refIns.
Monitor: budget identity, slope rule, saturation, user values on the designed objects (own arithmetic) + propagation
of the design comb through every OMS (element calls) compared with p_ref + delta_p - out_voa.
"""
import os
for _v in ('OMP_NUM_THREADS', 'OPENBLAS_NUM_THREADS', 'MKL_NUM_THREADS'):
    os.environ.setdefault(_v, '1')     # one BLAS thread per worker process: the checks run in a process pool

import copy
import math
from fractions import Fraction

import numpy as np

from common.util import Result, f2b, b2f, err_kind, close, close_list
from common import nets
from common import designgen as G
from props.c08 import _load, design_impl, model_chain, raman_estimate_class

ID = 'C09'
N = {'quick': 330, 'thorough': 12000}
LEAN_MODULES = ['GnpyProofs.Props.C09']
THEOREMS = [f'Gnpy.Chain.{t}' for t in (
    'rint_error', 'round2float_error', 'targetPower_roadm', 'targetPower_range', 'dp_rule', 'dp_rule_rounding',
    'gain_closes_budget', 'net_offset', 'ref_power_invariant', 'saturation_only_reduces', 'saturation_minimal',
    'saturation_minimal_gain_mode', 'saturation_minimal_gain_mode_no_in_voa',
    'gain_mode_in_voa_over_reduction_fails_current', 'saturation_auto_selected', 'user_values_kept', 'voa_rule', 'voa_nonneg',
    'voa_auto_can_exceed_pmax_fails_current', 'nodeLoss_is_true_loss', 'ref_pch_in_consistent', 'automaticNch_spec',
    'design_load_uses_band_spacing')]
RULE = ('cases from one PRNG: (a) 78 % design cases: the star topologies of C08 (degree 1-5, 1-8 line elements per direction, user '
        'amplifiers with full/partial/no gain, delta_p, out_voa, in_voa, fused runs, Raman spans, transceiver-sourced '
        'line) x power/gain mode x delta_power_range/slope/reference/padding/EOL/VOA margin+step/extended gain/ROADM '
        'targets (power, power spectral density or power per slot width)/per-degree targets/SI power, tx power, channel count, of which 12 % gain-mode lines built on purpose around '
        'the saturation decision (operator type_variety + operator gain behind an amplifier with operator out_voa 1-4 dB, '
        'true output inside (p_max - prev_voa, p_max), below it, or just above p_max), and 6 % lines of auto-selected amplifiers asked for more '
        'power than any permitted model gives, in a library whose two candidate models have p_max 0.1-0.3 dB apart (fallback selection); (b) 12 % round2float / target_power unit cases '
        'incl. values next to rounding ties and clamps; (c) 10 % malformed delta_power_range_db (2 entries) that must '
        'be rejected with ConfigurationError. non-trivial: at least two amplifiers were designed in one OMS / unit case '
        'off the clamp / every malformed case; distinct = distinct canonical JSON')
MODEL_SCOPE = ('modelled: round2float, target_power, span_loss with cached design_span_loss, '
               'compute_gain_power_and_tilt_target, set_one_amplifier (power reduction for imposed and auto-selected '
               'models, both modes), set_amplifier_voa, the prev_dp/prev_voa threading of set_egress_amplifier, on top of '
               'the C08 line completion. Taken from the implementation as input: WHICH type_variety auto-design selected '
               '(property C10) - its p_max / gain_flatmax / out_voa_auto are looked up in the library; the estimated '
               'Raman gain of RamanFibers (Raman solver not modelled); the ROADM egress reference power (C06). Not '
               'modelled: tilt targets / SRS deviation (zero for single-band Edfa), Multiband amplifiers, '
               'the per-degree warning of set_roadm_input_powers (the recorded ref_pch_in_dbm values ARE modelled: refIns). Topologies on which designed_network '
               'raises (RamanFiber whose launch power is not yet known: open finding of C08) are not generated')
PARTIAL = []

TOL = 1e-6


def gen(rng, tier, widen=False):
    r = rng.random()
    if r < 0.10:
        return gen_malformed(rng, tier)
    if r < 0.22 or (widen and r < 0.5):
        return gen_unit(rng, widen)
    if r < 0.34:
        return gen_gain_saturation(rng)
    if r < 0.40:
        return gen_fallback_selection(rng)
    # RamanFiber placements that make designed_network raise (open finding raman-gain-before-estimate of C08) are kept
    # out of this generator
    c = G.gen_case(rng, tier, widen, raman_crash_rate=0.0, lumped=True, band_spacing=True)
    c['kind'] = 'design'
    return c


def gen_gain_saturation(rng):
    """gain mode on purpose around the saturation decision of an amplifier with operator type_variety and operator gain:
    the amplifier in front of it carries an operator out_voa of 1-4 dB (and the ROADM target / operator offsets vary),
    and the operator gain is placed so that the TRUE total output `pref_total + prev_dp - prev_voa - node_loss + gain`
    (in_voa = 0) falls inside (p_max - prev_voa, p_max) - must be kept - , just below p_max, or just above p_max - must be
    reduced to p_max exactly. Everything else is the default configuration, so the output can be predicted here."""
    pmax = {'std_low_gain': 23, 'std_medium_gain': 23, 'std_high_gain': 21, 'high_power': 25}
    nch = 76                                   # shipped SI: int((195.1e12 - 191.3e12) // 50e9)
    target = rng.choice([-20, -20, -18, -22.5])
    g0 = rng.choice([18.0, 20.0, 21.5, 23.0])
    v0 = rng.choice([1.0, 2.0, 3.0, 4.0, 1.5])
    L1 = rng.choice([60.0, 80.0, 80.0, 100.0, 72.5])
    loss1 = 0.2 * L1 + 0.5 + 0.5
    var1 = rng.choice(['std_low_gain', 'std_medium_gain', 'std_high_gain', 'high_power'])
    where = rng.choice(['window', 'window', 'window', 'below', 'above', 'above'])
    delta = {'window': -v0 * rng.choice([0.2, 0.4, 0.6, 0.8]), 'below': -v0 - rng.choice([0.3, 1.0]),
             'above': rng.choice([0.2, 0.7, 2.0])}[where]
    # total power entering the second amplifier: ROADM target + g0 - v0 - loss1 + 10 log10(nch)
    p_in = target + g0 - v0 - loss1 + 10 * math.log10(nch)
    g1 = round(pmax[var1] + delta - p_in, 3)
    fib = lambda uid, L: {"uid": uid, "type": "Fiber", "type_variety": "SSMF",       # noqa: E731
                          "params": {"length": L, "length_units": "km", "loss_coef": 0.2, "con_in": 0.5, "con_out": 0.5}}
    line = [{"uid": "s a0", "type": "Edfa", "type_variety": "std_medium_gain",
             "operational": {"gain_target": g0, "tilt_target": 0, "out_voa": v0}},
            fib('s f1', L1),
            {"uid": "s a1", "type": "Edfa", "type_variety": var1,
             "operational": {"gain_target": g1, "tilt_target": 0, "out_voa": rng.choice([None, 0, 1.0])}}]
    if rng.random() < 0.7:
        line.append(fib('s f2', rng.choice([60.0, 80.0])))
        if rng.random() < 0.4:
            # a third operator amplifier behind a second operator VOA
            line.append({"uid": "s a2", "type": "Edfa", "type_variety": "std_medium_gain",
                         "operational": {"gain_target": rng.choice([15.0, 17.0, 22.0]), "tilt_target": 0}})
    span = {'power_mode': False, 'delta_power_range_db': [-2, 3, 0.5], 'power_slope': 0.3, 'span_loss_ref': 20.0,
            'padding': 10, 'EOL': 0, 'con_in': 0, 'con_out': 0, 'max_length': 150, 'length_units': 'km',
            'voa_margin': 1, 'voa_step': 0.5, 'target_extended_gain': 2.5, 'max_fiber_lineic_loss_for_raman': 0.25}
    return {'kind': 'design', 'shape': 'gain-saturation', 'where': where, 'k': 1,
            'chains': [{'src': 'R0', 'dst': 'R1', 'line': line},
                       {'src': 'R1', 'dst': 'R0', 'line': [fib('s back', 80.0)]}],
            'trx_src': None, 'roadms': {'R0': {'target_pch_out_db': target}, 'R1': {}}, 'per_degree': {}, 'span': span,
            'si': {'power_dbm': 0, 'tx_power_dbm': 0, 'use_si_channel_count_for_design': True}, 'edfa_mod': {},
            'has_raman': False}


def gen_fallback_selection(rng):
    """auto-selected amplifiers (no type_variety) asked for more power than any permitted model can give, in a library whose
    two candidates for 10-17 dB of gain (std_low_gain, std_medium_gain) have p_max 0.1-0.3 dB apart, either one being the
    weaker: the selection falls back to the models within 0.3 dB of the strongest and takes the quieter one - the design
    power must then respect the p_max of THAT model"""
    d = rng.choice([0.1, 0.2, 0.3, 0.25, 0.15])
    weaker = rng.choice(['std_low_gain', 'std_low_gain', 'std_medium_gain'])
    top = rng.choice([23, 23, 22, 24])
    mod = {'std_low_gain': {'p_max': top}, 'std_medium_gain': {'p_max': top}}
    mod[weaker]['p_max'] = round(top - d, 2)
    fib = lambda uid, L: {"uid": uid, "type": "Fiber", "type_variety": "SSMF",       # noqa: E731
                          "params": {"length": L, "length_units": "km", "loss_coef": 0.2, "con_in": 0.5, "con_out": 0.5}}
    n = rng.choice([2, 3, 4])
    line = [fib(f'f {i}', rng.choice([50.0, 55.0, 60.0, 65.0, 70.0, 75.0, 62.5])) for i in range(n)]
    if rng.random() < 0.3:
        line.insert(rng.randrange(1, n), {"uid": "f a", "type": "Edfa"})       # a user-placed amplifier without any setting
    span = {'power_mode': True, 'delta_power_range_db': rng.choice([[0, 0, 0], [-2, 3, 0.5], [-1, 1, 0.5]]),
            'power_slope': 0.3, 'span_loss_ref': 20.0, 'padding': 10, 'EOL': 0, 'con_in': 0, 'con_out': 0,
            'max_length': 150, 'length_units': 'km', 'voa_margin': 1, 'voa_step': 0.5,
            'target_extended_gain': rng.choice([2.5, 2.5, 5]), 'max_fiber_lineic_loss_for_raman': 0.25}
    return {'kind': 'design', 'shape': 'fallback-selection', 'k': 1,
            'chains': [{'src': 'R0', 'dst': 'R1', 'line': line},
                       {'src': 'R1', 'dst': 'R0', 'line': [fib('f back', rng.choice([60.0, 70.0]))]}],
            'trx_src': None, 'roadms': {'R0': {}, 'R1': {}}, 'per_degree': {}, 'span': span,
            'si': {'power_dbm': rng.choice([6, 7, 8, 5.5]), 'tx_power_dbm': 0, 'use_si_channel_count_for_design': True},
            'edfa_mod': mod, 'has_raman': False}


def gen_unit(rng, widen=False):
    step = rng.choice([0.5, 0.5, 1, 0.1, 0.25, 0.3, 0, 0.05, 0.01, 3, 0.2])
    lo, hi = rng.choice([(-2, 3), (0, 0), (-6, 0), (-3, 3), (-1.5, 2.5), (-4, 4), (0, 3)])
    slope = rng.choice([0.3, 0.25, 0.33, 0.5])
    ref = rng.choice([20.0, 18.0, 22.5])
    if rng.random() < (0.5 if not widen else 0.9) and step >= 0.05:
        # next to a rounding tie: slope*(loss-ref)/step = k + 0.5 +- eps
        k = rng.randrange(-8, 12)
        eps = rng.choice([0, 1e-9, -1e-9, 1e-4, -1e-4, 0.01, -0.01])
        loss = ref + (k + 0.5 + eps) * round(step, 1) / slope if round(step, 1) > 0 else ref + k
    else:
        loss = round(rng.uniform(0, 45), rng.choice([0, 1, 2, 6]))
    return {'kind': 'unit', 'step': step, 'lo': lo, 'hi': hi, 'slope': slope, 'ref': ref, 'loss': loss,
            'next_is_roadm': rng.random() < 0.1}


def gen_malformed(rng, tier):
    c = G.gen_case(rng, tier, raman_rate=0.0, raman_crash_rate=0.0, trx_src_rate=0.0)
    c['kind'] = 'malformed'
    c['span']['delta_power_range_db'] = c['span']['delta_power_range_db'][:2]
    # make sure the slope rule is needed somewhere: two plain fibres in a row, no user amplifier
    c['chains'][0]['line'] = [G.gen_fiber(rng, 'm 0', max_km=120.0), G.gen_fiber(rng, 'm 1', max_km=120.0)]
    return c


def span_cfg(sp):
    r = list(sp['delta_power_range_db']) + [0, 0, 0]
    return dict(power_mode=bool(sp['power_mode']), dp_lo=f2b(r[0]), dp_hi=f2b(r[1]), dp_step=f2b(r[2]),
                loss_ref=f2b(sp['span_loss_ref']), slope=f2b(sp['power_slope']), voa_margin=f2b(sp['voa_margin']),
                voa_step=f2b(sp['voa_step']), ext_gain=f2b(sp['target_extended_gain']),
                dp_range_len=len(sp['delta_power_range_db']))


# ---------------------------------------------------------------------------------------------------------------------

def run(case, drv):
    return {'design': run_design, 'unit': run_unit, 'malformed': run_malformed}[case['kind']](case, drv)


def my_round2float(x, step):
    """independent evaluation with exact rationals (ties to even), for the monitor"""
    from fractions import Fraction

    def rint(q):
        f = math.floor(q)
        d = q - f
        if d < Fraction(1, 2):
            return f
        if d > Fraction(1, 2):
            return f + 1
        return f if f % 2 == 0 else f + 1
    s = Fraction(rint(Fraction(step) * 10), 10)
    xq = Fraction(x)
    if s >= Fraction(1, 100):
        n = rint(xq / s)
        return float(Fraction(rint(n * s * 10), 10))
    return float(Fraction(rint(xq * 100), 100))


def run_unit(case, drv):
    from gnpy.core.utils import round2float
    res = Result()
    x = (case['loss'] - case['ref']) * case['slope']
    impl = float(round2float(x, case['step']))
    a = drv.ask('c09.r2f', x=f2b(x), step=f2b(case['step']))
    if b2f(a['margin']) < 1e-6:
        res.ill += 1
    else:
        res.cmp_float('round2float', impl, b2f(a['value']), abs_=1e-12)
    # monitor: resolution not coarser than the step, error at most step/2 (+ the one-decimal rounding)
    s = round(case['step'], 1)
    # half a step - the step as given or to one decimal, whichever is coarser - plus the one-decimal output rounding
    bound = (max(s, case['step']) / 2 + 0.05) if s >= 0.01 else 0.005
    if abs(impl - x) > bound + 1e-9:
        res.fail(f'rounding: round2float({x}, {case["step"]}) = {impl}, further than {bound} from the value')
    # ... and the result is a multiple of the step - as given or to one decimal (0.01 for finer steps); which of the two,
    # and which way a tie goes, is the code's business: the exact replication is compared with the model above and with
    # exact rationals below (correspondence, not monitor)
    grids = [g for g in (case['step'], s) if g >= 0.01] if s >= 0.01 else [0.01]
    if not any(abs(impl / g - round(impl / g)) <= 1e-6 for g in grids):
        res.fail(f'rounding: round2float({x}, {case["step"]}) = {impl} is not a multiple of the step')
    if b2f(a['margin']) >= 1e-6:
        res.cmp_float('round2float(exact rationals)', impl, my_round2float(x, case['step']), abs_=1e-9)
    # target_power through the real function needs a network: use the model/impl pair on the formula only
    lo, hi = case['lo'], case['hi']
    exp = 0.0 if case['next_is_roadm'] else min(hi, max(lo, impl))
    sp = {'power_mode': True, 'delta_power_range_db': [lo, hi, case['step']], 'span_loss_ref': case['ref'],
          'power_slope': case['slope'], 'voa_margin': 1, 'voa_step': 0.5, 'target_extended_gain': 2.5}
    cfg = span_cfg(sp)
    cfg.pop('dp_range_len')
    t = drv.ask('c09.target', next_loss=f2b(case['loss']), next_is_roadm=case['next_is_roadm'], **cfg)
    if b2f(t['margin']) < 1e-6:
        res.ill += 1
    else:
        res.cmp_float('target_power(formula)', exp, b2f(t['value']), abs_=1e-12)
    res.nontrivial = lo < impl < hi
    res.stats.update({'unit': 1, 'unit_clamped': int(not (lo < impl < hi)), 'unit_near_tie': int(b2f(a['margin']) < 1e-3)})
    return res


def source_power(case, ch, eq, pref):
    """reference-channel power leaving the source endpoint of chain `ch` (own evaluation of the configuration)"""
    if ch['src'] == 'TX':
        tx = case['si']['tx_power_dbm']
        return float(tx) if tx is not None else pref
    target = G.roadm_ref_power(case['roadms'].get(ch['src'], {}), eq)
    if ch['src'] == 'R0' and ch['dst'].startswith('R'):
        spoke = ch['dst'][1:]
        if spoke in case.get('per_degree', {}):
            first = ch['line'][0]
            if first['type'] not in ('Fiber', 'RamanFiber') or first['params']['length'] < 100.0:
                return float(case['per_degree'][spoke])
    return float(target)


def design_constants(case, eq):
    si = eq['SI']['default']
    pref = 10 * math.log10(10 ** (si.power_dbm / 10) * 1e-3 * 1e3)       # watt2dbm(dbm2watt(power_dbm))
    nch = int((si.f_max - si.f_min) // si.spacing)
    return pref, nch


def run_design(case, drv):
    from gnpy.core import elements as E
    from gnpy.core.parameters import SimParams
    from gnpy.core.utils import watt2dbm, dbm2watt
    res = Result()
    SimParams.set_params({})
    chains = G.all_chains(case)
    eq, net = _load(case)
    pre_objs, _ = G.chains_of(net, case)
    pre = [[G.record(n) for n in objs] for objs in pre_objs]
    lo, hi, target = G.split_bounds(case['span'])
    import gnpy.core.network as NW
    seen_total = {}
    orig_soa = NW.set_one_amplifier

    import inspect
    sig_soa = inspect.signature(orig_soa)

    def spy_soa(*a, **k):
        # by parameter NAME (node, pref_total_db), whatever the order or number of the other parameters
        try:
            b = sig_soa.bind(*a, **k).arguments
            seen_total[b['node'].uid] = float(b['pref_total_db'])
        except (TypeError, KeyError, AttributeError, ValueError):
            pass
        return orig_soa(*a, **k)
    NW.set_one_amplifier = spy_soa
    try:
        err, _ = design_impl(case, eq, net)
    finally:
        NW.set_one_amplifier = orig_soa
    si = eq['SI']['default']
    pref_impl = float(watt2dbm(dbm2watt(si.power_dbm)))
    pref, nch_si = design_constants(case, eq)
    sp = case['span']
    # the design load of each OMS: the SI count when it is imposed on the reference channel, else the count of the OMS's
    # own design band with that band's spacing (own reading of the configuration)
    bands = [G.design_band_of(case, ch, eq) for ch in chains]
    nchs = [nch_si if si.use_si_channel_count_for_design else int((b[1] - b[0]) // b[2]) for b in bands]

    post_objs = ends = None
    post = [None] * len(chains)
    if err is None:
        post_objs, ends = G.chains_of(net, case)
        post = [[G.record(n) for n in objs] if objs is not None else None for objs in post_objs]

    # ---- model -------------------------------------------------------------------------------------------------------
    answers = []
    near_split = [False] * len(chains)
    for i, (ch, recs) in enumerate(zip(chains, pre)):
        recs = copy.deepcopy(recs)
        sels = []
        if post[i] is not None:
            gains = {G.base_uid(r['uid']): r['raman_gain'] for r in post[i] if r['kind'] == 'raman'}
            for r in recs:
                if r['kind'] == 'raman':
                    r['raman_gain'] = gains.get(r['uid'])
            for r in post[i]:
                if r['kind'] == 'edfa':
                    a = eq['Edfa'].get(r['variety'])
                    sels.append({'p_max': f2b(a.p_max), 'gain_flatmax': f2b(a.gain_flatmax),
                                 'out_voa_auto': bool(a.out_voa_auto)})
        args = model_chain(case, ch, recs, lo, hi, target)
        args.update(span_cfg(sp))
        args.update(sels=sels, pref=f2b(pref_impl), nb_ref=(nch_si if si.use_si_channel_count_for_design else None),
                    band_fmin=int(bands[i][0]), band_fmax=int(bands[i][1]), band_spacing=int(bands[i][2]),
                    src_power=f2b(source_power(case, ch, eq, pref_impl)),
                    # set_fiber_input_power / set_roadm_input_powers start from pref_ch_db behind a transceiver
                    display_power=f2b(pref_impl if ch['src'] == 'TX' else source_power(case, ch, eq, pref_impl)))
        for r in recs:
            # class D of `fiber_length // target_length`: only a quotient that is NOT an integer (an exact multiple such as
            # 180 km / 90 km is deterministic) but within rounding noise of one; it affects this OMS's comparison only
            q = Fraction(r['length']) / Fraction(target) if r['kind'] in ('fiber', 'raman') else Fraction(0)
            if r['kind'] in ('fiber', 'raman') and r['length'] >= hi and q.denominator != 1 and abs(q - round(q)) < Fraction(1, 10 ** 9):
                near_split[i] = True
        answers.append(drv.ask('c09.design', **args))
    model_err = next((a['error'] for a in answers if 'error' in a), None)
    if err is not None or model_err is not None:
        res.cmp_exact('designed_network.error', err, model_err)
        if err == 'NetworkTopologyError' and model_err == 'NetworkTopologyError':
            # a generated lumped loss exactly on a sub-span boundary: rejected by the Fiber constructor (see C08)
            res.stats.update({'design': 1, 'lump_on_boundary_rejected': 1})
            return res
        if err is not None:
            res.fail(f'design raised: designed_network failed with {err} on a well-formed topology',
                     cls=raman_estimate_class(case, err))
        res.nontrivial = True
        res.stats.update({'design': 1, f'design_error_{err}': 1})
        return res
    skips = {'oms_near_split_not_comparable': 0, 'amps_not_compared_after_tie': 0, 'oms_ref_in_not_compared': 0,
             'amps_pref_total_not_seen': 0}

    # ---- correspondence: every amplifier of every OMS -----------------------------------------------------------------------
    n_amps = 0
    for i, (ch, a) in enumerate(zip(chains, answers)):
        if post[i] is None:
            res.fail(f'chain lost: the line from {ch["src"]} to {ch["dst"]} cannot be followed after design')
            continue
        tag = f'oms[{ch["src"]}->{ch["dst"]}]'
        amps = [r for r in post[i] if r['kind'] == 'edfa']
        if near_split[i] and [r['uid'] for r in amps] != a['amps']:
            res.ill += 1
            skips['oms_near_split_not_comparable'] += 1
            continue
        if not res.cmp_exact(f'{tag}.amplifiers', [r['uid'] for r in amps], a['amps']):
            continue
        seen = [r for r in amps if r['uid'] in seen_total]
        skips['amps_pref_total_not_seen'] += len(amps) - len(seen)
        if seen:
            res.cmp_floats(f'{tag}.pref_total_db', [seen_total[r['uid']] for r in seen],
                           [b2f(a['pref_total'])] * len(seen), abs_=1e-9)
        skip = False
        for r, om in zip(amps, a['outs']):
            o = om['o']
            n_amps += 1
            if skip:
                res.ill += 1
                skips['amps_not_compared_after_tie'] += 1
                continue
            near_tie = b2f(o['margin']) < 1e-6
            impl = [r['effective_gain'], r['_delta_p'], r['out_voa'], r['in_voa']]
            mod = [b2f(o['gain']), b2f(o['dp_int']), b2f(o['out_voa']), b2f(o['in_voa'])]
            if near_tie and not close_list(impl, mod, 1e-9, 1e-9):
                # class D: the pre-image of a rounding is within 1e-6 of a tie and the two sides fell on different
                # sides of it: not comparable, and neither is anything downstream in this OMS
                res.ill += 1
                skip = True
                continue
            res.cmp_floats(f'{tag}.amp(effective_gain,_delta_p,out_voa,in_voa)', impl, mod, abs_=1e-9, uid=r['uid'])
            md = None if o['delta_p'] is None else b2f(o['delta_p'])
            if (md is None) != (r['delta_p'] is None):
                res.mismatch(f'{tag}.amp.delta_p', r['delta_p'], md, uid=r['uid'])
            elif md is not None:
                res.cmp_float(f'{tag}.amp.delta_p', r['delta_p'], md, abs_=1e-9, uid=r['uid'])
            mt = None if o['target_pch'] is None else b2f(o['target_pch'])
            if (mt is None) != (r['target_pch_out_dbm'] is None):
                res.mismatch(f'{tag}.amp.target_pch_out_dbm', r['target_pch_out_dbm'], mt, uid=r['uid'])
            elif mt is not None:
                if b2f(om['m_target']) < 1e-6 and not close(r['target_pch_out_dbm'], mt, 1e-9, 1e-9):
                    res.ill += 1
                else:
                    res.cmp_float(f'{tag}.amp.target_pch_out_dbm', r['target_pch_out_dbm'], mt, abs_=1e-9, uid=r['uid'])

        # reference input powers recorded on fibres and on the ROADM that ends the line
        if skip or len(a.get('ref_in', [])) != len(post[i]) + 1:
            skips['oms_ref_in_not_compared'] += 1
        else:
            refs = [b2f(x) for x in a['ref_in']]
            impl_v, mod_v = [], []
            for k, (obj, r) in enumerate(zip(post_objs[i], post[i])):
                if r['kind'] in ('fiber', 'raman') and obj.ref_pch_in_dbm is not None:
                    impl_v.append(float(obj.ref_pch_in_dbm))
                    mod_v.append(refs[k])
            if isinstance(ends[i], E.Roadm) and post_objs[i] and post_objs[i][-1].uid in ends[i].ref_pch_in_dbm:
                impl_v.append(float(ends[i].ref_pch_in_dbm[post_objs[i][-1].uid]))
                mod_v.append(refs[-1])
            res.cmp_floats(f'{tag}.ref_pch_in_dbm(fibres, end ROADM)', impl_v, mod_v, abs_=1e-9)

    # ---- monitor --------------------------------------------------------------------------------------------------------------
    st = {'amps': n_amps, 'amps_auto_selected': 0, 'amps_user_dp': 0, 'amps_user_gain_kept': 0, 'amps_reduced': 0,
          'amps_rule_checked': 0, 'amps_rule_clamped': 0, 'amps_voa_auto': 0, 'propagated_oms': 0,
          'propagated_amp_outputs': 0, 'oms_with_two_amps': 0, 'oms_propagated_up_to_raman': 0, 'oms_own_band_spacing': 0}
    st.update(skips)
    for i, ch in enumerate(chains):
        if post[i] is None:
            continue
        p0 = source_power(case, ch, eq, pref)
        known_at = monitor_oms(res, case, eq, ch, pre[i], post[i], p0, pref, pref + 10 * math.log10(nchs[i]), st)
        st['oms_own_band_spacing'] += int(bands[i][2] != si.spacing and not si.use_si_channel_count_for_design)
        if sum(1 for r in post[i] if r['kind'] == 'edfa') >= 2:
            st['oms_with_two_amps'] += 1
        propagate_oms(res, case, eq, net, ch, post_objs[i], ends[i], post[i], p0, pref, st, known_at,
                      band=None if si.use_si_channel_count_for_design else bands[i])
    res.nontrivial = st['oms_with_two_amps'] > 0
    res.stats.update(st)
    res.stats.update({'design': 1, 'power_mode': int(sp['power_mode']), 'gain_mode': int(not sp['power_mode'])})
    if case.get('shape') == 'fallback-selection':
        sel = [r for recs in post if recs for r in recs if r['kind'] == 'edfa']
        pm = {k: v['p_max'] for k, v in case['edfa_mod'].items()}
        res.stats.update({'fallback_selection_cases': 1,
                          'fallback_selected_weaker_model': sum(1 for r in sel if pm.get(r['variety']) == min(pm.values()))})
    if case.get('shape') == 'gain-saturation':
        res.stats.update({'gain_saturation_cases': 1, f'gain_saturation_{case["where"]}': 1})
    return res


def monitor_oms(res, case, eq, ch, pre, post, p0, pref, pref_total, st):
    """budget identity, slope rule, saturation and user values on the designed objects of one OMS (own arithmetic)"""
    sp = case['span']
    power_mode = sp['power_mode']
    rng_ = sp['delta_power_range_db']
    user = {o['uid']: o for o in pre if o['kind'] == 'edfa'}
    off = p0 - pref             # power entering the line relative to the reference (prev_dp - prev_voa)
    f13 = []            # (index, dB above p_max) of every amplifier reported for voa-rounding-above-pmax
    vs = round(sp['voa_step'], 1)
    voa_round_err = (vs / 2 + 0.05) if vs >= 0.01 else 0.005        # how far round2float(., voa_step) can round UP
    loss = 0.0
    span = []
    tag = f'{ch["src"]}->{ch["dst"]}'
    for idx, r in enumerate(post):
        if r['kind'] != 'edfa':
            loss += G.rec_loss(r) - ((r['raman_gain'] or 0.0) if r['kind'] == 'raman' else 0.0)
            span.append(r)
            continue
        D, V, Gn, iv = r['_delta_p'], r['out_voa'], r['effective_gain'], r['in_voa']
        u = user.get(r['uid'])              # None for an inserted amplifier
        a = eq['Edfa'][r['variety']]
        auto_sel = (u is None) or (u['variety'] == '')
        st['amps_auto_selected'] += int(auto_sel)
        u_dp = None if u is None else u['delta_p_user']
        u_gain = None if u is None else u['gain_target']
        u_voa = None if u is None else u['out_voa_user']
        voa_auto = u_voa is None and power_mode and bool(a.out_voa_auto)
        st['amps_voa_auto'] += int(voa_auto)
        cls = 'unlisted'
        # (a) gain = loss since the previous amplifier + change of target
        exp_gain = loss + D - off + iv
        if abs(Gn - exp_gain) > TOL:
            res.fail(f'budget: {r["uid"]} ({tag}) has gain {Gn:.6f} dB, loss since previous amplifier {loss:.6f} + '
                     f'target change {D - off:.6f} + in_voa {iv} = {exp_gain:.6f} dB', cls=cls, uid=r['uid'])
        # (f) user VOA kept
        if u_voa is not None and abs(V - u_voa) > 1e-12:
            res.fail(f'user VOA: {r["uid"]} out_voa {V}, operator set {u_voa}', uid=r['uid'])
        if u_voa is None and not voa_auto and V != 0:
            res.fail(f'VOA: {r["uid"]} out_voa {V} without VOA optimisation', uid=r['uid'])
        if V < 0:
            res.fail(f'VOA: {r["uid"]} negative out_voa {V}', uid=r['uid'])
        v_auto = V if voa_auto else 0.0
        d_core = D - v_auto                         # the offset before the VOA optimisation added its share
        net = D - V                                 # what enters the next span, relative to the reference
        # (c) total design power never above p_max
        p_out = pref_total + D
        if p_out > a.p_max + TOL:
            # the open finding: automatic VOA, the offset itself respects p_max, the configuration lets the VOA rounding
            # beat the margin (voa_margin below half a step + the one-decimal rounding), and the excess is no more than that
            known = (voa_auto and pref_total + d_core <= a.p_max + TOL and sp['voa_margin'] < voa_round_err
                     and p_out - a.p_max <= voa_round_err - sp['voa_margin'] + TOL)
            cls_p = 'voa-rounding-above-pmax' if known else 'unlisted'
            if known:
                f13.append((idx, p_out - a.p_max))
            res.fail(f'saturation: {r["uid"]} design output {p_out:.6f} dBm exceeds p_max {a.p_max} of {r["variety"]}',
                     cls=cls_p, uid=r['uid'])
        # limit the reduction may invoke: p_max, and for an auto-selected model also its gain ceiling
        p_in = pref_total + off - loss - iv
        limit = a.p_max
        if auto_sel:
            limit = min(limit, p_in + a.gain_flatmax + sp['target_extended_gain'])
        at_limit = pref_total + d_core >= limit - TOL
        # next span loss (true losses up to the next amplifier / the end of the line)
        nxt = 0.0
        j = idx + 1
        while j < len(post) and post[j]['kind'] != 'edfa':
            x = post[j]
            nxt += G.rec_loss(x) - ((x['raman_gain'] or 0.0) if x['kind'] == 'raman' else 0.0)
            j += 1
        before_roadm = (idx + 1 == len(post)) and ch['dst'].startswith('R')      # the ROADM is the next node
        if power_mode and u_dp is None:
            # (b) the documented rule
            st['amps_rule_checked'] += 1
            s = round(rng_[2], 1)
            # rounding to the step: the step as given or to one decimal, whichever is coarser (which one is the code's
            # business), plus the one-decimal output rounding
            err = (max(s, rng_[2]) / 2 + 0.05) if s >= 0.01 else 0.005
            if before_roadm:
                lo_ok = hi_ok = 0.0
            else:
                x = sp['power_slope'] * (nxt - sp['span_loss_ref'])
                lo_ok = min(rng_[1], max(rng_[0], x - err))
                hi_ok = min(rng_[1], max(rng_[0], x + err))
                st['amps_rule_clamped'] += int(not (rng_[0] < x < rng_[1]))
            cls_r = 'unlisted'
            if net > hi_ok + TOL:
                res.fail(f'rule: {r["uid"]} ({tag}) sends {net:.6f} dB above reference into a span of {nxt:.6f} dB, '
                         f'rule allows [{lo_ok:.6f}, {hi_ok:.6f}]', cls=cls_r, uid=r['uid'])
            elif net < lo_ok - TOL:
                st['amps_reduced'] += 1
                if not at_limit:
                    res.fail(f'rule: {r["uid"]} ({tag}) sends {net:.6f} dB into a span of {nxt:.6f} dB, rule gives '
                             f'[{lo_ok:.6f}, {hi_ok:.6f}] and the output {pref_total + d_core:.6f} dBm is below the '
                             f'limit {limit:.6f} dBm: reduced without need', cls=cls_r, uid=r['uid'])
        elif power_mode:
            # (d) operator-set offset kept unless it would saturate
            st['amps_user_dp'] += 1
            if abs(d_core - u_dp) > TOL:
                st['amps_reduced'] += 1
                if d_core > u_dp + TOL:
                    res.fail(f'user offset: {r["uid"]} delta_p {d_core} above the operator value {u_dp}', uid=r['uid'])
                elif not (pref_total + u_dp > limit - TOL and at_limit):
                    res.fail(f'user offset: {r["uid"]} delta_p {d_core} instead of the operator value {u_dp} although '
                             f'{pref_total + u_dp:.6f} dBm does not exceed the limit {limit:.6f} dBm', uid=r['uid'])
        elif u_gain is not None:
            # gain mode, operator-set gain kept unless it would saturate
            if abs(Gn - u_gain) > TOL:
                st['amps_reduced'] += 1
                would = p_in + u_gain
                if Gn > u_gain + TOL:
                    res.fail(f'user gain: {r["uid"]} gain {Gn} above the operator value {u_gain}', uid=r['uid'])
                elif not (would > limit - TOL and p_in + Gn >= limit - TOL):
                    # open finding gain-mode-in-voa-saturation: the gain-mode check of the code (operator type_variety)
                    # leaves in_voa out of the output estimate, so the gain is cut until p_in + in_voa + gain = p_max
                    # (also when the operator's gain would not saturate at all)
                    f14 = bool(iv) and not auto_sel and abs((p_in + iv + Gn) - limit) <= TOL
                    res.fail(f'user gain: {r["uid"]} gain {Gn:.6f} instead of the operator value {u_gain}: with the '
                             f'operator value the output would be {would:.6f} dBm, with the reduced gain it is '
                             f'{p_in + Gn:.6f} dBm, limit {limit:.6f} dBm (in_voa {iv}): reduced more than needed',
                             cls='gain-mode-in-voa-saturation' if f14 else 'unlisted', uid=r['uid'])
            else:
                st['amps_user_gain_kept'] += 1
        off = net
        loss = 0.0
        span = []
    return f13


def known_cls(f13, k, dev, slack):
    """a propagated output that falls short of the design at or after amplifiers already reported for
    voa-rounding-above-pmax is the same finding as long as the shortfall is no more than what those amplifiers lost by
    being held at p_max (the sum of their excesses); anything larger is unlisted"""
    lost = sum(x for at, x in f13 if at <= k)
    if lost > 0 and dev <= slack + 0.01 + lost:
        return 'voa-rounding-above-pmax'
    return 'unlisted'


def propagate_oms(res, case, eq, net, ch, objs, end, post, p0, pref, st, known_at=(), band=None):
    """send the design comb through the OMS (element calls on copies) and compare every amplifier output, and the
    output of the ROADM that ends the OMS, with the design figures"""
    from gnpy.core import elements as E
    from gnpy.core.info import create_input_spectral_information
    from gnpy.core.utils import dbm2watt
    si_cfg = eq['SI']['default']
    # the design load of this OMS: the comb of its own design band (own spacing) unless the SI count is imposed
    fmin, fmax, spacing = band if band else (si_cfg.f_min, si_cfg.f_max, si_cfg.spacing)
    si = create_input_spectral_information(f_min=fmin, f_max=fmax, roll_off=si_cfg.roll_off,
                                           baud_rate=si_cfg.baud_rate, tx_power=float(dbm2watt(p0)),
                                           spacing=spacing, tx_osnr=si_cfg.tx_osnr)
    st['propagated_oms'] += 1
    slack = 0.0
    tag = f'{ch["src"]}->{ch["dst"]}'
    for k, (el, r) in enumerate(zip(copy.deepcopy(objs), post)):
        if r['kind'] == 'raman':
            # the Raman solver is outside this check: everything up to the Raman fibre has been compared
            st['oms_propagated_up_to_raman'] += 1
            return
        si = el(si)
        sr = float(np.min(si._signal_ratio))
        slack = max(slack, 10 * math.log10(1 / sr)) if sr > 0 else float('inf')
        if r['kind'] == 'edfa':
            exp = pref + r['_delta_p'] - r['out_voa']
            got = 10 * np.log10(si.pch * 1e3)
            dev = float(np.max(np.abs(got - exp)))
            st['propagated_amp_outputs'] += 1
            if dev > slack + 0.01:
                res.fail(f'propagation: reference channel leaves {r["uid"]} ({tag}) at {float(np.mean(got)):.4f} dBm, '
                         f'design says p_ref + delta_p - out_voa = {exp:.4f} dBm (noise slack {slack:.4f} dB)',
                         cls=known_cls(known_at, k, dev, slack), uid=r['uid'])
    if isinstance(end, E.Roadm) and objs:
        roadm = copy.deepcopy(end)
        degs = [n.uid for n in net.successors(end)]
        deg = next((d for d in degs if not d.startswith('T')), degs[0])
        target = roadm.get_per_degree_ref_power(deg)
        pol = case['roadms'].get(end.uid, {})
        if deg not in roadm.per_degree_pch_out_dbm:
            # constant power spectral density / constant power per slot width: own evaluation on the comb that arrives
            if 'target_psd_out_mWperGHz' in pol:
                target = 10 * np.log10(pol['target_psd_out_mWperGHz'] * si.baud_rate * 1e-9)
            elif 'target_out_mWperSlotWidth' in pol:
                target = 10 * np.log10(pol['target_out_mWperSlotWidth'] * si.slot_width * 1e-9)
        pin = 10 * np.log10(si.pch * 1e3)
        si = roadm(si, degree=deg, from_degree=objs[-1].uid)
        got = 10 * np.log10(si.pch * 1e3)
        exp = np.minimum(target, pin)
        if float(np.max(np.abs(got - exp))) > 1e-6:
            res.fail(f'propagation: ROADM {end.uid} sends {float(np.mean(got)):.4f} dBm to {deg}, target {target} dBm, '
                     f'input {float(np.mean(pin)):.4f} dBm')


def run_malformed(case, drv):
    res = Result()
    try:
        eq, net = _load(case)
        pre_objs, _ = G.chains_of(net, case)
        err, _ = design_impl(case, eq, net)
    except Exception as e:      # noqa: BLE001
        err = err_kind(e)
        pre_objs = None
    lo, hi, target = G.split_bounds(case['span'])
    model = None
    if pre_objs is not None:
        ch = case['chains'][0]
        recs = [G.record(n) for n in pre_objs[0]]
        args = model_chain(case, ch, recs, lo, hi, target)
        args.update(span_cfg(case['span']))
        args.update(sels=[], pref=f2b(0.0), pref_total=f2b(18.0), src_power=f2b(-20.0), display_power=f2b(-20.0))
        model = drv.ask('c09.design', **args).get('error')
    res.cmp_exact('designed_network.error(malformed)', err, model)
    # monitor: the configuration must be rejected; WHICH error it is rejected with is compared with the model above
    if err is None:
        res.fail(f'malformed accepted: delta_power_range_db {case["span"]["delta_power_range_db"]} was designed with')
    res.nontrivial = True
    res.stats.update({'malformed': 1, f'malformed_error_{err}': 1})
    return res


def shrink_candidates(case):
    if case['kind'] == 'unit':
        return
    for c in G.shrink_candidates(case):
        if case['kind'] == 'malformed' and (len(c['span']['delta_power_range_db']) != 2 or not c['chains']):
            continue
        yield c


def exhaustive():
    """the small scope of C08 (all lines of 1-3 elements over short/long fibre, Fused, user Edfa) in both modes"""
    from props.c08 import small_scope_cases
    for c in small_scope_cases('design'):
        yield c
        g = copy.deepcopy(c)
        g['span']['power_mode'] = False
        yield g
