"""C14 — spectrum assignment never double-books a slot and honours what the user fixed.

Correspondence (class E, exact): one `pth_assign_spectrum` call per request on real `OMS` objects, after EVERY call all
bitmaps / index ranges / service bookkeeping, rq.N, rq.M, blocking_reason vs `Gnpy.Slots.step`; the building blocks
`spectrum_selection`, `determine_slot_numbers`, `OMS.assign_spectrum`, `order_slots`/`restore_order`, `bitmap_sum`,
`compute_spectrum_slot_vs_bandwidth` on random bitmaps; now and then a whole batch through the shipped glue
(designed network -> build_oms_list -> real routes -> find_reversed_path -> one pth_assign_spectrum call).
Monitor: the statements of the property evaluated with an own ledger {oms -> {slot index -> owner}} kept by the harness.
"""
import copy
import itertools
import signal
from fractions import Fraction

from common.util import Result, err_kind
from common import nets

ID = 'C14'
N = {'quick': 3000, 'thorough': 40000}
LEAN_MODULES = ['GnpyProofs.Props.C14']
THEOREMS = [f'Gnpy.Slots.{t}' for t in (
    'step_blocked_unchanged', 'step_accept_free', 'step_slots_disjoint', 'step_marks_exactly', 'served_cellAt',
    'same_on_all_oms', 'enough_slots', 'step_preserves_wf', 'run_spec', 'history_no_overlap', 'occupancy_is_union',
    'run_preserves_wf', 'first_fit_lowest', 'last_fit_highest', 'fixed_free_granted', 'user_fixed_honoured', 'user_fixed_membership', 'reserved_check', 'create_wf',
    'stateWF_of_create', 'assignSpectrum_ok', 'assignSpectrum_of', 'spectrumSelection_sound', 'spectrumSelection_first', 'spectrumSelection_last',
    'determineSlotNumbers_pos', 'determineSlotNumbers_fixed', 'nmLoop_spec', 'aggregate_spec', 'restoreOrder_perm',
    'applyPath_spec', 'restoreOrder_positional')] + ['Gnpy.Py.sorted_pairwise', 'Gnpy.Py.sorted_perm']
PARTIAL = []
MANIFEST = {
    'text': '34 Lean 4 theorems over the executable model of spectrum_assignment.py: run_spec / history_no_overlap / '
            'occupancy_is_union by induction over ANY request list on any well-formed OMS set; step_blocked_unchanged, '
            'step_accept_free, step_marks_exactly, same_on_all_oms, enough_slots, first_fit_lowest (+ last_fit_highest), '
            'user_fixed_honoured (positional, through order_slots/restore_order), fixed_free_granted (a free fixed (N, M) is '
            'accepted), reserved_check; create_wf / '
            'stateWF_of_create show the hypotheses are what build_oms_list produces. The model is tied to the code after '
            'EVERY pth_assign_spectrum call (all bitmaps, N, M, blocking reason, exact) and a ledger-based monitor runs '
            'on the implementation.',
    'note': 'No partial statement. Quantifier domain: N any integer or null, M >= 1 or null (RFC 7698); guard-band/first-fit '
            'statements for OMS sets as build_oms_list produces them (one range, guard band a multiple of 6.25 GHz). '
            'Thorough tier adds the complete enumeration of 19104 histories of length <= 3 on 2 OMS x 17 slots.'}
RULE = ('one PRNG; (a) histories (74 %): 1-8 OMS over one frequency range (20-128 slots quick, up to 768 thorough; ranges '
        'containing the 193.1 THz anchor, off-grid band edges, guard bands 0-50 GHz), per-OMS unusable zones (left/right/'
        'gap) and pre-occupation, 1-12 (thorough: up to 60) requests with routes over 1-5 OMS, with or without a reverse '
        'route, every mix of fixed/free N and M, multi-slot, over/under-provisioned M, N on band edges and outside the '
        'map, first_fit/last_fit; 65 % of the histories are cut at random into pth_assign_spectrum calls of 1-6 requests '
        '(as planning() passes whole batches), 60 % contain runs of consecutive requests over exactly the same OMS set '
        'with a request that is blocked after tentative marks in the middle, followed by free / fixed probes; ~12 % malformed (bitmap length, unaligned maps, zero bit rate, empty route, unknown '
        'OMS id, unknown policy, no slot entry); compared after EVERY call (all maps, every rq.N/M/blocking_reason against the model\'s fold over the same requests; '
        'inside a batch the monitor judges first-fit-lowest and "a free fixed (N, M) is granted" on the state before each '
        'request rebuilt from its own ledger of accepted grants); (b) unit calls of spectrum_selection, '
        'determine_slot_numbers, assign_spectrum, order_slots/restore_order, bitmap_sum, '
        'compute_spectrum_slot_vs_bandwidth (23 %); (c) a designed ring/line network through build_oms_list, real '
        'routes, find_reversed_path and one batch call (3 %). A history is non-trivial when at least one request is '
        'accepted and (two accepted requests share an OMS or a request is blocked); unit and flow cases with >= 2 accepted '
        'requests are non-trivial; distinct = distinct canonical JSON of the case')
MODEL_SCOPE = ('modelled (GnpyModel/Slots.lean, Py.lean): Bitmap.__init__/geti/insert_left/insert_right, OMS.update_spectrum/'
               'assign_spectrum/add_service, frequency_to_n, nvalue_to_frequency, mvalue_to_slots, bitmap_sum, '
               'aggregate_oms_bitmap, spectrum_selection (both forms), select_candidate, determine_slot_numbers (fuel = '
               'map length + 2), order_slots, restore_order, compute_n_m, compute_spectrum_slot_vs_bandwidth, '
               'pth_assign_spectrum (one request per step, histories by `run`), with Python slice/index/list.index/'
               'sorted semantics and the exception kinds. Frequencies, bandwidths, bit rates are integer Hz / bit/s '
               '(exact in binary64). Domain of the generators: N any integer or null, M >= 1 or null (M is "an integer '
               'greater than or equal to 1", RFC 7698; M <= 0 is outside the quantifier: the implementation does not '
               'terminate for a fixed N with M = 0 - reported, not checked). Taken from the implementation as input: '
               'build_path_oms_id_list (a list(set(...)); its element set is checked by the monitor). Python aliasing '
               'is not in the functional model: the test bitmap is a value (F1). Monitor scope: guard-band and first-fit '
               'statements are judged when all maps share one range and the guard band is a positive multiple of 6.25 GHz '
               '(what build_oms_list produces); first-fit additionally needs band edges on the grid (otherwise the guard '
               'band counted from the band edge and from the first slot index differ, theorem create_wf).')

GRID = 6250000000
ANCHOR = 193100000000000
SLOT = 12500000000
CH = {'FREE': '1', 'OCCUPIED': '0', 'UNUSABLE': 'u'}


# ---------------------------------------------------------------------------------------------------------------------
# small independent integer helpers (generator + monitor; not the code's helpers, not the model)
# ---------------------------------------------------------------------------------------------------------------------

def tdiv(a, b):
    """integer quotient truncated toward zero"""
    q = abs(a) // abs(b)
    return q if (a >= 0) == (b >= 0) else -q


def cdiv(a, b):
    return -((-a) // b)


def n_of(f):
    return tdiv(f - ANCHOR, GRID)


class Hang(Exception):
    pass


class time_limit:
    """the implementation has loops that do not terminate on some malformed inputs: never let the harness hang"""

    def __init__(self, seconds):
        self.seconds = seconds

    def _raise(self, *a):
        raise Hang()

    def __enter__(self):
        try:
            self.old = signal.signal(signal.SIGALRM, self._raise)
            signal.setitimer(signal.ITIMER_REAL, self.seconds)
            self.armed = True
        except ValueError:      # not in the main thread
            self.armed = False

    def __exit__(self, *a):
        if self.armed:
            signal.setitimer(signal.ITIMER_REAL, 0)
            signal.signal(signal.SIGALRM, self.old)
        return False


def kind_of(e):
    return 'hang' if isinstance(e, Hang) else err_kind(e)


# ---------------------------------------------------------------------------------------------------------------------
# generators
# ---------------------------------------------------------------------------------------------------------------------

def gen(rng, tier, widen=False):
    k = rng.random()
    if k < 0.74:
        return gen_history(rng, tier, widen)
    if k < 0.97:
        return gen_unit(rng, tier, widen)
    return gen_flow(rng, tier)


def gen_band(rng, tier, widen):
    """f_min, f_max, guardband (integer Hz) of a whole OMS set, as build_oms_list gives one range to every OMS"""
    big = tier == 'thorough' and rng.random() < 0.25
    length = rng.choice([200, 400, 768]) if big else rng.choice([20, 32, 40, 48, 64, 64, 96, 128])
    r = rng.random()
    if r < 0.25:
        n_min = -rng.randrange(0, length + 1)           # the range contains the 193.1 THz anchor
    elif r < 0.3:
        n_min = rng.choice([0, 1, -1, -length, -length - 1, -length + 1])
    else:
        n_min = rng.randrange(-330, 330)
    f_min = ANCHOR + n_min * GRID
    f_max = ANCHOR + (n_min + length) * GRID
    if rng.random() < 0.12:                             # off-grid band edges (integer GHz)
        f_min += rng.choice([1, 2, 3, 5]) * 10 ** 9
        f_max -= rng.choice([0, 1, 2, 4]) * 10 ** 9
    g = rng.random()
    if g < 0.7:
        gb = 25 * 10 ** 9
    elif g < 0.93:
        gb = rng.choice([1, 2, 3, 6, 8]) * GRID
    elif g < 0.97:
        gb = rng.choice([30, 20, 10]) * 10 ** 9          # not a multiple of the grid
    else:
        gb = 0
    return f_min, f_max, gb


def gen_cells(rng, length, dense=False, layout=None):
    cells = ['1'] * length
    layout = layout or rng.choice(['full', 'full', 'full', 'left', 'right', 'gap', 'both', 'gap'])
    k = rng.randint(1, max(1, length // 3))
    if layout in ('left', 'both'):
        cells[:k] = ['u'] * k
    if layout in ('right', 'both'):
        k2 = rng.randint(1, max(1, length // 4))
        cells[length - k2:] = ['u'] * k2
    if layout == 'gap':
        a = rng.randrange(length // 4, max(length // 4 + 1, length // 2))
        cells[a:a + k] = ['u'] * len(cells[a:a + k])
    for _ in range(rng.choice([0, 0, 1, 1, 2, 3, 6 if dense else 2])):
        a = rng.randrange(length)
        w = rng.choice([1, 2, 4, 8, 8, 16])
        for i in range(a, min(length, a + w)):
            if cells[i] == '1':
                cells[i] = '0'
    return ''.join(cells)


def gen_tokens(rng, ids):
    """a route as tokens: 'T' transceiver, 'R' roadm, int = a line element carrying that oms_id"""
    t = ['T', 'R']
    for i in ids:
        t += [i] * rng.choice([1, 1, 2, 3])
        t.append('R')
    t.append('T')
    return t


class Sim:
    """rough occupancy bookkeeping of the generator (not the monitor's ledger): lets the generator aim at free or at
    just-occupied positions so that accepted, blocked and adjacent placements all occur often"""

    def __init__(self, oms, n_min, n_max, g4):
        self.n_min, self.n_max, self.g4 = n_min, n_max, g4
        self.cells = [list(o['cells']) if o['cells'] is not None else ['1'] * (n_max - n_min + 1) for o in oms]

    def free(self, ids, n, m):
        lo, hi = n - m, n + m - 1
        if lo < self.n_min + max(self.g4, 1) or hi > self.n_max - self.g4:
            return False
        return all(0 <= x - self.n_min < len(self.cells[k]) and self.cells[k][x - self.n_min] == '1'
                   for k in ids if k < len(self.cells) for x in range(lo, hi + 1))

    def centres(self, ids, m):
        return [n for n in range(self.n_min + m, self.n_max - m + 2) if self.free(ids, n, m)]

    def mark(self, ids, n, m):
        for k in ids:
            if k < len(self.cells):
                for x in range(n - m, n + m):
                    if 0 <= x - self.n_min < len(self.cells[k]):
                        self.cells[k][x - self.n_min] = '0'

    def play(self, ids, slots, pcm, required):
        """naive replay of a request (no ordering subtleties): good enough to steer the generator"""
        todo = []
        for n, m in slots:
            mm = m if m is not None else (pcm if n is not None else max(pcm, required))
            if mm is None or mm < 1:
                return
            if n is None:
                c = self.centres(ids, mm)
                if not c:
                    return
                n = c[0]
            if not self.free(ids, n, mm):
                return
            todo.append((n, mm))
        for n, mm in todo:
            self.mark(ids, n, mm)


def gen_request(rng, idx, n_oms, n_min, n_max, gb, widen, odd=None, sim=None, route=None, force=None):
    small = (n_max - n_min) < 70          # keep the demand in proportion to the map
    spacing = rng.choice([50, 25, 37.5, 25, 12.5, 50, 43] if small else [50, 50, 50, 37.5, 75, 25, 12.5, 62.5, 43, 100, 50])
    spacing = int(spacing * 10 ** 9)
    bit_rate = rng.choice([100, 100, 200, 400]) * 10 ** 9
    nb_wl = rng.choice([1, 1, 1, 1, 1, 2] if small else [1, 1, 1, 1, 2, 2, 3, 4])
    if force == 'partial':
        nb_wl = rng.choice([3, 3, 4])
        spacing = int(rng.choice([12.5, 25, 25, 37.5]) * 10 ** 9) if small else spacing
    elif force == 'probe':
        nb_wl = 1
    bw = nb_wl * bit_rate - rng.choice([0, 0, 0, 10 * 10 ** 9])
    pcm = cdiv(spacing, SLOT)
    required = pcm * cdiv(bw, bit_rate)
    k = min(n_oms, rng.choice([1, 1, 2, 2, 3, 4, 5]))
    ids = rng.sample(range(n_oms), k)
    pth = gen_tokens(rng, ids)
    rids = []
    if rng.random() < 0.45:
        rids = [(i ^ 1) if (i ^ 1) < n_oms else i for i in reversed(ids)]   # opposite direction = partner OMS
        rpth = gen_tokens(rng, rids)
    else:
        rpth = []
    if route is not None:       # exactly the OMS set (and elements) of the previous request
        ids, rids, pth, rpth = list(route[0]), list(route[1]), list(route[2]), list(route[3])
    g4 = gb // GRID

    def pick_m():
        m = rng.choice([pcm, pcm, 2 * pcm, required, required, required, required + pcm, required - 1, rng.randint(1, 12)])
        return max(1, m)

    def pick_n(m=None):
        if sim is not None and rng.random() < 0.5:
            c = sim.centres(ids + (rids if rpth else []), m or pcm)
            if c:
                return rng.choice([c[0], c[0], c[-1], rng.choice(c), rng.choice(c)])
        r = rng.random()
        if r < 0.03:
            return rng.choice([n_min - rng.randint(1, 12), n_max + rng.randint(1, 12)])   # outside the slot grid
        if r < 0.15:
            mm = m or pcm
            return rng.choice([n_min + g4 + mm, n_min + g4 + mm - 1, n_max - g4 - mm, n_max - g4 - mm + 1,
                               n_min + mm, n_min + mm + 1, n_max - mm, n_max - mm + 1, n_min, n_max])
        if r < 0.7 and m:
            return n_min + g4 + m + 2 * m * rng.randrange(0, max(1, (n_max - n_min) // (2 * m)))   # packed positions
        return rng.randint(n_min, n_max)

    shape = rng.choice(['nn', 'nn', 'nn', 'nm', 'nm', 'NM', 'NM', 'Nn', 'multi', 'multi', 'split', 'fixedmulti'])
    if force == 'partial':
        # a request that is blocked AFTER a tentative selection: a served free slot followed by a fixed slot that is
        # taken, or a fixed N with free M that finds fewer slots than required
        allids = ids + (rids if rpth else [])
        busy = [n for n in range(n_min + g4 + pcm, n_max - g4 - pcm + 1)
                if sim is not None and not sim.free(allids, n, pcm)] or [n_min + 1]
        if rng.random() < 0.6:
            slots = [[None, (nb_wl - 1) * pcm], [rng.choice(busy), pcm]]
            if rng.random() < 0.3:
                slots.reverse()
        else:
            slots = [[pick_n(pcm), None]]
            if rng.random() < 0.4:
                slots.append([rng.choice(busy), pcm])
        shape = 'partial'
    elif force == 'probe':
        shape = rng.choice(['nn', 'nn', 'nm', 'NM', 'NM'])
        if shape == 'nn':
            slots = [[None, None]]
        elif shape == 'nm':
            slots = [[None, rng.choice([pcm, 2 * pcm])]]
        else:
            m = rng.choice([pcm, pcm, 2 * pcm])
            c = sim.centres(ids + (rids if rpth else []), m) if sim is not None else []
            slots = [[rng.choice([c[0], c[0], rng.choice(c)]) if c else pick_n(m), m]]
    elif shape == 'nn':
        slots = [[None, None]]
    elif shape == 'nm':
        slots = [[None, pick_m()]]
    elif shape == 'NM':
        m = pick_m()
        slots = [[pick_n(m), m]]
    elif shape == 'Nn':
        slots = [[pick_n(), None]]
    elif shape == 'split':
        parts = rng.choice([2, 2, 3])
        slots = [[None if rng.random() < 0.6 else pick_n(pcm), max(1, pcm * rng.choice([1, 1, 2]))] for _ in range(parts)]
        if rng.random() < 0.4:
            slots.append([None, None])
    elif shape == 'fixedmulti':
        slots = []
        for _ in range(rng.choice([2, 2, 3, 4])):
            m = rng.choice([pcm, pcm, 2 * pcm, required])
            slots.append([pick_n(m), max(1, m)])
    else:
        slots = []
        for _ in range(rng.choice([2, 2, 3, 4, 5])):
            s = rng.choice(['nn', 'nm', 'NM', 'NM', 'Nn', 'Nn'])
            m = pick_m()
            slots.append({'nn': [None, None], 'nm': [None, m], 'NM': [pick_n(m), m], 'Nn': [pick_n(), None]}[s])
    rq = {'id': f'r{idx}', 'slots': [{'N': n, 'M': m} for n, m in slots], 'path_bandwidth': bw, 'bit_rate': bit_rate,
          'spacing': spacing, 'pth': pth, 'rpth': rpth, 'pre_blocked': rng.random() < 0.03 and force is None,
          '_route': [ids, rids, pth, rpth]}
    if sim is not None and not rq['pre_blocked']:
        sim.play(ids + rids, slots, pcm, required)
    if odd == 'zero_rate':
        rq['bit_rate'] = 0
    elif odd == 'empty_path':
        rq['pth'], rq['rpth'] = ['T', 'R', 'T'], []
    elif odd == 'bad_path':
        rq['pth'] = ['T', 'R', n_oms + rng.randint(0, 3), 'R', 'T']
    elif odd == 'no_slots':
        rq['slots'] = []
    return rq


def gen_history(rng, tier, widen):
    f_min, f_max, gb = gen_band(rng, tier, widen)
    n_min, n_max = n_of(f_min), n_of(f_max)
    length = n_max - n_min + 1
    n_oms = rng.choice([1, 2, 2, 3, 4, 4, 5, 6, 8])
    dense = rng.random() < 0.3
    # half of the networks have one band layout on most OMS (otherwise the common free zone of long routes is tiny)
    common = rng.choice(['full', 'full', 'left', 'right', 'gap']) if rng.random() < 0.55 else None
    oms = [{'f_min': f_min, 'f_max': f_max, 'guardband': gb, 'grid': GRID,
            'cells': None if rng.random() < 0.15 else
            gen_cells(rng, length, dense, common if rng.random() < 0.8 else None)} for _ in range(n_oms)]
    odd = None
    if rng.random() < 0.12:
        odd = rng.choice(['bad_len', 'unaligned', 'zero_rate', 'empty_path', 'bad_path', 'policy', 'no_slots'])
    if odd == 'bad_len':
        o = rng.choice(oms)
        o['cells'] = gen_cells(rng, length + rng.choice([-1, 1, 2]))
    if odd == 'unaligned' and n_oms > 1:
        o = rng.choice(oms)
        o['f_min'] += rng.choice([-2, 3, 5]) * GRID
        o['f_max'] += rng.choice([-4, 1, 6]) * GRID
        o['cells'] = gen_cells(rng, n_of(o['f_max']) - n_of(o['f_min']) + 1)
    hist = rng.choice([1, 2, 3, 4, 6, 8, 12]) if tier == 'quick' else rng.choice([2, 4, 8, 12, 20, 40, 60])
    if widen:
        hist = max(hist, 6)
    reqs = []
    odd_at = rng.randrange(hist)
    sim = Sim(oms, n_min, n_max, gb // GRID) if odd not in ('bad_len', 'unaligned') else None
    # runs of consecutive requests over exactly the same OMS set: [anything, blocked-after-tentative-marks, probes...]
    plan = [None] * hist
    if sim is not None and hist >= 3 and rng.random() < 0.6:
        i = rng.randrange(0, hist - 2)
        while i + 2 < hist:
            plan[i + 1] = 'partial'
            k = rng.choice([1, 1, 2, 3])
            for j in range(i + 2, min(hist, i + 2 + k)):
                plan[j] = 'probe'
            i += 2 + k + rng.choice([0, 1, 3])
    route = None
    for i in range(hist):
        o = odd if (i == odd_at and odd in ('zero_rate', 'empty_path', 'bad_path', 'no_slots')) else None
        r = gen_request(rng, i, n_oms, n_min, n_max, gb, widen, o, sim,
                        route if (plan[i] is not None and o is None) else None, plan[i] if o is None else None)
        route = r.pop('_route')
        reqs.append(r)
    # how the history is cut into pth_assign_spectrum calls (planning() passes whole batches)
    batches = []
    if rng.random() < 0.65:
        left = hist
        while left > 0:
            b = min(left, rng.choice([1, 2, 2, 3, 4, 6]))
            batches.append(b)
            left -= b
    else:
        batches = [1] * hist
    pol = 'first_fit' if rng.random() < 0.75 else 'last_fit'
    if odd == 'policy':
        pol = '2partition'
    return {'kind': 'history', 'policy': pol, 'oms': oms, 'requests': reqs, 'batches': batches}


def gen_unit(rng, tier, widen):
    f_min, f_max, gb = gen_band(rng, 'quick', widen)
    n_min, n_max = n_of(f_min), n_of(f_max)
    length = n_max - n_min + 1
    bm = {'f_min': f_min, 'f_max': f_max, 'guardband': gb, 'grid': GRID,
          'cells': None if rng.random() < 0.1 else gen_cells(rng, length, rng.random() < 0.5)}
    op = rng.choice(['select', 'select', 'select_at', 'dsn', 'dsn', 'assign', 'assign', 'order', 'bsum', 'slots'])
    c = {'kind': 'unit', 'op': op, 'bitmap': bm}
    if op in ('select', 'select_at'):
        c['m'] = rng.choice([1, 2, 4, 4, 8, 8, 16, rng.randint(1, 20)])
        c['n'] = None if op == 'select' else rng.randint(n_min - 2, n_max + 2)
        c['policy'] = rng.choice(['first_fit', 'first_fit', 'last_fit', 'last_fit', 'middle'])
    elif op == 'dsn':
        c['n'] = rng.randint(n_min - 1, n_max + 1)
        c['pcm'] = rng.choice([1, 2, 3, 4, 4, 4, 6, 8])
        c['required_m'] = rng.choice([c['pcm'], 2 * c['pcm'], 3 * c['pcm'], 8 * c['pcm'], rng.randint(-2, 40), 0])
    elif op == 'assign':
        c['m'] = rng.choice([1, 2, 4, 4, 8, rng.randint(1, 10), rng.randint(1, 20), 0, -2])
        g4 = gb // GRID
        c['n'] = rng.choice([rng.randint(n_min - 2, n_max + 2), rng.randint(n_min + g4 + c['m'], max(n_min + g4 + c['m'], n_max - g4 - c['m'])),
                             rng.randint(n_min + g4 + c['m'], max(n_min + g4 + c['m'], n_max - g4 - c['m'])), n_min + c['m'], n_min + c['m'] + 1, n_max - c['m'],
                             n_max - c['m'] + 1, n_min + g4, n_min + g4 - 1, n_max - g4, n_max - g4 + 1])
    elif op == 'order':
        k = rng.randint(0, 7)
        c['slots'] = [{'N': rng.choice([None, None, rng.randint(-8, 8)]), 'M': rng.choice([None, None, 0, rng.randint(1, 6)])}
                      for _ in range(k)]
        c['elements'] = [rng.choice([None, rng.randint(-50, 50)]) for _ in range(k)]
    elif op == 'bsum':
        c['a'] = gen_cells(rng, length)
        c['b'] = gen_cells(rng, length + rng.choice([0, 0, 0, -3, 2]))
    else:
        c['bandwidth'] = rng.choice([100, 150, 200, 390, 400, 800, 0]) * 10 ** 9
        c['bit_rate'] = rng.choice([100, 200, 300, 400, 0 if rng.random() < 0.2 else 100]) * 10 ** 9
        c['spacing'] = int(rng.choice([50, 37.5, 75, 43, 12.5, 100, 62.5, 6.25, 33]) * 10 ** 9)
    return c


def gen_flow(rng, tier):
    """a small designed ring/line network and a batch of requests between its transceivers"""
    nroadm = rng.choice([2, 3, 3, 4])
    ring = nroadm > 2 and rng.random() < 0.7
    nreq = rng.choice([2, 3, 5, 8]) if tier == 'quick' else rng.choice([4, 8, 16, 30])
    reqs = []
    for i in range(nreq):
        a, b = rng.sample(range(nroadm), 2)
        spacing = int(rng.choice([50, 50, 75, 37.5, 100]) * 10 ** 9)
        bit_rate = rng.choice([100, 200]) * 10 ** 9
        nb = rng.choice([1, 2, 4, 8, 20, 40])
        pcm = cdiv(spacing, SLOT)
        shape = rng.choice(['nn', 'nn', 'nm', 'NM', 'Nn', 'two'])
        m = pcm * rng.choice([1, nb, nb, 2 * nb])
        n = rng.choice([-200, -100, 0, 40, 100, 200, 300, rng.randint(-280, 470)])
        slots = {'nn': [[None, None]], 'nm': [[None, m]], 'NM': [[n, m]], 'Nn': [[n, None]],
                 'two': [[n, pcm * nb], [None, None]]}[shape]
        reqs.append({'id': f'q{i}', 'src': a, 'dst': b, 'slots': [{'N': x, 'M': y} for x, y in slots],
                     'path_bandwidth': nb * bit_rate, 'bit_rate': bit_rate, 'spacing': spacing,
                     'bidir': rng.random() < 0.6, 'pre_blocked': rng.random() < 0.05})
    return {'kind': 'flow', 'nroadm': nroadm, 'ring': ring, 'spans': [rng.choice([1, 1, 2]) for _ in range(nroadm)],
            'policy': 'first_fit' if rng.random() < 0.8 else 'last_fit', 'requests': reqs}


# ---------------------------------------------------------------------------------------------------------------------
# implementation side
# ---------------------------------------------------------------------------------------------------------------------

_proto = {}


def _protos():
    """real Transceiver / Roadm / Fiber objects to build routes from"""
    if not _proto:
        from gnpy.tools.json_io import network_from_json
        net = network_from_json(nets.linear(), nets.eqpt())
        by = nets.by_uid(net)
        _proto.update({'T': by['trx A'], 'R': by['roadm A'], 'F': by['fiber ab 0']})
    return _proto


def mk_route(tokens):
    p = _protos()
    out = []
    for t in tokens:
        if t in ('T', 'R'):
            out.append(p[t])
        else:
            el = copy.copy(p['F'])
            el.oms_id = t
            out.append(el)
    return out


def mk_bitmap_args(b):
    from gnpy.topology.spectrum_assignment import BitmapValue
    val = {'1': BitmapValue.FREE, '0': BitmapValue.OCCUPIED, 'u': BitmapValue.UNUSABLE}
    return dict(f_min=float(b['f_min']), f_max=float(b['f_max']), guardband=float(b['guardband']), grid=float(b['grid']),
                existing_spectrum=None if b['cells'] is None else [val[c] for c in b['cells']])


def mk_oms(i, b):
    from gnpy.topology.spectrum_assignment import OMS
    o = OMS(oms_id=i, el_id_list=[], el_list=[])
    o.update_spectrum(**mk_bitmap_args(b))
    return o


def mk_request(r):
    from gnpy.topology.request import PathRequest
    rq = PathRequest(request_id=r['id'], source='a', destination='b', trx_type='t', trx_mode='m',
                     spacing=float(r['spacing']), bit_rate=float(r['bit_rate']), path_bandwidth=float(r['path_bandwidth']),
                     effective_freq_slot=[dict(s) for s in r['slots']], nodes_list=[], loose_list=[], bidir=bool(r.get('rpth')))
    if r.get('pre_blocked'):
        rq.blocking_reason = 'NO_PATH'
    return rq


def cells_str(bitmap):
    return ''.join(CH[c.name] for c in bitmap)


def snap_bitmap(b):
    return {'n_min': b.n_min, 'n_max': b.n_max, 'idx_min': b.freq_index_min, 'idx_max': b.freq_index_max,
            'freq_index': list(b.freq_index), 'cells': cells_str(b.bitmap), 'guardband': int(b.guardband)}


def snap_oms(o):
    return {'bm': snap_bitmap(o.spectrum_bitmap), 'nb_channels': o.nb_channels, 'services': list(o.service_list)}


def outcome_of(rq, pre_blocked):
    if pre_blocked:
        return {'kind': 'skipped'} if (rq.N is None and rq.M is None) else {'kind': 'skipped?', 'N': rq.N, 'M': rq.M}
    if hasattr(rq, 'blocking_reason'):
        d = {'kind': 'blocked', 'reason': rq.blocking_reason}
        if rq.N is not None or rq.M is not None:
            d['N'], d['M'] = rq.N, rq.M
        return d
    return {'kind': 'accepted', 'nm': {'N': list(rq.N), 'M': list(rq.M)}}


# ---------------------------------------------------------------------------------------------------------------------
# monitor
# ---------------------------------------------------------------------------------------------------------------------

def aligned_state(case_oms):
    """all maps cover the same range with the same guard band (what build_oms_list/align_grids produce): the domain
    of the property"""
    o0 = case_oms[0]
    return all((o['f_min'], o['f_max'], o['guardband']) == (o0['f_min'], o0['f_max'], o0['guardband']) for o in case_oms)


def plausible_state(case_oms):
    """aligned, and the guard band is a positive multiple of the slot grid (the shipped flow uses 25 GHz = 4 steps)"""
    o0 = case_oms[0]
    return aligned_state(case_oms) and o0['guardband'] > 0 and o0['guardband'] % GRID == 0


def on_grid(case_oms):
    """band edges on the 6.25 GHz grid: only then 'guard band from the band edge' and 'guard band from the first/last
    slot index' (what the test bitmap of compute_n_m uses) are the same set of positions"""
    o0 = case_oms[0]
    return (o0['f_min'] - ANCHOR) % GRID == 0 and (o0['f_max'] - ANCHOR) % GRID == 0


def plausible_request(r, n_oms, policy):
    ids = [t for t in r['pth'] + r['rpth'] if isinstance(t, int)]
    return (bool(ids) and all(0 <= i < n_oms for i in ids) and r['bit_rate'] > 0 and r['spacing'] > 0
            and r['path_bandwidth'] > 0 and bool(r['slots']) and policy in ('first_fit', 'last_fit')
            and all(s['M'] is None or s['M'] >= 1 for s in r['slots']))


def embedding(slots, out):
    """best order-preserving assignment of the returned (N, M) to the requested entries honouring every fixed value:
    returns (exists, max number of M-fixed entries that can have been served)"""
    best = None
    fixed_m = [i for i, s in enumerate(slots) if s['M'] is not None]
    for pos in itertools.combinations(range(len(slots)), len(out)):
        if all((slots[p]['N'] is None or slots[p]['N'] == n) and (slots[p]['M'] is None or slots[p]['M'] == m)
               for p, (n, m) in zip(pos, out)):
            k = sum(1 for p in pos if p in fixed_m)
            best = k if best is None else max(best, k)
    return best is not None, (best or 0), len(fixed_m)


class Ledger:
    """the harness' own record of who owns which slot on which OMS"""

    def __init__(self, snaps):
        self.own = []
        for s in snaps:
            b = s['bm']
            self.own.append({n: ('free' if c == '1' else ('init' if c == '0' else 'unusable'))
                             for n, c in zip(range(b['n_min'], b['n_max'] + 1), b['cells'])})

    def expected_cells(self, k, b):
        return ''.join({'free': '1', 'unusable': 'u'}.get(self.own[k].get(n), '0') for n in range(b['n_min'], b['n_max'] + 1))


def monitor_step(res, led, before, after, r, out, policy, plaus, stats, grid_ok=True, observed=True):
    """the property statements for one call; `before`/`after` are snapshots of all OMS"""
    ids = sorted({t for t in r['pth'] + r['rpth'] if isinstance(t, int)})
    rid = r['id']
    if out['kind'] != 'accepted':
        # a fully fixed single slot that is free on the whole route (state BEFORE this request) and wide enough for the
        # demand must be granted: refusing it means the selection ran on something else than the recorded occupancy
        if plaus and grid_ok and out['kind'] == 'blocked' and len(r['slots']) == 1 and ids \
                and r['slots'][0]['N'] is not None and r['slots'][0]['M'] is not None:
            n, m = r['slots'][0]['N'], r['slots'][0]['M']
            pcm0 = cdiv(r['spacing'], SLOT)
            nb0 = cdiv(r['path_bandwidth'], r['bit_rate'])
            lo_ok = max(before[k]['bm']['idx_min'] for k in ids)
            hi_ok = min(before[k]['bm']['idx_max'] for k in ids)
            nmin0 = before[ids[0]]['bm']['n_min']
            free = all(before[k]['bm']['n_min'] <= x <= before[k]['bm']['n_max']
                       and before[k]['bm']['cells'][x - before[k]['bm']['n_min']] == '1'
                       for k in ids for x in range(n - m, n + m))
            stats['fixed_slot_checked'] += 1
            if m // pcm0 >= nb0 and free and n - m >= lo_ok and n + m - 1 <= hi_ok and n - m > nmin0:
                # liveness is not in the property text ("used as given OR blocked"): correspondence-level finding
                # (theorem fixed_free_granted says the model grants it)
                res.mismatch('liveness: free fixed slot refused', {'request': rid, 'N': n, 'M': m, 'outcome': out},
                             'granted (free on every OMS of the route, wide enough)')
        if observed and [x['bm'] for x in before] != [x['bm'] for x in after]:
            ch = sum(1 for a, b in zip(before, after) if a['bm'] != b['bm'])
            res.fail(f'blocked request changed state: request {rid} ({out}) left {ch} spectrum maps modified', cls='unlisted')
        if out['kind'] in ('blocked', 'skipped') and ('N' in out or 'M' in out):
            res.mismatch('blocked request keeps N/M', out, 'N = M = None')      # not stated by the property
        return
    ns, ms = out['nm']['N'], out['nm']['M']
    if len(ns) != len(ms) or any(not isinstance(x, int) for x in ns + ms) or any(m <= 0 for m in ms):
        res.fail(f'malformed assignment: request {rid} got N={ns} M={ms}', cls='unlisted')
        return
    pcm = cdiv(r['spacing'], SLOT)
    required = pcm * cdiv(r['path_bandwidth'], r['bit_rate'])
    if sum(ms) < required:
        res.fail(f'not enough slots: request {rid} got M={ms}, {required} slots needed', cls='unlisted')
    ranges = [(n - m, n + m - 1) for n, m in zip(ns, ms)]
    for k in ids:
        b = before[k]['bm']
        for (lo, hi), n, m in zip(ranges, ns, ms):
            if lo < b['n_min'] or hi > b['n_max']:
                res.fail(f'outside the slot grid: request {rid} ({n},{m}) on OMS {k} [{b["n_min"]},{b["n_max"]}]',
                         cls='unlisted')
                continue
            if plaus and (lo < b['idx_min'] or hi > b['idx_max']):
                res.fail(f'inside a guard band: request {rid} ({n},{m}) range [{lo},{hi}] on OMS {k}, usable indices '
                         f'[{b["idx_min"]},{b["idx_max"]}]', cls='unlisted')
            for x in range(lo, hi + 1):
                o = led.own[k].get(x)
                if o != 'free':
                    what = 'double booking' if (o == 'init' or (isinstance(o, str) and o.startswith('rq:'))) else \
                        'unusable slot'
                    res.fail(f'{what}: request {rid} ({n},{m}) takes slot {x} of OMS {k} owned by {o}', cls='unlisted')
                    break
    # the ledger takes the assignment on every OMS of the route (both directions)
    for k in ids:
        for lo, hi in ranges:
            for x in range(lo, hi + 1):
                if x in led.own[k]:
                    led.own[k][x] = 'rq:' + rid
    # recorded occupancy = initial + union of accepted, on exactly the OMS of the route
    for k in (range(len(after)) if observed else ()):
        exp = led.expected_cells(k, after[k]['bm'])
        if after[k]['bm']['cells'] != exp:
            d = [i for i, (a, b) in enumerate(zip(after[k]['bm']['cells'], exp)) if a != b]
            res.fail(f'occupancy is not the union of the accepted assignments: OMS {k} after request {rid} differs at '
                     f'{len(d)} cells (first index {after[k]["bm"]["n_min"] + d[0] if d else "len"}); OMS in route: {k in ids}',
                     cls='unlisted')
    # user-fixed values, unserved fixed entries, first fit entry by entry
    judge_entries(res, before, r, list(zip(ns, ms)), ids, policy, plaus and grid_ok, stats)


def processing_order(slots):
    """the documented order in which the entries of a request are served ("assign biggest m first"): fixed M first,
    larger M first, then N ascending with an undefined N last; entries without M after them, by N; ties keep the
    request order (own stable sort)"""
    inf = float('inf')

    def key(i):
        sl = slots[i]
        n = inf if sl['N'] is None else sl['N']
        return (0, -sl['M'], n) if sl['M'] is not None else (1, 0, n)
    return sorted(range(len(slots)), key=key)


def judge_entries(res, before, r, out, ids, policy, placement_ok, stats):
    """out = returned (N, M) pairs in request order.  Over every order-preserving assignment of the returned pairs to
    entries that keeps the user-fixed values:
      * fixed value changed  - no such assignment exists;
      * fixed value dropped  - a fully fixed (N, M) entry is unserved although the entries served BEFORE it (documented
        processing order) do not yet meet the demand (an entry left unused once the demand is met is intended,
        tests/test_spectrum_assignment.py::test_n_m_requests);
      * first fit            - every served entry with a free N sits at the lowest position that is feasible in the
        state left by the entries served before it.
    The request passes when one assignment passes all three."""
    slots = r['slots']
    rid = r['id']
    pcm = cdiv(r['spacing'], SLOT)
    required = pcm * cdiv(r['path_bandwidth'], r['bit_rate'])
    order = processing_order(slots)
    rank = {e: k for k, e in enumerate(order)}
    embeddings = [pos for pos in itertools.combinations(range(len(slots)), len(out))
                  if all((slots[p]['N'] is None or slots[p]['N'] == n) and (slots[p]['M'] is None or slots[p]['M'] == m)
                         for p, (n, m) in zip(pos, out))]
    if not embeddings:
        res.fail(f'user-fixed value changed: request {rid} asked {slots} got N={[n for n, _ in out]} M={[m for _, m in out]}',
                 cls='unlisted')
        return
    if len(out) < len(slots):
        stats['accepted_with_entries_unused'] += 1
    lo_ok = max(before[k]['bm']['idx_min'] for k in ids) if ids else 0
    hi_ok = min(before[k]['bm']['idx_max'] for k in ids) if ids else -1
    nmin = before[ids[0]]['bm']['n_min'] if ids else 0
    free0 = None
    if placement_ok and ids:
        free0 = set.intersection(*[{x for x, ch in zip(range(before[k]['bm']['n_min'], before[k]['bm']['n_max'] + 1),
                                                       before[k]['bm']['cells']) if ch == '1'} for k in ids])
    verdicts = []
    for pos in embeddings:
        served = dict(zip(pos, out))
        problem = None
        # ---- dropped fixed (N, M)
        for e in range(len(slots)):
            if e not in served and slots[e]['N'] is not None and slots[e]['M'] is not None:
                met = sum(m for p, (_, m) in served.items() if rank[p] < rank[e])
                if met < required:
                    problem = ('fixed value dropped', f'entry {slots[e]} is unserved although the entries served before it '
                               f'give only {met} of the {required} slots needed')
                    break
        # ---- first fit, entry by entry in processing order
        if problem is None and free0 is not None and policy == 'first_fit':
            free = set(free0)
            for e in sorted(served, key=lambda p: rank[p]):
                n, m = served[e]
                if slots[e]['N'] is None:
                    stats['first_fit_checked'] += 1
                    lower = next((c for c in range(lo_ok + m, n)
                                  if c - m >= lo_ok and c + m - 1 <= hi_ok and c - m > nmin
                                  and all(x in free for x in range(c - m, c + m))), None)
                    if lower is not None:
                        problem = ('first_fit not respected', f'entry {slots[e]} placed at N={n} M={m} although N={lower} '
                                   f'is feasible after the entries served before it')
                        break
                free -= set(range(n - m, n + m))
        verdicts.append(problem)
        if problem is None:
            break
    if all(v is not None for v in verdicts):
        what, detail = verdicts[0]
        res.fail(f'{what}: request {rid} asked {slots}, got N={[n for n, _ in out]} M={[m for _, m in out]}: {detail}',
                 cls='unlisted')
    # last fit is not part of the property: correspondence-level only (theorem last_fit_highest)
    if free0 is not None and policy == 'last_fit' and len(slots) == 1 and slots[0]['N'] is None and len(out) == 1:
        n, m = out[0]
        higher = next((c for c in range(hi_ok, n, -1) if c - m >= lo_ok and c + m - 1 <= hi_ok and c - m > nmin
                       and all(x in free0 for x in range(c - m, c + m))), None)
        if higher is not None:
            res.mismatch('last_fit: a higher position is feasible', {'request': rid, 'N': n, 'M': m}, higher)


# ---------------------------------------------------------------------------------------------------------------------
# run
# ---------------------------------------------------------------------------------------------------------------------

def run(case, drv):
    return {'history': run_history, 'unit': run_unit, 'flow': run_flow}[case['kind']](case, drv)


def model_requests(case, path_oms_lists):
    return [{'id': r['id'], 'pre_blocked': bool(r.get('pre_blocked')), 'slots': r['slots'],
             'path_bandwidth': r['path_bandwidth'], 'bit_rate': r['bit_rate'], 'spacing': r['spacing'], 'path_oms': p}
            for r, p in zip(case['requests'], path_oms_lists)]


def run_history(case, drv):
    from gnpy.topology.spectrum_assignment import pth_assign_spectrum, build_path_oms_id_list
    res = Result()
    stats = res.stats
    stats['history'] += 1
    policy = case['policy']
    # ---- implementation: initial OMS list
    try:
        oms_list = [mk_oms(i, b) for i, b in enumerate(case['oms'])]
        init_err = None
    except Exception as e:
        init_err = kind_of(e)
    routes = [(mk_route(r['pth']), mk_route(r['rpth'])) for r in case['requests']]
    path_oms = []
    for (p, rp), r in zip(routes, case['requests']):
        lst = build_path_oms_id_list(p + rp)
        want = {t for t in r['pth'] + r['rpth'] if isinstance(t, int)}
        if set(lst) != want:
            res.fail(f'route OMS list: build_path_oms_id_list gives {lst}, the line elements carry {sorted(want)}')
        elif len(lst) != len(want):
            res.mismatch('build_path_oms_id_list.duplicates', lst, sorted(want))
        path_oms.append(lst)
    ans = drv.ask('c14.history', policy=policy, oms=case['oms'], requests=model_requests(case, path_oms))
    if init_err is not None or 'init_error' in ans:
        res.cmp_exact('OMS.update_spectrum.error', init_err, ans.get('init_error'))
        stats['init_error'] += 1
        res.nontrivial = False
        return res
    before = [snap_oms(o) for o in oms_list]
    res.cmp_exact('OMS.update_spectrum', before, ans['init'])
    led = Ledger(before)
    plaus_state = plausible_state(case['oms'])
    aligned = aligned_state(case['oms'])
    grid_ok = on_grid(case['oms'])
    accepted = blocked = 0
    shared = False
    used = set()
    nreq = len(case['requests'])
    batches = list(case.get('batches') or [1] * nreq)
    if sum(batches) != nreq:
        batches = [1] * nreq
    pos = 0
    stop = False
    for bsize in batches:
        if stop:
            break
        idx = list(range(pos, pos + bsize))
        pos += bsize
        rqs = [mk_request(case['requests'][i]) for i in idx]
        steps = [ans['steps'][i] if i < len(ans['steps']) else {'error': 'model-stopped'} for i in idx]
        try:
            with time_limit(5 * bsize):
                pth_assign_spectrum([routes[i][0] for i in idx], rqs, oms_list, [routes[i][1] for i in idx], policy=policy)
            err = None
        except Exception as e:
            err = kind_of(e)
        after = [snap_oms(o) for o in oms_list]
        stats[f'batch_size_{min(bsize, 6)}'] += 1
        model_err = next((st['error'] for st in steps if 'error' in st), None)
        if err is not None or model_err is not None:
            res.cmp_exact('pth_assign_spectrum.error', err, model_err, request=idx[0], batch=bsize)
            if err is not None:
                stats[f'exception_{err}'] += 1
                if plaus_state and all(plausible_request(case['requests'][i], len(oms_list), policy) for i in idx):
                    res.fail(f'crash instead of accept/block: batch {[case["requests"][i]["id"] for i in idx]} raises {err} '
                             f'out of pth_assign_spectrum', cls='unlisted')
                    if bsize == 1 and [x['bm'] for x in before] != [x['bm'] for x in after]:
                        res.fail(f'crash left partial state: request {case["requests"][idx[0]]["id"]} raised {err}',
                                 cls='unlisted')
            break
        outs = [outcome_of(rq, case['requests'][i].get('pre_blocked')) for rq, i in zip(rqs, idx)]
        res.cmp_exact('pth_assign_spectrum.outcomes', outs, [st['outcome'] for st in steps], request=idx[0], batch=bsize)
        res.cmp_exact('pth_assign_spectrum.oms_state', after, steps[-1]['oms'], request=idx[-1], batch=bsize)
        for i, out in zip(idx, outs):
            r = case['requests'][i]
            plaus = plaus_state and plausible_request(r, len(oms_list), policy)
            if aligned:
                if bsize == 1:
                    monitor_step(res, led, before, after, r, out, policy, plaus, stats, grid_ok)
                else:
                    # inside a batch the state before request i is not observable: rebuild it from the state at the
                    # start of the call and the grants of the requests of this call accepted so far (own ledger)
                    virt = [dict(sn, bm=dict(sn['bm'], cells=led.expected_cells(k, sn['bm']))) for k, sn in enumerate(before)]
                    monitor_step(res, led, virt, virt, r, out, policy, plaus, stats, grid_ok, observed=False)
            stats[f'outcome_{out["kind"]}' + (f'_{out["reason"]}' if out['kind'] == 'blocked' else '')] += 1
            ids = {t for t in r['pth'] + r['rpth'] if isinstance(t, int)}
            if out['kind'] == 'accepted':
                accepted += 1
                if ids & used:
                    shared = True
                used |= ids
                stats['slots_granted'] += len(out['nm']['N'])
                if len(out['nm']['N']) > 1:
                    stats['accepted_multi_slot'] += 1
            elif out['kind'] == 'blocked':
                blocked += 1
                if len(ids) == 1 and len(r['slots']) > 1:
                    stats['blocked_multislot_on_single_oms_route'] += 1
                if i + 1 < nreq and i + 1 in idx and \
                        {t for t in case['requests'][i + 1]['pth'] + case['requests'][i + 1]['rpth'] if isinstance(t, int)} == ids:
                    stats['blocked_then_same_route_in_one_call'] += 1
            for sl in r['slots']:
                stats['entry_' + ('N' if sl['N'] is not None else 'n') + ('M' if sl['M'] is not None else 'm')] += 1
            stats[f'route_oms_{min(len(ids), 6)}'] += 1
            stats['bidir'] += int(bool(r['rpth']))
        if aligned and bsize > 1:
            # end of the call: what the OMS record must be the initial occupancy + the accepted grants, nothing else
            for k in range(len(after)):
                exp = led.expected_cells(k, after[k]['bm'])
                if after[k]['bm']['cells'] != exp:
                    d = [j for j, (a, b) in enumerate(zip(after[k]['bm']['cells'], exp)) if a != b]
                    res.fail(f'occupancy is not the union of the accepted assignments: OMS {k} after the call '
                             f'{[case["requests"][i]["id"] for i in idx]} differs at {len(d)} cells', cls='unlisted')
        before = after
    stats[f'policy_{policy}'] += 1
    stats['plausible_state'] += int(plaus_state)
    stats['unaligned_state'] += int(not aligned)
    res.nontrivial = accepted >= 1 and (shared or blocked >= 1)
    return res


def run_unit(case, drv):
    from gnpy.topology.spectrum_assignment import (spectrum_selection, determine_slot_numbers, bitmap_sum, BitmapValue)
    from gnpy.core.utils import order_slots, restore_order
    from gnpy.topology.request import compute_spectrum_slot_vs_bandwidth
    res = Result()
    op = case['op']
    res.stats[f'unit_{op}'] += 1
    res.nontrivial = True

    def impl(f):
        try:
            with time_limit(20):
                return {'ok': f()}
        except Exception as e:
            return {'error': kind_of(e)}

    if op in ('select', 'select_at', 'dsn', 'assign'):
        try:
            o = mk_oms(0, case['bitmap'])
        except Exception as e:
            res.cmp_exact('unit.init', kind_of(e), drv.ask('c14.assign', bitmap=case['bitmap'], n=0, m=1).get('init_error'))
            return res
    if op in ('select', 'select_at'):
        got = impl(lambda: spectrum_selection(o, case['m'], case['n'], policy=case['policy'])[0])
        model = drv.ask('c14.select', bitmap=case['bitmap'], m=case['m'], n=case['n'], policy=case['policy'])
        res.cmp_exact('spectrum_selection', got, model)
        res.stats['select_' + ('error' if 'error' in got else ('none' if got['ok'] is None else 'found'))] += 1
        # monitor: the returned position is free and inside the guard bands; with first fit no lower candidate
        if 'ok' in got and got['ok'] is not None and case['m'] > 0:
            b = snap_bitmap(o.spectrum_bitmap)
            n, m = got['ok'], case['m']
            cells = {x: c for x, c in zip(range(b['n_min'], b['n_max'] + 1), b['cells'])}

            def feas(c):
                return c - m >= b['idx_min'] and c + m - 1 <= b['idx_max'] and all(cells.get(x) == '1' for x in range(c - m, c + m))
            if not feas(n):
                res.fail(f'selected spectrum not free/inside: spectrum_selection gave N={n} for M={m}')
            if case['n'] is None and case['policy'] == 'first_fit' and any(feas(c) for c in range(b['n_min'], n)):
                res.fail(f'first_fit not respected: spectrum_selection gave N={n} for M={m}, a lower position is free')
            if case['n'] is None and case['policy'] == 'last_fit' and any(feas(c) for c in range(n + 1, b['n_max'] + 1)):
                res.mismatch('last_fit: a higher position is free', n, 'highest feasible')    # not in the property
    elif op == 'dsn':
        model = drv.ask('c14.dsn', bitmap=case['bitmap'], n=case['n'], required_m=case['required_m'], pcm=case['pcm'])
        if model.get('error') == 'hang':
            res.stats['dsn_model_hang_impl_not_run'] += 1
            return res
        got = impl(lambda: determine_slot_numbers(o, case['n'], case['required_m'], case['pcm']))
        res.cmp_exact('determine_slot_numbers', got, model)
        res.stats['dsn_' + ('error' if 'error' in got else ('zero' if got['ok'] == 0 else 'positive'))] += 1
    elif op == 'assign':
        def f():
            o.assign_spectrum(case['n'], case['m'])
            return snap_bitmap(o.spectrum_bitmap)
        b0 = snap_bitmap(o.spectrum_bitmap)
        got = impl(f)
        model = drv.ask('c14.assign', bitmap=case['bitmap'], n=case['n'], m=case['m'])
        res.cmp_exact('OMS.assign_spectrum', got, model)
        res.stats['assign_' + ('error' if 'error' in got else 'ok')] += 1
        if 'ok' in got:
            n, m = case['n'], case['m']
            exp = ''.join('0' if n - m <= x <= n + m - 1 else c for x, c in zip(range(b0['n_min'], b0['n_max'] + 1), b0['cells']))
            if got['ok']['cells'] != exp or not (b0['n_min'] <= n - m and n + m - 1 <= b0['n_max']):
                res.fail(f'assign_spectrum marks other cells than [N-M, N+M-1]: N={n} M={m}')
        elif snap_bitmap(o.spectrum_bitmap) != b0:
            res.fail('assign_spectrum changed the bitmap although it raised')
    elif op == 'order':
        slots = [dict(s) for s in case['slots']]
        got = impl(lambda: order_slots(slots))
        model = drv.ask('c14.order', slots=case['slots'], elements=case['elements'])
        if 'ok' in got:
            res.cmp_exact('order_slots', [list(x) for x in got['ok']], [model['N'], model['M'], model['order']])
            res.cmp_exact('restore_order', restore_order(case['elements'], got['ok'][2]), model['restored'])
            if sorted(got['ok'][2]) != list(range(len(slots))):
                res.fail('order_slots: the order is not a permutation')
            if slots != case['slots']:
                res.mismatch('order_slots modified its argument', slots, case['slots'])
        else:
            res.mismatch('order_slots', got, model)
    elif op == 'bsum':
        val = {'1': BitmapValue.FREE, '0': BitmapValue.OCCUPIED, 'u': BitmapValue.UNUSABLE}
        got = cells_str(bitmap_sum([val[c] for c in case['a']], [val[c] for c in case['b']]))
        res.cmp_exact('bitmap_sum', got, drv.ask('c14.bsum', a=case['a'], b=case['b']))
        exp = ''.join('1' if (x == '1' and y == '1') else '0' for x, y in zip(case['a'], case['b']))
        if got != exp:
            res.fail('bitmap_sum: a slot is free in the sum without being free in both maps (or the converse)')
    else:
        got = impl(lambda: list(compute_spectrum_slot_vs_bandwidth(float(case['bandwidth']), float(case['spacing']),
                                                                   float(case['bit_rate']))))
        res.cmp_exact('compute_spectrum_slot_vs_bandwidth', got,
                      drv.ask('c14.slots', bandwidth=case['bandwidth'], spacing=case['spacing'], bit_rate=case['bit_rate']))
        if 'ok' in got:
            w = Fraction(case['bandwidth'], case['bit_rate'])
            nb = -((-w.numerator) // w.denominator)
            if got['ok'] != [nb, cdiv(case['spacing'], SLOT) * nb]:
                res.fail(f'slots for bandwidth: {got["ok"]} for {case}')
    return res


def flow_topology(case):
    k = case['nroadm']
    els, cxs = [], []
    for i in range(k):
        els += [nets.trx(f'T{i}'), nets.roadm(f'R{i}')]
        cxs += [nets.cx(f'T{i}', f'R{i}'), nets.cx(f'R{i}', f'T{i}')]
    links = [(i, i + 1) for i in range(k - 1)] + ([(k - 1, 0)] if case['ring'] else [])
    for (a, b), ns in zip(links, case['spans']):
        for s, t in ((a, b), (b, a)):
            nets.chain(els, cxs, f'R{s}', f'R{t}', [nets.fiber(f'f R{s}-R{t} {j}', 60.0) for j in range(ns)])
    return {'elements': els, 'connections': cxs}


def run_flow(case, drv):
    """the shipped glue: designed network -> build_oms_list -> routes -> reversed routes -> ONE pth_assign_spectrum call"""
    import networkx as nx
    from gnpy.tools.json_io import network_from_json
    from gnpy.tools.worker_utils import designed_network
    from gnpy.topology.request import find_reversed_path
    from gnpy.core.elements import Roadm, Transceiver
    from gnpy.topology.spectrum_assignment import build_oms_list, pth_assign_spectrum, build_path_oms_id_list
    res = Result()
    res.stats['flow'] += 1
    eq = nets.eqpt()
    net = network_from_json(flow_topology(case), eq)
    net, _, _ = designed_network(eq, net)
    oms_list = build_oms_list(net, eq)
    by = nets.by_uid(net)
    pths, rpths, rqs, toks = [], [], [], []
    for r in case['requests']:
        p = nx.dijkstra_path(net, by[f'T{r["src"]}'], by[f'T{r["dst"]}'], weight=lambda u, v, d: 1)
        rp = find_reversed_path(p) if r['bidir'] else []
        pths.append(p)
        rpths.append(rp)
        rr = dict(r, pth=None, rpth=rp)
        rqs.append(mk_request(rr))
        toks.append((['T' if isinstance(e, Transceiver) else ('R' if isinstance(e, Roadm) else e.oms_id) for e in p],
                     ['T' if isinstance(e, Transceiver) else ('R' if isinstance(e, Roadm) else e.oms_id) for e in rp]))
    before = [snap_oms(o) for o in oms_list]
    b0 = oms_list[0].spectrum_bitmap
    f_min = ANCHOR + b0.n_min * GRID
    f_max = ANCHOR + b0.n_max * GRID
    model_oms = [{'f_min': f_min, 'f_max': f_max, 'guardband': int(b0.guardband), 'grid': GRID, 'cells': s['bm']['cells']}
                 for s in before]
    path_oms = [build_path_oms_id_list(p + rp) for p, rp in zip(pths, rpths)]
    mreqs = [{'id': r['id'], 'pre_blocked': bool(r['pre_blocked']), 'slots': r['slots'], 'path_bandwidth': r['path_bandwidth'],
              'bit_rate': r['bit_rate'], 'spacing': r['spacing'], 'path_oms': po} for r, po in zip(case['requests'], path_oms)]
    ans = drv.ask('c14.history', policy=case['policy'], oms=model_oms, requests=mreqs)
    res.cmp_exact('flow.initial_oms', before, ans.get('init'))
    try:
        with time_limit(60):
            pth_assign_spectrum(pths, rqs, oms_list, rpths, policy=case['policy'])
        err = None
    except Exception as e:
        err = kind_of(e)
    after = [snap_oms(o) for o in oms_list]
    steps = ans.get('steps', [])
    if err is not None:
        res.cmp_exact('flow.error', err, steps[-1].get('error') if steps else None)
        res.stats[f'flow_exception_{err}'] += 1
        # every request of the flow stream is well formed (M >= 1, real routes): neither accepted nor blocked
        res.fail(f'crash instead of accept/block: the batch through the shipped glue raises {err} out of '
                 f'pth_assign_spectrum', cls='unlisted')
        return res
    outs = [outcome_of(rq, r['pre_blocked']) for rq, r in zip(rqs, case['requests'])]
    res.cmp_exact('flow.outcomes', outs, [s.get('outcome', s) for s in steps])
    res.cmp_exact('flow.final_oms', after, steps[-1].get('oms') if steps else before)
    # monitor on the batch: replay the ledger in request order with the reported assignments
    led = Ledger(before)
    acc = 0
    for r, out, (tp, trp) in zip(case['requests'], outs, toks):
        if out['kind'] != 'accepted':
            continue
        acc += 1
        ids = sorted({t for t in tp + trp if isinstance(t, int)})
        for n, m in zip(out['nm']['N'], out['nm']['M']):
            for k in ids:
                b = before[k]['bm']
                if n - m < b['idx_min'] or n + m - 1 > b['idx_max']:
                    res.fail(f'inside a guard band: flow request {r["id"]} ({n},{m}) on OMS {k}')
                for x in range(n - m, n + m):
                    if led.own[k].get(x) != 'free':
                        res.fail(f'double booking: flow request {r["id"]} ({n},{m}) takes slot {x} of OMS {k} owned by '
                                 f'{led.own[k].get(x)}')
                        break
                for x in range(n - m, n + m):
                    if x in led.own[k]:
                        led.own[k][x] = 'rq:' + r['id']
        pcm = cdiv(r['spacing'], SLOT)
        if sum(out['nm']['M']) < pcm * cdiv(r['path_bandwidth'], r['bit_rate']):
            res.fail(f'not enough slots: flow request {r["id"]} got {out}')
        ok, served, total = embedding(r['slots'], list(zip(out['nm']['N'], out['nm']['M'])))
        if not ok:
            res.fail(f'user-fixed value changed: flow request {r["id"]} asked {r["slots"]} got {out}')
    for k in range(len(after)):
        if after[k]['bm']['cells'] != led.expected_cells(k, after[k]['bm']):
            res.fail(f'occupancy is not the union of the accepted assignments: flow OMS {k}')
    res.stats['flow_requests'] += len(outs)
    res.stats['flow_accepted'] += acc
    res.stats['flow_oms'] += len(oms_list)
    res.nontrivial = acc >= 2
    return res


# ---------------------------------------------------------------------------------------------------------------------
# shrinking
# ---------------------------------------------------------------------------------------------------------------------

def shrink_candidates(case):
    if case['kind'] not in ('history', 'flow'):
        return
    n = len(case['requests'])
    for i in range(n - 1, -1, -1):
        if n > 1:
            c = copy.deepcopy(case)
            del c['requests'][i]
            yield c
    for i, r in enumerate(case['requests']):
        if len(r['slots']) > 1:
            for j in range(len(r['slots'])):
                c = copy.deepcopy(case)
                del c['requests'][i]['slots'][j]
                yield c
        if case['kind'] == 'history':
            if r['rpth']:
                c = copy.deepcopy(case)
                c['requests'][i]['rpth'] = []
                yield c
            ids = [t for t in r['pth'] if isinstance(t, int)]
            if len(set(ids)) > 1:
                c = copy.deepcopy(case)
                c['requests'][i]['pth'] = ['T', 'R', ids[0], 'R', 'T']
                yield c
    if case['kind'] == 'history':
        for k, o in enumerate(case['oms']):
            if o['cells'] is not None and set(o['cells']) != {'1'}:
                c = copy.deepcopy(case)
                c['oms'][k]['cells'] = '1' * len(o['cells'])
                yield c


# ---------------------------------------------------------------------------------------------------------------------
# thorough tier: complete enumeration of a small scope
# ---------------------------------------------------------------------------------------------------------------------

def exhaustive():
    """ALL histories of length <= 2 over an alphabet of 60 requests, and all histories of length 3 over a sub-alphabet of
    18, on 2 OMS x 17 slots (n = -8..8, guard band one grid step), from two initial states; both policies for length 1;
    same-route pairs additionally as one pth_assign_spectrum call and with last_fit, half of the triples as one call."""
    f_min, f_max, gb = ANCHOR - 8 * GRID, ANCHOR + 8 * GRID, GRID

    def oms(cells0, cells1):
        return [{'f_min': f_min, 'f_max': f_max, 'guardband': gb, 'grid': GRID, 'cells': c} for c in (cells0, cells1)]
    states = [oms(None, None), oms('1' * 17, 'uuu' + '1' * 6 + '00' + '1' * 6)]
    paths = [(['T', 'R', 0, 'R', 'T'], []), (['T', 'R', 1, 'R', 'T'], []), (['T', 'R', 0, 'R', 'T'], ['T', 'R', 1, 'R', 'T'])]
    shapes = [[(None, None)], [(None, 2)], [(-5, 2)], [(0, 2)], [(3, None)], [(None, 2), (None, 2)],
              [(-4, None)], [(4, 2)], [(-5, 2), (5, 2)], [(None, 4)]]
    alphabet = []
    for pi, (p, rp) in enumerate(paths):
        for si, sh in enumerate(shapes):
            for bw in (100, 200):
                alphabet.append((pi, si, bw))
    small = [(pi, si, 100) for pi in range(3) for si in range(6)]

    def mk(hist, st, pol, one_call=False):
        reqs = []
        for i, (pi, si, bw) in enumerate(hist):
            p, rp = paths[pi]
            reqs.append({'id': f'x{i}', 'slots': [{'N': n, 'M': m} for n, m in shapes[si]], 'path_bandwidth': bw * 10 ** 9,
                         'bit_rate': 100 * 10 ** 9, 'spacing': 25 * 10 ** 9, 'pth': p, 'rpth': rp, 'pre_blocked': False})
        return {'kind': 'history', 'policy': pol, 'oms': copy.deepcopy(st), 'requests': reqs,
                'batches': [len(reqs)] if one_call else [1] * len(reqs)}
    for st in states:
        for a in alphabet:
            yield mk([a], st, 'first_fit')
            yield mk([a], st, 'last_fit')
        for a in alphabet:
            for b in alphabet:
                yield mk([a, b], st, 'first_fit')
                if a[0] == b[0]:                       # same route: also as ONE pth_assign_spectrum call, and last fit
                    yield mk([a, b], st, 'first_fit', one_call=True)
                    yield mk([a, b], st, 'last_fit', one_call=(a[1] + b[1]) % 2 == 0)
        for a in small:
            for b in small:
                for c in small:
                    yield mk([a, b, c], st, 'first_fit', one_call=(a[0] + b[0] + c[0]) % 2 == 0)
