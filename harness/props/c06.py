"""C06 — a ROADM never amplifies and equalises every channel to its egress target.

Correspondence: Roadm.__call__ (real object, real SpectralInformation) vs Gnpy.Roadm.chanOut/degreeTarget/refOut;
RoadmParams / json_io.Roadm / merge_equalization accept-reject decisions vs paramsAccepted/eqptAccepted/
mergeEqualization; set_roadm_per_degree_targets vs populate.
Monitor: out = min(target+offset, in-maxloss) computed independently from the case data; out <= in.
"""
import copy
import math
from collections import Counter as Counter_

import numpy as np

from common.util import Result, f2b, b2f, fl, err_kind
from common import nets

ID = 'C06'
N = {'quick': 3000, 'thorough': 120000}
LEAN_MODULES = ['GnpyProofs.Props.C06']
THEOREMS = [f'Gnpy.Roadm.{t}' for t in (
    'absMinOrZero_eq_max', 'chanOutDbm_eq_min', 'chanOut_dbm', 'deltaPower_nonneg', 'never_amplifies',
    'never_amplifies_dbm', 'below_target_untouched', 'above_target_equalised', 'refOut_eq_min', 'refLoss_ge',
    'degree_pch_wins', 'degree_psd_wins', 'degree_psw_wins', 'degree_default', 'psd2powerdbm_lin',
    'paramsAccepted_iff', 'two_policies_rejected', 'merge_rejects_two', 'merge_spec', 'eqpt_exactly_one',
    'nodeTarget_single', 'populate_keeps_user', 'populate_default', 'select_user_wins', 'select_unknown_rejected',
    'select_mismatch_rejected', 'select_default_first', 'firstOfType_spec', 'maxloss_default_zero',
    'lookupBands_sound')]
RULE = ('cases are generated from one PRNG: (a) ROADM crossings: random node policy (pch/psd/psw), per-degree overrides '
        'of any kind on the used or another degree, 1-2 impairment frequency ranges with max loss, 1-24 channels with '
        'mixed baud/slot/offset and input powers on both sides of the target; (b) loader decisions for 0-3 policies in '
        'element / equipment / RoadmParams; (c) per-degree population at design incl. value 0. A case is non-trivial '
        'when (a) has channels both above and below target or a degree override, (b) always, (c) a degree is populated; '
        'distinct = distinct canonical JSON of the case')
MODEL_SCOPE = ('modelled: Roadm.propagate power computation, get_per_degree_power/get_per_degree_ref_power/'
               'get_roadm_target_power, calculate_absolute_min_or_zero, psd2powerdbm, ref_pch_out_dbm/ref_effective_loss, '
               'RoadmParams policy count, json_io.Roadm policy count, merge_equalization, set_roadm_per_degree_targets. '
               'not modelled (taken from the implementation as input): get_impairment frequency-range lookup, PMD/PDL '
               'update (C05)')

POL = ['pch', 'psd', 'psw']
KEY = {'pch': 'target_pch_out_db', 'psd': 'target_psd_out_mWperGHz', 'psw': 'target_out_mWperSlotWidth'}
PKEY = {'pch': 'per_degree_pch_out_db', 'psd': 'per_degree_psd_out_mWperGHz', 'psw': 'per_degree_psd_out_mWperSlotWidth'}


def _val(rng, kind, zero_ok=True):
    if kind == 'pch':
        v = rng.choice([-20.0, -25.0, -17.5, -12.0, 0.0, -30.25, round(rng.uniform(-30, 2), 2)])
        return v
    return rng.choice([3.125e-4, 2.0e-4, 1.0e-3, round(rng.uniform(5e-5, 3e-3), 7)])


def gen(rng, tier, widen=False):
    k = rng.random()
    if k < 0.55:
        return gen_crossing(rng, tier, widen)
    if k < 0.7:
        return gen_loader(rng)
    if k < 0.85:
        return gen_populate(rng)
    return gen_path(rng)


def gen_path(rng):
    """a whole designed network: star of 2-3 degrees around R0 (optionally the library ROADM with add/drop/express
    max-loss profiles), per-degree overrides on R0, a mixed-rate spectrum launched T_src -> T_dst through
    request.propagate: every ROADM crossing of the path is judged (add at the first, express/drop later)."""
    k = rng.choice([2, 3])
    kind = rng.choice(POL)
    node = {kind: _val(rng, kind)}
    per = {p: {} for p in POL}
    for i in range(1, k + 1):
        if rng.random() < 0.5:
            pk = rng.choice(POL)
            # after auto-design the egress degree of R0 towards Ri is named by the inserted booster
            per[pk][f'Edfa_booster_R0_to_f R0-R{i}'] = _val(rng, pk)
    ends = rng.sample(range(0, k + 1), 2)
    rtype = rng.choice([None, 'detailed_impairments', 'multi_profile', 'multi_profile'])
    pdi = []
    if rtype == 'multi_profile':
        # user selection of a non-default impairment profile on some internal connections of R0
        for i in range(1, k + 1):
            for j in range(1, k + 1):
                if i != j and rng.random() < 0.5:
                    pdi.append([f'Edfa_preamp_R0_from_f R{i}-R0', f'Edfa_booster_R0_to_f R0-R{j}', rng.choice([0, 3])])
            if rng.random() < 0.4:
                pdi.append(['T0', f'Edfa_booster_R0_to_f R0-R{i}', rng.choice([1, 4])])
            if rng.random() < 0.4:
                pdi.append([f'Edfa_preamp_R0_from_f R{i}-R0', 'T0', rng.choice([2, 5])])
    nch = rng.choice([1, 2, 4, 9])
    bauds = [rng.choice([32e9, 64e9, 42e9]) for _ in range(nch)]
    slots = [math.ceil(b / 12.5e9 + rng.choice([0, 1, 2])) * 12.5e9 for b in bauds]
    f = 191.6e12
    freqs = []
    for sl in slots:
        f += sl / 2 + rng.choice([0, 0, 12.5e9, 50e9])
        freqs.append(f)
        f += sl / 2
    return {'kind': 'path', 'k': k, 'node': node, 'per': per, 'src': f'T{ends[0]}', 'dst': f'T{ends[1]}',
            'detailed': rtype == 'detailed_impairments', 'rtype': rtype, 'pdi': pdi, 'freq': freqs, 'baud': bauds, 'slot': slots,
            'offset': [rng.choice([0.0, 0.0, 1.5, -2.0, 3.0]) for _ in range(nch)],
            'tx_dbm': [rng.choice([0.0, -5.0, 3.0, -25.0, -40.0]) for _ in range(nch)],
            'span_km': rng.choice([20.0, 60.0, 90.0])}


def gen_crossing(rng, tier, widen):
    nch = rng.choice([1, 2, 3, 5, 8, 24 if tier == 'quick' else 96])
    kind = rng.choice(POL)
    node = {kind: _val(rng, kind)}
    per = {p: {} for p in POL}
    degrees = ['east', 'west', 'north']
    degree = rng.choice(degrees)
    for d in degrees:
        if rng.random() < 0.4:
            pk = rng.choice(POL)
            per[pk][d] = _val(rng, pk)
    if rng.random() < 0.08:
        # the used degree carries settings of two kinds: exactly one of them must be in force (which one is a convention
        # left to the correspondence)
        for pk in rng.sample(POL, 2):
            per[pk][degree] = _val(rng, pk)
    bauds = [rng.choice([32e9, 64e9, 42e9, 56e9, 90e9]) for _ in range(nch)]
    slots = [math.ceil(b / 12.5e9 + rng.choice([0, 0, 1, 2])) * 12.5e9 for b in bauds]
    f = 191.4e12
    freqs = []
    for s in slots:
        f += s / 2 + rng.choice([0, 0, 12.5e9, 50e9])
        freqs.append(f)
        f += s / 2
    split = rng.random() < 0.4
    mid = freqs[len(freqs) // 2] + 1e9
    ml = [rng.choice([0.0, 0.0, 6.0, 16.5, round(rng.uniform(0, 20), 2)]) for _ in range(2)]
    if split:
        ranges = [[190e12, mid, ml[0]], [mid, freqs[-1] + 1e12, ml[1]]]
    else:
        ranges = [[190e12, freqs[-1] + 1e12, ml[0]]]
    use_imp = rng.random() < 0.6
    # input powers around the target so that both branches of the min are exercised
    centre = -20.0 if kind != 'pch' else node['pch']
    spread = 12.0 if not widen else 0.02
    pin = [round(centre + (ml[0] if use_imp else 0) + rng.uniform(-spread, spread), 3) for _ in range(nch)]
    offs = [rng.choice([0.0, 0.0, 1.0, -3.0, 3.0, round(rng.uniform(-4, 4), 2)]) for _ in range(nch)]
    order = list(range(nch))
    if rng.random() < 0.5:
        rng.shuffle(order)
    return {'kind': 'crossing', 'order': order, 'node': node, 'per': per, 'degree': degree, 'from': 'tx', 'freq': freqs,
            'baud': bauds, 'slot': slots, 'pin_dbm': pin, 'offset': offs, 'ranges': ranges if use_imp else None,
            'ref_in': round(rng.uniform(-30, 5), 2), 'ref_baud': rng.choice([32e9, 64e9]),
            'ref_slot': rng.choice([50e9, 75e9])}


def gen_loader(rng):
    present = {p: rng.random() < 0.4 for p in POL}
    vals = {p: (None if rng.random() < 0.15 else _val(rng, p)) for p in POL}
    return {'kind': 'loader', 'where': rng.choice(['element', 'equipment', 'params']),
            'present': present, 'vals': vals}


def gen_populate(rng):
    k = rng.choice([1, 2, 3, 4])
    kind = rng.choice(POL + [None]) if rng.random() < 0.15 else rng.choice(POL)
    node = {} if kind is None else {kind: (0.0 if (kind == 'pch' and rng.random() < 0.35) else _val(rng, kind))}
    per = {p: {} for p in POL}
    for i in range(1, k + 1):
        if rng.random() < 0.35:
            pk = rng.choice(POL)
            per[pk][f'f R0-R{i}'] = _val(rng, pk)
    return {'kind': 'populate', 'k': k, 'node': node, 'per': per}


def _node_json(node):
    return {p: (None if node.get(p) is None else f2b(node[p])) for p in POL}


def _per_json(per):
    return {p: [[k, f2b(v)] for k, v in per[p].items()] for p in POL}


def _mk_roadm(case):
    from gnpy.core.elements import Roadm
    from gnpy.core.info import ReferenceCarrier
    params = {'add_drop_osnr': 38, 'pmd': 0, 'pdl': 0,
              'restrictions': {'preamp_variety_list': [], 'booster_variety_list': []},
              'roadm-path-impairments': []}
    for p, v in case['node'].items():
        params[KEY[p]] = v
    for p in POL:
        if case['per'][p]:
            params[PKEY[p]] = dict(case['per'][p])
    imp_id = None
    if case['ranges']:
        params['roadm-path-impairments'] = [{
            'roadm-path-impairments-id': 7,
            'roadm-express-path': [{'frequency-range': {'lower-frequency': lo, 'upper-frequency': hi},
                                    'roadm-maxloss': ml, 'roadm-pmd': 0, 'roadm-pdl': 0} for lo, hi, ml in case['ranges']]}]
        imp_id = 7
    r = Roadm(uid='R', params=params, metadata=nets.loc())
    r.ref_carrier = ReferenceCarrier(baud_rate=case['ref_baud'], slot_width=case['ref_slot'])
    r.ref_pch_in_dbm[case['from']] = case['ref_in']
    r.set_roadm_paths(from_degree=case['from'], to_degree=case['degree'], path_type='express', impairment_id=imp_id)
    return r


def run(case, drv):
    return {'crossing': run_crossing, 'loader': run_loader, 'populate': run_populate,
            'path': run_path}[case['kind']](case, drv)


_EQ_MULTI = []
SPLIT_HZ = 191.9e12


def _eqpt_multi():
    """stock library + ROADM type 'multi_profile': two profiles per path type with different max loss
    (ids 0/3 express 16.5/6 dB, 1/4 add 11.5/8 dB, 2/5 drop 11.5/9 dB); the first of each type is the default"""
    if not _EQ_MULTI:
        from gnpy.tools.json_io import _equipment_from_json, DEFAULT_EXTRA_CONFIG
        doc = nets.eqpt_json()
        base = copy.deepcopy([x for x in doc['Roadm'] if x.get('type_variety') == 'detailed_impairments'][0])
        base['type_variety'] = 'multi_profile'
        prof = base['roadm-path-impairments']
        for new_id, key, ml in ((3, 'roadm-express-path', 6.0), (4, 'roadm-add-path', 8.0), (5, 'roadm-drop-path', 9.0)):
            src = copy.deepcopy(next(x for x in prof if key in x))
            src['roadm-path-impairments-id'] = new_id
            # two frequency ranges with different max loss (split inside the launched comb)
            lower = src[key][0]
            upper = copy.deepcopy(lower)
            lower['frequency-range']['upper-frequency'] = SPLIT_HZ
            lower['roadm-maxloss'] = ml
            upper['frequency-range']['lower-frequency'] = SPLIT_HZ
            upper['roadm-maxloss'] = ml + 2.0
            src[key] = [lower, upper]
            prof.append(src)
        doc['Roadm'].append(base)
        _EQ_MULTI.append(_equipment_from_json(doc, DEFAULT_EXTRA_CONFIG))
    return copy.deepcopy(_EQ_MULTI[0])


def run_path(case, drv):
    from gnpy.core.elements import Roadm, Transceiver
    from gnpy.core.info import Carrier
    from gnpy.core.utils import dbm2watt, watt2dbm
    from gnpy.tools.json_io import network_from_json
    from gnpy.tools.worker_utils import designed_network
    from gnpy.topology.request import PathRequest, compute_constrained_path, propagate
    from gnpy.core.equipment import trx_mode_params
    res = Result()
    params = {KEY[p]: v for p, v in case['node'].items()}
    for p in POL:
        if case['per'][p]:
            params[PKEY[p]] = dict(case['per'][p])
    rtype = case.get('rtype', 'detailed_impairments' if case['detailed'] else None)
    if case.get('pdi'):
        params['per_degree_impairments'] = [{'from_degree': a, 'to_degree': b, 'impairment_id': i}
                                            for a, b, i in case['pdi']]
    topo = nets.star(case['k'], roadm_params=params, span_km=case['span_km'])
    if rtype:
        for e in topo['elements']:
            if e['type'] == 'Roadm':
                e['type_variety'] = rtype
    eq = _eqpt_multi() if rtype == 'multi_profile' else nets.eqpt()
    net = network_from_json(topo, eq)
    net, _, _ = designed_network(eq, net)
    rp = {'request_id': 'r', 'trx_type': '', 'trx_mode': '', 'source': case['src'], 'destination': case['dst'],
          'bidir': False, 'nodes_list': [case['dst']], 'loose_list': ['STRICT'], 'format': '', 'path_bandwidth': 0,
          'effective_freq_slot': None, 'nb_channel': len(case['freq']), 'power': 1e-3, 'tx_power': 1e-3}
    rp.update(trx_mode_params(eq))
    req = PathRequest(**rp)
    req.initial_spectrum = {f: Carrier(delta_pdb=o, baud_rate=b, slot_width=sl, roll_off=0.15, tx_osnr=40.0,
                                       tx_power=float(dbm2watt(t)), label='x')
                            for f, o, b, sl, t in zip(case['freq'], case['offset'], case['baud'], case['slot'],
                                                      case['tx_dbm'])}
    path = compute_constrained_path(net, req)
    log = []
    orig = Roadm.propagate

    def spy(self, spectral_info, degree, from_degree):
        before = spectral_info.pch.copy()
        orig(self, spectral_info, degree=degree, from_degree=from_degree)
        log.append((self, degree, from_degree, before, spectral_info.pch.copy(),
                    spectral_info.baud_rate.copy(), spectral_info.slot_width.copy(),
                    spectral_info.delta_pdb_per_channel.copy(), spectral_info.frequency.copy()))
    Roadm.propagate = spy
    try:
        propagate(path, req, eq)
    finally:
        Roadm.propagate = orig
    roadms = [(i, el) for i, el in enumerate(path) if isinstance(el, Roadm)]
    res.cmp_exact('request.propagate: one ROADM call per ROADM of the path', len(log), len(roadms))
    ML = {'add': 11.5, 'drop': 11.5, 'express': 16.5}
    PROFILE = {0: 16.5, 1: 11.5, 2: 11.5, 3: 6.0, 4: 8.0, 5: 9.0}   # ids 3-5: +2 dB at and above SPLIT_HZ
    DEFAULT_ID = {'express': 0, 'add': 1, 'drop': 2}
    chosen = {(a, b): i for a, b, i in case.get('pdi', [])}
    types = Counter_()
    for (i, el), (r, degree, from_degree, pin, pout, baud, slot, off, freq) in zip(roadms, log):
        nxt, prv = path[i + 1], path[i - 1]
        ptype = 'add' if isinstance(prv, Transceiver) else ('drop' if isinstance(nxt, Transceiver) else 'express')
        types[ptype] += 1
        user = chosen.get((prv.uid, nxt.uid)) if r.uid == 'R0' else None
        if user is not None:
            types['user_profile'] += 1
        # independent expectation of the per-carrier path loss
        pid = user if user is not None else (DEFAULT_ID[ptype] if rtype else None)

        def exp_ml(fr):
            if pid is None:
                return 0.0
            return PROFILE[pid] + (2.0 if (pid >= 3 and fr > SPLIT_HZ) else 0.0)   # both ranges contain the split point: first listed wins
        mls = [exp_ml(float(fr)) for fr in freq]
        # correspondence of the profile selection and of the per-frequency lookup (model: selectProfile / lookupBands)
        profs = []
        for k_id, imp in r.roadm_path_impairments.items():
            bands = []
            for item in imp.impairments:
                fr_ = item['frequency-range']
                bands.append([None if fr_['lower-frequency'] is None else f2b(fr_['lower-frequency']),
                              f2b(fr_['upper-frequency'] if fr_['upper-frequency'] is not None else 0.0),
                              f2b(item.get('roadm-maxloss', 0))])
            profs.append({'id': int(k_id), 'ptype': imp.path_type, 'bands': bands})
        pans = drv.ask('c06.profile', profiles=profs, user=user, ptype=ptype, freqs=fl(freq))
        res.cmp_exact('set_roadm_internal_paths.impairment_id', r.get_roadm_path(prv.uid, nxt.uid).impairment_id,
                      pans.get('id'))
        impl_ml = r.get_impairment('roadm-maxloss', freq, prv.uid, nxt.uid)
        impl_ml = [float(x) for x in np.broadcast_to(impl_ml, (len(freq),))] if impl_ml is not None and len(impl_ml) in (1, len(freq)) else None
        model_ml = None if any(x is None for x in pans['maxloss']) else [b2f(x) for x in pans['maxloss']]
        res.cmp_exact('Roadm.get_impairment[roadm-maxloss]', impl_ml, model_ml)
        # monitor: the IMPLEMENTATION's lookup against the profile the configuration selects (a carrier exactly on the
        # boundary shared by two ranges is left to the correspondence: which of the two applies is a convention)
        on_edge = [pid is not None and pid >= 3 and float(fr) == SPLIT_HZ for fr in freq]
        for c_, (a_, b_) in enumerate(zip(impl_ml or [], mls)):
            if not on_edge[c_] and abs(a_ - b_) > 1e-12:
                res.fail(f'path loss profile: {ptype} connection {prv.uid} -> {nxt.uid} of {r.uid} uses max loss {a_} dB for '
                         f'carrier {c_}, the selected/default profile says {b_} dB')
                break
        if impl_ml is not None:
            mls = [impl_ml[c_] if on_edge[c_] else mls[c_] for c_ in range(len(mls))]
        types['carrier_on_range_edge'] += sum(on_edge)
        # correspondence on the whole crossing, with the degree the PATH dictates (next element's uid)
        if r.uid == 'R0':
            node, per = case['node'], case['per']
        else:
            node, per = {'pch': -20.0} if not case['detailed'] else {'pch': -20.0}, {p: {} for p in POL}
        ans = drv.ask('c06.propagate', p=fl(pin), maxloss=fl(mls), offset=fl(off), baud=fl(baud),
                      slot=fl(slot), degree=nxt.uid, node=_node_json(node), per=_per_json(per),
                      ref_in=f2b(r.ref_pch_in_dbm[prv.uid]), ref_baud=f2b(r.ref_carrier.baud_rate),
                      ref_slot=f2b(r.ref_carrier.slot_width))
        res.cmp_floats(f'Roadm.propagate.pch[{ptype}]', pout, [b2f(x) for x in ans['out']])
        # monitor (independent arithmetic)
        for c in range(len(pin)):
            if nxt.uid in per['pch']:
                t = per['pch'][nxt.uid]
            elif nxt.uid in per['psd']:
                t = 10 * math.log10(baud[c] * per['psd'][nxt.uid] * 1e-9)
            elif nxt.uid in per['psw']:
                t = 10 * math.log10(slot[c] * per['psw'][nxt.uid] * 1e-9)
            elif 'pch' in node:
                t = node['pch']
            elif 'psd' in node:
                t = 10 * math.log10(baud[c] * node['psd'] * 1e-9)
            else:
                t = 10 * math.log10(slot[c] * node['psw'] * 1e-9)
            in_dbm = 10 * math.log10(pin[c] * 1e3)
            exp = min(t + off[c], in_dbm - mls[c])
            got = 10 * math.log10(pout[c] * 1e3)
            if abs(got - exp) > 1e-6:
                res.fail(f'egress power on a path: {ptype} crossing of {r.uid} towards {nxt.uid}, channel {c} leaves at '
                         f'{got:.6f} dBm, min(target+offset, in-loss) = {exp:.6f} dBm', crossing=ptype)
            if pout[c] > pin[c] * (1 + 1e-9):
                res.fail(f'amplifies on a path: {r.uid} channel {c}')
    res.nontrivial = len(log) >= 2
    res.stats.update({'path': 1, 'path_detailed_impairments': int(case['detailed']), f'path_roadm_type_{rtype}': 1,
                      'path_R0_degree_override': int(any(case['per'][p] for p in POL))})
    res.stats.update({f'path_crossing_{k}': v for k, v in types.items()})
    return res


def _own_maxloss(case, f):
    """independent lookup: the frequency range that contains the carrier; no ranges: 0"""
    if not case['ranges']:
        return 0.0
    hits = [ml for lo, hi, ml in case['ranges'] if lo <= f <= hi]
    if len(hits) == 1 or (hits and all(h == hits[0] for h in hits)):
        return hits[0]
    return None     # outside every range, or on a boundary shared by two ranges with different loss: not judged here


def _one_crossing(case, drv, res, r, freq, baud, slot, pin_dbm, offset, tag):
    """one spectrum through the (possibly already used) Roadm object r: correspondence + monitor"""
    from gnpy.core.info import create_arbitrary_spectral_information
    from gnpy.core.utils import dbm2watt, watt2dbm
    pin_w = [float(dbm2watt(x)) for x in pin_dbm]
    # the carriers are handed to the constructor in a case-defined order (it must sort every per-channel array alike);
    # everything below is indexed by frequency order, which is the order of freq/baud/slot/pin_dbm/offset
    order = case.get('order')
    if not order or sorted(order) != list(range(len(freq))):
        order = list(range(len(freq)))

    def perm(xs):
        return [xs[i] for i in order]
    si = create_arbitrary_spectral_information(perm(freq), pch=perm(pin_w), baud_rate=perm(baud), tx_osnr=40.0,
                                               tx_power=perm(pin_w), delta_pdb_per_channel=perm(offset),
                                               slot_width=perm(slot), label='x')
    if [float(x) for x in si.frequency] != [float(x) for x in freq]:
        # C07's clause, not C06's: without it the per-channel bookkeeping below is not aligned, so nothing is judged
        res.mismatch(f'constructor{tag}: carriers not in frequency order after construction')
        return 0, 0, len(freq)
    ratios_before = (si._signal_ratio.copy(), si._ase_ratio.copy(), si._nli_ratio.copy())
    pin_arr = si.pch.copy()
    # per-carrier path loss: implementation vs model lookup (first matching range) vs own lookup
    impl_ml = r.get_impairment('roadm-maxloss', si.frequency, case['from'], case['degree'])
    impl_ml = [float(x) for x in np.broadcast_to(impl_ml, (len(pin_w),))]
    profs = []
    if case['ranges']:
        profs = [{'id': 7, 'ptype': 'express', 'bands': [[f2b(lo), f2b(hi), f2b(ml)] for lo, hi, ml in case['ranges']]}]
    pans = drv.ask('c06.profile', profiles=profs, user=(7 if case['ranges'] else None), ptype='express',
                   freqs=fl(si.frequency))
    model_ml = [None if x is None else b2f(x) for x in pans['maxloss']]
    res.cmp_exact(f'Roadm.get_impairment[roadm-maxloss]{tag}', impl_ml, model_ml)
    maxloss = [_own_maxloss(case, float(f)) for f in si.frequency]
    for i, (a_, b_) in enumerate(zip(impl_ml, maxloss)):
        if b_ is not None and abs(a_ - b_) > 1e-12:
            res.fail(f'path loss lookup{tag}: carrier {i} at {float(si.frequency[i])} Hz gets max loss {a_} dB, its frequency '
                     f'range says {b_} dB', channel=i)
            break
    maxloss = [a_ if b_ is None else b_ for a_, b_ in zip(impl_ml, maxloss)]
    si = r(si, degree=case['degree'], from_degree=case['from'])
    out = [float(x) for x in si.pch]
    ans = drv.ask('c06.propagate', p=fl(pin_arr), maxloss=fl(maxloss), offset=fl(offset),
                  baud=fl(baud), slot=fl(slot), degree=case['degree'],
                  node=_node_json(case['node']), per=_per_json(case['per']), ref_in=f2b(case['ref_in']),
                  ref_baud=f2b(case['ref_baud']), ref_slot=f2b(case['ref_slot']))
    res.cmp_floats(f'Roadm.propagate.pch{tag}', out, [b2f(x) for x in ans['out']])
    res.cmp_float(f'Roadm.ref_pch_out_dbm{tag}', r.ref_pch_out_dbm, b2f(ans['ref_out']), abs_=1e-9)
    res.cmp_float(f'Roadm.ref_effective_loss{tag}', r.ref_effective_loss, b2f(ans['ref_loss']), abs_=1e-9)
    res.cmp_floats(f'Roadm.pch_out_dbm{tag}', r.pch_out_dbm, [float(watt2dbm(b2f(x))) for x in ans['out']], abs_=1e-9)
    # ---- monitor: the property itself, evaluated independently on the implementation's output
    deg = case['degree']
    above = below = 0

    def target(kind, val, i):
        return val if kind == 'pch' else 10 * math.log10((baud[i] if kind == 'psd' else slot[i]) * val * 1e-9)
    settings = [(p, case['per'][p][deg]) for p in POL if deg in case['per'][p]]
    if not settings:
        settings = [(p, case['node'][p]) for p in POL if p in case['node']]
    inforce = None     # with two settings on the degree: the one the first channel follows must hold for all channels
    for i in range(len(out)):
        in_dbm = 10 * math.log10(pin_arr[i] * 1e3)
        got = 10 * math.log10(out[i] * 1e3)
        exps = [min(target(k_, v_, i) + offset[i], in_dbm - maxloss[i]) for k_, v_ in settings]
        cands = [j for j in range(len(settings)) if abs(got - exps[j]) <= 1e-6]
        if inforce is not None:
            cands = [j for j in cands if j == inforce]
        t = target(*settings[0], i)
        if t + offset[i] < in_dbm - maxloss[i]:
            above += 1
        else:
            below += 1
        if not cands:
            exp = exps[inforce if inforce is not None else 0]
            res.fail(f'egress power{tag}: channel {i} leaves at {got:.6f} dBm, min(target+offset, in-loss) = {exp:.6f} dBm',
                     cls='unlisted', channel=i)
        elif len(settings) > 1 and inforce is None and len(cands) == 1:
            inforce = cands[0]
        if out[i] > pin_arr[i] * (1 + 1e-9):
            res.fail(f'amplifies{tag}: channel {i} leaves with {out[i]} W > {pin_arr[i]} W in', cls='unlisted', channel=i)
    for a, b in zip(ratios_before, (si._signal_ratio, si._ase_ratio, si._nli_ratio)):
        if not np.array_equal(a, b):
            res.mismatch('ratios: ROADM changed the signal/ASE/NLI shares (C02 decides that clause)')
    return above, below, len(out)


def run_crossing(case, drv):
    res = Result()
    r = _mk_roadm(case)
    above, below, nch = _one_crossing(case, drv, res, r, case['freq'], case['baud'], case['slot'], case['pin_dbm'],
                                      case['offset'], '')
    second = 0
    if nch >= 3 and case.get('again', True):
        # the SAME Roadm object is crossed again by another comb with the same channel count and the same first and last
        # carrier: the interior carriers are mirrored, so they fall differently into the frequency ranges
        n = nch
        f0, f1 = case['freq'][0], case['freq'][-1]
        freq2 = [f0 + f1 - case['freq'][n - 1 - i] for i in range(n)]
        slot2 = [case['slot'][n - 1 - i] for i in range(n)]
        baud2 = [case['baud'][n - 1 - i] for i in range(n)]
        pin2 = [case['pin_dbm'][n - 1 - i] for i in range(n)]
        if all(freq2[i] + slot2[i] / 2 <= freq2[i + 1] - slot2[i + 1] / 2 for i in range(n - 1)):
            _one_crossing(case, drv, res, r, freq2, baud2, slot2, pin2, case['offset'], ' (second comb, same object)')
            second = 1
    deg = case['degree']
    has_override = any(deg in case['per'][p] for p in POL)
    res.nontrivial = (above > 0 and below > 0) or has_override
    res.stats.update({'crossing': 1, f'policy_{list(case["node"])[0]}': 1, 'degree_override': int(has_override),
                      'channels_above_target': above, 'channels_below_target': below,
                      'with_maxloss': int(bool(case['ranges'])), f'nch_{nch}': 1, 'crossing_second_comb': second})
    return res


def run_loader(case, drv):
    from gnpy.core.parameters import RoadmParams
    from gnpy.core.exceptions import ParametersError, ConfigurationError, EquipmentConfigError
    from gnpy.tools.json_io import network_from_json, _equipment_from_json, DEFAULT_EXTRA_CONFIG
    res = Result()
    pres, vals = case['present'], case['vals']
    given = {KEY[p]: vals[p] for p in POL if pres[p]}
    where = case['where']
    if where == 'params':
        # RoadmParams counts values that are not None
        kwargs = {'add_drop_osnr': 38, 'pmd': 0, 'pdl': 0, 'restrictions': {}, 'roadm-path-impairments': []}
        kwargs.update(given)
        try:
            RoadmParams(**kwargs)
            impl = True
        except ParametersError:
            impl = False
        node = {p: (f2b(vals[p]) if (pres[p] and vals[p] is not None) else None) for p in POL}
        model = drv.ask('c06.accept', node=node)
        res.cmp_exact('RoadmParams.accept', impl, model)
        n = sum(1 for p in POL if pres[p] and vals[p] is not None)
        if impl != (n <= 1):
            res.fail(f'single policy: RoadmParams accepted={impl} with {n} policies')
    elif where == 'equipment':
        doc = nets.eqpt_json()
        entry = {k: v for k, v in doc['Roadm'][0].items() if k not in KEY.values()}
        entry.update(given)
        doc['Roadm'] = [entry]
        try:
            _equipment_from_json(doc, DEFAULT_EXTRA_CONFIG)
            impl = True
        except EquipmentConfigError:
            impl = False
        model = drv.ask('c06.eqpt', a=pres['pch'], b=pres['psd'], c=pres['psw'])
        res.cmp_exact('json_io.Roadm.accept', impl, model)
        n = sum(pres.values())
        if impl != (n == 1):
            res.fail(f'single policy: equipment ROADM accepted={impl} with {n} policies')
    else:
        topo = nets.star(1, roadm_params=dict(given))
        try:
            net = network_from_json(topo, nets.eqpt())
            r0 = nets.by_uid(net)['R0']
            impl = True
        except (ConfigurationError, ParametersError) as e:
            impl = False
        m = drv.ask('c06.merge', a=pres['pch'], b=pres['psd'], c=pres['psw'])
        # after the merge the library default (pch -20) is added when the element states no policy;
        # RoadmParams then counts the non-None values
        if m is None:
            model = False
        else:
            eff = {p: (vals[p] if pres[p] else None) for p in POL}
            if m is False:
                eff['pch'] = -20 if not pres['pch'] else eff['pch']
            model = drv.ask('c06.accept', node={p: (None if eff[p] is None else f2b(eff[p])) for p in POL})
        res.cmp_exact('network_from_json.Roadm.accept', impl, model)
        if impl:
            nset = sum(1 for x in (r0.target_pch_out_dbm, r0.target_psd_out_mWperGHz, r0.target_out_mWperSlotWidth)
                       if x is not None)
            if nset > 1:
                res.fail(f'single policy: loaded ROADM has {nset} equalisation policies in force')
        if sum(pres.values()) > 1 and impl:
            res.fail('single policy: element with several equalisation keys was accepted')
    res.nontrivial = True
    res.stats.update({f'loader_{where}': 1, f'loader_npol_{sum(pres.values())}': 1, f'loader_accept_{impl}': 1})
    return res


def run_populate(case, drv):
    from gnpy.core.network import set_roadm_per_degree_targets
    from gnpy.core.exceptions import ConfigurationError, ParametersError
    from gnpy.tools.json_io import network_from_json
    res = Result()
    params = {KEY[p]: v for p, v in case['node'].items()}
    for p in POL:
        if case['per'][p]:
            params[PKEY[p]] = dict(case['per'][p])
    topo = nets.star(case['k'], roadm_params=params)
    eq = nets.eqpt()
    if not case['node']:
        # no element-level policy: the library default applies (pch -20): make the library state none to reach the
        # "needs an equalization target" branch is impossible through the loader; use the default then.
        pass
    net = network_from_json(topo, eq)
    r0 = nets.by_uid(net)['R0']
    node = {p: getattr(r0.params, KEY[p]) for p in POL}
    degrees = [n.uid for n in net.successors(r0) if type(n).__name__ != 'Transceiver']
    try:
        set_roadm_per_degree_targets(r0, net)
        impl = {'pch': dict(r0.per_degree_pch_out_dbm), 'psd': dict(r0.per_degree_pch_psd),
                'psw': dict(r0.per_degree_pch_psw)}
    except ConfigurationError:
        impl = None
    ans = drv.ask('c06.populate', node={p: (None if node[p] is None else f2b(node[p])) for p in POL},
                  per=_per_json(case['per']), degrees=degrees)
    model = None if ans is None else {p: {k: b2f(v) for k, v in ans[p]} for p in POL}
    res.cmp_exact('set_roadm_per_degree_targets', impl, model)
    # monitor: the property itself on a crossing towards every egress degree of the ROADM as the design left it
    # (how the design stores the resolved targets is the correspondence above, not the property)
    populated = 0
    if impl is None:
        res.fail(f'per-degree targets: design rejected a ROADM whose node target is {node}',
                 cls='unlisted')
    else:
        from gnpy.core.info import create_arbitrary_spectral_information, ReferenceCarrier
        from gnpy.core.utils import dbm2watt
        baud = [32e9, 64e9, 42e9, 32e9]
        slot = [50e9, 75e9, 62.5e9, 37.5e9]
        freq = [193.0e12, 193.1e12, 193.2e12, 193.3e12]
        pin_dbm = [10.0, 10.0, -45.0, 10.0]
        offs = [0.0, 1.5, 0.0, -2.0]
        r0.ref_carrier = ReferenceCarrier(baud_rate=32e9, slot_width=50e9)
        r0.ref_pch_in_dbm['T0'] = 0.0
        for d in degrees:
            user = [(p, case['per'][p][d]) for p in POL if d in case['per'][p]]
            if not user:
                populated += 1
            kind, val = user[0] if user else next((p, node[p]) for p in POL if node[p] is not None)
            r0.set_roadm_paths(from_degree='T0', to_degree=d, path_type='add', impairment_id=None)
            si = create_arbitrary_spectral_information(freq, pch=[float(dbm2watt(x)) for x in pin_dbm], baud_rate=baud,
                                                       tx_osnr=40.0, tx_power=[float(dbm2watt(x)) for x in pin_dbm],
                                                       delta_pdb_per_channel=offs, slot_width=slot, label='x')
            ml = [float(x) for x in np.broadcast_to(r0.get_impairment('roadm-maxloss', si.frequency, 'T0', d), (4,))]
            si = r0(si, degree=d, from_degree='T0')
            for i in range(4):
                t = val if kind == 'pch' else 10 * math.log10((baud[i] if kind == 'psd' else slot[i]) * val * 1e-9)
                exp = min(t + offs[i], pin_dbm[i] - ml[i])
                got = 10 * math.log10(float(si.pch[i]) * 1e3)
                if abs(got - exp) > 1e-6:
                    res.fail(f'egress power after design: towards {d} ({"degree setting" if user else "node default"} '
                             f'{kind}={val}) channel {i} leaves at {got:.6f} dBm, min(target+offset, in-loss) = {exp:.6f} dBm',
                             cls='unlisted')
                    break
    res.nontrivial = populated > 0
    res.stats.update({'populate': 1, 'populate_degrees': len(degrees), 'populate_defaulted': populated,
                      'populate_zero_dbm': int(node.get('pch') == 0.0)})
    return res


def shrink_candidates(case):
    if case['kind'] == 'crossing':
        n = len(case['freq'])
        for i in range(n):
            if n > 1:
                c = copy.deepcopy(case)
                for k in ('freq', 'baud', 'slot', 'pin_dbm', 'offset'):
                    del c[k][i]
                if c.get('order'):
                    c['order'] = [j - (j > i) for j in c['order'] if j != i]
                yield c
        if case['ranges']:
            c = copy.deepcopy(case)
            c['ranges'] = None
            yield c
        for p in POL:
            for d in list(case['per'][p]):
                c = copy.deepcopy(case)
                del c['per'][p][d]
                yield c
    elif case['kind'] == 'path':
        n = len(case['freq'])
        for i in range(n):
            if n > 1:
                c = copy.deepcopy(case)
                for k in ('freq', 'baud', 'slot', 'offset', 'tx_dbm'):
                    del c[k][i]
                yield c
        for p in POL:
            for d in list(case['per'][p]):
                c = copy.deepcopy(case)
                del c['per'][p][d]
                yield c
    elif case['kind'] == 'populate':
        if case['k'] > 1:
            c = copy.deepcopy(case)
            c['k'] -= 1
            for p in POL:
                c['per'][p].pop(f'f R0-R{case["k"]}', None)
            yield c
        for p in POL:
            for d in list(case['per'][p]):
                c = copy.deepcopy(case)
                del c['per'][p][d]
                yield c
