"""C17 — designing is repeatable: export, reload and redesign changes nothing; SimParams left as found.

Correspondence: network_to_json / network_from_json / designed_network round 2 on the real objects vs
Gnpy.Chain.exportLine + the C08/C09 model run on the exported line; SimParams.set_params / estimate_raman_gain
save-restore vs Gnpy.Chain.setParams / estimateRamanGainParams.
Monitor: network_to_json equality (to the export rounding) over 1-3 export/reload/redesign rounds, identical
output of two designs of the same input, equal propagation of the design comb through every OMS, SimParams
snapshot before/after designed_network for random prior settings.
"""
import os
for _v in ('OMP_NUM_THREADS', 'OPENBLAS_NUM_THREADS', 'MKL_NUM_THREADS'):
    os.environ.setdefault(_v, '1')     # one BLAS thread per worker process: the checks run in a process pool

import copy
import json
import math
import re

import numpy as np

from common.util import Result, f2b, b2f, err_kind, close, close_list
from common import nets
from common import designgen as G
from props.c08 import _load, design_impl, model_chain, raman_estimate_class
from props.c09 import span_cfg, source_power, design_constants

ID = 'C17'
N = {'quick': 150, 'thorough': 5000}
LEAN_MODULES = ['GnpyProofs.Props.C17']
THEOREMS = [f'Gnpy.Chain.{t}' for t in (
    'design_deterministic', 'addInline_fixpoint', 'addMissing_fixpoint', 'addConn_fixpoint', 'split_fixpoint',
    'padding_fixpoint', 'padRun_idempotent_all', 'addPadding_idempotent', 'ampStep_fixpoint', 'redesign_fixpoint', 'export_rounding_partial',
    'redesign_eol_counterexample', 'redesign_eol_drift', 'simparams_restored', 'simparams_restored_any_prior',
    'simparams_restored_many', 'simparams_during', 'reload_rejects_dangling', 'export_keeps_lumped_losses',
    'export_drops_lumped_losses_fails_old', 'export_reload_design_bands', 'export_reload_design_load',
    'export_single_design_band_fails_old', 'export_reload_design_bands_transceiver',
    'export_transceiver_design_bands_fails_old')]
RULE = ('cases from one PRNG: (a) 60 % topologies/configurations of C08 (Raman crash inputs excluded, EOL = 0 in 75 % of '
        'them; half with cut fibres carrying att_in / lumped losses, 40 % drawn with the multiband switch (C+L ROADMs, '
        'Multiband_amplifiers, explicit single design bands), 25 % with own design bands/spacings on ROADMs; 12 % gain-mode '
        'lines with an operator out_voa followed by an amplifier without type_variety whose operator gain puts its output '
        'within out_voa dB of a p_max; 5 % C+L lines without ROADMs between two transceivers, the source transceiver stating '
        'design bands narrower than the amplifiers\' (design_bands / per_degree_design_bands), Raman flag of the process-wide '
        'SimParams on in 65 % of them) taken through: a design of the topology under ANOTHER library (same amplifier names '
        'and gain ranges, other noise figures / p_max), the design, a second design with the same library object, a what-if '
        'design with a power override on that library object and the design again, again the other library, a design under a '
        'fresh copy of the library, in 25 % a design in a fresh interpreter (all must equal the first design exactly), a '
        'design under the real library with every amplifier variety RENAMED by a common prefix (correspondence only), and 1-3 '
        'export(network_to_json)/reload'
        '(network_from_json)/redesign rounds; (b) 30 % SimParams cases; (c) 10 % malformed: an exported design from which one line element was deleted while its connections '
        'remain must be rejected on reload (the error kind, NetworkTopologyError, is compared with the model). SimParams cases: a random prior setting (Raman flag/method/order/'
        'resolutions, NLI method in mixed case, tolerances, computed channels) in force while a topology with 0-2 '
        'RamanFibers is designed. non-trivial: the design has at least one amplifier with an automatically derived '
        'setting and one redesign round was compared / a RamanFiber was estimated under a non-default prior setting / every malformed case; '
        'distinct = distinct canonical JSON')
MODEL_SCOPE = ('modelled: Fiber/Fused/Edfa.to_json rounding (length, loss_coef, gain 6 digits, tilt 5; att_in, connectors and lumped '
               'losses written as they are), the design bands of a ROADM through to_json/reload (written whenever given), the reload through '
               'FiberParams/EdfaOperational, the second design (C08 + C09 models on the exported line), '
               'SimParams.set_params / NLIParams.__init__ (method.lower()) / RamanParams / to_json and the save-set-'
               'restore sequence of estimate_raman_gain. Not modelled: the other ROADM parameters and Transceiver to_json (compared on the '
               'implementation only), element order of the JSON document, metadata, the Raman solver (estimated gains '
               'of each round are inputs), object identity/aliasing at run time (covered by the monitor only: two '
               'designs sharing one equipment object), Multiband_amplifier lines (export equality and repeated designs only). Topologies on which designed_network raises (open finding '
               'raman-gain-before-estimate of C08, incl. gain-mode redesign of Edfa -> RamanFiber) are not generated')
PARTIAL = ['export_rounding_partial: only the size of the rounding error of the exported gain/length/loss_coef is proved '
           '(<= 5e-7 of the exported unit); that the second design stays within the export rounding when it starts from '
           'the ROUNDED values (gain mode reads the rounded gain_target, split fibres have rounded lengths) is not '
           'proved - redesign_fixpoint is exact for unrounded export; the monitor compares with 2e-6 tolerance',
           'runtime aliasing (shared equipment objects, cached attributes on elements) is outside the chain model: '
           'design_deterministic is about the model function; the monitor designs the same input twice with one shared '
           'equipment object and compares the exports exactly',
           'SimParams on the ERROR path: estimate_raman_gain sets the estimate settings and restores the saved ones without a '
           'try/finally; if the Raman solver raised in between, the estimate settings would stay in force. No input of the '
           'C08 class makes the solver raise there (wrong pump direction / power / missing pumps design normally; a zero '
           'pump frequency is rejected later, after the restore), so "left as found" is checked - and proved on the model - '
           'for designs that return and for designs that raise outside the estimate only']

MANIFEST = {'level_note': 'proof on the chain model (redesign fixpoint exact for unrounded export, K1 counterexample, '
                          'SimParams restore for every prior setting); partial for what lives in object identity and for the '
                          'propagation of the 6-digit export rounding through the second design (monitor only)'}

JTOL = 2e-6


def gen(rng, tier, widen=False):
    r = rng.random()
    if r < 0.3:
        return gen_simparams(rng, tier)
    if r < 0.4:
        # malformed: an exported document from which one line element was deleted (its connections remain)
        c = G.gen_case(rng, tier, widen, raman_rate=0.0, raman_crash_rate=0.0, trx_src_rate=0.0, eol_zero=True)
        c['kind'] = 'malformed'
        c['drop'] = rng.random()
        return c
    if r < 0.45:
        return gen_trxline(rng)
    if r < 0.52:
        c = gen_gain_window(rng)
    else:
        # "every topology and configuration as in C08": also long fibres that are cut, carrying att_in / lumped losses, and
        # C+L lines with Multiband_amplifiers
        c = G.gen_case(rng, tier, widen, raman_rate=0.08, raman_crash_rate=0.0, eol_zero=rng.random() < 0.75,
                       lumped=rng.random() < 0.5, multiband=rng.random() < 0.4, band_spacing=rng.random() < 0.25)
    if c.get('eqpt'):
        c['roadm_design'] = {}      # a single own design band on a C+L ROADM would contradict its Multiband_amplifiers
    # keep the size moderate: several designs and propagations per case
    c['kind'] = 'redesign'
    c['rounds'] = rng.choice([1, 1, 2, 3])
    c['fresh'] = rng.random() < 0.25          # also design the input in a fresh interpreter and compare
    c['override'] = rng.choice([-2.0, 1.5, 3.0])     # power override (dB on top of SI power) of the what-if design in between
    if c.get('has_raman'):
        # gain mode exports delta_p = None: the redesign of `Edfa(user delta_p) -> RamanFiber` would need the slope rule
        # on the Raman span and raise (open finding raman-gain-before-estimate of C08): not generated here
        c['span']['power_mode'] = True
    return c


def gen_gain_window(rng):
    """gain mode, an amplifier with an operator out_voa, and behind the next span an amplifier WITHOUT type_variety whose
    operator gain puts its true output inside (p_max - out_voa, p_max) of one of the library models: auto-design selects
    the model on the first design; the export imposes it, so the redesign runs the saturation check of imposed models"""
    from props.c09 import gen_gain_saturation
    c = gen_gain_saturation(rng)
    a1 = c['chains'][0]['line'][2]
    if rng.random() < 0.8:
        a1.pop('type_variety', None)
    c['shape'] = 'gain-window'
    return c


TRX_BANDS = [{'f_min': 191.3e12, 'f_max': 195.1e12, 'spacing': 50e9}, {'f_min': 187.0e12, 'f_max': 190.0e12, 'spacing': 50e9}]
RAMAN_FLAG_ON = {"raman_params": {"flag": True, "result_spatial_resolution": 10e3, "solver_spatial_resolution": 50},
                 "nli_params": {"method": "ggn_spectrally_separated", "dispersion_tolerance": 1, "phase_shift_tolerance": 0.1,
                                "computed_channels": [1, 18, 37, 56, 75]}}


def gen_trxline(rng):
    """a C+L line WITHOUT ROADMs: transceiver -> Multiband_amplifier -> (Fiber -> Multiband_amplifier) x 2-3 -> transceiver,
    all amplifiers blank; the source transceiver states the design bands (design_bands, or per_degree_design_bands keyed by
    the first amplifier), narrower than the bands of the amplifiers the design will choose; in 65 % the Raman flag of the
    process-wide SimParams is on (the design then computes the SRS power deviation over the design band)"""
    c_max = rng.choice([195.1e12, 195.1e12, 195.0e12, 194.5e12])
    l_min = rng.choice([187.0e12, 187.0e12, 187.5e12])
    bands = [dict(TRX_BANDS[0], f_max=c_max), dict(TRX_BANDS[1], f_min=l_min)]
    return {'kind': 'trxline', 'spans': [rng.choice([60.0, 80.0, 80.0, 100.0, 70.0]) for _ in range(rng.choice([2, 3, 3]))],
            'where': rng.choice(['design_bands', 'per_degree_design_bands']), 'bands': bands,
            'raman_flag': rng.random() < 0.65, 'rounds': rng.choice([1, 1, 2]),
            'power_mode': rng.random() < 0.8}


def trxline_topology(case):
    els = [nets.trx('TA'), nets.trx('TB')]
    cxs = []
    amp = lambda i: {'uid': f'mb {i}', 'type': 'Multiband_amplifier', 'amplifiers': [], 'metadata': nets.loc()}  # noqa: E731
    line = [amp(0)]
    for i, km in enumerate(case['spans']):
        line.append(dict(nets.fiber(f'fib {i}', km, con_in=0.5, con_out=0.5), metadata=nets.loc()))
        line.append(amp(i + 1))
    nets.chain(els, cxs, 'TA', 'TB', line)
    ta = els[0]
    ta['params'] = ({'design_bands': copy.deepcopy(case['bands'])} if case['where'] == 'design_bands'
                    else {'per_degree_design_bands': {'mb 0': copy.deepcopy(case['bands'])}})
    return {'elements': els, 'connections': cxs}


def run_trxline(case, drv):
    """monitor only (per-band amplifiers are outside the model): the same input twice, and export/reload/redesign rounds
    must give the same exported settings; SimParams left as found"""
    from gnpy.core.parameters import SimParams
    from gnpy.tools.json_io import network_to_json, network_from_json
    from gnpy.tools.worker_utils import designed_network
    res = Result()

    def design(doc):
        eq = nets.eqpt('eqpt_config_multiband.json')
        eq['Span']['default'].power_mode = bool(case['power_mode'])
        net = network_from_json(jcopy(doc), eq)
        designed_network(eq, net)
        return jcopy(network_to_json(net))
    try:
        SimParams.set_params(copy.deepcopy(RAMAN_FLAG_ON) if case['raman_flag'] else {})
        before = sim_snapshot()
        topo = trxline_topology(case)
        try:
            j1 = design(topo)
        except Exception as e:      # noqa: BLE001
            res.fail(f'design raised: designed_network failed with {err_kind(e)} on a well-formed topology: {str(e)[:120]}')
            return res
        try:
            j1b = design(topo)
            if j1b != j1:
                res.fail(f'twice: a second design of the same input differs: {json_diffs(j1, j1b, tol=0.0)[:3]}')
        except Exception as e:      # noqa: BLE001
            res.fail(f'twice: a second design of the same input raised {err_kind(e)}')
        jk = j1
        n_amp = sum(1 for e in j1['elements'] if e['type'] == 'Multiband_amplifier')
        rank = {e['uid']: n_amp for e in j1['elements']}
        rounds_done = 0
        for rnd in range(case['rounds']):
            try:
                j2 = design(jk)
            except Exception as e:      # noqa: BLE001
                res.fail(f'reload: round {rnd + 1}: the exported design cannot be loaded and designed again: '
                         f'{err_kind(e)}: {str(e)[:120]}')
                break
            rounds_done += 1
            for (u, path, v1, v2) in json_diffs(jk, j2, rank=rank):
                res.fail(f'drift: round {rnd + 1}: {u} {path}: {v1} -> {v2}', uid=u)
            jk = j2
        after = sim_snapshot()
        if after != before:
            res.fail(f'SimParams: designed_network left {after}, found {before}')
    finally:
        SimParams.set_params({})
    res.nontrivial = rounds_done > 0
    res.stats.update({'trxline': 1, 'trxline_raman_flag': int(case['raman_flag']), f'trxline_{case["where"]}': 1,
                      'trxline_amplifiers': n_amp})
    return res


def gen_prior(rng):
    prior = {}
    if rng.random() < 0.8:
        prior['raman_params'] = {'flag': rng.random() < 0.35,
                                 'method': rng.choice(['perturbative', 'numerical']),
                                 'order': rng.choice([1, 2, 3]),
                                 'result_spatial_resolution': rng.choice([10e3, 20e3, 50e3, 7.5e3]),
                                 'solver_spatial_resolution': rng.choice([10e3, 50.0, 100.0, 2e3])}
        if rng.random() < 0.4:
            del prior['raman_params'][rng.choice(['method', 'order', 'result_spatial_resolution'])]
    if rng.random() < 0.8:
        prior['nli_params'] = {'method': rng.choice(['gn_model_analytic', 'GN_model_analytic', 'ggn_spectrally_separated',
                                                     'GGN_Spectrally_Separated', 'ggn_approx']),
                               'dispersion_tolerance': rng.choice([1, 2, 4, 0.5]),
                               'phase_shift_tolerance': rng.choice([0.1, 0.05, 0.2]),
                               'computed_channels': rng.choice([None, [1, 18, 37, 56, 75], [5]]),
                               'computed_number_of_channels': rng.choice([None, None, 9])}
        if rng.random() < 0.4:
            del prior['nli_params'][rng.choice(['dispersion_tolerance', 'computed_channels', 'phase_shift_tolerance'])]
    return prior


def gen_simparams(rng, tier):
    c = G.gen_case(rng, tier, raman_rate=0.7, raman_crash_rate=0.0, trx_src_rate=0.4, eol_zero=True)
    c['kind'] = 'simparams'
    # small: the Raman flag of the prior setting makes every fibre of the design run the Raman solver
    c['chains'] = c['chains'][:2]
    for ch in c['chains']:
        ch['line'] = ch['line'][:4]
    keep = {'R0', 'R1'}
    c['chains'] = [ch for ch in c['chains'] if ch['src'] in keep and ch['dst'] in keep]
    c['k'] = 1
    c['roadms'] = {r: v for r, v in c['roadms'].items() if r in keep}
    c['per_degree'] = {}
    for ch in G.all_chains(c):
        for e in ch['line']:
            if e['type'] == 'Fiber':
                e['params']['length'] = min(e['params']['length'], 200.0)
    c['prior'] = gen_prior(rng)
    return c


# ---------------------------------------------------------------------------------------------------------------------

def run(case, drv):
    return {'redesign': run_redesign, 'simparams': run_simparams, 'malformed': run_malformed,
            'trxline': run_trxline}[case['kind']](case, drv)


def jcopy(x):
    return json.loads(json.dumps(x))


def json_diffs(j1, j2, tol=JTOL, rank=None):
    """differences between two exported networks: [(uid, path, v1, v2)], elements matched by uid, numbers compared to
    the export rounding: every exported gain carries up to 5e-7 dB of rounding, and in gain mode these add up along the
    OMS, so the tolerance of an element grows with the number of amplifiers before it in its OMS (`rank`)"""
    out = []
    e1 = {e['uid']: e for e in j1['elements']}
    e2 = {e['uid']: e for e in j2['elements']}
    for u in sorted(set(e1) | set(e2)):
        if u not in e1 or u not in e2:
            out.append((u, 'presence', u in e1, u in e2))
            continue

        def walk(a, b, path):
            if isinstance(a, dict) and isinstance(b, dict):
                for k in sorted(set(a) | set(b)):
                    if k == 'metadata':
                        continue
                    if k not in a or k not in b:
                        out.append((u, path + k, a.get(k, '<absent>'), b.get(k, '<absent>')))
                    else:
                        walk(a[k], b[k], path + k + '.')
            elif isinstance(a, list) and isinstance(b, list) and len(a) == len(b):
                for i, (x, y) in enumerate(zip(a, b)):
                    walk(x, y, path + str(i) + '.')
            elif isinstance(a, (int, float)) and isinstance(b, (int, float)) and not isinstance(a, bool) \
                    and not isinstance(b, bool):
                if abs(a - b) > max(tol * (1 + (rank or {}).get(u, 0)), 1e-9 * max(abs(a), abs(b))):
                    out.append((u, path.rstrip('.'), a, b))
            elif a != b:
                out.append((u, path.rstrip('.'), a, b))
        walk(e1[u], e2[u], '')
    c1 = sorted((c['from_node'], c['to_node']) for c in j1['connections'])
    c2 = sorted((c['from_node'], c['to_node']) for c in j2['connections'])
    if c1 != c2:
        out.append(('<connections>', 'connections', len(c1), len(c2)))
    return out


def oms_causes(case, eq, pre, post, p0, pref, pref_total):
    """known root causes of redesign drift in one OMS: {cls: [(index in `post` from which it acts, size in dB of what one
    redesign can move there)]}"""
    sp = case['span']
    causes = {}
    user = {o['uid']: o for o in pre if o['kind'] == 'edfa'}
    off = p0 - pref
    loss = 0.0
    span = []
    for idx, r in enumerate(post):
        if r['kind'] != 'edfa':
            loss += G.rec_loss(r) - ((r['raman_gain'] or 0.0) if r['kind'] == 'raman' else 0.0)
            span.append((idx, r))
            continue
        a = eq['Edfa'][r['variety']]
        u = user.get(r['uid'])
        u_voa = None if u is None else u['out_voa_user']
        voa_auto = u_voa is None and sp['power_mode'] and bool(a.out_voa_auto)
        if voa_auto and pref_total + r['_delta_p'] > a.p_max + 1e-9:
            # the redesign takes the exported offset back to p_max: by the excess
            causes.setdefault('voa-rounding-above-pmax', []).append((idx, pref_total + r['_delta_p'] - a.p_max))
        # open finding gain-mode-in-voa-saturation (C09): in gain mode the code leaves in_voa out of the saturation
        # estimate; an amplifier whose estimate sits at p_max is reduced again by every redesign
        p_in = pref_total + off - loss - r['in_voa']
        if (not sp['power_mode']) and r['in_voa'] and p_in + r['in_voa'] + r['effective_gain'] > a.p_max - 1e-9:
            causes.setdefault('gain-mode-in-voa-saturation', []).append((idx, float(r['in_voa'])))
        off = r['_delta_p'] - r['out_voa']
        loss = 0.0
        span = []
    if sp['EOL'] != 0:
        first = next((i for i, r in enumerate(post) if r['kind'] in ('fiber', 'raman')), None)
        if first is not None:
            causes.setdefault('K1-eol-redesign-drift', []).append((first, float(sp['EOL'])))
    return causes


def propagate_all(case, eq, net, chains_objs, ends):
    """design comb through every OMS of `net`: list of (signal, ase, nli) arrays at the end of each line"""
    from gnpy.core.info import create_input_spectral_information
    from gnpy.core.utils import dbm2watt
    si_cfg = eq['SI']['default']
    pref, _ = design_constants(case, eq)
    res = []
    for ch, objs in zip(G.all_chains(case), chains_objs):
        if objs is None or any(G.kind_of(o) in ('raman', 'multiband') for o in objs):
            # Raman solver / per-band amplifiers: outside this comparison (counted by the caller)
            res.append(None)
            continue
        p0 = source_power(case, ch, eq, pref)
        si = create_input_spectral_information(f_min=si_cfg.f_min, f_max=si_cfg.f_max, roll_off=si_cfg.roll_off,
                                               baud_rate=si_cfg.baud_rate, tx_power=float(dbm2watt(p0)),
                                               spacing=si_cfg.spacing, tx_osnr=si_cfg.tx_osnr)
        for el in copy.deepcopy(objs):
            si = el(si)
        res.append((np.array(si.signal), np.array(si.ase), np.array(si.nli)))
    return res


def model_round(case, drv, ch, line_model, sels, pref_impl, pref_total, p0, lo, hi, target):
    args = model_chain(case, ch, [], lo, hi, target)
    args['chain']['line'] = line_model
    args.update(span_cfg(case['span']))
    args.update(sels=sels, pref=f2b(pref_impl), pref_total=f2b(pref_total), src_power=f2b(p0), display_power=f2b(p0))
    return drv.ask('c09.design', **args)


_L2_DOC = {}


def polluting_equipment(case):
    """ANOTHER equipment library with the same amplifier names, type_defs and gain ranges as the shipped one but different
    noise figures (the ranking of the std_* amplifiers is reversed), p_max and NF of the other variable-gain models:
    designing under it in the same process must not influence designs under the real library"""
    from gnpy.tools.json_io import _equipment_from_json, DEFAULT_EXTRA_CONFIG
    if 'doc' not in _L2_DOC:
        doc = nets.eqpt_json()
        # a re-characterised library: the low gain amplifier is noisier, the medium gain one better, both weaker
        new = {'std_low_gain': {'nf_min': 9.5, 'nf_max': 14, 'p_max': 22}, 'std_medium_gain': {'nf_min': 5, 'nf_max': 7, 'p_max': 22},
               'high_power': {'nf_min': 10, 'nf_max': 14}}
        for e in doc['Edfa']:
            if e['type_variety'] in new:
                e.update(new[e['type_variety']])
        _L2_DOC['doc'] = doc
    eq = _equipment_from_json(copy.deepcopy(_L2_DOC['doc']), DEFAULT_EXTRA_CONFIG)
    return G.apply_overrides(eq, case)


RENAME = 'r~'       # a common PREFIX: the lexicographic order of the names is unchanged


def renamed_equipment(case):
    """the real library with every amplifier variety renamed (same objects, same order): a design must not depend on
    the NAMES of the library entries"""
    eq = G.equipment_for(case)
    new = {}
    for name, amp in eq['Edfa'].items():
        amp.type_variety = RENAME + name
        new[RENAME + name] = amp
    eq['Edfa'] = new
    return eq


def renamed_topology(case):
    topo = G.topology_json(case)
    for e in topo['elements']:
        if e['type'] == 'Edfa' and e.get('type_variety'):
            e['type_variety'] = RENAME + e['type_variety']
    return topo


def unrename(j):
    j = jcopy(j)
    for e in j['elements']:
        if e.get('type') == 'Edfa' and isinstance(e.get('type_variety'), str) and e['type_variety'].startswith(RENAME):
            e['type_variety'] = e['type_variety'][len(RENAME):]
    return j


FRESH_CODE = '''
import sys, json, copy, logging
sys.path.insert(0, sys.argv[1])
logging.disable(logging.CRITICAL)
from common import designgen as G
from gnpy.tools.json_io import network_from_json, network_to_json
from gnpy.tools.worker_utils import designed_network
case = json.load(sys.stdin)
eq = G.equipment_for(case)
net = network_from_json(copy.deepcopy(G.topology_json(case)), eq)
designed_network(eq, net)
print("@@" + json.dumps(network_to_json(net)))
'''


def fresh_design(case):
    """the exported design of the case made in a fresh interpreter (same gnpy as this process: PYTHONPATH is inherited);
    (export, None) or (None, reason)"""
    import subprocess
    import sys
    harness = os.path.dirname(os.path.dirname(os.path.abspath(__file__)))
    try:
        p = subprocess.run([sys.executable, '-W', 'ignore', '-c', FRESH_CODE, harness], input=json.dumps(case),
                           capture_output=True, text=True, timeout=300, env=dict(os.environ, PYTHONDONTWRITEBYTECODE='1'))
    except subprocess.TimeoutExpired:
        return None, 'timeout'
    for line in p.stdout.splitlines():
        if line.startswith('@@'):
            return json.loads(line[2:]), None
    return None, (p.stderr.strip().splitlines() or ['no output'])[-1][:200]


def run_redesign(case, drv):
    from gnpy.core.parameters import SimParams
    from gnpy.core.utils import watt2dbm, dbm2watt
    from gnpy.tools.json_io import network_to_json, network_from_json
    from gnpy.tools.worker_utils import designed_network
    res = Result()
    SimParams.set_params({})
    chains = G.all_chains(case)
    sp = case['span']
    # a design of the same topology under ANOTHER library (same amplifier names, other noise figures / p_max) comes first
    # in this process: nothing of it may stick
    eq_x = polluting_equipment(case)
    try:
        designed_network(eq_x, network_from_json(copy.deepcopy(G.topology_json(case)), eq_x))
    except Exception:      # noqa: BLE001 - the other library may be unable to design this topology: irrelevant here
        pass
    eq, net = _load(case)
    pre_objs, _ = G.chains_of(net, case)
    pre = [[G.record(n) for n in objs] for objs in pre_objs]
    lo, hi, target = G.split_bounds(sp)
    err, _ = design_impl(case, eq, net)
    if err == 'NetworkTopologyError':
        # a generated lumped loss exactly on a sub-span boundary is rejected by the Fiber constructor (see C08): the C08 model
        # says whether this input is such a case - then it is not a well-formed input
        model_errs = [drv.ask('c08.design', **model_chain(case, ch, recs, lo, hi, target)).get('error')
                      for ch, recs in zip(chains, pre)]
        res.cmp_exact('designed_network.error', err, next((e for e in model_errs if e), None))
        if 'NetworkTopologyError' in model_errs:
            res.stats.update({'redesign': 1, 'lump_on_boundary_rejected': 1})
            return res
    if err is not None:
        cls = raman_estimate_class(case, err)
        res.fail(f'design raised: designed_network failed with {err} on a well-formed topology', cls=cls)
        res.stats.update({'redesign': 1, f'design_error_{err}': 1})
        return res
    j1 = jcopy(network_to_json(net))

    # ---- designing the same input twice (one shared equipment object) gives identical output ---------------------------------
    net_b = network_from_json(copy.deepcopy(G.topology_json(case)), eq)
    try:
        designed_network(eq, net_b)
        j1b = jcopy(network_to_json(net_b))
        if j1b != j1:
            d = json_diffs(j1, j1b, tol=0.0)
            res.fail(f'twice: a second design of the same input differs: {d[:3]}')
    except Exception as e:      # noqa: BLE001
        res.fail(f'twice: a second design of the same input raised {err_kind(e)}')

    # ---- a what-if design with a power override on the SAME library object in between (the --power option), then the
    # same input once more with that library object
    try:
        try:
            designed_network(eq, network_from_json(copy.deepcopy(G.topology_json(case)), eq),
                             args_power=float(eq['SI']['default'].power_dbm) + case.get('override', 1.5))
        except Exception:      # noqa: BLE001 - the what-if design itself is not judged here
            pass
        net_w = network_from_json(copy.deepcopy(G.topology_json(case)), eq)
        designed_network(eq, net_w)
        jw = jcopy(network_to_json(net_w))
        if jw != j1:
            d = json_diffs(j1, jw, tol=0.0)
            res.fail(f'twice: the same input designed again with the same library object after a design with a power '
                     f'override differs: {d[:3]}')
    except Exception as e:      # noqa: BLE001
        res.fail(f'twice: designing the same input again after a design with a power override raised {err_kind(e)}')

    # ---- another design under the other library in between, then the same input under a fresh copy of the real library
    eq_x = polluting_equipment(case)
    try:
        designed_network(eq_x, network_from_json(copy.deepcopy(G.topology_json(case)), eq_x))
    except Exception:      # noqa: BLE001
        pass
    try:
        eq_c = G.equipment_for(case)
        net_c = network_from_json(copy.deepcopy(G.topology_json(case)), eq_c)
        designed_network(eq_c, net_c)
        jc = jcopy(network_to_json(net_c))
        if jc != j1:
            d = json_diffs(j1, jc, tol=0.0)
            res.fail(f'twice: the same input designed again after a design under another library differs: {d[:3]}')
    except Exception as e:      # noqa: BLE001
        res.fail(f'twice: designing the same input again under a fresh copy of the library raised {err_kind(e)}')
    # ... and in a fresh interpreter (nothing designed before in that process): identical to the design made here, after
    # designs under another library in this process
    if case.get('fresh'):
        jf, why = fresh_design(case)
        res.stats['fresh_process_designs'] = 1
        if jf is None:
            res.fail(f'twice: the same input cannot be designed in a fresh interpreter: {why}')
        elif jf != j1:
            d = json_diffs(jf, j1, tol=0.0)
            res.fail(f'twice: the same input designed in a fresh interpreter differs from the design made in this process '
                     f'(after designs under another library): {d[:3]}')
    # the same input under the real library with every amplifier variety RENAMED (a common prefix: the order of the names is
    # kept) - the statement does not promise independence of the names, so a difference is reported on the correspondence
    # side (the first design standing for the model), not as a property failure
    if not case.get('eqpt'):
        try:
            eq_r = renamed_equipment(case)
            net_r = network_from_json(copy.deepcopy(renamed_topology(case)), eq_r)
            designed_network(eq_r, net_r)
            jr = unrename(network_to_json(net_r))
            res.compared += 1
            if jr != j1:
                d = json_diffs(j1, jr, tol=0.0)
                res.mismatch('design under the renamed library (names only)', str(d[:3]), 'equal to the first design')
        except Exception as e:      # noqa: BLE001
            res.mismatch('design under the renamed library (names only)', f'{err_kind(e)}: {str(e)[:100]}',
                         'equal to the first design')

    si = eq['SI']['default']
    pref_impl = float(watt2dbm(dbm2watt(si.power_dbm)))
    pref, nch = design_constants(case, eq)
    # the design load of each OMS: the SI count when it is imposed, else the count of the OMS's own design band (as in C09)
    bands = [G.design_band_of(case, ch, eq) for ch in chains]
    pref_totals = [pref + 10 * math.log10(nch if si.use_si_channel_count_for_design else int((b[1] - b[0]) // b[2]))
                   for b in bands]
    # export/reload keeps the design bands of every ROADM (Roadm.to_json writes them whenever the user gave any): the
    # redesign counts the same design load
    pref_totals2 = pref_totals
    post_objs, ends = G.chains_of(net, case)
    post1 = [[G.record(n) for n in objs] for objs in post_objs]
    causes = [oms_causes(case, eq, pre[i], post1[i], source_power(case, ch, eq, pref), pref, pref_totals[i])
              for i, ch in enumerate(chains)]

    owner = {}
    rank = {}
    for i, recs in enumerate(post1):
        n_amp = 0
        for k, r in enumerate(recs):
            owner[r['uid']] = (i, k)
            n_amp += int(r['kind'] == 'edfa')
            rank[r['uid']] = n_amp
    prop1 = propagate_all(case, eq, net, post_objs, ends)

    # ---- export / reload / redesign rounds -----------------------------------------------------------------------------------
    skipped = {'oms_propagation_not_compared': 0, 'model_round_skipped_chain_lost': 0, 'oms_not_modelled_multiband': 0}
    jk, netk, postk = j1, net, post1
    known_drift = [dict() for _ in chains]      # per OMS: {known class: summed |drift| in dB of the differences it explains}
    rounds_done = 0
    all_post = [post1]
    for rnd in range(case['rounds']):
        eq2 = G.equipment_for(case)
        try:
            net2 = network_from_json(jcopy(jk), eq2)
            designed_network(eq2, net2)
        except Exception as e:      # noqa: BLE001
            # gain mode exports delta_p = None: an amplifier in front of a RamanFiber then needs the slope rule, i.e. the
            # Raman span loss before its gain is estimated (finding raman-gain-before-estimate)
            cls = 'raman-gain-before-estimate' if (err_kind(e) == 'TypeError' and case.get('has_raman')
                                                   and not sp['power_mode']) else 'unlisted'
            res.fail(f'reload: round {rnd + 1}: the exported design cannot be loaded and designed again: {err_kind(e)}: '
                     f'{str(e)[:120]}', cls=cls)
            break
        j2 = jcopy(network_to_json(net2))
        rounds_done += 1
        diffs = json_diffs(jk, j2, rank=rank)
        post2_objs, ends2 = G.chains_of(net2, case)
        post2 = [[G.record(n) for n in objs] if objs is not None else None for objs in post2_objs]
        all_post.append(post2)
        for (u, path, v1, v2) in diffs:
            cls = classify_diff(case, u, path, v1, v2, owner, causes, postk, JTOL * (1 + rank.get(u, 0)), post2)
            if cls != 'unlisted' and u in owner:
                known_drift[owner[u][0]][cls] = known_drift[owner[u][0]].get(cls, 0.0) + abs(v2 - v1)
            res.fail(f'drift: round {rnd + 1}: {u} {path}: {v1} -> {v2}', cls=cls, uid=u)
        jk, netk, postk = j2, net2, post2
    # equal propagation results of the first and the last design
    if rounds_done:
        postl_objs, endsl = G.chains_of(netk, case)
        propl = propagate_all(case, G.equipment_for(case), netk, postl_objs, endsl)
        for i, (a, b) in enumerate(zip(prop1, propl)):
            if a is None or b is None:
                skipped['oms_propagation_not_compared'] += 1
                continue
            dev = max(float(np.max(np.abs(x - y) / np.maximum(np.abs(x), 1e-30))) for x, y in zip(a, b))
            if dev > 1e-5:
                # known only when no larger than what the known drifts of this OMS can do to the received powers: the
                # signal moves by at most their sum S (dB), the ASE by 2 S (gain and noise figure), the NLI by 3 S (cubic)
                S = sum(known_drift[i].values())
                devs = [float(np.max(np.abs(x - y) / np.maximum(np.abs(x), 1e-30))) for x, y in zip(a, b)]
                with np.errstate(divide='ignore', invalid='ignore'):
                    dbs = [float(10 * np.log10(1 + d)) for d in devs]
                within = S > 0 and all(d <= f * S + 1e-3 for d, f in zip(dbs, (1, 2, 3)))
                cls = max(known_drift[i], key=known_drift[i].get) if within else 'unlisted'
                res.fail(f'propagation: OMS {chains[i]["src"]}->{chains[i]["dst"]}: received signal/ASE/NLI differ by '
                         f'{dev:.3e} (relative) between the first design and the design after {rounds_done} '
                         f'export/reload/redesign round(s) (signal/ASE/NLI {[round(d, 4) for d in dbs]} dB, known drifts of '
                         f'this OMS sum to {S:.4f} dB)', cls=cls)

    # ---- model: round 1, export, round 2 ----------------------------------------------------------------------------------------
    n_auto = 0
    if rounds_done and not all(p is not None for p in all_post[1]):
        skipped['model_round_skipped_chain_lost'] += 1
        res.fail('chain lost: a line of the redesigned network cannot be followed from its source to its destination')
    elif rounds_done:
        post2 = all_post[1]
        for i, ch in enumerate(chains):
            if any(r['kind'] == 'multiband' for r in post1[i]) or any(r['kind'] == 'multiband' for r in post2[i]):
                # per-band amplifiers are outside the C09 model: monitor only (export equality above)
                skipped['oms_not_modelled_multiband'] += 1
                n_auto += sum(1 for r in post1[i] if r['kind'] == 'multiband')
                continue
            recs = copy.deepcopy(pre[i])
            gains1 = {G.base_uid(r['uid']): r['raman_gain'] for r in post1[i] if r['kind'] == 'raman'}
            for r in recs:
                if r['kind'] == 'raman':
                    r['raman_gain'] = gains1.get(r['uid'])
                if r['kind'] == 'edfa' and (r['variety'] == '' or r['gain_target'] is None):
                    n_auto += 1
            n_auto += sum(1 for r in post1[i] if r['kind'] == 'edfa') - sum(1 for r in recs if r['kind'] == 'edfa')
            amps1 = [r for r in post1[i] if r['kind'] == 'edfa']
            sels = [{'p_max': f2b(eq['Edfa'][r['variety']].p_max), 'gain_flatmax': f2b(eq['Edfa'][r['variety']].gain_flatmax),
                     'out_voa_auto': bool(eq['Edfa'][r['variety']].out_voa_auto)} for r in amps1]
            p0 = source_power(case, ch, eq, pref_impl)
            a1 = model_round(case, drv, ch, [G.elem_model(r) for r in recs], sels, pref_impl, pref_totals[i], p0, lo, hi, target)
            if 'error' in a1:
                res.mismatch('round1.error', None, a1['error'])
                continue
            exported = drv.ask('c17.export', line=a1['line'], outs=[o['o'] for o in a1['outs']],
                               varieties=[r['variety'] for r in amps1])
            gains2 = {r['uid']: r['raman_gain'] for r in post2[i] if r['kind'] == 'raman'}
            for e in exported:
                if e['kind'] == 'fiber' and e['raman']:
                    g = gains2.get(e['uid'])
                    e['raman_gain'] = None if g is None else f2b(g)
            a2 = model_round(case, drv, ch, exported, sels, pref_impl, pref_totals2[i], p0, lo, hi, target)
            tag = f'round2.oms[{ch["src"]}->{ch["dst"]}]'
            if 'error' in a2:
                res.mismatch(f'{tag}.error', None, a2['error'])
                continue
            impl_k = [(('fiber' if r['kind'] == 'raman' else r['kind']), r['uid']) for r in post2[i]]
            mod_k = [(e['kind'], e['uid']) for e in a2['line']]
            if not res.cmp_exact(f'{tag}.elements', impl_k, mod_k):
                continue
            for r, e in zip(post2[i], a2['line']):
                if e['kind'] == 'fiber':
                    res.cmp_floats(f'{tag}.fiber(length,loss_coef,att_in,con_in,con_out)',
                                   [r['length'], r['loss_coef'], r['att_in'], r['con_in'], r['con_out']],
                                   [b2f(e['length']), b2f(e['loss_coef']), b2f(e['att_in']), b2f(e['con_in']),
                                    b2f(e['con_out'])], abs_=1e-9, uid=r['uid'])
            amps2 = [r for r in post2[i] if r['kind'] == 'edfa']
            skip = False
            # round 1 of the model stands in for the first design: where ITS rounding of a power offset / VOA sat on a tie
            # (distance of the rounded quotient to the boundary < 1e-9) the two first designs may legitimately have fallen on
            # different sides, and everything exported from there on differs by a rounding step
            m1 = [b2f(x['o']['margin']) for x in a1['outs']]
            for t, (r, om) in enumerate(zip(amps2, a2['outs'])):
                o = om['o']
                if skip:
                    res.ill += 1
                    continue
                impl = [r['effective_gain'], r['_delta_p'], r['out_voa'], r['in_voa']]
                mod = [b2f(o['gain']), b2f(o['dp_int']), b2f(o['out_voa']), b2f(o['in_voa'])]
                # the exported gain is rounded to 6 digits on both sides; rounding ties are class D
                if not close_list(impl, mod, 1e-9, 2e-6):
                    if b2f(o['margin']) < 1e-6 or min(m1[:t + 1], default=1.0) < 1e-9:
                        res.ill += 1
                        res.stats['round1_rounding_tie_not_comparable'] += 1
                        skip = True
                        continue
                res.cmp_floats(f'{tag}.amp(effective_gain,_delta_p,out_voa,in_voa)', impl, mod, abs_=2e-6, uid=r['uid'])

    res.nontrivial = rounds_done > 0 and n_auto > 0
    res.stats.update({'redesign': 1, f'rounds_{rounds_done}': 1, 'eol_nonzero': int(sp['EOL'] != 0),
                      'power_mode': int(sp['power_mode']), 'with_raman': int(bool(case.get('has_raman'))),
                      'auto_settings': n_auto,
                      'oms_with_known_cause': sum(1 for c in causes if c),
                      'multiband_cases': int(bool(case.get('eqpt'))), 'gain_window_cases': int(case.get('shape') == 'gain-window'),
                      'with_lumped_or_att_in': int(any(e['type'] == 'Fiber' and (e['params'].get('lumped_losses') or
                                                                                e['params'].get('att_in'))
                                                       for ch in chains for e in ch['line']))})
    res.stats.update(skipped)
    return res


def classify_diff(case, uid, path, v1, v2, owner, causes, postk, tol, postn=None):
    """a JSON difference is a known finding only if its own specific condition holds AND its size is what that finding can
    produce; everything else is unlisted"""
    sp = case['span']
    if uid not in owner:
        return 'unlisted'
    i, k = owner[uid]
    cs = causes[i]
    recs = postk[i]
    if recs is None or k >= len(recs):
        return 'unlisted'
    numeric = isinstance(v1, (int, float)) and isinstance(v2, (int, float))
    if not numeric:
        return 'unlisted'
    # the per-band amplifiers of a Multiband_amplifier carry the same settings under amplifiers.<n>.
    path = re.sub(r'^amplifiers\.\d+\.', '', path)
    # the span in front of element k (for an amplifier: the span it closes; for a fibre: the span it belongs to)
    j = k - 1
    while j >= 0 and recs[j]['kind'] not in ('edfa', 'multiband'):
        j -= 1
    e = k if recs[k]['kind'] in ('edfa', 'multiband') else k + 1
    while e < len(recs) and recs[e]['kind'] not in ('edfa', 'multiband'):
        e += 1
    span = recs[j + 1:e]
    n_eol = sum(1 for x, nx in zip(span, span[1:] + [{'kind': 'end'}])
                if x['kind'] in ('fiber', 'raman') and nx['kind'] != 'fused')
    raman = any(x['kind'] == 'raman' for x in span)
    k1 = 'K1-eol-redesign-drift' in cs and sp['EOL'] != 0
    # K1: every round adds EOL to con_out of each fibre that is not followed by a Fused
    if k1 and path == 'params.con_out':
        nxt = recs[k + 1]['kind'] if k + 1 < len(recs) else 'end'
        exp = 0.0 if nxt == 'fused' else sp['EOL']
        return 'K1-eol-redesign-drift' if abs((v2 - v1) - exp) <= 1e-9 and exp != 0.0 else 'unlisted'
    # what the other known causes can move: up to this element, and up to the amplifier that opens this span
    REACH = ('voa-rounding-above-pmax', 'gain-mode-in-voa-saturation')
    reach = {c: sum(m for at, m in cs[c] if at <= k) for c in REACH if c in cs}
    # for the gain of amplifier k: its own and every upstream cause
    r_up = sum(m for c in REACH if c in cs for at, m in cs[c] if at <= k)
    # the gain of the amplifier that closes a span follows the span loss (offsets and VOAs are exported, hence kept): up by
    # EOL per fibre of the span that got it (K1) - plus what arrives from this amplifier's own and from upstream causes
    if path == 'operational.gain_target' and recs[k]['kind'] in ('edfa', 'multiband') and k1:
        exp = sp['EOL'] * n_eol
        if raman and postn is not None and postn[i] is not None and len(postn[i]) == len(recs):
            # a Raman span: the pumps enter through the output connector, the estimated Raman gain of the redesign (an
            # input of this check, as for the model) moved with it
            exp -= sum((y['raman_gain'] or 0.0) - (x['raman_gain'] or 0.0)
                       for x, y in zip(recs[j + 1:e], postn[i][j + 1:e]) if x['kind'] == 'raman')
        # (the estimated gain is kept to 2 decimals)
        if exp != 0.0 and abs((v2 - v1) - exp) <= tol + (0.03 if raman else 0.0) + r_up:
            return 'K1-eol-redesign-drift'
    # downstream of a known cause a setting can move by no more than what the causes up to there move (offsets
    # taken back to p_max, gains cut again by in_voa, the following amplifier making up for it)
    if path in ('operational.gain_target', 'operational.delta_p') and reach and 0 < abs(v2 - v1) <= sum(reach.values()) + tol:
        return max(reach, key=reach.get)
    return 'unlisted'


# ---------------------------------------------------------------------------------------------------------------------
# SimParams
# ---------------------------------------------------------------------------------------------------------------------

def sim_snapshot():
    from gnpy.core.parameters import SimParams
    return {k: copy.deepcopy(v.to_json()) for k, v in SimParams._shared_dict.items()}


def sim_attrs():
    """every attribute of the two parameter objects (not only what to_json exports)"""
    from gnpy.core.parameters import SimParams
    return {k: copy.deepcopy(dict(vars(v))) for k, v in SimParams._shared_dict.items()}


def to_model_raman(d):
    return {'flag': bool(d['flag']), 'method': d['method'], 'order': int(d['order']),
            'result_spatial_resolution': f2b(d['result_spatial_resolution']),
            'solver_spatial_resolution': f2b(d['solver_spatial_resolution'])}


def to_model_nli(d):
    return {'method': d['method'], 'dispersion_tolerance': f2b(d['dispersion_tolerance']),
            'phase_shift_tolerance': f2b(d['phase_shift_tolerance']), 'computed_channels': d['computed_channels'],
            'computed_number_of_channels': d['computed_number_of_channels']}


def from_model_state(s):
    r, n = s['raman_params'], s['nli_params']
    return {'raman_params': {'flag': r['flag'], 'method': r['method'], 'order': r['order'],
                             'result_spatial_resolution': b2f(r['result_spatial_resolution']),
                             'solver_spatial_resolution': b2f(r['solver_spatial_resolution'])},
            'nli_params': {'method': n['method'], 'dispersion_tolerance': b2f(n['dispersion_tolerance']),
                           'phase_shift_tolerance': b2f(n['phase_shift_tolerance']),
                           'computed_channels': n['computed_channels'],
                           'computed_number_of_channels': n['computed_number_of_channels']}}


RAMAN_ON = {'flag': True, 'method': 'perturbative', 'order': 2, 'result_spatial_resolution': 50e3,
            'solver_spatial_resolution': 100}


def run_simparams(case, drv):
    import gnpy.core.network as NW
    from gnpy.core.parameters import SimParams, RamanParams, NLIParams
    from gnpy.core.science_utils import RamanSolver
    res = Result()
    prior = case['prior']
    defaults = {'raman_params': RamanParams().to_json(), 'nli_params': NLIParams().to_json()}
    seen = []
    orig = RamanSolver.calculate_stimulated_raman_scattering

    def spy(spectral_info, fiber):
        seen.append(sim_snapshot())
        return orig(spectral_info, fiber)
    try:
        SimParams.set_params(copy.deepcopy(prior))
        before = sim_snapshot()
        before_attrs = sim_attrs()
        eq, net = _load(case)
        n_raman = sum(1 for n in net.nodes() if G.kind_of(n) == 'raman')
        RamanSolver.calculate_stimulated_raman_scattering = staticmethod(spy)
        err, _ = design_impl(case, eq, net)
        after = sim_snapshot()
        after_attrs = sim_attrs()
    finally:
        RamanSolver.calculate_stimulated_raman_scattering = staticmethod(orig)
        SimParams.set_params({})
    estimated = sum(1 for n in net.nodes() if G.kind_of(n) == 'raman' and hasattr(n, 'estimated_gain'))
    # ---- model ----------------------------------------------------------------------------------------------------
    full_r = dict(defaults['raman_params'])
    full_r.update(prior.get('raman_params', {}))
    full_n = dict(defaults['nli_params'])
    full_n.update(prior.get('nli_params', {}))
    ans = drv.ask('c17.simparams', default_nli=to_model_nli(defaults['nli_params']),
                  default_raman=to_model_raman(defaults['raman_params']),
                  prior_nli=to_model_nli(full_n) if 'nli_params' in prior else None,
                  prior_raman=to_model_raman(full_r) if 'raman_params' in prior else None,
                  raman_on=to_model_raman(RAMAN_ON), estimations=estimated)
    res.cmp_exact('SimParams.set_params(prior)', before, from_model_state(ans['before']))
    if err is None:
        res.cmp_exact('SimParams after designed_network', after, from_model_state(ans['after']))
    during_model = from_model_state(ans['during'])
    other = [s for s in seen if s != before]
    if estimated:
        res.cmp_exact('SimParams during estimate_raman_gain', other[0] if other else None,
                      during_model if during_model != before else None)
    # ---- monitor: left exactly as found -----------------------------------------------------------------------------------
    if err is not None:
        cls = raman_estimate_class(case, err)
        res.fail(f'design raised: designed_network failed with {err}', cls=cls)
    if after != before:
        res.fail(f'SimParams: designed_network left {after}, found {before}')
    elif after_attrs != before_attrs:
        res.fail(f'SimParams: attributes changed from {before_attrs} to {after_attrs}')
    res.nontrivial = estimated > 0 and bool(prior)
    res.stats.update({'simparams': 1, 'raman_fibres': n_raman, 'raman_estimated': estimated,
                      'prior_raman_flag': int(bool(prior.get('raman_params', {}).get('flag'))),
                      'prior_nondefault': int(before != defaults), 'solver_calls_seen': len(seen)})
    return res


def run_malformed(case, drv):
    """export a design, delete one line element from the document (keeping its connections): the reload must be
    rejected with NetworkTopologyError"""
    from gnpy.core.parameters import SimParams
    from gnpy.tools.json_io import network_to_json, network_from_json
    res = Result()
    SimParams.set_params({})
    eq, net = _load(case)
    err, _ = design_impl(case, eq, net)
    if err is not None:
        res.fail(f'design raised: designed_network failed with {err} on a well-formed topology')
        return res
    j = jcopy(network_to_json(net))
    line = [e for e in j['elements'] if e['type'] in ('Fiber', 'Fused', 'Edfa')]
    victim = line[int(case['drop'] * len(line)) % len(line)]['uid']
    j['elements'] = [e for e in j['elements'] if e['uid'] != victim]
    try:
        network_from_json(jcopy(j), G.equipment_for(case))
        got = None
    except Exception as e:      # noqa: BLE001
        got = err_kind(e)
    ans = drv.ask('c17.reload', uids=[e['uid'] for e in j['elements']],
                  connections=[[c['from_node'], c['to_node']] for c in j['connections']])
    res.cmp_exact('network_from_json.error(malformed)', got, ans.get('error'))
    # monitor: the document must be rejected; WHICH error it is rejected with is compared with the model above
    if got is None:
        res.fail(f'malformed accepted: document without element {victim} (still connected) was loaded')
    res.nontrivial = True
    res.stats.update({'malformed': 1, f'malformed_error_{got}': 1})
    return res


def shrink_candidates(case):
    if case['kind'] == 'trxline':
        if len(case['spans']) > 1:
            yield dict(case, spans=case['spans'][:-1])
        if case['rounds'] > 1:
            yield dict(case, rounds=1)
        return
    if case['kind'] == 'malformed':
        for c in G.shrink_candidates(case):
            c['kind'] = 'malformed'
            c['drop'] = case['drop']
            yield c
        return
    for c in G.shrink_candidates(case):
        c['kind'] = case['kind']
        if case['kind'] == 'redesign':
            c['rounds'] = case['rounds']
            yield c
            if case['rounds'] > 1:
                c2 = copy.deepcopy(c)
                c2['rounds'] = 1
                yield c2
        else:
            c['prior'] = case['prior']
            yield c
    if case['kind'] == 'redesign' and case['rounds'] > 1:
        c = copy.deepcopy(case)
        c['rounds'] = 1
        yield c
    if case['kind'] == 'simparams':
        for key in list(case['prior']):
            c = copy.deepcopy(case)
            del c['prior'][key]
            yield c
