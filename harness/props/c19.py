"""C19 — the reported response states exactly what was computed for each request.

Correspondence: planning() on generated batches with every outcome kind -> ResultElement.json of every result vs
Gnpy.Response.pathResult (exact; class D for the 2-decimal roundings), requests_aggregation vs requestsAggregation,
jsontocsv vs csvRow.  Inputs of the model: the request objects as planning left them, the propagated paths, the receivers.
Monitor: every reported field is compared with the object it must come from (forward vs reverse receiver, selected mode,
assigned N/M), ids/bandwidths with the request documents, the CSV with the response and the library.
"""
import copy
import csv
import io
import math

import numpy as np

from common.util import Result, f2b, b2f, fl, err_kind
from common import nets, nets_g, batch_g

ID = 'C19'
N = {'quick': 320, 'thorough': 9000}
LEAN_MODULES = ['GnpyProofs.Props.C19']
THEOREMS = [f'Gnpy.Response.{t}' for t in (
    'one_response_per_request', 'pathResult_id', 'aggregation_spec', 'aggregation_exactly_once',
    'blocked_nopath_shape', 'blocked_shape', 'hopObjs_no_labels', 'served_shape', 'hopObjs_transponder',
    'bidir_has_both', 'metrics_are_receiver_values', 'csv_consistent', 'csv_pass_iff', 'csv_nopath_row',
    'aggStep_inv', 'absorbInto_split', 'requestsAggregationD_nil')] + ['Gnpy.HE.abs_round2_sub_le']
RULE = ('one PRNG; a case = a random mesh of 3-5 ROADM sites (direction-asymmetric spans) plus an unreachable island, a '
        'generated library (feasible, infeasible and wide-band transceivers, optional penalties and offsets) and a batch '
        'of 2-8 requests drawn from the kinds fixed / auto / hard (MODE_NOT_FEASIBLE) / autohard (NO_FEASIBLE_MODE) / narrow '
        '(NO_FEASIBLE_BAUDRATE_WITH_SPACING) / nopath / constraint / loose include / huge (NO_SPECTRUM) / reserved '
        '(NOT_ENOUGH_RESERVED_SPECTRUM) / multislot / dup (identical -> aggregated) / dense / saturating, ~35 % '
        'bidirectional; 10 % of the cases are malformed batches (duplicate id, unknown transceiver, unknown node) that must be '
        'rejected. Non-trivial: at least two different outcome kinds or an aggregation in the batch')
MODEL_SCOPE = ('modelled: ResultElement.detailed_path_json/path_properties/pathresult, get_penalty_from_receiver, '
               'results_to_json, requests_aggregation + compare_reqs (without and with disjunctions: same_disj, id replacement and '
               'renaming of the absorbing request in the disjunctions), jsontocsv with _jsontoparams/_jsontopath_metric/'
               '_get_srce_dest_trx/read_property. Inputs: request objects after planning, propagated paths, receiver arrays')
PARTIAL = []

REV_FIELDS = ('reversed path OSNR-0.1nm (average)', 'reversed path SNR-0.1nm (average)',
              'reversed path SNR-bandwidth (average)', 'reversed path SNR-0.1nm (min)', 'reversed path SNR-0.1nm (max)',
              'reversed path PDL_penalty', 'reversed path CD_penalty', 'reversed path PMD_penalty')
NOPATH = ('NO_PATH', 'NO_PATH_WITH_CONSTRAINT', 'NO_FEASIBLE_BAUDRATE_WITH_SPACING', 'NO_COMPUTED_SNR')


def gen(rng, tier, widen=False):
    case = batch_g.gen_batch(rng, tier)
    case['malformed'] = None
    if rng.random() < 0.15:
        _tie_case(rng, case)
        return case
    if rng.random() < 0.10:
        t = rng.choice(['dup_id', 'unknown_trx', 'unknown_node', 'strict_unknown_include'])
        case['malformed'] = t
        r = rng.choice(case['requests'])
        if t == 'dup_id' and len(case['requests']) > 1:
            other = rng.choice([x for x in case['requests'] if x is not r])
            r['id'] = other['id']
        elif t == 'dup_id':
            case['malformed'] = None
        elif t == 'unknown_trx':
            r['type'] = 'nope'
        elif t == 'unknown_node':
            r['dst'] = 99
        else:
            r['include'], r['strict'] = ['roadm nowhere'], True
    return case


def _tie_case(rng, case):
    """a served fixed-mode request whose reported lowest SNR (2 decimals) EQUALS mode OSNR + margin exactly (or sits 0.01 dB on
    either side): the verdict accepts equality, so JSON (labels, no reason) and CSV (Pass? True) must agree at the tie.
    The library OSNR is calibrated on the request computed alone (absolute value stored in the case)."""
    n = case['n']
    r0 = batch_g.gen_request(rng, case['requests'][0]['id'], 'fixed', n, [])
    r0['mode'], r0['spacing'], r0['nm'] = 'm100', 50e9, None
    case['requests'][0] = r0
    case['lib']['penalties'] = False
    case['tie'] = None
    try:
        ctx = batch_g.build(case)
        res = batch_g.run_planning(ctx, [r0])
        j = batch_g.norm(res[5][0].json)
        props = j.get('path-properties') or j['no-path']['path-properties']
        low = next(x['accumulative-value'] for x in props['path-metric'] if x['metric-type'] == 'lowest_SNR-0.1nm')
        margin = case['lib']['margin']
        d = rng.choice([0.0, 0.0, 0.01, -0.01])
        osnr = low - margin
        if d == 0.0:
            for _ in range(4):      # the float whose sum with the margin is exactly the reported value
                if osnr + margin == low:
                    break
                osnr = math.nextafter(osnr, math.inf if osnr + margin < low else -math.inf)
        else:
            osnr = round(low - margin + d, 2)
        case['lib']['osnr']['m100'] = osnr
        case['tie'] = {'lowest': low, 'd': d}
    except Exception:      # noqa: BLE001  calibration is best effort: the case stays an ordinary batch
        pass


def _recv_json(rx):
    n = len(rx.snr)
    pens = []
    for name, arr in rx.penalties.items():
        vals = [float(x) for x in np.broadcast_to(arr, (n,))]
        pens.append({'name': name, 'values': [None if math.isinf(v) else f2b(v) for v in vals]})
    return {'snr': fl(rx.snr), 'snr_01nm': fl(rx.snr_01nm), 'osnr_ase': fl(rx.osnr_ase),
            'osnr_ase_01nm': fl(rx.osnr_ase_01nm), 'penalties': pens}


def _req_json(rq):
    return {'id': rq.request_id, 'bidir': bool(rq.bidir), 'tsp': rq.tsp, 'tsp_mode': rq.tsp_mode,
            'blocking': getattr(rq, 'blocking_reason', None),
            'N': None if rq.N is None else [None if x is None else int(x) for x in rq.N],
            'M': None if rq.M is None else [None if x is None else int(x) for x in rq.M],
            'power': f2b(rq.power), 'path_bandwidth': f2b(rq.path_bandwidth)}


def _rnd(x):
    return nets_g.round2(x)


def _near_tie(x):
    y = x * 100
    return abs(y - math.floor(y) - 0.5) < 1e-4


def _indep_metrics(rx, power, bw):
    """the eleven metrics recomputed from the receiver arrays with plain arithmetic: {metric-type: (value, ill)} where ill marks a
    2-decimal rounding that sits on a tie (that metric only is not judged)"""
    def avg(a):
        v = math.fsum(float(x) for x in a) / len(a)
        return _rnd(v), _near_tie(v)

    def ext(f, a):
        v = f(float(x) for x in a)
        return _rnd(v), _near_tie(v)

    def pen(name):
        if name not in rx.penalties:
            return 'not evaluated', False
        a = [float(x) for x in np.broadcast_to(rx.penalties[name], (len(rx.snr),))]
        if any(math.isinf(x) for x in a):
            return 'Infinity', False
        v = math.fsum(a) / len(a)
        return _rnd(v), _near_tie(v)
    return {'SNR-bandwidth': avg(rx.snr), 'SNR-0.1nm': avg(rx.snr_01nm), 'OSNR-bandwidth': avg(rx.osnr_ase),
            'OSNR-0.1nm': avg(rx.osnr_ase_01nm), 'lowest_SNR-0.1nm': ext(min, rx.snr_01nm),
            'biggest_SNR-0.1nm': ext(max, rx.snr_01nm), 'PDL_penalty': pen('pdl'),
            'CD_penalty': pen('chromatic_dispersion'), 'PMD_penalty': pen('pmd'), 'reference_power': (power, False),
            'path_bandwidth': (bw, False)}


def _metric_eq(a, b):
    if isinstance(a, str) or isinstance(b, str):
        return a == b
    return abs(float(a) - float(b)) <= 1e-9


def run(case, drv):
    from gnpy.core.elements import Transceiver
    from gnpy.core.exceptions import ServiceError, EquipmentConfigError
    from gnpy.tools.json_io import results_to_json
    from gnpy.topology.request import jsontocsv, requests_aggregation
    res = Result()
    ctx = batch_g.build(case)
    eq, net = ctx['eq'], ctx['net']
    reqs = case['requests']
    mal = case.get('malformed')
    exp_err = {'dup_id': 'ValueError', 'unknown_trx': 'EquipmentConfigError', 'unknown_node': 'ServiceError',
               'strict_unknown_include': 'ServiceError'}.get(mal)
    try:
        oms_list, pp, rpp, rqs, dsjn, result = batch_g.run_planning(ctx, reqs)
        impl_err = None
    except (ServiceError, EquipmentConfigError, ValueError) as e:
        impl_err = err_kind(e)
    model_err = drv.ask('c19.batch_check', trx_known=[r['type'] in eq['Transceiver'] for r in reqs], ids=[r['id'] for r in reqs],
                        endpoints_known=[r['dst'] <= case['n'] + 1 and r['src'] <= case['n'] + 1 for r in reqs],
                        strict_unknown_include=[bool(r['include']) and r['strict'] and any(
                            x not in {n.uid for n in net.nodes()} for x in r['include']) for r in reqs])
    res.cmp_exact('planning.error_kind', impl_err, model_err)
    # monitor: accepted vs rejected only (the error KIND is correspondence)
    if (impl_err is None) != (exp_err is None):
        res.fail(f'batch check: a batch with {mal or "valid"} requests was {"accepted" if impl_err is None else "rejected (" + impl_err + ")"}, '
                 f'must be {"accepted" if exp_err is None else "rejected"}')
    res.stats.update({'batches': 1, f'batch_{impl_err or "accepted"}': 1})
    if impl_err or exp_err:
        res.nontrivial = True
        return res
    impl, json_errors = [], []
    for r, rq in zip(result, rqs):
        try:
            impl.append(batch_g.norm(r.json))
        except Exception as e:   # noqa: BLE001  the property demands a response for every request
            impl.append({'error': err_kind(e)})
            json_errors.append((rq.request_id, err_kind(e), getattr(rq, 'blocking_reason', None), rq.N, rq.M))
    # ---- correspondence: aggregation -----------------------------------------------------------------------------------------
    from gnpy.tools.json_io import requests_from_json
    from gnpy.topology.request import correct_json_route_list
    fresh = correct_json_route_list(net, requests_from_json({'path-request': [batch_g.req_doc(r) for r in reqs]}, eq))
    keyf = lambda q: batch_g.canon([q.source, q.destination, q.tsp, q.tsp_mode, q.baud_rate, q.nodes_list, q.loose_list,  # noqa: E731
                                    q.spacing, q.power, q.nb_channel, q.f_min, q.f_max, q.format, q.OSNR, q.roll_off,
                                    q.tx_power, bool(q.bidir)])
    agg_in = [{'id': q.request_id, 'key': keyf(q), 'has_mode': q.tsp_mode is not None, 'bw': f2b(q.path_bandwidth),
               'N': [None if x is None else int(x) for x in q.N], 'M': [None if x is None else int(x) for x in q.M]}
              for q in fresh]
    agg_impl, _ = requests_aggregation(fresh, [])
    agg_model = drv.ask('c19.aggregation', requests=agg_in)
    res.cmp_exact('requests_aggregation', [[q.request_id, float(q.path_bandwidth), list(q.N), list(q.M)] for q in agg_impl],
                  [[m['id'], b2f(m['bw']), m['N'], m['M']] for m in agg_model])
    res.cmp_exact('planning.request_ids', [q.request_id for q in rqs], [m['id'] for m in agg_model])
    _aggregation_with_disjunctions(res, drv, case, eq, net, reqs, keyf)
    # ---- correspondence: responses -------------------------------------------------------------------------------------------
    args = []
    for rq, p, rp in zip(rqs, pp, rpp):
        args.append({'req': _req_json(rq), 'path': [{'uid': e.uid, 'is_trx': isinstance(e, Transceiver)} for e in p],
                     'fwd': _recv_json(p[-1]) if p else None, 'rev': _recv_json(rp[-1]) if rp else None})
    ans = drv.ask('c19.results', results=args)
    ill_rows = set()
    for i, (a, j) in enumerate(zip(ans, impl)):
        if 'error' in a or 'error' in j:
            res.cmp_exact('ResultElement.json.error_kind', j.get('error'), a.get('error'), index=i)
            continue
        if b2f(a['tie']) < 1e-4:
            res.ill += 1
            ill_rows.add(i)      # a 2-decimal rounding of THIS response sits on a tie: this response / CSV row only is skipped
            continue
        res.cmp_exact('ResultElement.json', j, batch_g.dec(a['ok']), index=i)
    if json_errors:
        for rid, kind, reason, n_, m_ in json_errors:
            res.fail(f'response missing: ResultElement.json raised {kind} for request {rid} (blocking reason {reason}, N={n_}, '
                     f'M={m_}): every request must appear in the response')
        res.stats['json_errors'] += len(json_errors)
        return res
    resp_doc = batch_g.norm(results_to_json(result))
    res.cmp_exact('results_to_json.length', len(resp_doc['response']), len(rqs))
    # ---- correspondence: CSV -------------------------------------------------------------------------------------------------
    out = io.StringIO()
    jsontocsv(results_to_json(result), eq, out)
    rows = list(csv.DictReader(io.StringIO(out.getvalue())))
    lib = [{'trx_type': t, 'format': m['format'], 'osnr': f2b(m['OSNR']), 'baud_rate': f2b(m['baud_rate']),
            'bit_rate': f2b(m['bit_rate']), 'cost': batch_g.enc(m['cost'])}
           for t, trx in eq['Transceiver'].items() for m in trx.mode]
    margin = eq['SI']['default'].sys_margins
    cans = drv.ask('c19.csv', lib=lib, margin=f2b(margin), responses=[batch_g.enc(j) for j in impl])
    res.cmp_exact('jsontocsv.rows', len(rows), len(impl))
    if len(rows) == len(impl):
        for i, (row, m) in enumerate(zip(rows, cans)):
            if i in ill_rows:
                continue
            if 'error' in m:
                res.mismatch('jsontocsv.row', row, m['error'], index=i)
                continue
            model = {k: batch_g.dec(v) for k, v in m['fields']}
            if m['nb_quot'] is not None:
                q = b2f(m['nb_quot'])
                if abs(q - round(q)) < 1e-9:
                    nb = round(q)
                else:
                    nb = math.ceil(q)
                model['nb of tsp pairs'] = nb
                model['total cost'] = nb * batch_g.dec(m['cost'])
            _cmp_row(res, i, row, model)
    # ---- CSV of perturbed responses: jsontocsv reads any response document; move the lowest SNR of served responses around
    # the threshold (the average stays where it is) so that the pass flag is exercised on both sides
    _perturbed_csv(res, drv, case, eq, impl, lib, margin)
    # ---- monitor -------------------------------------------------------------------------------------------------------------
    ill = _monitor(res, case, ctx, rqs, pp, rpp, impl, rows)
    kinds = {getattr(rq, 'blocking_reason', None) or 'served' for rq in rqs}
    aggregated = any(' | ' in rq.request_id for rq in rqs)
    res.nontrivial = len(kinds) >= 2 or aggregated
    for rq in rqs:
        res.stats[f'outcome_{getattr(rq, "blocking_reason", None) or "served"}'] += 1
        res.stats['responses'] += 1
        res.stats['bidir_responses'] += int(bool(rq.bidir))
        res.stats['aggregated_responses'] += int(' | ' in rq.request_id)
        res.stats['multi_slot_served'] += int(rq.N is not None and len(rq.N) > 1)
    res.stats['monitor_ill'] += int(ill)
    return res


def _aggregation_with_disjunctions(res, drv, case, eq, net, reqs, keyf):
    """requests_aggregation called directly with a generated disjunction list (same_disj of compare_reqs, id replacement in
    the disjunctions, renaming of the surviving request) vs requestsAggregationD"""
    import random
    from gnpy.tools.json_io import requests_from_json
    from gnpy.topology.request import correct_json_route_list, requests_aggregation, Disjunction
    rng = random.Random('d' + batch_g.canon(reqs)[:300])
    ids = [r['id'] for r in reqs]
    if len(ids) < 2:
        return
    dis = []
    for k in range(rng.choice([1, 2, 3, 4])):
        dis.append({'id': f'd{k}', 'reqs': rng.sample(ids, rng.choice([2, 2, 3]) if len(ids) >= 3 else 2)})
    fresh = correct_json_route_list(net, requests_from_json({'path-request': [batch_g.req_doc(r) for r in reqs]}, eq))
    objs = [Disjunction(disjunction_id=d['id'], relaxable=False, link_diverse=True, node_diverse=True,
                        disjunctions_req=list(d['reqs'])) for d in dis]
    agg_in = [{'id': q.request_id, 'key': keyf(q), 'has_mode': q.tsp_mode is not None, 'bw': f2b(q.path_bandwidth),
               'N': [None if x is None else int(x) for x in q.N], 'M': [None if x is None else int(x) for x in q.M]}
              for q in fresh]
    out, dout = requests_aggregation(fresh, objs)
    m = drv.ask('c19.aggregation_d', requests=agg_in, disjunctions=dis)
    res.cmp_exact('requests_aggregation(disjunctions).requests',
                  [[q.request_id, float(q.path_bandwidth), list(q.N), list(q.M)] for q in out],
                  [[x['id'], b2f(x['bw']), x['N'], x['M']] for x in m['requests']])
    res.cmp_exact('requests_aggregation(disjunctions).disjunctions',
                  [[d.disjunction_id, list(d.disjunctions_req)] for d in dout],
                  [[x['id'], x['reqs']] for x in m['disjunctions']])
    res.stats['aggregation_with_disjunctions'] += 1
    res.stats['aggregation_with_disjunctions_merged'] += int(len(out) < len(fresh))
    res.stats['aggregation_disjunctions_removed'] += len(dis) - len(dout)


def _perturbed_csv(res, drv, case, eq, impl, lib, margin):
    from gnpy.topology.request import jsontocsv
    import random
    rng = random.Random(batch_g.canon(case['requests'])[:200])
    docs, thrs = [], []
    for j in impl:
        if 'path-properties' not in j:
            continue
        j2 = copy.deepcopy(j)
        pros = [x['path-route-object'] for x in j2['path-properties']['path-route-objects']]
        tsp = next(x['transponder'] for x in pros if 'transponder' in x)
        mode = next(m for m in eq['Transceiver'][tsp['transponder-type']].mode if m['format'] == tsp['transponder-mode'])
        thr = mode['OSNR'] + margin
        d = rng.choice([-1.0, -0.01, 0.01, 0.5, -0.3])
        for x in j2['path-properties']['path-metric']:
            if x['metric-type'] == 'lowest_SNR-0.1nm':
                x['accumulative-value'] = round(thr + d, 2)
            if x['metric-type'] == 'SNR-0.1nm':
                x['accumulative-value'] = round(thr + rng.choice([0.4, 2.0, -0.6]), 2)
        docs.append(j2)
        thrs.append((thr, round(thr + d, 2)))
    if not docs:
        return
    out = io.StringIO()
    jsontocsv({'response': docs}, eq, out)
    rows = list(csv.DictReader(io.StringIO(out.getvalue())))
    cans = drv.ask('c19.csv', lib=lib, margin=f2b(margin), responses=[batch_g.enc(j) for j in docs])
    for i, (row, m, (thr, low)) in enumerate(zip(rows, cans, thrs)):
        if 'error' in m:
            res.mismatch('jsontocsv.row(perturbed)', row, m['error'], index=i)
            continue
        res.cmp_exact('jsontocsv.pass(perturbed)', row['Pass?'], str({k: batch_g.dec(v) for k, v in m['fields']}['Pass?']), index=i)
        if abs(low - thr) > 1e-6 and row['Pass?'] != str(low >= thr):
            res.fail(f'csv: pass flag {row["Pass?"]} for lowest SNR {low} dB against required OSNR incl. margin {thr} dB')
        res.stats['csv_pass_' + row['Pass?']] += 1


def _cmp_row(res, i, row, model):
    for k, v in row.items():
        m = model.get(k, '')
        res.compared += 1
        ok = True
        if m is None:
            ok = v == ''
        elif isinstance(m, bool):
            ok = v == str(m)
        elif isinstance(m, str):
            ok = v == m
        elif isinstance(m, (int, float)):
            try:
                ok = v != '' and float(v) == float(m)
            except ValueError:
                ok = False
        if not ok:
            res.mismatch('jsontocsv.field', v, m, index=i, field=k)


def _monitor(res, case, ctx, rqs, pp, rpp, impl, rows):
    """the statement, field by field, against the objects"""
    from gnpy.core.elements import Transceiver
    from gnpy.core.utils import dbm2watt
    eq, net = ctx['eq'], ctx['net']
    reqs = case['requests']
    ill_any = False
    by_id = {r['id']: r for r in reqs}
    # every request once, under its id; aggregated ones under the joined id with summed bandwidth
    seen = []
    if len(impl) != len(rqs):
        res.fail(f'one response per request: {len(impl)} responses for {len(rqs)} (aggregated) requests')
    for j in impl:
        seen += j['response-id'].split(' | ')
    if sorted(seen) != sorted(by_id):
        res.fail(f'one response per request: request ids {sorted(by_id)} are reported as {[j["response-id"] for j in impl]}')
    margin = eq['SI']['default'].sys_margins
    objs = {rq.request_id: (rq, p, rp) for rq, p, rp in zip(rqs, pp, rpp)}
    rows_by_id = {row['response-id']: row for row in rows}
    # the ORDER of responses / CSV rows is correspondence only; the monitor matches them by id
    res.cmp_exact('results_to_json.order', [j['response-id'] for j in impl], [rq.request_id for rq in rqs])
    res.cmp_exact('jsontocsv.order', [row['response-id'] for row in rows], [j['response-id'] for j in impl])
    if sorted(rows_by_id) != sorted(j['response-id'] for j in impl):
        res.fail(f'csv: rows {sorted(rows_by_id)} do not cover the responses {sorted(j["response-id"] for j in impl)} once each')
    for j in impl:
        rid = j['response-id']
        parts = rid.split(' | ')
        members = [by_id[x] for x in parts if x in by_id]
        what = f'response {rid}'
        if rid not in objs or rid not in rows_by_id:
            res.fail(f'response id: {what} does not stand for a request of the batch / has no CSV row')
            continue
        rq, p, rp = objs[rid]
        row = rows_by_id[rid]
        if len(members) > 1:
            def ident(m):
                d = {k: m[k] for k in ('src', 'dst', 'type', 'mode', 'spacing', 'include', 'strict', 'bidir')}
                d['power'] = m['power'] if m['power'] is not None else float(dbm2watt(eq['SI']['default'].power_dbm))
                # effective transceiver power: own tx_power, else the library default, else (no default) the request's power
                d['tx_power'] = m.get('tx_power')
                if d['tx_power'] is None:
                    dflt = eq['SI']['default'].tx_power_dbm
                    d['tx_power'] = float(dbm2watt(dflt)) if dflt is not None else d['power']
                return d
            k0 = ident(members[0])
            for m in members[1:]:
                if ident(m) != k0 or m['mode'] is None:
                    res.fail(f'aggregation: {what} joins requests that are not identical')
        bw = sum(m['bw'] for m in members)
        for m in members:
            if bool(m['bidir']) != bool(rq.bidir):
                res.fail(f'bidirectional: request {m["id"]} is {"bi" if m["bidir"] else "uni"}directional but is answered by {what}, '
                         f'which is {"bi" if rq.bidir else "uni"}directional: it would {"lose" if m["bidir"] else "gain"} its z-a direction')
        reason = getattr(rq, 'blocking_reason', None)
        if reason in NOPATH:
            if set(j) != {'response-id', 'no-path'} or j['no-path'] != {'no-path': reason}:
                res.fail(f'blocked shape: {what} blocked with {reason} must carry only its reason, got {str(j)[:200]}')
            if row['Pass?'] != reason or any(v != '' for k, v in row.items() if k not in ('response-id', 'Pass?')):
                res.fail(f'csv: row of {what} ({reason}) must carry only id and reason')
            continue
        if reason is not None:
            if set(j) != {'response-id', 'no-path'} or j['no-path'].get('no-path') != reason \
                    or 'path-properties' not in j['no-path']:
                res.fail(f'blocked shape: {what} blocked with {reason}: {str(j)[:200]}')
                continue
            props = j['no-path']['path-properties']
        else:
            if set(j) != {'response-id', 'path-properties'}:
                res.fail(f'served shape: {what}: keys {sorted(j)}')
                continue
            props = j['path-properties']
        pros = [x['path-route-object'] for x in props['path-route-objects']]
        res.cmp_exact('ResultElement.route_object_indices', [x['index'] for x in pros], list(range(len(pros))))
        hops = [x['num-unnum-hop']['node-id'] for x in pros if 'num-unnum-hop' in x]
        # hop by hop: the propagated path, which must be a route of the network from source to destination
        if hops != [e.uid for e in p]:
            res.fail(f'route: {what} lists hops that are not the propagated path')
        src, dst = f'trx N{members[0]["src"]}', f'trx N{members[0]["dst"]}'
        uids = {n.uid: n for n in net.nodes()}
        if not hops or hops[0] != src or hops[-1] != dst or any(
                (a not in uids or b not in uids or not net.has_edge(uids[a], uids[b])) for a, b in zip(hops, hops[1:])):
            res.fail(f'route: {what} from {src} to {dst}: reported hops {hops[:3]}..{hops[-2:]} are not a route of the network')
        labels = [x['label-hop'] for x in pros if 'label-hop' in x]
        tsps = [x['transponder'] for x in pros if 'transponder' in x]
        if reason is not None:
            if labels:
                res.fail(f'blocked shape: {what} blocked with {reason} carries N/M labels')
            if rq.N is not None or rq.M is not None:
                res.fail(f'blocked shape: {what} blocked with {reason} keeps N={rq.N} M={rq.M}')
        else:
            exp_lab = [{'N': n, 'M': m} for n, m in zip(rq.N, rq.M)]
            key_ = lambda lab: sorted((str(x['N']), str(x['M'])) for x in lab)     # noqa: E731
            if not labels or any(key_(lab) != key_(exp_lab) for lab in labels):
                res.fail(f'labels: {what}: label hops {labels[:1]} are not the assigned N={rq.N} M={rq.M}')
            res.cmp_exact('ResultElement.label_hop_layout', [len(labels), labels[:1]], [len(hops), [exp_lab]])
        if not tsps or any(t != {'transponder-type': rq.tsp, 'transponder-mode': rq.tsp_mode} for t in tsps):
            res.fail(f'transponder: {what}: reported {tsps}, request has {rq.tsp} / {rq.tsp_mode}')
        res.cmp_exact('ResultElement.transponder_objects', len(tsps), 2)
        if rq.tsp != members[0]['type'] or (members[0]['mode'] is not None and rq.tsp_mode != members[0]['mode']):
            res.fail(f'transponder: {what}: type/mode {rq.tsp}/{rq.tsp_mode} differ from the requested ones')
        # the reference power reported is the request's OWN (output-power of the document, else the library default), and the
        # path was propagated with the request's OWN transceiver power (tx_power of the document, else the library default)
        si_def = eq['SI']['default']
        own_power = members[0]['power'] if members[0]['power'] is not None else float(dbm2watt(si_def.power_dbm))
        own_tx = members[0].get('tx_power')
        if own_tx is None:
            own_tx = float(dbm2watt(si_def.tx_power_dbm)) if si_def.tx_power_dbm is not None else own_power
        if abs(rq.power - own_power) > 1e-15:
            res.fail(f'power: {what} carries reference power {rq.power} W, its own request asks for {own_power} W')
        for path_, name in ((p, 'forward'), (rp if rq.bidir else [], 'reverse')):
            if path_ and getattr(path_[-1], 'tx_power', None) is not None and \
                    any(abs(float(x) - own_tx) > 1e-12 * max(1.0, own_tx) for x in np.atleast_1d(path_[-1].tx_power)):
                res.mismatch('cross-property:C16 propagated transceiver power', float(np.atleast_1d(path_[-1].tx_power)[0]), own_tx,
                             response=rid, direction=name)
        res.stats['responses_with_own_tx_power'] += int(members[0].get('tx_power') is not None)
        power = own_power
        for key, path_, name in (('path-metric', p, 'forward'), ('z-a-path-metric', rp, 'reverse')):
            if key == 'z-a-path-metric' and not members[0]['bidir'] and not rq.bidir:
                if key in props:
                    res.fail(f'bidirectional: {what} is not bidirectional but reports z-a metrics')
                continue
            if key == 'z-a-path-metric' and not rq.bidir:
                continue
            if key not in props:
                res.fail(f'bidirectional: {what} lacks {key}')
                continue
            if not path_:
                res.fail(f'bidirectional: {what}: no propagated {name} path')
                continue
            exp = _indep_metrics(path_[-1], power, bw)
            got = {x['metric-type']: x['accumulative-value'] for x in props[key]}
            res.cmp_exact('ResultElement.path_metric_order', [x['metric-type'] for x in props[key]], list(exp))
            if set(got) != set(exp):
                res.fail(f'metrics: {what} {name}: reported metric types {sorted(got)}, expected {sorted(exp)}')
                continue
            for mt, (val, ill) in exp.items():
                if ill:
                    ill_any = True
                    continue
                if not _metric_eq(got[mt], val):
                    res.fail(f'metrics: {what} {name}: reported {mt} = {got[mt]}, the {name} receiver / request gives {val}')
                    break
        if rq.bidir and rp and p and hops and [e.uid for e in rp][0] != dst:
            res.fail(f'bidirectional: {what}: the reverse path does not start at the destination')
        # ---- CSV row --------------------------------------------------------------------------------------------------------
        mode = next((m for m in eq['Transceiver'][rq.tsp].mode if m['format'] == rq.tsp_mode), None)
        pm = {x['metric-type']: x['accumulative-value'] for x in props['path-metric']}

        def num(k):
            try:
                return float(row[k])
            except ValueError:
                return None
        checks = [('source', src), ('destination', dst), ('transponder-type', rq.tsp), ('transponder-mode', rq.tsp_mode)]
        for k, v in checks:
            if row[k].strip() != v:
                res.fail(f'csv: {what}: column {k} = {row[k]!r}, response says {v!r}')
        if [x.strip() for x in row['path'].split('|')] != hops:
            res.fail(f'csv: {what}: column path = {row["path"][:80]!r} does not list the hops of the response')
        res.cmp_exact('jsontocsv.path_text', row['path'], ' | '.join(hops))

        def pen_ok(cell, val):
            if isinstance(val, str):
                return cell.strip() == val
            try:
                return abs(float(cell) - val) <= 1e-9
            except ValueError:
                return False
        for k, mk in (('SNR-0.1nm (min)', 'lowest_SNR-0.1nm'), ('SNR-0.1nm (max)', 'biggest_SNR-0.1nm'),
                      ('SNR-0.1nm (average)', 'SNR-0.1nm'), ('OSNR-0.1nm (average)', 'OSNR-0.1nm'),
                      ('SNR-bandwidth (average)', 'SNR-bandwidth')):
            if num(k) is None or abs(num(k) - pm[mk]) > 1e-9:
                res.fail(f'csv: {what}: column {k} = {row[k]}, response metric {mk} = {pm[mk]}')
        for k, mk in (('PDL_penalty', 'PDL_penalty'), ('CD_penalty', 'CD_penalty'), ('PMD_penalty', 'PMD_penalty')):
            if not pen_ok(row[k], pm[mk]):
                res.fail(f'csv: {what}: column {k} = {row[k]}, response metric = {pm[mk]}')
        if mode is not None:
            thr = mode['OSNR'] + margin
            if num('min required OSNR (inc. margin)') is None or abs(num('min required OSNR (inc. margin)') - thr) > 1e-9:
                res.fail(f'csv: {what}: required OSNR column {row["min required OSNR (inc. margin)"]}, mode OSNR + margin = {thr}')
            if reason is None:
                # served (labels, no blocking reason) <=> Pass? True — at the tie too: the verdict accepts equality
                if row['Pass?'] != 'True':
                    res.fail(f'csv: {what} is served (no blocking reason) but Pass? = {row["Pass?"]} with lowest SNR '
                             f'{pm["lowest_SNR-0.1nm"]} and threshold incl. margin {thr}')
                if pm['lowest_SNR-0.1nm'] < thr - 1e-9:
                    res.fail(f'csv: {what} is served with lowest SNR {pm["lowest_SNR-0.1nm"]} below the threshold incl. margin {thr}')
                res.stats['served_at_exact_tie'] += int(pm['lowest_SNR-0.1nm'] == thr)
                gb, gr = bw * 1e-9, mode['bit_rate'] * 1e-9
                nb = math.ceil(round(gb, 2) / round(gr, 2))
                if num('nb of tsp pairs') is None or num('nb of tsp pairs') != nb:
                    res.fail(f'csv: {what}: nb of tsp pairs {row["nb of tsp pairs"]}, bandwidth {gb} / bit rate {gr} needs {nb}')
                pin = round(10 * math.log10(own_power * 1e3), 2)
                if num('input power (dBm)') is None or abs(num('input power (dBm)') - pin) > 0.011:
                    res.fail(f'csv: {what}: input power column {row["input power (dBm)"]} dBm, the request\'s own reference power is '
                             f'{pin} dBm')
                if num('path_bandwidth') is None or abs(num('path_bandwidth') - round(gb, 2)) > 1e-9:
                    res.fail(f'csv: {what}: path_bandwidth column {row["path_bandwidth"]} for {gb} Gbit/s')
                lab_txt = f'{[n for n in rq.N]}, {[m for m in rq.M]}'
                import re as _re
                groups = _re.findall(r'\[([^\]]*)\]', row['spectrum (N,M)'])
                pairs = None
                if len(groups) == 2:
                    ns, ms = ([x.strip() for x in g.split(',') if x.strip()] for g in groups)
                    if len(ns) == len(ms):
                        pairs = sorted(zip(ns, ms))
                if pairs != sorted((str(n_), str(m_)) for n_, m_ in zip(rq.N, rq.M)):
                    res.fail(f'csv: {what}: spectrum column {row["spectrum (N,M)"]!r} does not state the assigned (N, M) pairs '
                             f'{list(zip(rq.N, rq.M))}')
                res.stats['served_with_slot_n_zero'] += int(0 in list(rq.N))
                res.stats['served_multislot_n_not_ascending'] += int(list(rq.N) != sorted(rq.N) and len(set(rq.M)) > 1)
                res.cmp_exact('jsontocsv.spectrum_text', row['spectrum (N,M)'], lab_txt)
            else:
                if row['Pass?'] != reason:
                    res.fail(f'csv: {what}: Pass? = {row["Pass?"]} for a request blocked with {reason}')
                if row['spectrum (N,M)'] != '' or row['nb of tsp pairs'] != '':
                    res.fail(f'csv: {what}: blocked request with spectrum / transponder count columns')
        if rq.bidir and 'z-a-path-metric' in props:
            zm = {x['metric-type']: x['accumulative-value'] for x in props['z-a-path-metric']}
            for k, mk in (('reversed path SNR-0.1nm (min)', 'lowest_SNR-0.1nm'), ('reversed path SNR-0.1nm (average)', 'SNR-0.1nm'),
                          ('reversed path OSNR-0.1nm (average)', 'OSNR-0.1nm'), ('reversed path SNR-0.1nm (max)', 'biggest_SNR-0.1nm'),
                          ('reversed path SNR-bandwidth (average)', 'SNR-bandwidth')):
                if num(k) is None or abs(num(k) - zm[mk]) > 1e-9:
                    res.fail(f'csv: {what}: column {k} = {row[k]}, z-a metric {mk} = {zm[mk]}')
            for k, mk in (('reversed path PDL_penalty', 'PDL_penalty'), ('reversed path CD_penalty', 'CD_penalty'),
                          ('reversed path PMD_penalty', 'PMD_penalty')):
                if not pen_ok(row[k], zm[mk]):
                    res.fail(f'csv: {what}: column {k} = {row[k]}, z-a metric {mk} = {zm[mk]}')
        elif any(row[k] != '' for k in REV_FIELDS):
            res.fail(f'csv: {what}: reverse columns filled for a unidirectional request')
    # ---- forward AND z-a metrics of every bidirectional request = the same request computed ALONE on a freshly designed network
    # (the receiver objects left in reversed_propagatedpths could have been overwritten by a later request: they cannot tell)
    for j, rq in zip(impl, rqs):
        rid = j['response-id']
        if ' | ' in rid or rid not in by_id or not by_id[rid]['bidir']:
            continue
        props = j.get('path-properties') or j.get('no-path', {}).get('path-properties')
        if props is None:
            continue
        fresh = batch_g.build(case)
        ja = batch_g.norm(batch_g.run_planning(fresh, [by_id[rid]])[5][0].json)
        pa = ja.get('path-properties') or ja.get('no-path', {}).get('path-properties')
        res.stats['bidir_compared_with_alone'] += 1
        if pa is None:
            res.mismatch('cross-property:C16 path properties alone vs batch', 'present in the batch', 'absent alone', response=rid)
            continue
        for key, name in (('path-metric', 'forward'), ('z-a-path-metric', 'z-a')):
            a = {x['metric-type']: x['accumulative-value'] for x in props.get(key, [])}
            b = {x['metric-type']: x['accumulative-value'] for x in pa.get(key, [])}
            if a != b:
                bad = next(((k_, a.get(k_), b.get(k_)) for k_ in list(a) + list(b) if a.get(k_) != b.get(k_)))
                if name == 'z-a':
                    # C19's own statement: the z-a metrics reported are those of the request's OWN reverse direction
                    res.fail(f'alone vs batch: z-a metric {bad[0]} of bidirectional request {rid} is {bad[1]} in the batch; the same '
                             f'request computed alone on a freshly designed network reports {bad[2]}')
                else:
                    res.mismatch('cross-property:C16 forward metrics alone vs batch', {bad[0]: bad[1]}, {bad[0]: bad[2]}, response=rid)
                break
    # ---- uni/bidirectional twins: what the forward direction established (blocking reason, mode, forward metrics) coincides ----
    resp = {j['response-id']: j for j in impl}

    def view(j):
        reason = j['no-path']['no-path'] if 'no-path' in j else None
        props = j.get('path-properties') or j.get('no-path', {}).get('path-properties')
        mode = fwd = None
        if props:
            mode = next((x['path-route-object']['transponder'] for x in props['path-route-objects']
                         if 'transponder' in x['path-route-object']), None)
            fwd = [[x['metric-type'], x['accumulative-value']] for x in props['path-metric']]
        return ('feasible' if reason in (None, 'NO_SPECTRUM') else reason), mode, fwd
    for a, b in batch_g.twin_pairs(case, 'bidir'):
        if a not in resp or b not in resp:
            continue
        u, w = (a, b) if not by_id[a]['bidir'] else (b, a)       # u = unidirectional twin, w = bidirectional twin
        (ru, mu, fu), (rw, mw, fw) = view(resp[u]), view(resp[w])
        res.stats['uni_bidir_twins'] += 1
        res.stats[f'uni_bidir_twins_{ru}'] += 1
        if ru != 'feasible' and rw != ru:
            res.fail(f'twins: bidirectional request {w} is blocked with {rw}; its unidirectional twin {u} (same request, forward '
                     f'direction only) is blocked with {ru}: the reason established by the forward direction must be reported')
        elif ru == 'feasible' and rw not in ('feasible', 'MODE_NOT_FEASIBLE'):
            res.fail(f'twins: bidirectional request {w} reports {rw} while its unidirectional twin {u} is feasible')
        elif mu != mw or fu != fw:
            res.fail(f'twins: bidirectional request {w} reports mode {mw} / forward metrics {str(fw)[:120]}; its unidirectional twin '
                     f'{u} reports {mu} / {str(fu)[:120]}')
    for a, b in batch_g.twin_pairs(case, 'hop'):
        a, b = (a, b) if not by_id[a]['strict'] else (b, a)
        if a in resp and b in resp:
            ra, rb = view(resp[a])[0], view(resp[b])[0]
            res.stats['loose_strict_twins'] += 1
            if ra != 'feasible' and ra in NOPATH:
                res.mismatch('cross-property:C11 LOOSE twin with an unsatisfiable include list', ra, 'routed (unconstrained)', request=a)
            if rb != 'NO_PATH_WITH_CONSTRAINT':
                res.mismatch('cross-property:C11 STRICT twin with an unsatisfiable include list', rb, 'NO_PATH_WITH_CONSTRAINT',
                             request=b)
    srcs = [by_id[x]['src'] for x in by_id if by_id[x]['bidir']]
    res.stats['batches_with_two_bidir_from_same_source'] += int(len(srcs) != len(set(srcs)))
    if ill_any:
        res.ill += 1
    return ill_any


def shrink_candidates(case):
    reqs = case['requests']
    if len(reqs) > 1:
        for i in range(len(reqs)):
            c = copy.deepcopy(case)
            del c['requests'][i]
            yield c
    for i, r in enumerate(reqs):
        if r['bidir']:
            c = copy.deepcopy(case)
            c['requests'][i]['bidir'] = False
            yield c
    if case['lib']['penalties']:
        c = copy.deepcopy(case)
        c['lib']['penalties'] = False
        yield c
