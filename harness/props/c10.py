"""C10 — auto-selected amplifiers are allowed, capable and the quietest capable choice.

Correspondence: network.select_edfa / filter_edfa_list_based_on_targets / edfa_nf vs Gnpy.Select.selectEdfa/acceptable/
edfaNf (type_variety exact, power and gain_min attributes bit-exact, NF class F; NF ties within 1e-9 dB between
different formulas are class D: the implementation's choice must then be one of the tied candidates);
get_node_restrictions on real Edfa / Multiband_amplifier / Roadm / Fiber elements vs nodeRestrictions(Multi);
raman_allowed vs ramanAllowed; whole small topologies through worker_utils.designed_network with select_edfa /
get_node_restrictions observed by run-time wrappers; preselect_multiband_amps vs preselect.
Monitor: the statement with own arithmetic (permitted set from the topology document and the library, capability from
the gain/power targets, NF from an independent evaluation of the configured model).
"""
import copy
import math

import numpy as np

from common.util import Result, f2b, b2f, fl, err_kind
from common import nets, amplib

ID = 'C10'
N = {'quick': 5000, 'thorough': 60000}
LEAN_MODULES = ['GnpyProofs.Props.C10']
THEOREMS = [f'Gnpy.Select.{t}' for t in (
    'restriction_own_list_first', 'restriction_booster_second', 'restriction_preamp_third', 'restriction_none',
    'nodeRestrictions_permitted', 'nodeRestrictions_complete', 'user_variety_wins',
    'selected_mem_permitted', 'selected_in_restrictions', 'selected_covers_band', 'raman_only_if_allowed', 'ramanAllowed_spec',
    'capable_if_any_capable', 'nf_minimal_among_acceptable', 'nf_minimal_among_capable', 'fallback_spec',
    'reduction_spec', 'reduction_zero_if_capable', 'select_none_iff', 'argminNf_first',
    'preselect_sound', 'preselect_sound_partial', 'preselect_old_leaves_permitted_set', 'gain_fallback_spec',
    'mem_selectionLibrary', 'nodeRestrictionsMulti_permitted', 'auto_selection_main', 'findTypeVarietyE_mem',
    'multiband_choice_sound_if_single_entry', 'multiband_result_unpermitted_iff', 'per_band_mix_witness',
    'band_pick_spec', 'multiband_band_picks', 'typedLoad_members', 'typedPick_spec', 'typed_design_sound',
    'raman_only_after_low_loss_fibre', 'ramanAllowed_table_straddling')]
PARTIAL = ['multiband (open finding multiband-per-band-choices-form-unpermitted-type): the whole Multiband_amplifier '
           'branch is modelled (multibandDesign) and under exact correspondence; proved: the node type is a permitted '
           'entry listing all picks when one permitted entry lists them (multiband_choice_sound_if_single_entry), and '
           'it is outside the permitted set IFF no permitted entry lists all picks (multiband_result_unpermitted_iff, '
           'witness per_band_mix_witness). Full statement, false for the code as it is: the node type is always a '
           'permitted entry']
RULE = ('cases from one PRNG: (a) 50% select_edfa on a generated library of 1-12 single-band models (variable/fixed '
        'gain, OpenROADM, dual stage, Raman flags, overlapping gain ranges, bands), restriction list empty or a subset, '
        'gain/power targets uniform or placed on a threshold of some model (power attribute 0, gain_min attribute 0, '
        '0.3 dB fall-back window); (b) 20% get_node_restrictions on real elements (own type_variety, own variety list, '
        'ROADM booster/preamp lists, allowed_for_design, design band subsets, multiband entries); (c) 22% whole '
        'two-ROADM topologies designed by designed_network (auto-inserted and explicit amplifiers, ROADM and amplifier '
        'restrictions, fibre loss around the Raman limit, narrow SI bands); (d) 8% preselect_multiband_amps. '
        'Non-trivial: (a) >= 2 permitted models, (b) library of >= 2, (c)/(d) at least one amplifier auto-selected, (e) '
        'always; thorough tier adds the exhaustive enumeration of 384 restriction-source combinations (position x user '
        'type x own list x booster list x preamp list x band); distinct = distinct canonical JSON. Generator restriction: two multiband entries never list the same '
        'member set (such a library is ambiguous: find_type_variety cannot tell the twins apart and takes a '
        'hash-order dependent one)')
MODEL_SCOPE = ('modelled: select_edfa, filter_edfa_list_based_on_targets, edfa_nf (through the C04 NF model), '
               'get_node_restrictions (Edfa and Multiband_amplifier), the restriction filtering and raman_allowed of '
               'set_one_amplifier, preselect_multiband_amps + find_type_varieties. Taken from the implementation as '
               'input: gain/power targets (compute_gain_power_and_tilt_target is C09), design bands (C07/C15). Out of '
               'scope: libraries in which two multiband entries list identical members (ambiguous, PYTHONHASHSEED '
               'dependent outcome). The Multiband_amplifier branch of set_egress_amplifier without user type '
               '(restrictions -> preselection -> per-band select_edfa -> find_type_variety) is modelled as '
               'multibandDesign; a user-typed Multiband_amplifier (amplifiers listed fully / partially / not at all, load '
               'check of network_from_json included) as typedLoadOk/typedDesign')


# ---------------------------------------------------------------------------------------------------------------------
# library
# ---------------------------------------------------------------------------------------------------------------------

def limits_of(a, eq):
    """(p_max, gain_flatmax) by the library rule: a dual-stage type has its booster stage's p_max and the sum of both
    stages' flat gains (taken from the stand-alone entries it names, not from what _update_dual_stage stored)"""
    if a.type_def == 'dual_stage' and eq is not None:
        pre, boost = amplib.dual_names(a)
        return eq['Edfa'][boost].p_max, eq['Edfa'][boost].gain_flatmax + eq['Edfa'][pre].gain_flatmax
    return a.p_max, a.gain_flatmax


def spec_json(name, a, eq=None):
    if a.type_def == 'multi_band':
        return {'name': name, 'multi_band': list(a.multi_band), 'allowed': bool(a.allowed_for_design)}
    p_max, gfm = limits_of(a, eq)
    return {'name': name, 'multi_band': None, 'raman': bool(a.raman), 'allowed': bool(a.allowed_for_design),
            'fmin': int(a.f_min), 'fmax': int(a.f_max), 'gain_flatmax': f2b(gfm),
            'gain_min': f2b(a.gain_min), 'p_max': f2b(p_max), 'nf': amplib.nf_json_from_library(a, eq)}


def lib_json(eq):
    return [spec_json(n, a, eq) for n, a in eq['Edfa'].items()]


BANDS = [(amplib.C_FMIN, amplib.C_FMAX), (amplib.C_FMIN, amplib.C_FMAX), (191_225_000_000_000, 196_125_000_000_000),
         (192_250_000_000_000, 196_150_000_000_000), (191_250_000_000_000, 196_150_000_000_000)]
LBANDS = [(amplib.L_FMIN, amplib.L_FMAX), (186_550_000_000_000, 190_050_000_000_000),
          (187_300_000_000_000, 190_050_000_000_000)]


def gen_sel_lib(rng, n=None, bands=False, multiband=False, all_allowed=False):
    """generated library: n single-band entries (+ dual stages, + multiband groupings)"""
    n = n or rng.choice([1, 2, 3, 4, 5, 6, 8, 10, 12])
    entries = []
    for i in range(n):
        k = rng.random()
        if k < 0.6:
            e = amplib.vg_entry(rng, f'a{i}')
        elif k < 0.75:
            e = amplib.fg_entry(rng, f'a{i}')
        else:
            e = amplib.or_entry(rng, f'a{i}')
        e['allowed_for_design'] = True if all_allowed else rng.random() < 0.65
        if rng.random() < 0.2:
            e['raman'] = True
        if bands and rng.random() < 0.4:
            b = rng.choice(BANDS + LBANDS)
            e['f_min'], e['f_max'] = float(b[0]), float(b[1])
        entries.append(e)
    singles = [e['type_variety'] for e in entries]
    if n >= 2 and rng.random() < 0.5:
        for j in range(rng.choice([1, 2])):
            pre, boost = rng.sample(singles, 2)
            amplib.split_pmax(rng, entries, pre, boost)
            pe = next(e for e in entries if e['type_variety'] == pre)
            d = amplib.dual_entry(rng, f'd{j}', pre, boost, gain_min=pe['gain_min'] + rng.choice([0, 5, 10]))
            d['allowed_for_design'] = rng.random() < 0.65
            if rng.random() < 0.4:
                d['raman'] = True
            entries.append(d)
    if multiband:
        cs = []
        ls = []
        for i in range(rng.choice([1, 2, 3])):
            e = amplib.vg_entry(rng, f'c{i}')
            b = rng.choice(BANDS)
            e['f_min'], e['f_max'] = float(b[0]), float(b[1])
            e['allowed_for_design'] = rng.random() < 0.5
            cs.append(e)
            e = amplib.vg_entry(rng, f'l{i}')
            b = rng.choice(LBANDS)
            e['f_min'], e['f_max'] = float(b[0]), float(b[1])
            e['allowed_for_design'] = rng.random() < 0.5
            ls.append(e)
        if rng.random() < 0.35:
            # a WIDE, quiet lower-band member: covers the L design bands completely and reaches over the lower edge of the
            # C design bands without covering them -> must never be chosen for the C band
            wide = ls[rng.randrange(len(ls))]
            wide.update(
                {'type_def': 'fixed_gain', 'nf0': rng.choice([2.5, 3.0, 4.0]), 'gain_min': rng.choice([3, 5, 8]),
                 'gain_flatmax': rng.choice([28, 32]), 'p_max': 23})
            # (its centre frequency stays inside the 187-189 THz window by which gnpy names the L band)
            wf = rng.choice([(186_500_000_000_000, 191_500_000_000_000), (186_000_000_000_000, 192_000_000_000_000),
                             (185_500_000_000_000, 192_500_000_000_000)])
            wide['f_min'], wide['f_max'] = float(wf[0]), float(wf[1])
            for k_ in ('nf_min', 'nf_max', 'out_voa_auto'):
                wide.pop(k_, None)
        entries += cs + ls
        seen = []   # two multiband entries never list the same member set (ambiguous library, out of scope)
        for j in range(rng.choice([1, 2, 3, 4])):
            for _ in range(8):
                grp = [rng.choice(cs)['type_variety'], rng.choice(ls)['type_variety']]
                if sorted(grp) not in seen:
                    break
            if sorted(grp) in seen:
                continue
            seen.append(sorted(grp))
            entries.append({'type_variety': f'm{j}', 'type_def': 'multi_band', 'amplifiers': grp,
                            'allowed_for_design': rng.random() < 0.6})
    return entries


def load_entries(entries, span=None, roadm=None, si=None):
    doc = amplib.eqpt_doc(entries, span=span, roadm=roadm)
    if si:
        doc['SI'][0].update(si)
    return amplib.load_doc(doc)


def good_lib(rng, **kw):
    for _ in range(30):
        entries = gen_sel_lib(rng, **kw)
        try:
            load_entries(entries)
            return entries
        except Exception:
            continue
    raise RuntimeError('no loadable library generated')


# ---------------------------------------------------------------------------------------------------------------------
# generator
# ---------------------------------------------------------------------------------------------------------------------

def gen(rng, tier, widen=False):
    k = rng.random()
    if k < 0.50:
        return gen_select(rng, widen)
    if k < 0.70:
        return gen_restr(rng)
    if k < 0.83:
        return gen_topo(rng, tier)
    if k < 0.88:
        return gen_topo(rng, tier, raman_focus=True)
    if k < 0.94:
        return gen_mtopo(rng)
    return gen_presel(rng)


def gen_targets(rng, entries, ext, widen):
    """(gain_target, power_target): uniform, or on a decision threshold of one of the models"""
    singles = [e for e in entries if e['type_def'] not in ('multi_band', 'dual_stage')]
    r = rng.random()
    gain = round(rng.uniform(-5, 40), 2)
    power = round(rng.uniform(0, 28), 2)
    if singles and (r < 0.6 or widen):
        e = rng.choice(singles)
        eps = rng.choice([0, 0, 0.01, -0.01, 0.3, -0.3, round(rng.uniform(-1, 1), 2)])
        mode = rng.choice(['gmin', 'gmin_raman', 'pmax', 'gmax', 'both', 'window'])
        if mode == 'gmin':
            gain = e['gain_min'] - 3 + eps
        elif mode == 'gmin_raman':
            gain = e['gain_min'] + eps
        elif mode == 'pmax':
            power = e['p_max'] + eps
        elif mode == 'gmax':
            gain = e['gain_flatmax'] + ext + eps
        elif mode == 'both':
            gain = e['gain_flatmax'] + ext + eps
            power = e['p_max'] + rng.choice([0, 0.5, -0.5])
        else:   # nobody can deliver the power: the 0.3 dB fall-back window between two p_max values
            power = max(x['p_max'] for x in singles) + rng.choice([0.0, 0.1, 0.3, 1, 2.5])
            gain = round(rng.uniform(e['gain_min'] - 3, e['gain_flatmax']), 2)
        gain, power = round(gain, 4), round(power, 4)
    return gain, power


def gen_select(rng, widen):
    entries = good_lib(rng)
    names = [e['type_variety'] for e in entries]
    restr = [] if rng.random() < 0.35 else rng.sample(names, rng.randrange(1, len(names) + 1))
    ext = rng.choice([2.5, 2.5, 0, 1, 3.5])
    gain, power = gen_targets(rng, entries, ext, widen)
    return {'kind': 'select', 'edfa': entries, 'restrictions': restr, 'raman_allowed': rng.random() < 0.5,
            'gain': gain, 'power': power, 'ext': ext}


def gen_restr(rng):
    multi = rng.random() < 0.35
    entries = good_lib(rng, bands=True, multiband=multi or rng.random() < 0.3)
    names = [e['type_variety'] for e in entries]
    mnames = [e['type_variety'] for e in entries if e['type_def'] == 'multi_band']
    pool = (mnames if multi and rng.random() < 0.8 else names) or names

    def sub():
        return rng.sample(pool, rng.randrange(1, min(len(pool), 4) + 1))
    pos = rng.choice(['booster', 'preamp', 'inline', 'between'])
    c = {'kind': 'restr', 'edfa': entries, 'multi': multi, 'pos': pos,
         'type_variety': (rng.choice(pool) if rng.random() < 0.15 else ''),
         'variety_list': rng.choice([None, None, [], sub(), sub()]),
         'booster_list': rng.choice([[], [], sub(), sub()]),
         'preamp_list': rng.choice([[], [], sub(), sub()])}
    if multi:
        c['bands'] = [list(rng.choice(LBANDS + [(186_300_000_000_000, 190_100_000_000_000)])),
                      list(rng.choice(BANDS + [(191_300_000_000_000, 195_100_000_000_000)]))]
    else:
        c['bands'] = [list(rng.choice(BANDS + LBANDS + [(191_300_000_000_000, 195_100_000_000_000),
                                                        (191_300_000_000_000, 196_100_000_000_000)]))]
    return c


def loss_table(rng, limit):
    """a per-frequency loss-coefficient table (dB/km) relative to the Raman limit: all below, all above, straddling,
    or touching the limit exactly"""
    n = rng.choice([2, 3, 4, 6])
    kind = rng.choice(['below', 'above', 'straddle', 'straddle', 'one_above', 'one_at_limit', 'all_at_limit'])
    lo = [round(limit - rng.choice([0.01, 0.02, 0.05]), 3) for _ in range(n)]
    hi = [round(limit + rng.choice([0.01, 0.02, 0.04]), 3) for _ in range(n)]
    if kind == 'below':
        vals = lo
    elif kind == 'above':
        vals = hi
    elif kind == 'straddle':
        vals = [rng.choice([a, b]) for a, b in zip(lo, hi)]
        vals[rng.randrange(n)] = lo[0]
        vals[(rng.randrange(n - 1) + 1 + vals.index(lo[0])) % n] = hi[0]
    elif kind == 'one_above':
        vals = list(lo)
        vals[rng.randrange(n)] = hi[0]
    elif kind == 'one_at_limit':
        vals = list(lo)
        vals[rng.randrange(n)] = limit
    else:
        vals = [limit] * n
    freqs = [191.3e12 + i * (196.1e12 - 191.3e12) / (n - 1) for i in range(n)]
    return {'value': vals, 'frequency': freqs, 'kind': kind}


def gen_topo(rng, tier, raman_focus=False):
    n = rng.choice([2, 3, 4, 6, 8])
    entries = good_lib(rng, n=n)
    if raman_focus or rng.random() < 0.25:
        # a quiet Raman model for gains of 20 dB and more: chosen wherever Raman is allowed and the span is long
        entries.append({'type_variety': 'rq', 'type_def': 'fixed_gain', 'gain_flatmax': rng.choice([30, 33, 36]),
                        'gain_min': rng.choice([18, 20, 22, 25]), 'p_max': 23, 'nf0': rng.choice([0.5, 1.0, 2.0]),
                        'raman': True, 'allowed_for_design': True})
    # make sure design is usually feasible: a few ordinary allowed models with staggered gain ranges
    if rng.random() < 0.8:
        stock = [(8, 16, 23, 6.5, 11), (15, 26, 23, 6, 10), (25, 35, 21, 5.5, 7)]
        for i, (gmin, gmax, pm, nfmin, nfmax) in enumerate(stock[:rng.choice([1, 2, 3])]):
            entries.append({'type_variety': f's{i}', 'type_def': 'variable_gain', 'gain_flatmax': gmax, 'gain_min': gmin,
                            'p_max': pm, 'nf_min': nfmin, 'nf_max': nfmax, 'out_voa_auto': False,
                            'allowed_for_design': True})
    names = [e['type_variety'] for e in entries]

    def sub():
        return rng.sample(names, rng.randrange(1, min(len(names), 4) + 1))

    def rlist():
        return rng.choice([[], [], [], sub()])
    limit = rng.choice([0.25, 0.25, 0.2, 0.3])
    lines = {}
    for d in ('ab', 'ba'):
        line = []
        nspan = rng.choice([1, 1, 2, 3])
        if rng.random() < 0.25:
            line.append({'el': 'edfa', 'uid': f'boost {d}', 'type_variety': rng.choice(['', '', rng.choice(names)]),
                         'variety_list': rng.choice([None, None, sub()])})
        for i in range(nspan):
            fib = {'el': 'fiber', 'uid': f'fiber {d} {i}',
                   'length': rng.choice([100, 110, 120, 130] if raman_focus else [20, 40, 60, 80, 100, 120]),
                   'loss_coef': rng.choice([0.2, 0.2, 0.22, limit, limit - 0.01, limit + 0.02, 0.18]),
                   'type_variety': 'SSMF'}
            if rng.random() < (0.8 if raman_focus else 0.2):
                fib['loss_table'] = loss_table(rng, limit)
            line.append(fib)
            if rng.random() < 0.35:
                line.append({'el': 'edfa', 'uid': f'amp {d} {i}', 'type_variety': rng.choice(['', '', '', rng.choice(names)]),
                             'variety_list': rng.choice([None, None, sub()])})
            elif rng.random() < 0.1 and i < nspan - 1:
                line.append({'el': 'fused', 'uid': f'fused {d} {i}'})
        lines[d] = line
    si = {}
    if rng.random() < 0.3:
        b = rng.choice([(191_300_000_000_000, 196_100_000_000_000), (192_300_000_000_000, 195_100_000_000_000)])
        si = {'f_min': float(b[0]), 'f_max': float(b[1])}
    return {'kind': 'topo', 'edfa': entries,
            'span': {'max_fiber_lineic_loss_for_raman': limit, 'target_extended_gain': rng.choice([2.5, 2.5, 0, 1]),
                     'power_mode': rng.random() < 0.8, 'padding': rng.choice([10, 10, 6])},
            'roadm_default': {'booster_variety_list': rlist(), 'preamp_variety_list': rlist()},
            'roadm': {'A': rng.choice([None, {'booster_variety_list': rlist(), 'preamp_variety_list': rlist()}]),
                      'B': rng.choice([None, {'booster_variety_list': rlist(), 'preamp_variety_list': rlist()}])},
            'lines': lines, 'si': si}



CDESIGN = [(191_300_000_000_000, 196_000_000_000_000), (191_300_000_000_000, 195_100_000_000_000)]
LDESIGN = [(187_350_000_000_000, 190_000_000_000_000), (187_000_000_000_000, 190_000_000_000_000)]


def gen_mtopo(rng):
    """two ROADMs with two design bands, Multiband_amplifier nodes (auto-designed or user-typed) around one fibre per
    direction; generated multiband library"""
    entries = good_lib(rng, n=rng.choice([1, 2]), multiband=True)
    mnames = [e['type_variety'] for e in entries if e['type_def'] == 'multi_band']

    def sub():
        return rng.sample(mnames, rng.randrange(1, len(mnames) + 1))

    def rlist():
        return rng.choice([[], [], sub()])
    bands = [list(rng.choice(LDESIGN)), list(rng.choice(CDESIGN))]
    members = {e['type_variety']: list(e['amplifiers']) for e in entries if e['type_def'] == 'multi_band'}
    singles = [e['type_variety'] for e in entries if e['type_variety'][0] in 'cl']

    def mb(uid):
        tv = rng.choice(['', '', '', rng.choice(mnames)])
        it = {'el': 'mb', 'uid': uid, 'type_variety': tv, 'variety_list': rng.choice([None, None, sub()]), 'listed': None}
        if tv:
            how = rng.choice(['none', 'none', 'full', 'full', 'partial', 'bad'])
            if how == 'full':
                it['listed'] = list(members[tv])
            elif how == 'partial':
                it['listed'] = [rng.choice(members[tv])]
            elif how == 'bad':
                other = [x for x in singles if x not in members[tv]]
                it['listed'] = [members[tv][0], rng.choice(other)] if other else None
        return it
    lines = {}
    for d in ('ab', 'ba'):
        lines[d] = [mb(f'boost {d}'),
                    {'el': 'fiber', 'uid': f'fiber {d}', 'length': rng.choice([40, 50, 60, 80, 100]), 'loss_coef': 0.2,
                     'type_variety': 'SSMF'},
                    mb(f'pre {d}')]
    return {'kind': 'mtopo', 'edfa': entries, 'bands': bands,
            'roadm': {'A': {'booster_variety_list': rlist(), 'preamp_variety_list': rlist()},
                      'B': {'booster_variety_list': rlist(), 'preamp_variety_list': rlist()}},
            'lines': lines, 'ext': rng.choice([2.5, 2.5, 0])}


def gen_presel(rng):
    entries = good_lib(rng, n=rng.choice([1, 2]), multiband=True)
    mnames = [e['type_variety'] for e in entries if e['type_def'] == 'multi_band']
    restr = rng.sample(mnames, rng.randrange(1, len(mnames) + 1))
    ext = rng.choice([2.5, 0, 1])
    targets = []
    for b in (rng.choice(BANDS[:2] + [(191_300_000_000_000, 195_100_000_000_000)]),
              rng.choice(LBANDS[1:] + [(187_300_000_000_000, 190_000_000_000_000)])):
        g, p = gen_targets(rng, entries, ext, False)
        targets.append({'band': list(b), 'gain': g, 'power': p})
    if rng.random() < 0.5:
        targets.reverse()
    return {'kind': 'presel', 'edfa': entries, 'restrictions': restr, 'ext': ext, 'targets': targets}


# ---------------------------------------------------------------------------------------------------------------------
# run
# ---------------------------------------------------------------------------------------------------------------------

def run(case, drv):
    import warnings
    with warnings.catch_warnings(), np.errstate(all='ignore'):
        warnings.simplefilter('ignore')
        return {'select': run_select, 'restr': run_restr, 'topo': run_topo, 'presel': run_presel,
                'mtopo': run_mtopo}[case['kind']](case, drv)


def nf_close(a, b):
    a, b = float(a), float(b)
    if math.isinf(a) or math.isinf(b):
        return a == b
    return abs(a - b) <= 1e-9 * max(1.0, abs(a))


def nf_tie(macc, chosen, impl_nf=None):
    """class-D guard of the NF ranking: varieties of the acceptable candidates whose NF is within 1e-9 dB of the chosen
    one's. Returns (tied_names, exact): exact = the tie is harmless for an exact comparison, i.e. there is no tie, or
    the tied candidates carry bit-identical NF on BOTH sides (same formula on same numbers: both sides then keep the
    first). A tie between different formulas (e.g. a dual stage with a noiseless preamp vs its own booster model
    below minimum gain: mathematically equal NF) may resolve differently in numpy and libm by one ulp."""
    best = next((b2f(x['nf']) for x in macc if x['variety'] == chosen), None)
    if best is None:
        return [], True
    tied = [x for x in macc if nf_close(b2f(x['nf']), best)]
    names = [x['variety'] for x in tied]
    if len(tied) <= 1:
        return names, True
    same_model = len({x['nf'] for x in tied}) == 1
    same_impl = impl_nf is not None and len({f2b(impl_nf[n]) for n in names if n in impl_nf}) == 1
    return names, (same_model and same_impl)


def own_attrs(a, gain, power, ext, eq=None):
    """power / gain_min attributes and NF of one model for the targets (own arithmetic)"""
    p_max, gfm = limits_of(a, eq)
    pw = min(power - gain + gfm + ext, p_max) - power
    gm = (gain - a.gain_min) if a.raman else (gain + 3 - a.gain_min)
    nf, _ = amplib.mon_nf(a, gain)
    return pw, gm, nf


def pin_dependent(a):
    """OpenROADM NF masks depend on the input power; edfa_nf ranks them at the code's own convention (0 dBm, 88
    channels, 50 GHz), which the statement does not fix -> such models are ranked under correspondence only"""
    tds = [a.type_def] if a.type_def != 'dual_stage' else [a.preamp_type_def, a.booster_type_def]
    return any(t in ('openroadm', 'openroadm_preamp') for t in tds)


def monitor_rejected(res, eq, offered, raman_allowed, gain, power, ext, where=''):
    """a refused selection: the statement demands a choice whenever a permitted model can deliver gain and power"""
    usable = [n for n in offered if not eq['Edfa'][n].raman or raman_allowed]
    attrs = {n: own_attrs(eq['Edfa'][n], gain, power, ext, eq) for n in usable}
    cap = [n for n, v in attrs.items() if v[0] > 1e-9 and v[1] > 1e-9]
    if cap:
        res.fail(f'capable: {where}selection rejected although {cap} can deliver gain {gain} and power {power}')
    res.stats['sel_rejected_monitored'] += 1


def monitor_choice(res, eq, permitted, raman_allowed, gain, power, ext, chosen, reduction, where=''):
    """the C10 statement for one selection; permitted = names the selection may draw from"""
    if chosen not in permitted:
        res.fail(f'permitted set: {where}chosen model {chosen} is not in the permitted set {sorted(permitted)}')
        return
    a = eq['Edfa'][chosen]
    if a.raman and not raman_allowed:
        res.fail(f'raman: {where}Raman model {chosen} chosen although Raman is not allowed here')
    usable = [n for n in permitted if not eq['Edfa'][n].raman or raman_allowed]
    attrs = {n: own_attrs(eq['Edfa'][n], gain, power, ext, eq) for n in usable}
    capable = [n for n in usable if attrs[n][0] > 1e-9 and attrs[n][1] > 1e-9]
    if capable and chosen in attrs:
        pw, gm, nf = attrs[chosen]
        if pw < -1e-9 or gm < -1e-9:
            res.fail(f'capable: {where}{capable} can deliver gain {gain} / power {power} but the chosen {chosen} cannot '
                     f'(power margin {pw}, gain margin {gm})')
        else:
            fixed = [n for n in capable if not pin_dependent(eq['Edfa'][n])]
            if fixed and not pin_dependent(a):
                best = min(attrs[n][2] for n in fixed)
                if nf > best + 1e-7:
                    res.fail(f'quietest: {where}chosen {chosen} has NF {nf}, capable model with NF {best} exists')
            else:
                res.stats['sel_quietest_by_correspondence_only_openroadm'] += 1
        if reduction is not None and abs(reduction) > 1e-9 and pw >= -1e-9:
            res.fail(f'capable: {where}power reduced by {reduction} although the chosen model can deliver the power')
    res.stats['sel_some_capable' if capable else 'sel_none_capable'] += 1


def run_select(case, drv):
    from gnpy.core.network import select_edfa, filter_edfa_list_based_on_targets
    from gnpy.core.exceptions import ConfigurationError
    res = Result()
    eq = load_entries(case['edfa'])
    restr = case['restrictions']
    edfa_eqpt = {n: a for n, a in eq['Edfa'].items() if a.type_def != 'multi_band'}
    if restr:
        edfa_eqpt = {n: a for n, a in edfa_eqpt.items() if n in restr}
    gain, power, ext, ok = case['gain'], case['power'], case['ext'], case['raman_allowed']
    try:
        variety, red = select_edfa(ok, gain, power, edfa_eqpt, 'n', ext, verbose=False)
        acc = filter_edfa_list_based_on_targets('n', edfa_eqpt, power, gain, 0, ext, ok, False)
        impl = None
    except ConfigurationError as e:
        impl = err_kind(e)
    m = drv.ask('c10.select', lib=lib_json(eq), restrictions=restr, gain=f2b(gain), power=f2b(power), ext=f2b(ext),
                raman_allowed=ok)
    res.cmp_exact('select_edfa.rejects', impl, m.get('error'))
    if impl is None and 'error' not in m:
        macc = m['acceptable']
        res.cmp_exact('filter_edfa_list.varieties', [x.variety for x in acc], [x['variety'] for x in macc])
        if len(acc) == len(macc):
            res.cmp_exact('filter_edfa_list.power', [f2b(x.power) for x in acc], [x['power'] for x in macc])
            res.cmp_exact('filter_edfa_list.gain_min', [f2b(x.gain_min) for x in acc], [x['gain_min'] for x in macc])
            res.compared += len(acc)
            for x, y in zip(acc, macc):
                if not nf_close(x.nf, b2f(y['nf'])):
                    res.mismatch('edfa_nf', float(x.nf), b2f(y['nf']), variety=x.variety)
        tied, exact = nf_tie(macc, m['variety'], {x.variety: float(x.nf) for x in acc})
        if exact:
            res.cmp_exact('select_edfa.variety', variety, m['variety'])
            res.cmp_float('select_edfa.power_reduction', red, b2f(m['reduction']), abs_=1e-12)
        else:
            res.ill += 1
            res.stats['sel_nf_tie_skipped'] += 1
            res.cmp_exact('select_edfa.variety_among_nf_ties', variety in tied, True, chosen=variety, tied=tied)
        permitted = set(edfa_eqpt)
        monitor_choice(res, eq, permitted, ok, gain, power, ext, variety, red)
        res.stats.update({'sel_reduced': int(red < 0), f'sel_acceptable_{min(len(acc), 4)}': 1,
                          'sel_chosen_raman': int(bool(eq['Edfa'][variety].raman))})
    else:
        monitor_rejected(res, eq, list(edfa_eqpt), ok, gain, power, ext)
        res.stats['sel_rejected'] += 1
    res.nontrivial = len(edfa_eqpt) >= 2
    res.stats.update({'select_cases': 1, f'sel_libsize_{min(len(edfa_eqpt), 6)}': 1, 'sel_restricted': int(bool(restr))})
    return res


def _restr_topology(case):
    """tiny line around the amplifier under test, built through network_from_json"""
    amp = {'uid': 'amp', 'type': 'Multiband_amplifier' if case['multi'] else 'Edfa',
           'type_variety': case['type_variety'], 'metadata': nets.loc()}
    if case['variety_list'] is not None:
        amp['variety_list'] = list(case['variety_list'])
    if case['multi']:
        amp['amplifiers'] = []
    ra = nets.roadm('R1', {'restrictions': {'booster_variety_list': list(case['booster_list']),
                                           'preamp_variety_list': list(case['preamp_list'])}})
    rb = nets.roadm('R2', {'restrictions': {'booster_variety_list': list(case['booster_list']),
                                           'preamp_variety_list': list(case['preamp_list'])}})
    pos = case['pos']
    if pos == 'booster':
        seq = [ra, amp, nets.fiber('F2'), rb]
    elif pos == 'preamp':
        seq = [ra, nets.fiber('F1'), amp, rb]
    elif pos == 'inline':
        seq = [ra, nets.fiber('F1'), amp, nets.fiber('F2'), rb]
    else:
        seq = [ra, amp, rb]
    els = [nets.trx('T1'), nets.trx('T2')] + seq
    cxs = [nets.cx('T1', 'R1')] + [nets.cx(a['uid'], b['uid']) for a, b in zip(seq, seq[1:])] + [nets.cx('R2', 'T2')]
    return {'elements': els, 'connections': cxs}


def run_restr(case, drv):
    from gnpy.core.network import get_node_restrictions
    from gnpy.tools.json_io import network_from_json
    res = Result()
    eq = load_entries(case['edfa'])
    if case['type_variety'] and case['multi'] != (eq['Edfa'][case['type_variety']].type_def == 'multi_band'):
        case = dict(case, type_variety='')
    net = network_from_json(_restr_topology(case), eq)
    by = nets.by_uid(net)
    node = by['amp']
    prev_node = next(net.predecessors(node))
    next_node = next(net.successors(node))
    names = ['LBAND', 'CBAND'] if case['multi'] else ['B']
    design_bands = {n: {'f_min': float(b[0]), 'f_max': float(b[1])} for n, b in zip(names, case['bands'])}
    impl = list(get_node_restrictions(node, prev_node, next_node, eq, design_bands))
    prev_is_roadm = type(prev_node).__name__ == 'Roadm'
    next_is_roadm = type(next_node).__name__ == 'Roadm'
    ctx = {'type_variety': case['type_variety'], 'variety_list': case['variety_list'],
           'prev_booster': list(case['booster_list']) if prev_is_roadm else None,
           'next_preamp': list(case['preamp_list']) if next_is_roadm else None}
    model = drv.ask('c10.restrictions', lib=lib_json(eq), ctx=ctx, bands=case['bands'], multi=case['multi'])
    res.cmp_exact('get_node_restrictions', impl, model)
    # ---- monitor: the permitted set as the statement defines it
    if case['type_variety']:
        want = [case['type_variety']]
        src = 'user'
    else:
        if case['variety_list']:
            r, src = case['variety_list'], 'own_list'
        elif prev_is_roadm and case['booster_list']:
            r, src = case['booster_list'], 'roadm_booster'
        elif next_is_roadm and case['preamp_list']:
            r, src = case['preamp_list'], 'roadm_preamp'
        else:
            r, src = None, 'allowed_for_design'
        want = []
        for n, a in eq['Edfa'].items():
            if (a.type_def == 'multi_band') != case['multi']:
                continue
            if not (n in r if r is not None else a.allowed_for_design):
                continue
            if case['multi']:
                if all(any(eq['Edfa'][t].f_min <= b[0] and eq['Edfa'][t].f_max >= b[1] for b in case['bands'])
                       for t in a.multi_band):
                    want.append(n)
            else:
                b = case['bands'][0]
                if a.f_min <= b[0] and a.f_max >= b[1]:
                    want.append(n)
    if sorted(impl) != sorted(want):
        res.fail(f'permitted set: get_node_restrictions gives {sorted(impl)}, the statement ({src}, band cover) gives '
                 f'{sorted(want)}')
    res.nontrivial = len(eq['Edfa']) >= 2
    res.stats.update({'restr_cases': 1, f'restr_src_{src}': 1, f'restr_pos_{case["pos"]}': 1,
                      'restr_multi': int(case['multi']), 'restr_empty_result': int(not impl)})
    return res


def topo_json(case):
    els = [nets.trx('trx A'), nets.trx('trx B')]
    for r in ('A', 'B'):
        p = case['roadm'][r]
        els.append(nets.roadm(f'roadm {r}', {'restrictions': copy.deepcopy(p)} if p is not None else None))
    cxs = [nets.cx('trx A', 'roadm A'), nets.cx('roadm A', 'trx A'), nets.cx('trx B', 'roadm B'),
           nets.cx('roadm B', 'trx B')]
    for d, (s, t) in (('ab', ('roadm A', 'roadm B')), ('ba', ('roadm B', 'roadm A'))):
        line = []
        for it in case['lines'][d]:
            if it['el'] == 'fiber':
                lc = it['loss_coef']
                if it.get('loss_table'):
                    lc = {'value': list(it['loss_table']['value']), 'frequency': list(it['loss_table']['frequency'])}
                line.append(nets.fiber(it['uid'], it['length'], it['type_variety'], loss_coef=lc))
            elif it['el'] == 'fused':
                line.append(nets.fused(it['uid']))
            else:
                e = {'uid': it['uid'], 'type': 'Edfa', 'type_variety': it['type_variety'], 'metadata': nets.loc()}
                if it['variety_list'] is not None:
                    e['variety_list'] = list(it['variety_list'])
                line.append(e)
        nets.chain(els, cxs, s, t, line)
    return {'elements': els, 'connections': cxs}


def run_topo(case, drv):
    import gnpy.core.network as gnet
    from gnpy.core.exceptions import ConfigurationError, NetworkTopologyError
    from gnpy.tools.json_io import network_from_json
    from gnpy.tools.worker_utils import designed_network
    res = Result()
    eq = load_entries(case['edfa'], span=case['span'], roadm={'restrictions': copy.deepcopy(case['roadm_default'])},
                      si=case['si'])
    net = network_from_json(topo_json(case), eq)
    sel_calls, restr_calls = [], []
    orig_sel, orig_restr = gnet.select_edfa, gnet.get_node_restrictions

    def w_sel(raman_allowed, gain_target, power_target, edfa_eqpt, uid, target_extended_gain, verbose=True):
        rec = {'raman_allowed': bool(raman_allowed), 'gain': float(gain_target), 'power': float(power_target),
               'names': list(edfa_eqpt), 'uid': uid, 'ext': float(target_extended_gain)}
        sel_calls.append(rec)
        try:
            out = orig_sel(raman_allowed, gain_target, power_target, edfa_eqpt, uid, target_extended_gain, verbose)
        except ConfigurationError:
            rec['out'] = None
            raise
        rec['out'] = (out[0], float(out[1]))
        return out

    def w_restr(node, prev_node, next_node, equipment, _design_bands):
        out = orig_restr(node, prev_node, next_node, equipment, _design_bands)
        restr_calls.append({'uid': node.uid, 'tv': node.params.type_variety, 'vl': node.variety_list,
                            'prev': type(prev_node).__name__, 'next': type(next_node).__name__,
                            'booster': (list(prev_node.restrictions['booster_variety_list'])
                                        if type(prev_node).__name__ == 'Roadm' else None),
                            'preamp': (list(next_node.restrictions['preamp_variety_list'])
                                       if type(next_node).__name__ == 'Roadm' else None),
                            'bands': [[int(b['f_min']), int(b['f_max'])] for b in _design_bands.values()],
                            'loss': ([float(x) for x in np.atleast_1d(prev_node.params.loss_coef)]
                                     if type(prev_node).__name__ == 'Fiber' else None),
                            'out': list(out)})
        return out
    gnet.select_edfa, gnet.get_node_restrictions = w_sel, w_restr
    err = None
    try:
        designed_network(eq, net, source='trx A', destination='trx B')
    except (ConfigurationError, NetworkTopologyError) as e:
        err = err_kind(e)
    finally:
        gnet.select_edfa, gnet.get_node_restrictions = orig_sel, orig_restr
    lib = lib_json(eq)
    limit = case['span']['max_fiber_lineic_loss_for_raman']
    rmap = {r['uid']: r for r in restr_calls}
    explicit = {it['uid']: it for d in ('ab', 'ba') for it in case['lines'][d] if it['el'] == 'edfa'}
    # ---------------- correspondence on every observed call
    for r in restr_calls:
        ctx = {'type_variety': r['tv'] or '', 'variety_list': r['vl'], 'prev_booster': r['booster'],
               'next_preamp': r['preamp']}
        model = drv.ask('c10.restrictions', lib=lib, ctx=ctx, bands=r['bands'], multi=False)
        res.cmp_exact('get_node_restrictions', r['out'], model, uid=r['uid'])
    auto = 0
    for s in sel_calls:
        r = rmap.get(s['uid'])
        m = drv.ask('c10.select', lib=lib, restrictions=s['names'], gain=f2b(s['gain']), power=f2b(s['power']),
                    ext=f2b(s['ext']), raman_allowed=s['raman_allowed'])
        if r is not None:
            # set_one_amplifier hands select_edfa exactly the permitted single-band models
            res.cmp_exact('set_one_amplifier.edfa_eqpt', s['names'],
                          [n for n in eq['Edfa'] if n in r['out'] and eq['Edfa'][n].type_def != 'multi_band'],
                          uid=s['uid'])
            mr = drv.ask('c10.raman', prev_is_fiber=r['loss'] is not None, loss_coef=fl(r['loss'] or []), limit=f2b(limit))
            res.cmp_exact('set_one_amplifier.raman_allowed', s['raman_allowed'], mr, uid=s['uid'])
        if s['out'] is None:
            monitor_rejected(res, eq, s['names'], s['raman_allowed'], s['gain'], s['power'], s['ext'], where=f'{s["uid"]}: ')
        if s['out'] is None or 'error' in m:
            res.cmp_exact('select_edfa.rejects', s['out'] is None, 'error' in m, uid=s['uid'])
            continue
        impl_nf = {}
        for x in m['acceptable']:
            try:
                impl_nf[x['variety']] = float(gnet.edfa_nf(s['gain'], eq['Edfa'][x['variety']]))
            except Exception:  # noqa: BLE001
                res.stats['edfa_nf_probe_failed'] += 1
        tied, exact = nf_tie(m['acceptable'], m['variety'], impl_nf)
        if exact:
            res.cmp_exact('select_edfa.variety', s['out'][0], m['variety'], uid=s['uid'])
            res.cmp_float('select_edfa.power_reduction', s['out'][1], b2f(m['reduction']), abs_=1e-12, uid=s['uid'])
        else:
            res.ill += 1
            res.cmp_exact('select_edfa.variety_among_nf_ties', s['out'][0] in tied, True, chosen=s['out'][0], tied=tied,
                          uid=s['uid'])
    # ---------------- monitor on the designed network (after an aborted design: on every amplifier designed before)
    if True:
        by = nets.by_uid(net)
        for uid, node in by.items():
            if type(node).__name__ != 'Edfa':
                continue
            if err is not None and not any(x['uid'] == uid and x['out'] for x in sel_calls) and not (
                    explicit.get(uid) and explicit[uid]['type_variety']):
                res.stats['topo_amplifier_not_reached_before_abort'] += 1
                continue
            spec = explicit.get(uid)
            if spec is not None and spec['type_variety']:
                res.stats['topo_user_fixed'] += 1
                if node.params.type_variety != spec['type_variety']:
                    res.fail(f'permitted set: {uid}: user type_variety {spec["type_variety"]} replaced by '
                             f'{node.params.type_variety}')
                continue
            auto += 1
            chosen = node.params.type_variety
            prev_node = next(net.predecessors(node))
            next_node = next(net.successors(node))
            vl = spec['variety_list'] if spec is not None else None

            def rl(rn, key):
                p = case['roadm'][rn.uid[-1]]
                return (p if p is not None else case['roadm_default'])[key]
            if vl:
                r_, src = vl, 'own_list'
            elif type(prev_node).__name__ == 'Roadm' and rl(prev_node, 'booster_variety_list'):
                r_, src = rl(prev_node, 'booster_variety_list'), 'roadm_booster'
            elif type(next_node).__name__ == 'Roadm' and rl(next_node, 'preamp_variety_list'):
                r_, src = rl(next_node, 'preamp_variety_list'), 'roadm_preamp'
            else:
                r_, src = None, 'allowed_for_design'
            rec = rmap.get(uid)
            band = rec['bands'][0] if rec else None
            permitted = set()
            for n, a in eq['Edfa'].items():
                if a.type_def == 'multi_band':
                    continue
                if not (n in r_ if r_ is not None else a.allowed_for_design):
                    continue
                if band is not None and not (a.f_min <= band[0] and a.f_max >= band[1]):
                    continue
                permitted.add(n)
            # Raman only after a fibre whose EVERY loss entry (dB/m) is below the limit (dB/km -> dB/m)
            table = np.atleast_1d(np.asarray(prev_node.params.loss_coef, dtype=float)) if type(prev_node).__name__ == 'Fiber' \
                else np.array([])
            raman_ok = type(prev_node).__name__ == 'Fiber' and all(float(x) < limit * 1e-3 for x in table)
            if len(table) > 1:
                below = sum(float(x) < limit * 1e-3 for x in table)
                res.stats['topo_loss_table_' + ('all_below' if below == len(table) else 'none_below' if below == 0
                                                else 'straddling')] += 1
            s = next((x for x in sel_calls if x['uid'] == uid), None)
            if s is None or not s['out']:
                res.stats['topo_choice_without_observed_selection'] += 1     # spy coupling: no targets to judge with
                if chosen not in permitted:
                    res.fail(f'permitted set: {uid} ({src}): chosen model {chosen} is not in the permitted set {sorted(permitted)}')
                continue
            monitor_choice(res, eq, permitted, raman_ok, s['gain'], s['power'], s['ext'], chosen, s['out'][1] if s['out'] else None,
                           where=f'{uid} ({src}): ')
            res.stats[f'topo_src_{src}'] += 1
            res.stats['topo_raman_allowed'] += int(raman_ok)
            res.stats['topo_chosen_raman'] += int(bool(eq['Edfa'][chosen].raman))
    res.nontrivial = auto > 0
    res.stats.update({'topo_cases': 1, 'topo_auto_selected': auto, f'topo_outcome_{err or "designed"}': 1,
                      'topo_select_calls': len(sel_calls)})
    return res



def mtopo_json(case):
    dbands = [{'f_min': float(b[0]), 'f_max': float(b[1]), 'spacing': 50e9} for b in case['bands']]
    els = [nets.trx('trx A'), nets.trx('trx B')]
    for r in ('A', 'B'):
        els.append(nets.roadm(f'roadm {r}', {'restrictions': copy.deepcopy(case['roadm'][r]),
                                             'design_bands': copy.deepcopy(dbands)}))
    cxs = [nets.cx('trx A', 'roadm A'), nets.cx('roadm A', 'trx A'), nets.cx('trx B', 'roadm B'),
           nets.cx('roadm B', 'trx B')]
    for d, (s_, t_) in (('ab', ('roadm A', 'roadm B')), ('ba', ('roadm B', 'roadm A'))):
        line = []
        for it in case['lines'][d]:
            if it['el'] == 'fiber':
                line.append(nets.fiber(it['uid'], it['length'], it['type_variety'], loss_coef=it['loss_coef']))
            else:
                e = {'uid': it['uid'], 'type': 'Multiband_amplifier', 'type_variety': it['type_variety'],
                     'metadata': nets.loc()}
                if it['variety_list'] is not None:
                    e['variety_list'] = list(it['variety_list'])
                if it.get('listed'):
                    e['amplifiers'] = [{'type_variety': t, 'operational': {'tilt_target': 0}} for t in it['listed']]
                line.append(e)
        nets.chain(els, cxs, s_, t_, line)
    return {'elements': els, 'connections': cxs}


def run_mtopo(case, drv):
    import gnpy.core.network as gnet
    from gnpy.core.exceptions import ConfigurationError, NetworkTopologyError
    from gnpy.tools.json_io import network_from_json
    from gnpy.tools.worker_utils import designed_network
    res = Result()
    errmsg = ''
    eq = load_entries(case['edfa'], span={'target_extended_gain': case['ext']})
    lib = lib_json(eq)
    typed = [it for d in ('ab', 'ba') for it in case['lines'][d] if it['el'] == 'mb' and it['type_variety']]
    model_load_bad = [it['uid'] for it in typed if it.get('listed') and 'load_error' in drv.ask(
        'c10.typeddesign', lib=lib, type_variety=it['type_variety'], listed=it['listed'], amps=[], ext=f2b(0.0),
        raman_allowed=False)]
    try:
        net = network_from_json(mtopo_json(case), eq)
        load_err = None
    except (ConfigurationError, NetworkTopologyError) as e:
        load_err = err_kind(e)
    res.cmp_exact('network_from_json.typed_multiband_accepted', load_err is None, not model_load_bad, bad=model_load_bad)
    if load_err is not None:
        # monitor: a typed node whose listed amplifiers are not all members of its type must not be accepted silently
        res.stats[f'mtopo_load_{load_err}'] += 1
        res.nontrivial = True
        return res
    for it in typed:
        if it.get('listed') and not set(it['listed']) <= set(eq['Edfa'][it['type_variety']].multi_band):
            res.fail(f'permitted set: {it["uid"]} of type {it["type_variety"]} was loaded with amplifiers {it["listed"]} that '
                     'are not members of that type')
    own0 = {n.uid: [a.params.type_variety for a in n.amplifiers.values()] for n in net.nodes()
            if type(n).__name__ == 'Multiband_amplifier'}
    restr_calls, pre_calls, sel_calls, targets = [], [], [], []
    o_restr, o_pre, o_sel, o_cmp = (gnet.get_node_restrictions, gnet.preselect_multiband_amps, gnet.select_edfa,
                                    gnet.compute_gain_power_and_tilt_target)

    cmp_calls = []

    def w_cmp(*a, **k):
        out = o_cmp(*a, **k)
        targets.append((float(out[0]), float(out[1])))
        cmp_calls.append((a[0].uid, float(out[0]), float(out[1])))
        return out

    def w_restr(node, prev_node, next_node, equipment, _design_bands):
        out = o_restr(node, prev_node, next_node, equipment, _design_bands)
        restr_calls.append({'uid': node.uid, 'tv': node.params.type_variety, 'vl': node.variety_list,
                            'booster': (list(prev_node.restrictions['booster_variety_list'])
                                        if type(prev_node).__name__ == 'Roadm' else None),
                            'preamp': (list(next_node.restrictions['preamp_variety_list'])
                                       if type(next_node).__name__ == 'Roadm' else None),
                            'bands': [[int(b['f_min']), int(b['f_max'])] for b in _design_bands.values()],
                            'out': list(out)})
        return out

    def w_pre(uid, _amplifiers, prev_node, next_node, power_mode, prev_voa, prev_dp, pref_total_db, network, equipment,
              restrictions, _design_bands, deviation_db, tilt_target):
        rec = {'uid': uid, 'restrictions': list(restrictions),
               'bands': [[int(_design_bands[b]['f_min']), int(_design_bands[b]['f_max'])] for b in _amplifiers]}
        k0 = len(targets)
        pre_calls.append(rec)
        try:
            out = o_pre(uid, _amplifiers, prev_node, next_node, power_mode, prev_voa, prev_dp, pref_total_db, network,
                        equipment, restrictions, _design_bands, deviation_db=deviation_db, tilt_target=tilt_target)
        except ConfigurationError:
            rec['targets'] = targets[k0:]
            rec['out'] = 'ConfigurationError'
            raise
        rec['targets'] = targets[k0:]
        rec['out'] = list(out)
        return out

    def w_sel(raman_allowed, gain_target, power_target, edfa_eqpt, uid, target_extended_gain, verbose=True):
        rec = {'raman_allowed': bool(raman_allowed), 'gain': float(gain_target), 'power': float(power_target),
               'names': list(edfa_eqpt), 'uid': uid, 'ext': float(target_extended_gain), 'out': None}
        sel_calls.append(rec)
        out = o_sel(raman_allowed, gain_target, power_target, edfa_eqpt, uid, target_extended_gain, verbose)
        rec['out'] = (out[0], float(out[1]))
        return out
    gnet.get_node_restrictions, gnet.preselect_multiband_amps, gnet.select_edfa = w_restr, w_pre, w_sel
    gnet.compute_gain_power_and_tilt_target = w_cmp
    err = None
    try:
        designed_network(eq, net, source='trx A', destination='trx B')
    except (ConfigurationError, NetworkTopologyError) as e:
        err = err_kind(e)
        errmsg = str(e)
    finally:
        gnet.get_node_restrictions, gnet.preselect_multiband_amps, gnet.select_edfa = o_restr, o_pre, o_sel
        gnet.compute_gain_power_and_tilt_target = o_cmp
    # ---------------- correspondence
    for r in restr_calls:
        ctx = {'type_variety': r['tv'] or '', 'variety_list': r['vl'], 'prev_booster': r['booster'],
               'next_preamp': r['preamp']}
        model = drv.ask('c10.restrictions', lib=lib, ctx=ctx, bands=r['bands'], multi=True)
        res.cmp_exact('get_node_restrictions.multiband', r['out'], model, uid=r['uid'])
    for pc in pre_calls:
        if len(pc.get('targets', [])) < 1:
            continue
        tg = [{'band': b, 'gain': f2b(t[0]), 'power': f2b(t[1])} for b, t in zip(pc['bands'], pc['targets'])]
        m = drv.ask('c10.preselect', lib=lib, restrictions=pc['restrictions'], ext=f2b(case['ext']), targets=tg)
        model = list(m['ok']) if 'ok' in m else m['error']
        if isinstance(model, list) or len(pc['targets']) == len(pc['bands']) or pc['out'] != 'ConfigurationError':
            res.cmp_exact('preselect_multiband_amps', pc['out'], model, uid=pc['uid'])
    # ---------------- correspondence: the whole auto-design of each Multiband_amplifier node (permitted entries ->
    # preselection -> per-band picks -> node type) against Gnpy.Select.multibandDesign
    rmap = {r['uid']: r for r in restr_calls}
    specs = {it['uid']: it for d in ('ab', 'ba') for it in case['lines'][d] if it['el'] == 'mb'}
    by0 = nets.by_uid(net)
    for pc in pre_calls:
        uid = pc['uid']
        r = rmap.get(uid)
        node = by0.get(uid)
        if r is None or node is None or 'targets' not in pc:
            continue
        sels = [x for x in sel_calls if x['uid'] == uid]
        nb = len(pc['bands'])
        tgs = list(pc['targets']) + [(0.0, 0.0)] * (nb - len(pc['targets']))
        ctx = {'type_variety': r['tv'] or '', 'variety_list': r['vl'], 'prev_booster': r['booster'],
               'next_preamp': r['preamp']}
        m = drv.ask('c10.multidesign', lib=lib, ctx=ctx, ext=f2b(case['ext']),
                    raman_allowed=bool(sels[0]['raman_allowed']) if sels else False,
                    targets=[{'band': b, 'gain': f2b(t[0]), 'power': f2b(t[1])} for b, t in zip(pc['bands'], tgs)])
        tv = node.params.type_variety
        picks = [a.params.type_variety for a in node.amplifiers.values()]
        exact = True
        for i, bd in enumerate(m.get('bands', [])):
            if bd['pick'] is None or i >= len(sels) or sels[i]['out'] is None:
                continue
            impl_nf = {}
            for x in bd['acceptable']:
                try:
                    impl_nf[x['variety']] = float(gnet.edfa_nf(sels[i]['gain'], eq['Edfa'][x['variety']]))
                except Exception:  # noqa: BLE001
                    res.stats['edfa_nf_probe_failed'] += 1
            tied, ex = nf_tie(bd['acceptable'], bd['pick'], impl_nf)
            if not ex:
                exact = False
                res.cmp_exact('multiband.pick_among_nf_ties', sels[i]['out'][0] in tied, True, chosen=sels[i]['out'][0],
                              tied=tied, uid=uid)
        if not exact:
            res.ill += 1
            continue
        if not tv:
            res.cmp_exact('multiband_design.outcome', 'ConfigurationError', m.get('error', 'designed'), uid=uid)
        elif 'error' in m:
            res.cmp_exact('multiband_design.outcome', 'designed', m['error'], uid=uid)
        else:
            res.cmp_exact('multiband_design.picks', picks, m['picks'], uid=uid)
            if len(m['candidates']) == 1:
                res.cmp_exact('multiband_design.type_variety', tv, m['candidates'][0], uid=uid)
            else:
                res.cmp_exact('multiband_design.type_variety_among_candidates', tv in m['candidates'], True, uid=uid)
            res.stats['mtopo_nodes_modelled'] += 1
    # ---------------- correspondence: user-typed Multiband_amplifier nodes against Gnpy.Select.typedDesign
    from gnpy.core.parameters import find_band_name, FrequencyBand
    last_uid = cmp_calls[-1][0] if cmp_calls else None
    ambiguous_typed = set()
    for d_, ingress in (('ab', 'roadm A'), ('ba', 'roadm B')):
        first_uid = case['lines'][d_][0]['uid']
        dbs = by0[ingress].per_degree_design_bands.get(first_uid, [])
        dmap = {find_band_name(FrequencyBand(f_min=b['f_min'], f_max=b['f_max'])): [int(b['f_min']), int(b['f_max'])]
                for b in dbs}
        for it in case['lines'][d_]:
            if it['el'] != 'mb' or not it['type_variety']:
                continue
            uid = it['uid']
            node = by0[uid]
            calls = [c_ for c_ in cmp_calls if c_[0] == uid]
            names = list(node.amplifiers)
            if len(calls) != len(names) or not all(n in dmap for n in names):
                res.stats['mtopo_typed_node_not_completely_processed'] += 1
                continue       # not (completely) processed before the design stopped
            if err is not None and (err != 'ConfigurationError' or uid != last_uid):
                if not node.params.type_variety:
                    continue
            sels = [x for x in sel_calls if x['uid'] == uid]
            own = own0[uid]
            m = drv.ask('c10.typeddesign', lib=lib, type_variety=it['type_variety'], listed=[], ext=f2b(case['ext']),
                        raman_allowed=bool(sels[0]['raman_allowed']) if sels else False,
                        amps=[{'band': dmap[n], 'gain': f2b(c_[1]), 'power': f2b(c_[2]), 'own': o_}
                              for n, c_, o_ in zip(names, calls, own)])
            exact = True
            k = 0
            for bd in m['bands']:
                if bd['own']:
                    continue
                if bd['pick'] is not None and k < len(sels) and sels[k]['out'] is not None:
                    impl_nf = {}
                    for x in bd['acceptable']:
                        try:
                            impl_nf[x['variety']] = float(gnet.edfa_nf(sels[k]['gain'], eq['Edfa'][x['variety']]))
                        except Exception:  # noqa: BLE001
                            res.stats['edfa_nf_probe_failed'] += 1
                    tied, ex = nf_tie(bd['acceptable'], bd['pick'], impl_nf)
                    if not ex:
                        exact = False
                        res.cmp_exact('typed_multiband.pick_among_nf_ties', sels[k]['out'][0] in tied, True,
                                      chosen=sels[k]['out'][0], tied=tied, uid=uid)
                k += 1
            if not exact:
                res.ill += 1
                continue
            failed_here = err == 'ConfigurationError' and uid == last_uid
            picks = [a.params.type_variety for a in node.amplifiers.values()]
            if failed_here:
                res.cmp_exact('typed_multiband_design.outcome', 'ConfigurationError', m.get('error', 'designed'), uid=uid)
            elif 'error' in m:
                res.cmp_exact('typed_multiband_design.outcome', 'designed', m['error'], uid=uid)
            else:
                res.cmp_exact('typed_multiband_design.picks', picks, m['picks'], uid=uid)
                if len(m['candidates']) == 1 or len(m['picks']) == 1:
                    # one pick: functools.reduce returns the single find_type_varieties list itself (library order)
                    res.cmp_exact('typed_multiband_design.type_variety', node.params.type_variety, m['candidates'][0], uid=uid)
                else:
                    ambiguous_typed.add(uid)
                    res.cmp_exact('typed_multiband_design.type_variety_among_candidates',
                                  node.params.type_variety in m['candidates'], True, uid=uid)
                res.stats['mtopo_typed_nodes_modelled'] += 1
                res.stats[f'mtopo_typed_listed_{"none" if not it.get("listed") else len(it["listed"])}'] += 1
    # ---------------- monitor

    def permitted_multi(uid, node):
        it = specs[uid]
        prev_node = next(net.predecessors(node))
        next_node = next(net.successors(node))
        if it['variety_list']:
            r_ = it['variety_list']
        elif type(prev_node).__name__ == 'Roadm' and case['roadm'][prev_node.uid[-1]]['booster_variety_list']:
            r_ = case['roadm'][prev_node.uid[-1]]['booster_variety_list']
        elif type(next_node).__name__ == 'Roadm' and case['roadm'][next_node.uid[-1]]['preamp_variety_list']:
            r_ = case['roadm'][next_node.uid[-1]]['preamp_variety_list']
        else:
            r_ = None
        return {n for n, a in eq['Edfa'].items() if a.type_def == 'multi_band'
                and (n in r_ if r_ is not None else a.allowed_for_design)}
    by = nets.by_uid(net)
    auto = 0
    for s_ in sel_calls:
        node = by.get(s_['uid'])
        if node is None or s_['uid'] not in specs or specs[s_['uid']]['type_variety']:
            continue
        pm = permitted_multi(s_['uid'], node)
        members = {t for m_ in pm for t in eq['Edfa'][m_].multi_band}
        prev_node = next(net.predecessors(node))
        limit_ = eq['Span']['default'].max_fiber_lineic_loss_for_raman
        raman_ok = type(prev_node).__name__ == 'Fiber' and all(
            float(x) < limit_ * 1e-3 for x in np.atleast_1d(np.asarray(prev_node.params.loss_coef, dtype=float)))
        if s_['out'] is None:
            monitor_rejected(res, eq, s_['names'], raman_ok, s_['gain'], s_['power'], s_['ext'], where=f'{s_["uid"]}: ')
        elif s_['out'][0] not in members:
            res.fail(f'permitted set: {s_["uid"]}: per-band choice {s_["out"][0]} belongs to no permitted multiband model '
                     f'{sorted(pm)}')
        else:
            monitor_choice(res, eq, set(s_['names']), raman_ok, s_['gain'], s_['power'], s_['ext'],
                           s_['out'][0], s_['out'][1], where=f'{s_["uid"]}: ')
    MIX = 'multiband-per-band-choices-form-unpermitted-type'
    if True:
        for uid, it in specs.items():
            node = by[uid]
            tv = node.params.type_variety
            if err is not None and (not tv or len([c_ for c_ in cmp_calls if c_[0] == uid]) < len(node.amplifiers)):
                res.stats['mtopo_node_not_reached_before_abort'] += 1
                continue
            if it['type_variety']:
                picks = [a.params.type_variety for a in node.amplifiers.values()]
                mem = list(eq['Edfa'][it['type_variety']].multi_band)
                # the statement for a typed element: every per-band model is a member of the typed entry
                if not set(picks) <= set(mem):
                    res.fail(f'permitted set: {uid} of user type {it["type_variety"]} received per-band models {picks}, its '
                             f'members are {mem}')
                groupers = [n for n, a in eq['Edfa'].items() if a.type_def == 'multi_band'
                            and set(picks) <= set(a.multi_band)]
                if tv != it['type_variety']:
                    if len(groupers) > 1:
                        # partially listed amplifiers: several entries list the picks, find_type_variety(...)[0] takes a
                        # hash-order dependent one (ambiguous outcome, out of scope like twin entries)
                        res.stats['mtopo_typed_renamed_ambiguous'] += 1
                    else:
                        res.fail(f'permitted set: {uid}: user type_variety {it["type_variety"]} replaced by {tv}')
                continue
            auto += 1
            pm = permitted_multi(uid, node)
            if tv not in pm:
                picks = [a.params.type_variety for a in node.amplifiers.values()]
                members = {t for m_ in pm for t in eq['Edfa'][m_].multi_band}
                # known open finding, full precondition: every per-band model is a member of a permitted entry, but no
                # single permitted entry lists them all
                cls = MIX if (set(picks) <= members and not any(set(picks) <= set(eq['Edfa'][m_].multi_band) for m_ in pm)) \
                    else 'unlisted'
                res.fail(f'permitted set: {uid} received multiband type {tv} (per-band models {picks}), permitted are '
                         f'{sorted(pm)}', cls=cls)
                continue
            picks = [a.params.type_variety for a in node.amplifiers.values()]
            if not set(picks) <= set(eq['Edfa'][tv].multi_band):
                res.fail(f'permitted set: {uid}: per-band models {picks} are not the members of its type {tv}')
            dbands = rmap[uid]['bands'] if uid in rmap else case['bands']
            dname = {find_band_name(FrequencyBand(f_min=float(db[0]), f_max=float(db[1]))): db for db in dbands}
            for bname, a in node.amplifiers.items():
                b = a.params.bands[0]
                db = dname.get(bname)
                if db is None:
                    res.stats['mtopo_band_name_not_among_design_bands'] += 1
                    if not any(b['f_min'] <= d_[0] and b['f_max'] >= d_[1] for d_ in dbands):
                        res.fail(f'band cover: {uid}: model {a.params.type_variety} covers none of the design bands {dbands}')
                elif not (b['f_min'] <= db[0] and b['f_max'] >= db[1]):
                    res.fail(f'band cover: {uid}: model {a.params.type_variety} chosen for the design band {db} covers only '
                             f'[{b["f_min"]}, {b["f_max"]}]')
    if err == 'ConfigurationError' and sel_calls:
        # the same open finding, other outcome: every band of the node got its model, but the independent per-band picks
        # are grouped by no multiband entry of the library at all, and the design stops
        uid = sel_calls[-1]['uid']
        node = by.get(uid)
        if node is not None and uid in specs and not specs[uid]['type_variety'] and not node.params.type_variety:
            pm = permitted_multi(uid, node)
            members = {t for m_ in pm for t in eq['Edfa'][m_].multi_band}
            picks = [x['out'][0] for x in sel_calls if x['uid'] == uid and x['out']]
            grouped = any(a.type_def == 'multi_band' and set(picks) <= set(a.multi_band) for a in eq['Edfa'].values())
            if len(picks) == len(node.amplifiers) and picks and not grouped:
                res.fail(f'permitted set: {uid}: design aborted, the per-band models {picks} chosen independently are grouped '
                         f'by no multiband entry (permitted {sorted(pm)})', cls=MIX if set(picks) <= members else 'unlisted')
    res.nontrivial = auto > 0 or bool(pre_calls)
    res.stats.update({'mtopo_cases': 1, 'mtopo_auto_nodes': auto, f'mtopo_outcome_{err or "designed"}': 1,
                      'mtopo_preselect_calls': len(pre_calls), 'mtopo_select_calls': len(sel_calls)})
    return res


def run_presel(case, drv):
    import gnpy.core.network as gnet
    from gnpy.core.exceptions import ConfigurationError
    res = Result()
    eq = load_entries(case['edfa'])
    ext = case['ext']
    eq['Span']['default'].target_extended_gain = ext
    names = [f'b{i}' for i in range(len(case['targets']))]
    amps = {n: object() for n in names}
    design_bands = {n: {'f_min': float(t['band'][0]), 'f_max': float(t['band'][1])} for n, t in zip(names, case['targets'])}
    tg = {id(amps[n]): t for n, t in zip(names, case['targets'])}
    orig = gnet.compute_gain_power_and_tilt_target

    def fake(amp, *a, **k):   # targets are inputs here (C09 owns their computation)
        t = tg[id(amp)]
        return t['gain'], t['power'], 0, 0, 0, 0
    gnet.compute_gain_power_and_tilt_target = fake
    d = {n: 0 for n in names}
    try:
        impl = gnet.preselect_multiband_amps('n', amps, None, None, True, d, d, d, None, eq, list(case['restrictions']),
                                             design_bands, d, d)
        impl = list(impl)
    except ConfigurationError as e:
        impl = err_kind(e)
    finally:
        gnet.compute_gain_power_and_tilt_target = orig
    m = drv.ask('c10.preselect', lib=lib_json(eq), restrictions=case['restrictions'], ext=f2b(ext),
                targets=[{'band': t['band'], 'gain': f2b(t['gain']), 'power': f2b(t['power'])} for t in case['targets']])
    model = list(m['ok']) if 'ok' in m else m['error']
    res.cmp_exact('preselect_multiband_amps', impl, model)
    # monitor: whatever is pre-selected belongs to a multiband model of the permitted set
    if isinstance(impl, list):
        allowed = {t for m_ in case['restrictions'] for t in eq['Edfa'][m_].multi_band}
        extra = sorted(set(impl) - allowed)
        if extra:
            res.fail(f'permitted set: multiband preselection returns {extra}, which belong to no permitted multiband '
                     f'model (permitted: {case["restrictions"]})')
    res.nontrivial = True
    res.stats.update({'presel_cases': 1, 'presel_empty': int(impl == []), 'presel_error': int(isinstance(impl, str))})
    return res


# ---------------------------------------------------------------------------------------------------------------------
# exhaustive small scope (thorough tier): every combination of restriction sources around an amplifier
# ---------------------------------------------------------------------------------------------------------------------

def exhaustive():
    def vg(name, allowed, band=None):
        e = {'type_variety': name, 'type_def': 'variable_gain', 'gain_flatmax': 26, 'gain_min': 15, 'p_max': 23,
             'nf_min': 6, 'nf_max': 10, 'out_voa_auto': False, 'allowed_for_design': allowed}
        if band:
            e['f_min'], e['f_max'] = float(band[0]), float(band[1])
        return e
    entries = [vg('a0', True), vg('a1', False), vg('a2', True, (192_250_000_000_000, 196_150_000_000_000)),
               vg('a3', False, (amplib.L_FMIN, amplib.L_FMAX))]
    for pos in ('booster', 'preamp', 'inline', 'between'):
        for tv in ('', 'a1'):
            for vl in (None, [], ['a1'], ['a2', 'a3']):
                for bl in ([], ['a0', 'a2']):
                    for pl in ([], ['a1'], ['a3']):
                        for band in ((191_300_000_000_000, 196_100_000_000_000), (192_300_000_000_000, 196_000_000_000_000)):
                            yield {'kind': 'restr', 'edfa': entries, 'multi': False, 'pos': pos, 'type_variety': tv,
                                   'variety_list': vl, 'booster_list': bl, 'preamp_list': pl, 'bands': [list(band)]}


# ---------------------------------------------------------------------------------------------------------------------
# shrinking
# ---------------------------------------------------------------------------------------------------------------------

def _refs(case):
    used = set(case.get('restrictions') or [])
    for k in ('variety_list', 'booster_list', 'preamp_list'):
        used |= set(case.get(k) or [])
    if case.get('type_variety'):
        used.add(case['type_variety'])
    for e in case['edfa']:
        used |= {e.get('preamp_variety'), e.get('booster_variety')} | set(e.get('amplifiers') or [])
    if case['kind'] == 'topo':
        for r in [case['roadm_default'], case['roadm']['A'], case['roadm']['B']]:
            if r:
                used |= set(r['booster_variety_list']) | set(r['preamp_variety_list'])
        for d in ('ab', 'ba'):
            for it in case['lines'][d]:
                if it['el'] == 'edfa':
                    used |= set(it['variety_list'] or []) | {it['type_variety']}
    return used


def shrink_candidates(case):
    used = _refs(case)
    for i, e in enumerate(case['edfa']):
        if e['type_variety'] not in used and len(case['edfa']) > 1:
            c = copy.deepcopy(case)
            del c['edfa'][i]
            yield c
    if case['kind'] == 'select' and case['restrictions']:
        for i in range(len(case['restrictions'])):
            if len(case['restrictions']) > 1:
                c = copy.deepcopy(case)
                del c['restrictions'][i]
                yield c
    if case['kind'] == 'topo':
        for d in ('ab', 'ba'):
            line = case['lines'][d]
            for i, it in enumerate(line):
                if it['el'] != 'fiber' or sum(x['el'] == 'fiber' for x in line) > 1:
                    c = copy.deepcopy(case)
                    del c['lines'][d][i]
                    yield c
